//! engine `rcdom` (see lean/H5V/Model/DomDriver.lean for the protocol)
//!   ops<TAB>op;op;…            replay a TreeSink call trace on the real RcDom, through the
//!                              TreeSink trait and the contract monitor (`TracingSink<RcDom>`);
//!                              output: per-op results, canonical dump incl. parent pointers
//!                              (Weak upgrade), template contents, quirks mode, parse errors and
//!                              the call sequence rcdom's `Serialize` impl makes on a recording
//!                              `Serializer`.
//!   parse-html<TAB>opts<TAB>chunk|chunk…   harvest: run the real HTML parser over
//!   parse-xml<TAB>opts<TAB>chunk|chunk…    `TracingSink<RcDom>` and print the op trace
//!                              (`trace@V=<op index>:CONTRACT-VIOLATION <which>|…`).
//!                              opts: `-` or comma list of `s1` (scripting on), `frag=<hex local name>`.
//!   gc-html<TAB>opts<TAB>chunk|chunk…      C18: the same parses with a simulated collection at every
//!   gc-xml<TAB>opts<TAB>chunk|chunk…       chunk boundary and every Script / EncodingIndicator pause:
//!                              the real `trace_handles` supplies the roots, every node not connected
//!                              to one is poisoned, later use of a poisoned handle is reported
//!                              (`gc=<collections>,traced=<handles reported>,poisoned=<nodes>,nodes=<handles>@P=…`);
//!                              extra opt `droplast` = self-test: the last reported handle is ignored;
//!                              `detach=<h>@s<n>` / `detach=<h>@c<n>`: handle h is removed from its parent at the n-th
//!                              Script pause / after the n-th chunk, before the collection there (a script at work).
use crate::proto::*;
use crate::sinkops::*;
use html5ever::tendril::TendrilSink;
use markup5ever::interface::tree_builder::{NodeOrText, QuirksMode, TreeSink};
use markup5ever::serialize::{AttrRef, Serialize, Serializer, TraversalScope};
#[allow(unused_imports)]
use markup5ever::{namespace_url, ns, LocalName, QualName};
use markup5ever_rcdom::{Handle, Node, NodeData, RcDom, SerializableHandle};
use std::collections::{HashMap, VecDeque};
use std::io;
use std::panic::{catch_unwind, AssertUnwindSafe};
use std::rc::Rc;
use tendril::StrTendril;

type TS = TracingSink<RcDom>;
type TH = TracedHandle<Handle>;

fn panic_class(e: &(dyn std::any::Any + Send)) -> String {
    let msg = if let Some(s) = e.downcast_ref::<&str>() {
        s.to_string()
    } else if let Some(s) = e.downcast_ref::<String>() {
        s.clone()
    } else {
        "?".to_string()
    };
    let table: &[(&str, &str)] = &[
        ("previous_parent.is_none()", "append-has-parent"),
        ("not a template element", "not-template"),
        ("not an element", "not-element"),
        ("couldn't find in parent's children", "parent-mismatch"),
        ("append_before_sibling called on node without parent", "abs-no-parent"),
        ("insertion index", "insert-oob"),
        ("already borrowed", "borrow"),
        ("already mutably borrowed", "borrow"),
        ("Option::unwrap()", "unwrap-none"),
        ("Rc::ptr_eq", "reparent-assert"),
        ("Trying to get selectedcontent of non-element", "sc-non-element"),
        ("called with non-element node", "mc-non-element"),
        ("left == right", "debug-assert"),
        ("Can't serialize Document node itself", "ser-document"),
        ("dangling weak", "dangling-weak"),
    ];
    for (pat, class) in table {
        if msg.contains(pat) {
            return class.to_string();
        }
    }
    format!("other({})", msg.replace(['\n', '\t', ';', '@'], " "))
}

fn parse_child(handles: &[TH], s: &str) -> Option<NodeOrText<TH>> {
    if let Some(rest) = s.strip_prefix('n') {
        let k: usize = rest.parse().ok()?;
        Some(NodeOrText::AppendNode(handles.get(k)?.clone()))
    } else if let Some(rest) = s.strip_prefix('t') {
        Some(NodeOrText::AppendText(StrTendril::from_slice(&parse_string(rest)?)))
    } else {
        None
    }
}

fn h<'a>(handles: &'a [TH], s: &str) -> Option<&'a TH> {
    // same as Lean's String.toNat?: decimal digits only
    if s.is_empty() || !s.bytes().all(|b| b.is_ascii_digit()) {
        return None;
    }
    handles.get(s.parse::<usize>().ok()?)
}

fn st(s: &str) -> Option<StrTendril> {
    Some(StrTendril::from_slice(&parse_string(s)?))
}

fn show_handle(id: usize, n: usize) -> String {
    if id < n {
        format!("h{}", id)
    } else {
        "h?".into()
    }
}

/// run one op through the TreeSink trait; None = malformed
fn run_op(sink: &TS, handles: &mut Vec<TH>, op: &str) -> Option<String> {
    let f: Vec<&str> = op.split(',').collect();
    let r = match f.as_slice() {
        ["pe", m] => {
            sink.parse_error(parse_string(m)?.into());
            "ok".into()
        },
        ["doc"] => {
            let d = sink.get_document();
            show_handle(d.id, handles.len())
        },
        ["en", x] => {
            let t = h(handles, x)?;
            let n = sink.elem_name(t);
            use markup5ever::interface::ElemName;
            format!("n:{}/{}", show_str(n.ns()), show_str(n.local_name()))
        },
        ["ce", q, fl, a] => {
            let flags = parse_flags(fl)?;
            let template = flags.template;
            let e = sink.create_element(parse_qual(q)?, parse_attrs(a)?, flags);
            let id = e.id;
            handles.push(e);
            if template {
                let inner = sink.handles.borrow()[id + 1].clone();
                handles.push(TracedHandle { id: id + 1, inner });
            }
            format!("h{}", id)
        },
        ["cc", t] => {
            let e = sink.create_comment(st(t)?);
            let id = e.id;
            handles.push(e);
            format!("h{}", id)
        },
        ["cp", t, d] => {
            let e = sink.create_pi(st(t)?, st(d)?);
            let id = e.id;
            handles.push(e);
            format!("h{}", id)
        },
        ["ap", p, c] => {
            let c = parse_child(handles, c)?;
            sink.append(h(handles, p)?, c);
            "ok".into()
        },
        ["abp", e, p, c] => {
            let c = parse_child(handles, c)?;
            sink.append_based_on_parent_node(h(handles, e)?, h(handles, p)?, c);
            "ok".into()
        },
        ["dt", n, p, s] => {
            sink.append_doctype_to_document(st(n)?, st(p)?, st(s)?);
            "ok".into()
        },
        ["ms", x] => {
            sink.mark_script_already_started(h(handles, x)?);
            "ok".into()
        },
        ["pop", x] => {
            sink.pop(h(handles, x)?);
            "ok".into()
        },
        ["tc", x] => {
            let t = sink.get_template_contents(h(handles, x)?);
            show_handle(t.id, handles.len())
        },
        ["sn", x, y] => {
            if sink.same_node(h(handles, x)?, h(handles, y)?) {
                "T".into()
            } else {
                "F".into()
            }
        },
        ["qm", m] => {
            let m = match *m {
                "q" => QuirksMode::Quirks,
                "l" => QuirksMode::LimitedQuirks,
                "n" => QuirksMode::NoQuirks,
                _ => return None,
            };
            sink.set_quirks_mode(m);
            "ok".into()
        },
        ["abs", s, c] => {
            let c = parse_child(handles, c)?;
            sink.append_before_sibling(h(handles, s)?, c);
            "ok".into()
        },
        ["aa", x, a] => {
            sink.add_attrs_if_missing(h(handles, x)?, parse_attrs(a)?);
            "ok".into()
        },
        ["af", t, fm, n, p] => {
            let prev = if *p == "-" { None } else { Some(h(handles, p)?) };
            sink.associate_with_form(h(handles, t)?, h(handles, fm)?, (h(handles, n)?, prev));
            "ok".into()
        },
        ["rm", x] => {
            sink.remove_from_parent(h(handles, x)?);
            "ok".into()
        },
        ["rc", n, p] => {
            sink.reparent_children(h(handles, n)?, h(handles, p)?);
            "ok".into()
        },
        ["ip", x] => {
            if sink.is_mathml_annotation_xml_integration_point(h(handles, x)?) {
                "T".into()
            } else {
                "F".into()
            }
        },
        ["ln", n] => {
            if n.is_empty() || !n.bytes().all(|b| b.is_ascii_digit()) {
                return None;
            }
            sink.set_current_line(n.parse().ok()?);
            "ok".into()
        },
        ["adsr", x] => {
            if sink.allow_declarative_shadow_roots(h(handles, x)?) {
                "T".into()
            } else {
                "F".into()
            }
        },
        ["ads", l, t, a] => {
            if sink.attach_declarative_shadow(h(handles, l)?, h(handles, t)?, &parse_attrs(a)?) {
                "T".into()
            } else {
                "F".into()
            }
        },
        ["mc", x] => {
            sink.maybe_clone_an_option_into_selectedcontent(h(handles, x)?);
            "ok".into()
        },
        _ => return None,
    };
    Some(r)
}

// ------------------------------------------------------------------ dump

fn data_str(d: &NodeData) -> String {
    match d {
        NodeData::Document => "doc".into(),
        NodeData::Doctype {
            name,
            public_id,
            system_id,
        } => format!("dt,{},{},{}", show_str(name), show_str(public_id), show_str(system_id)),
        NodeData::Text { contents } => format!("tx,{}", show_str(&contents.borrow())),
        NodeData::Comment { contents } => format!("cm,{}", show_str(contents)),
        NodeData::Element {
            name,
            attrs,
            mathml_annotation_xml_integration_point,
            ..
        } => format!(
            "el,{},{},{}",
            show_qual(name),
            show_attr_vec(&attrs.borrow()),
            if *mathml_annotation_xml_integration_point { "m" } else { "-" }
        ),
        NodeData::ProcessingInstruction { target, contents } => {
            format!("pi,{},{}", show_str(target), show_str(contents))
        },
    }
}

/// the node's parent pointer: None | Some(Ok(handle)) | Some(Err(())) when the Weak dangles
fn parent_of(n: &Handle) -> Option<Result<Handle, ()>> {
    let w = n.parent.take();
    let r = w.as_ref().map(|w| w.upgrade().ok_or(()));
    n.parent.set(w);
    r
}

fn numbering(handles: &[Handle]) -> (Vec<Handle>, HashMap<*const Node, usize>) {
    let mut order: Vec<Handle> = vec![];
    let mut map: HashMap<*const Node, usize> = HashMap::new();
    for hd in handles {
        map.entry(Rc::as_ptr(hd)).or_insert_with(|| {
            order.push(hd.clone());
            order.len() - 1
        });
    }
    let mut i = 0;
    while i < order.len() {
        let kids: Vec<Handle> = order[i].children.borrow().iter().cloned().collect();
        for k in kids {
            if !map.contains_key(&Rc::as_ptr(&k)) {
                map.insert(Rc::as_ptr(&k), order.len());
                order.push(k);
            }
        }
        i += 1;
    }
    (order, map)
}

fn num_of(map: &HashMap<*const Node, usize>, n: &Handle) -> String {
    match map.get(&Rc::as_ptr(n)) {
        Some(k) => k.to_string(),
        None => "?".into(),
    }
}

fn show_nodes(order: &[Handle], map: &HashMap<*const Node, usize>) -> String {
    let mut out = vec![];
    for (k, n) in order.iter().enumerate() {
        let tc = match &n.data {
            NodeData::Element {
                template_contents, ..
            } => match &*template_contents.borrow() {
                Some(t) => num_of(map, t),
                None => "-".into(),
            },
            _ => "-".into(),
        };
        let p = match parent_of(n) {
            None => "-".into(),
            Some(Ok(p)) => num_of(map, &p),
            Some(Err(())) => "dangling".into(),
        };
        let kids = n.children.borrow();
        let c = if kids.is_empty() {
            "-".to_string()
        } else {
            kids.iter().map(|c| num_of(map, c)).collect::<Vec<_>>().join(" ")
        };
        out.push(format!("{}#{}#{}#{}#{}", k, data_str(&n.data), tc, p, c));
    }
    out.join("|")
}

#[derive(Default)]
struct Recorder {
    events: Vec<String>,
}

impl Serializer for Recorder {
    fn start_elem<'a, AttrIter>(&mut self, name: QualName, attrs: AttrIter) -> io::Result<()>
    where
        AttrIter: Iterator<Item = AttrRef<'a>>,
    {
        self.events
            .push(format!("S{}[{}]", show_qual(&name), show_attrs(attrs)));
        Ok(())
    }
    fn end_elem(&mut self, name: QualName) -> io::Result<()> {
        self.events.push(format!("E{}", show_qual(&name)));
        Ok(())
    }
    fn write_text(&mut self, text: &str) -> io::Result<()> {
        self.events.push(format!("T{}", show_str(text)));
        Ok(())
    }
    fn write_comment(&mut self, text: &str) -> io::Result<()> {
        self.events.push(format!("C{}", show_str(text)));
        Ok(())
    }
    fn write_doctype(&mut self, name: &str) -> io::Result<()> {
        self.events.push(format!("D{}", show_str(name)));
        Ok(())
    }
    fn write_processing_instruction(&mut self, target: &str, data: &str) -> io::Result<()> {
        self.events
            .push(format!("P{},{}", show_str(target), show_str(data)));
        Ok(())
    }
}

/// would rcdom's serializer loop run for more than `bound` iterations (it never ends on a cyclic
/// structure)?  Simulates the loop's work list without calling a serializer.
fn serialization_diverges(root: &Handle, children_only: bool, bound: usize) -> bool {
    enum Op {
        Open(Handle),
        Close,
    }
    let mut ops: VecDeque<Op> = VecDeque::new();
    if children_only {
        ops.extend(root.children.borrow().iter().map(|c| Op::Open(c.clone())));
    } else {
        ops.push_back(Op::Open(root.clone()));
    }
    let mut steps = 0usize;
    while let Some(op) = ops.pop_front() {
        steps += 1;
        if steps > bound {
            return true;
        }
        if let Op::Open(n) = op {
            match n.data {
                NodeData::Element { .. } => {
                    ops.push_front(Op::Close);
                    for c in n.children.borrow().iter().rev() {
                        ops.push_front(Op::Open(c.clone()));
                    }
                },
                NodeData::Document => return false, // the real loop panics here
                _ => {},
            }
        }
    }
    false
}

fn show_ser(handles: &[Handle], total_nodes: usize) -> String {
    let mut out = vec![];
    for (k, n) in handles.iter().enumerate() {
        if parent_of(n).is_some() {
            continue;
        }
        let children_only = matches!(n.data, NodeData::Document);
        let r = if serialization_diverges(n, children_only, 2 * total_nodes + 2) {
            "PANIC:diverges".to_string()
        } else {
            let scope = if children_only {
                TraversalScope::ChildrenOnly(None)
            } else {
                TraversalScope::IncludeNode
            };
            let sh: SerializableHandle = n.clone().into();
            let mut rec = Recorder::default();
            match catch_unwind(AssertUnwindSafe(|| sh.serialize(&mut rec, scope))) {
                Ok(Ok(())) => {
                    if rec.events.is_empty() {
                        "-".into()
                    } else {
                        rec.events.join("+")
                    }
                },
                Ok(Err(_)) => "io-error".into(),
                Err(e) => format!("PANIC:{}", panic_class(&*e)),
            }
        };
        out.push(format!("h{}:{}", k, r));
    }
    out.join("|")
}

fn final_dump(sink: &TS) -> String {
    let handles: Vec<Handle> = sink.handles.borrow().clone();
    let (order, map) = numbering(&handles);
    let q = match sink.inner.quirks_mode.get() {
        QuirksMode::Quirks => "quirks",
        QuirksMode::LimitedQuirks => "limited",
        QuirksMode::NoQuirks => "no",
    };
    let errs = sink.inner.errors.borrow();
    let e = if errs.is_empty() {
        "-".to_string()
    } else {
        errs.iter().map(|m| show_str(m)).collect::<Vec<_>>().join("|")
    };
    format!(
        "@N={}@Q={}@E={}@S={}",
        show_nodes(&order, &map),
        q,
        e,
        show_ser(&handles, order.len())
    )
}

fn replay(ops: &str) -> String {
    let sink: TS = TracingSink::new(RcDom::default(), true);
    let doc_inner = sink.handles.borrow()[0].clone();
    let mut handles: Vec<TH> = vec![TracedHandle {
        id: 0,
        inner: doc_inner,
    }];
    let mut outs: Vec<String> = vec![];
    if ops != "-" {
        for op in ops.split(';') {
            let before = sink.violation_count();
            let r = catch_unwind(AssertUnwindSafe(|| run_op(&sink, &mut handles, op)));
            let flag = if sink.violation_count() > before { "!" } else { "" };
            match r {
                Ok(None) => return "bad-op".into(),
                Ok(Some(o)) => outs.push(format!("{}{}", flag, o)),
                Err(e) => {
                    outs.push(format!("{}PANIC:{}", flag, panic_class(&*e)));
                    return outs.join(";");
                },
            }
        }
    }
    format!("{}{}", outs.join(";"), final_dump(&sink))
}

// ------------------------------------------------------------------ harvesting traces from real parses

fn show_trace(trace: &[String], violations: &[(usize, String)]) -> String {
    let v = if violations.is_empty() {
        "-".to_string()
    } else {
        violations
            .iter()
            .map(|(i, w)| format!("{}:CONTRACT-VIOLATION {}", i, w))
            .collect::<Vec<_>>()
            .join("|")
    };
    format!("{}@V={}", if trace.is_empty() { "-".to_string() } else { trace.join(";") }, v)
}

fn parse_chunks(s: &str) -> Option<Vec<String>> {
    s.split('|').map(parse_string).collect()
}

fn harvest(xml: bool, opts: &str, chunks: &str) -> String {
    let chunks = match parse_chunks(chunks) {
        Some(c) => c,
        None => return "bad-case".into(),
    };
    let mut scripting = false;
    let mut frag: Option<String> = None;
    if opts != "-" {
        for o in opts.split(',') {
            if o == "s1" {
                scripting = true;
            } else if let Some(x) = o.strip_prefix("frag=") {
                match parse_string(x) {
                    Some(n) => frag = Some(n),
                    None => return "bad-case".into(),
                }
            } else {
                return "bad-case".into();
            }
        }
    }
    let sink: TS = TracingSink::new(RcDom::default(), true);
    if xml {
        let mut p = xml5ever::driver::parse_document(sink, Default::default());
        for c in &chunks {
            p.process(StrTendril::from_slice(c));
        }
        let out = p.finish();
        show_trace(&out.trace, &out.violations)
    } else {
        let mut o = html5ever::ParseOpts::default();
        o.tree_builder.scripting_enabled = scripting;
        let mut p = match frag {
            None => html5ever::parse_document(sink, o),
            Some(ctx) => html5ever::parse_fragment(
                sink,
                o,
                QualName::new(None, ns!(html), LocalName::from(&*ctx)),
                vec![],
                scripting,
            ),
        };
        for c in &chunks {
            p.process(StrTendril::from_slice(c));
        }
        let out = p.finish();
        show_trace(&out.trace, &out.violations)
    }
}

// ------------------------------------------------------------------ C18: simulated collections

struct GcStats {
    collections: usize,
    traced: usize,
}

fn show_gc(sink: &TS, st: &GcStats) -> String {
    let hits = sink.poison_hits.borrow();
    let p = if hits.is_empty() {
        "-".to_string()
    } else {
        hits.iter()
            .map(|(i, w)| format!("{}:POISONED-HANDLE-USED {}", i, w))
            .collect::<Vec<_>>()
            .join("|")
    };
    let v = sink.violations.borrow();
    format!(
        "gc={},traced={},poisoned={},nodes={},calls={}@P={}@V={}",
        st.collections,
        st.traced,
        sink.poisoned.borrow().iter().filter(|&&b| b).count(),
        sink.number_of_handles(),
        sink.trace.borrow().len(),
        p,
        if v.is_empty() { "-".to_string() } else { format!("{}", v.len()) }
    )
}

/// `detach=<handle>@s<n>` / `detach=<handle>@c<n>`: what a script (or the embedder) does while parsing is
/// suspended — at the n-th Script pause / after the n-th chunk the node is removed from its parent
/// (through the sink), *before* the collection at that suspension point
#[derive(Clone, Copy)]
struct Detach {
    handle: usize,
    at_script: bool,
    n: usize,
    /// `hoist=`: instead of just detaching the node, the script moves it under the document node and
    /// then detaches its former parent (so a still-open ancestor hangs nowhere)
    hoist: bool,
}

fn parse_detach(x: &str) -> Option<Detach> {
    let (h, at) = x.split_once('@')?;
    let handle = h.parse().ok()?;
    let (at_script, n) = if let Some(r) = at.strip_prefix('s') {
        (true, r.parse().ok()?)
    } else if let Some(r) = at.strip_prefix('c') {
        (false, r.parse().ok()?)
    } else {
        return None;
    };
    Some(Detach { handle, at_script, n, hoist: false })
}

fn do_detach(sink: &TS, d: &Option<Detach>, at_script: bool, n: usize) {
    if let Some(d) = d {
        if d.at_script == at_script && d.n == n && d.handle < sink.number_of_handles() {
            if sink.poisoned.borrow().get(d.handle).copied().unwrap_or(false) {
                return; // already collected: a script could not reach it
            }
            let inner = sink.handles.borrow()[d.handle].clone();
            if d.hoist {
                // former parent, looked up among the handles the sink has handed out
                let w = inner.parent.take();
                let parent = w.as_ref().and_then(|w| w.upgrade());
                inner.parent.set(w);
                let pid = parent.as_ref().and_then(|p| {
                    sink.handles.borrow().iter().position(|h| std::rc::Rc::ptr_eq(h, p))
                });
                let (Some(parent), Some(pid)) = (parent, pid) else { return };
                if pid == 0 || sink.poisoned.borrow().get(pid).copied().unwrap_or(false) {
                    return;
                }
                let doc = sink.handles.borrow()[0].clone();
                sink.remove_from_parent(&TracedHandle { id: d.handle, inner: inner.clone() });
                sink.append(
                    &TracedHandle { id: 0, inner: doc },
                    markup5ever::interface::NodeOrText::AppendNode(TracedHandle { id: d.handle, inner }),
                );
                sink.remove_from_parent(&TracedHandle { id: pid, inner: parent });
                return;
            }
            sink.remove_from_parent(&TracedHandle { id: d.handle, inner });
        }
    }
}

fn gc_run(xml: bool, opts: &str, chunks: &str) -> String {
    let chunks = match parse_chunks(chunks) {
        Some(c) => c,
        None => return "bad-case".into(),
    };
    let mut scripting = false;
    let mut frag: Option<String> = None;
    // self-test of the oracle: pretend `trace_handles` forgot the handle it reports last
    let mut drop_last = false;
    let mut detach: Option<Detach> = None;
    if opts != "-" {
        for o in opts.split(',') {
            if o == "s1" {
                scripting = true;
            } else if o == "droplast" {
                drop_last = true;
            } else if let Some(x) = o.strip_prefix("detach=") {
                match parse_detach(x) {
                    Some(d) => detach = Some(d),
                    None => return "bad-case".into(),
                }
            } else if let Some(x) = o.strip_prefix("hoist=") {
                match parse_detach(x) {
                    Some(d) => detach = Some(Detach { hoist: true, ..d }),
                    None => return "bad-case".into(),
                }
            } else if let Some(x) = o.strip_prefix("frag=") {
                match parse_string(x) {
                    Some(n) => frag = Some(n),
                    None => return "bad-case".into(),
                }
            } else {
                return "bad-case".into();
            }
        }
    }
    let sink: TS = TracingSink::new(RcDom::default(), true);
    let mut st = GcStats {
        collections: 0,
        traced: 0,
    };
    let mut scripts = 0usize;
    if xml {
        let p = xml5ever::driver::parse_document(sink, Default::default());
        let collect = |extra: Option<usize>, st: &mut GcStats| {
            let tr: IdTracer<Handle> = IdTracer::default();
            p.tokenizer.sink.trace_handles(&tr);
            let mut roots = tr.ids.borrow().clone();
            if drop_last {
                roots.pop();
            }
            st.traced += roots.len();
            if let Some(x) = extra {
                roots.push(x);
            }
            st.collections += 1;
            p.tokenizer.sink.sink.collect(&roots);
        };
        for (ci, c) in chunks.iter().enumerate() {
            p.input_buffer.push_back(StrTendril::from_slice(c));
            loop {
                match p.tokenizer.feed(&p.input_buffer) {
                    markup5ever::TokenizerResult::Done => break,
                    markup5ever::TokenizerResult::Script(h) => {
                        do_detach(&p.tokenizer.sink.sink, &detach, true, scripts);
                        scripts += 1;
                        collect(Some(h.id), &mut st)
                    },
                    markup5ever::TokenizerResult::EncodingIndicator(_) => collect(None, &mut st),
                }
            }
            do_detach(&p.tokenizer.sink.sink, &detach, false, ci);
            collect(None, &mut st);
        }
        p.tokenizer.end();
        show_gc(&p.tokenizer.sink.sink, &st)
    } else {
        let mut o = html5ever::ParseOpts::default();
        o.tree_builder.scripting_enabled = scripting;
        let p = match frag {
            None => html5ever::parse_document(sink, o),
            Some(ctx) => html5ever::parse_fragment(
                sink,
                o,
                QualName::new(None, ns!(html), LocalName::from(&*ctx)),
                vec![],
                scripting,
            ),
        };
        let collect = |extra: Option<usize>, st: &mut GcStats| {
            let tr: IdTracer<Handle> = IdTracer::default();
            p.tokenizer.sink.trace_handles(&tr);
            let mut roots = tr.ids.borrow().clone();
            if drop_last {
                roots.pop();
            }
            st.traced += roots.len();
            // the node handed to the embedder with a `Script` result is held by the embedder
            if let Some(x) = extra {
                roots.push(x);
            }
            st.collections += 1;
            p.tokenizer.sink.sink.collect(&roots);
        };
        for (ci, c) in chunks.iter().enumerate() {
            p.input_buffer.push_back(StrTendril::from_slice(c));
            loop {
                match p.tokenizer.feed(&p.input_buffer) {
                    markup5ever::TokenizerResult::Done => break,
                    markup5ever::TokenizerResult::Script(h) => {
                        do_detach(&p.tokenizer.sink.sink, &detach, true, scripts);
                        scripts += 1;
                        collect(Some(h.id), &mut st)
                    },
                    markup5ever::TokenizerResult::EncodingIndicator(_) => collect(None, &mut st),
                }
            }
            do_detach(&p.tokenizer.sink.sink, &detach, false, ci);
            collect(None, &mut st);
        }
        p.tokenizer.end();
        show_gc(&p.tokenizer.sink.sink, &st)
    }
}

pub fn run(fields: &[&str]) -> String {
    match fields {
        ["gc-html", opts, chunks] => gc_run(false, opts, chunks),
        ["gc-xml", opts, chunks] => gc_run(true, opts, chunks),
        ["ops", ops] => replay(ops),
        ["parse-html", opts, chunks] => harvest(false, opts, chunks),
        ["parse-xml", opts, chunks] => harvest(true, opts, chunks),
        _ => "bad-case".into(),
    }
}
