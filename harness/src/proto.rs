//! protocol helpers: strings as space-separated hex code points, "-" = empty
pub fn parse_nums(s: &str) -> Option<Vec<u32>> {
    let s = s.trim();
    if s == "-" || s.is_empty() {
        return Some(vec![]);
    }
    s.split(' ')
        .filter(|x| !x.is_empty())
        .map(|x| u32::from_str_radix(x, 16).ok())
        .collect()
}
pub fn parse_string(s: &str) -> Option<String> {
    parse_nums(s)?.into_iter().map(char::from_u32).collect()
}
pub fn parse_bytes(s: &str) -> Option<Vec<u8>> {
    parse_nums(s)?
        .into_iter()
        .map(|n| u8::try_from(n).ok())
        .collect()
}
pub fn show_nums<I: IntoIterator<Item = u32>>(it: I) -> String {
    let v: Vec<String> = it.into_iter().map(|n| format!("{:x}", n)).collect();
    if v.is_empty() {
        "-".to_string()
    } else {
        v.join(" ")
    }
}
pub fn show_str(s: &str) -> String {
    show_nums(s.chars().map(|c| c as u32))
}
pub fn show_bytes(b: &[u8]) -> String {
    show_nums(b.iter().map(|&c| c as u32))
}
