//! Allocation ledger for the `tendril` engine (property C12).
//!
//! A global allocator in front of `System`.  It is a pass-through (one thread-local read per
//! `alloc`, one relaxed atomic load per `dealloc`) unless the current thread is inside a
//! `record(..)` window.  Inside a window every allocation is
//!   * entered into a table of known blocks (address, size, alignment),
//!   * filled with 0xCD and followed by a 16-byte canary (0xC5),
//!   * logged as an event of the recording thread.
//! A known block that is freed (on any thread, inside or outside a window) is checked (layout
//! size, canary), poisoned with 0xDD and put in quarantine instead of being returned to `System`;
//! `end_case()` verifies the poison (a write after free would disturb it) and releases it.
//! Freeing a quarantined block again is a double free; freeing an unknown block inside a window
//! is reported too (the tendril engine never does that legitimately).  `realloc` of a known block
//! is done by hand (new block, copy, quarantine the old one) so that the stale pointer is dead.
//! Nothing in here allocates.
use std::alloc::{GlobalAlloc, Layout, System};
use std::cell::{Cell, UnsafeCell};
use std::sync::atomic::{AtomicBool, AtomicUsize, Ordering::*};

pub struct Ledger;

const CAP: usize = 4096;
const CANARY: usize = 16;
const EVCAP: usize = 256;

#[derive(Clone, Copy)]
struct Entry {
    addr: usize,
    size: usize,
    align: usize,
    state: u8, // 1 live, 2 quarantined
}

struct Table {
    e: [Entry; CAP],
    n: usize,
}

struct Shared(UnsafeCell<Table>);
unsafe impl Sync for Shared {}

static TABLE: Shared = Shared(UnsafeCell::new(Table {
    e: [Entry { addr: 0, size: 0, align: 0, state: 0 }; CAP],
    n: 0,
}));
static LOCK: AtomicBool = AtomicBool::new(false);
/// number of table entries (live or quarantined); 0 = `dealloc` fast path
static NKNOWN: AtomicUsize = AtomicUsize::new(0);
static NLIVE: AtomicUsize = AtomicUsize::new(0);
/// anomaly counters
static DOUBLE_FREE: AtomicUsize = AtomicUsize::new(0);
static UNKNOWN_FREE: AtomicUsize = AtomicUsize::new(0);
static BAD_LAYOUT: AtomicUsize = AtomicUsize::new(0);
static CANARY_HIT: AtomicUsize = AtomicUsize::new(0);
static WRITE_AFTER_FREE: AtomicUsize = AtomicUsize::new(0);
static OVERFLOW: AtomicUsize = AtomicUsize::new(0);

#[derive(Clone, Copy, Debug, PartialEq, Eq)]
pub enum Ev {
    Alloc(usize),
    Free(usize),
}

thread_local! {
    static REC: Cell<bool> = const { Cell::new(false) };
    static QUIET: Cell<bool> = const { Cell::new(false) };
    static NEV: Cell<usize> = const { Cell::new(0) };
    static EVS: UnsafeCell<[(u8, usize); EVCAP]> = const { UnsafeCell::new([(0, 0); EVCAP]) };
}

fn recording() -> bool {
    REC.try_with(|c| c.get()).unwrap_or(false)
}

fn push_event(kind: u8, size: usize) {
    if QUIET.try_with(|c| c.get()).unwrap_or(true) {
        return;
    }
    let _ = NEV.try_with(|n| {
        let k = n.get();
        if k >= EVCAP {
            OVERFLOW.fetch_add(1, Relaxed);
            return;
        }
        let _ = EVS.try_with(|e| unsafe { (*e.get())[k] = (kind, size) });
        n.set(k + 1);
    });
}

struct Guard;
fn lock() -> Guard {
    while LOCK
        .compare_exchange_weak(false, true, Acquire, Relaxed)
        .is_err()
    {
        std::hint::spin_loop();
    }
    Guard
}
impl Drop for Guard {
    fn drop(&mut self) {
        LOCK.store(false, Release);
    }
}

unsafe fn table() -> &'static mut Table {
    &mut *TABLE.0.get()
}

unsafe fn find(t: &Table, addr: usize) -> Option<usize> {
    // newest first: an address can only be present once (quarantined blocks are not released
    // before `end_case`)
    (0..t.n).rev().find(|&i| t.e[i].addr == addr)
}

unsafe fn new_block(size: usize, align: usize, log: bool) -> *mut u8 {
    let lay = match Layout::from_size_align(size + CANARY, align) {
        Ok(l) => l,
        Err(_) => return std::ptr::null_mut(),
    };
    let p = System.alloc(lay);
    if p.is_null() {
        return p;
    }
    std::ptr::write_bytes(p, 0xCD, size);
    std::ptr::write_bytes(p.add(size), 0xC5, CANARY);
    {
        let _g = lock();
        let t = table();
        if t.n < CAP {
            t.e[t.n] = Entry { addr: p as usize, size, align, state: 1 };
            t.n += 1;
            NKNOWN.store(t.n, Relaxed);
        } else {
            OVERFLOW.fetch_add(1, Relaxed);
        }
    }
    NLIVE.fetch_add(1, Relaxed);
    if log {
        push_event(1, size);
    }
    p
}

/// returns true if the block was known (and is now quarantined or reported)
unsafe fn retire(p: *mut u8, claimed: usize, log: bool) -> bool {
    let (size, state) = {
        let _g = lock();
        let t = table();
        match find(t, p as usize) {
            None => return false,
            Some(i) => {
                let st = t.e[i].state;
                if st == 1 {
                    t.e[i].state = 2;
                }
                (t.e[i].size, st)
            },
        }
    };
    if state == 2 {
        DOUBLE_FREE.fetch_add(1, Relaxed);
        return true;
    }
    if claimed != size {
        BAD_LAYOUT.fetch_add(1, Relaxed);
    }
    let can = std::slice::from_raw_parts(p.add(size), CANARY);
    if can.iter().any(|&b| b != 0xC5) {
        CANARY_HIT.fetch_add(1, Relaxed);
    }
    std::ptr::write_bytes(p, 0xDD, size);
    NLIVE.fetch_sub(1, Relaxed);
    if log {
        push_event(2, size);
    }
    true
}

unsafe impl GlobalAlloc for Ledger {
    unsafe fn alloc(&self, layout: Layout) -> *mut u8 {
        if recording() && !std::thread::panicking() {
            return new_block(layout.size(), layout.align(), true);
        }
        System.alloc(layout)
    }

    unsafe fn dealloc(&self, p: *mut u8, layout: Layout) {
        let rec = recording();
        if NKNOWN.load(Relaxed) != 0 && retire(p, layout.size(), rec) {
            return;
        }
        if rec && !std::thread::panicking() {
            // inside a window only known blocks may be freed: leak it rather than risk an abort
            UNKNOWN_FREE.fetch_add(1, Relaxed);
            return;
        }
        System.dealloc(p, layout)
    }

    unsafe fn realloc(&self, p: *mut u8, layout: Layout, new_size: usize) -> *mut u8 {
        let known = NKNOWN.load(Relaxed) != 0 && {
            let _g = lock();
            find(table(), p as usize).is_some()
        };
        if !known {
            if recording() && !std::thread::panicking() {
                UNKNOWN_FREE.fetch_add(1, Relaxed);
            }
            return System.realloc(p, layout, new_size);
        }
        let rec = recording();
        let np = new_block(new_size, layout.align(), rec);
        if np.is_null() {
            return np;
        }
        std::ptr::copy_nonoverlapping(p, np, layout.size().min(new_size));
        retire(p, layout.size(), rec);
        np
    }
}

struct Window(bool);
impl Drop for Window {
    fn drop(&mut self) {
        REC.with(|c| c.set(self.0));
    }
}

/// run `f` with allocation recording on for this thread
pub fn record<R>(f: impl FnOnce() -> R) -> R {
    let prev = REC.with(|c| c.replace(true));
    let _w = Window(prev);
    f()
}

/// like `record`, without logging events (checks and table only)
pub fn record_quiet<R>(f: impl FnOnce() -> R) -> R {
    let prevq = QUIET.with(|c| c.replace(true));
    let r = record(f);
    QUIET.with(|c| c.set(prevq));
    r
}

/// drain this thread's event log (call outside a window)
pub fn take_events() -> Vec<Ev> {
    let n = NEV.with(|n| n.replace(0));
    EVS.with(|e| {
        let e = unsafe { &*e.get() };
        e[..n]
            .iter()
            .map(|&(k, s)| if k == 1 { Ev::Alloc(s) } else { Ev::Free(s) })
            .collect()
    })
}

/// recorded blocks currently live
pub fn live() -> usize {
    NLIVE.load(Relaxed)
}

/// end of a case: check the quarantine poison, release everything the table knows (leaked live
/// blocks included, so that one bad case does not contaminate the next), return the anomalies
pub fn end_case() -> Vec<String> {
    let mut blocks: Vec<Entry> = Vec::new();
    {
        // copy out under the lock without allocating inside it
        let n = {
            let _g = lock();
            unsafe { table().n }
        };
        blocks.reserve(n);
        let _g = lock();
        let t = unsafe { table() };
        for i in 0..t.n.min(blocks.capacity()) {
            blocks.push(t.e[i]);
        }
        t.n = 0;
        NKNOWN.store(0, Relaxed);
    }
    let mut leaked = 0;
    for b in &blocks {
        unsafe {
            let p = b.addr as *mut u8;
            if b.state == 2 {
                let s = std::slice::from_raw_parts(p, b.size);
                if s.iter().any(|&x| x != 0xDD) {
                    WRITE_AFTER_FREE.fetch_add(1, Relaxed);
                }
            } else {
                leaked += 1;
            }
            System.dealloc(p, Layout::from_size_align_unchecked(b.size + CANARY, b.align));
        }
    }
    NLIVE.store(0, Relaxed);
    let mut out = vec![];
    if leaked > 0 {
        out.push(format!("leaked={}", leaked));
    }
    for (name, c) in [
        ("double-free", &DOUBLE_FREE),
        ("unknown-free", &UNKNOWN_FREE),
        ("bad-layout", &BAD_LAYOUT),
        ("overflow-write", &CANARY_HIT),
        ("write-after-free", &WRITE_AFTER_FREE),
        ("ledger-overflow", &OVERFLOW),
    ] {
        let n = c.swap(0, Relaxed);
        if n > 0 {
            out.push(format!("{}={}", name, n));
        }
    }
    out
}

#[cfg(test)]
mod tests {
    //! self-test of the ledger: the anomalies it is there to catch are caught
    use super::*;
    use std::alloc::{alloc, dealloc, Layout};

    #[test]
    fn detects_double_free_overflow_and_write_after_free() {
        let lay = Layout::from_size_align(32, 8).unwrap();
        unsafe {
            // balanced use: no anomaly
            let p = std::hint::black_box(record(|| alloc(lay)));
            record(|| dealloc(p, lay));
            assert_eq!(take_events(), vec![Ev::Alloc(32), Ev::Free(32)]);
            assert_eq!(live(), 0);
            assert!(end_case().is_empty());
            // double free
            let p = std::hint::black_box(record(|| alloc(lay)));
            record(|| dealloc(p, lay));
            record(|| dealloc(p, lay));
            let _ = take_events();
            assert_eq!(end_case(), vec!["double-free=1".to_string()]);
            // overflow by one byte, wrong layout on dealloc
            let p = std::hint::black_box(record(|| alloc(lay)));
            *p.add(32) = 1;
            record(|| dealloc(p, Layout::from_size_align(48, 8).unwrap()));
            let _ = take_events();
            let a = end_case();
            assert!(a.contains(&"bad-layout=1".to_string()) && a.contains(&"overflow-write=1".to_string()), "{:?}", a);
            // write after free, leak
            let p = std::hint::black_box(record(|| alloc(lay)));
            record(|| dealloc(p, lay));
            *p = 7;
            let _q = std::hint::black_box(record(|| alloc(lay)));
            let _ = take_events();
            assert_eq!(live(), 1);
            let a = end_case();
            assert!(a.contains(&"leaked=1".to_string()) && a.contains(&"write-after-free=1".to_string()), "{:?}", a);
        }
    }
}
