//! Correspondence harness: runs the real html5ever / xml5ever / markup5ever / tendril code on
//! protocol cases (one per stdin line, `engine<TAB>field<TAB>…`) and prints one canonical
//! result line per case.  The Lean model driver (`h5vdriver`) speaks the same protocol.
use std::io::{self, BufRead, Write};
use std::panic;

mod alloc_ledger;
mod engines;
pub mod proto;

// allocation ledger of the `tendril` engine (C12); a pass-through outside its recording windows
#[global_allocator]
static GLOBAL: alloc_ledger::Ledger = alloc_ledger::Ledger;
pub mod sinkops;

fn main() {
    // silence panic messages: a panic is reported as a protocol value
    panic::set_hook(Box::new(|_| {}));
    let stdin = io::stdin();
    let stdout = io::stdout();
    let mut out = io::BufWriter::new(stdout.lock());
    for line in stdin.lock().lines() {
        let line = match line {
            Ok(l) => l,
            Err(_) => break,
        };
        let mut fields = line.split('\t');
        let engine = fields.next().unwrap_or("");
        let fields: Vec<&str> = fields.collect();
        let res = panic::catch_unwind(|| engines::dispatch(engine, &fields));
        let s = match res {
            Ok(s) => s,
            Err(e) => {
                let msg = if let Some(s) = e.downcast_ref::<&str>() {
                    s.to_string()
                } else if let Some(s) = e.downcast_ref::<String>() {
                    s.clone()
                } else {
                    "?".to_string()
                };
                format!("PANIC {}", msg.replace(['\n', '\t'], " "))
            },
        };
        // every protocol line starts with 0x01 so that text the library prints on stdout itself
        // (TokenizerOpts::profile dumps a table from end()) can be told apart and dropped
        out.flush().unwrap();
        writeln!(out, "\u{1}{}", s).unwrap();
    }
    out.flush().unwrap();
}
