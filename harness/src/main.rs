//! Correspondence harness: runs the real html5ever / xml5ever / markup5ever / tendril code on
//! protocol cases (one per stdin line, `engine<TAB>field<TAB>…`) and prints one canonical
//! result line per case.  The Lean model driver (`h5vdriver`) speaks the same protocol.
use std::io::{self, BufRead, Write};
use std::panic;

mod alloc_ledger;
mod engines;
pub mod proto;

// allocation ledger of the `tendril` engine (C12); a pass-through outside its recording windows
#[global_allocator]
static GLOBAL: alloc_ledger::Ledger = alloc_ledger::Ledger;
pub mod sinkops;

/// With `H5V_LOG=1` a `log` logger is installed that accepts every level and formats every record (into nothing):
/// the arguments of the library's `debug!` / `trace!` / `warn!` statements are evaluated, as they are in an application
/// that runs with `RUST_LOG=trace`.  The result of a case must not depend on it.
struct EvalLogger;

struct Discard;

impl std::fmt::Write for Discard {
    fn write_str(&mut self, _: &str) -> std::fmt::Result {
        Ok(())
    }
}

impl log::Log for EvalLogger {
    fn enabled(&self, _: &log::Metadata) -> bool {
        true
    }
    fn log(&self, record: &log::Record) {
        use std::fmt::Write as _;
        let _ = write!(Discard, "{}", record.args());
    }
    fn flush(&self) {}
}

static EVAL_LOGGER: EvalLogger = EvalLogger;

fn main() {
    // silence panic messages: a panic is reported as a protocol value
    panic::set_hook(Box::new(|_| {}));
    if std::env::var("H5V_LOG").map(|v| v == "1").unwrap_or(false) {
        let _ = log::set_logger(&EVAL_LOGGER);
        log::set_max_level(log::LevelFilter::Trace);
    }
    // watchdog: a case that runs longer than H5V_CASE_TIMEOUT seconds (default 60) is reported as
    // `HANG` and the process exits with code 3 (the driver script bisects down to the case)
    let limit: u64 = std::env::var("H5V_CASE_TIMEOUT").ok().and_then(|s| s.parse().ok()).unwrap_or(60);
    static STARTED: std::sync::atomic::AtomicU64 = std::sync::atomic::AtomicU64::new(0);
    static SERIAL: std::sync::atomic::AtomicU64 = std::sync::atomic::AtomicU64::new(0);
    let t0 = std::time::Instant::now();
    std::thread::spawn(move || loop {
        std::thread::sleep(std::time::Duration::from_millis(500));
        let serial = SERIAL.load(std::sync::atomic::Ordering::SeqCst);
        let started = STARTED.load(std::sync::atomic::Ordering::SeqCst);
        if serial % 2 == 1 && t0.elapsed().as_secs() > started + limit {
            // odd serial = a case is in flight
            // the main thread holds the stdout lock: write to the descriptor directly
            use std::os::fd::FromRawFd;
            let mut so = unsafe { std::fs::File::from_raw_fd(1) };
            let _ = writeln!(so, "\u{1}HANG no result after {} s", limit);
            let _ = so.flush();
            std::mem::forget(so);
            std::process::exit(3);
        }
    });
    let stdin = io::stdin();
    let stdout = io::stdout();
    let mut out = io::BufWriter::new(stdout.lock());
    for line in stdin.lock().lines() {
        let line = match line {
            Ok(l) => l,
            Err(_) => break,
        };
        let mut fields = line.split('\t');
        let engine = fields.next().unwrap_or("");
        let fields: Vec<&str> = fields.collect();
        STARTED.store(t0.elapsed().as_secs(), std::sync::atomic::Ordering::SeqCst);
        SERIAL.fetch_add(1, std::sync::atomic::Ordering::SeqCst);
        let res = panic::catch_unwind(|| engines::dispatch(engine, &fields));
        SERIAL.fetch_add(1, std::sync::atomic::Ordering::SeqCst);
        let s = match res {
            Ok(s) => s,
            Err(e) => {
                let msg = if let Some(s) = e.downcast_ref::<&str>() {
                    s.to_string()
                } else if let Some(s) = e.downcast_ref::<String>() {
                    s.clone()
                } else {
                    "?".to_string()
                };
                format!("PANIC {}", msg.replace(['\n', '\t'], " "))
            },
        };
        // every protocol line starts with 0x01 so that text the library prints on stdout itself
        // (TokenizerOpts::profile dumps a table from end()) can be told apart and dropped
        out.flush().unwrap();
        writeln!(out, "\u{1}{}", s).unwrap();
    }
    out.flush().unwrap();
}
