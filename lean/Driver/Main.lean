import H5V.Proto
import H5V.Model.BufferQueueDriver
import H5V.Model.Utf8Driver
import H5V.Model.MetaDriver
import H5V.Model.HtmlSerDriver
import H5V.Model.XmlSerDriver
import H5V.Model.XmlTBDriver
import H5V.Model.TendrilDriver
import H5V.Model.DomDriver
import H5V.Model.HtmlTokDriver
import H5V.Model.HtmlTBDriver
import H5V.Model.XmlTokDriver
import H5V.Model.XmlJointDriver
import H5V.Model.XmlTBHDriver
import H5V.Spec.HtmlTokenizerDriver
/- Model driver: reads one case per line (`engine<TAB>field<TAB>…`) on stdin, writes one result line. -/
open H5V

def dispatch (line : String) : String :=
  match line.splitOn "\t" with
  | "bq" :: fields => Model.BQ.runCase fields
  | "utf8" :: fields => Model.Utf8Driver.runCase fields
  | "meta" :: fields => Model.MetaDriver.runCase fields
  | "ser" :: fields => Model.HtmlSerDriver.runCase fields
  | "xmlser" :: fields => Model.XmlSerDriver.runCase fields
  | ["xmltb", "trace", toks] => Model.XmlTBHDriver.runCase ["trace", toks]
  | "xmltb" :: fields => Model.XmlTBDriver.runCase fields
  | "tendril" :: fields => Model.TendrilDriver.runCase fields
  | "rcdom" :: fields => Model.DomDriver.runCase fields
  | "tok" :: fields => Model.HtmlTokDriver.runCase fields
  | "tb" :: fields => Model.HtmlTBDriver.runCase fields
  | ["xmltok", "jtree", optsS, chunksS] => Model.XmlJointDriver.runJoint optsS chunksS
  | "xmltok" :: fields => Model.XmlTokDriver.runCase fields
  | "tokspec" :: fields => Spec.HtmlTokenizerDriver.runCase fields
  | _ => "bad-engine"

partial def loop (h : IO.FS.Stream) (out : IO.FS.Stream) : IO Unit := do
  let line ← h.getLine
  if line.isEmpty then return ()
  let line := if line.endsWith "\n" then (line.dropEnd 1).toString else line
  out.putStrLn (dispatch line)
  loop h out

def main : IO Unit := do
  let stdin ← IO.getStdin
  let stdout ← IO.getStdout
  loop stdin stdout
