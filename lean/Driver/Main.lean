import H5V.Proto
import H5V.Model.BufferQueueDriver
/- Model driver: reads one case per line (`engine<TAB>field<TAB>…`) on stdin, writes one result line. -/
open H5V

def dispatch (line : String) : String :=
  match line.splitOn "\t" with
  | "bq" :: fields => Model.BQ.runCase fields
  | _ => "bad-engine"

partial def loop (h : IO.FS.Stream) (out : IO.FS.Stream) : IO Unit := do
  let line ← h.getLine
  if line.isEmpty then return ()
  let line := if line.endsWith "\n" then (line.dropEnd 1).toString else line
  out.putStrLn (dispatch line)
  loop h out

def main : IO Unit := do
  let stdin ← IO.getStdin
  let stdout ← IO.getStdout
  loop stdin stdout
