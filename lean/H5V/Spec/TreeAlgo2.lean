import H5V.Spec.TreeAlgo
/-!
`H5V.Spec.TreeAlgo2` — further sub-algorithms of WHATWG HTML §13.2.4–13.2.6 as small pure functions,
each written from the standard's prose (quoted in the doc comments; passages marked *(paraphrase)*
are condensed), independently of html5ever's code.  `H5V.Lemmas.HtmlTBAlgo*` / `H5V.Props.C02Algo`
prove the model's transcription of the *code* equal to these for all inputs.

Conventions (they differ from `H5V.Spec.TreeAlgo` in one point, marked ★):
* ★ a **stack of open elements** is a `List (Elem N)` in the order in which the standard draws it:
  the first entry is the *topmost* one (the `html` element, pushed first), the **last entry is the
  current node** (the *bottommost*, most recently pushed).  "Above" = earlier in the list, "below" /
  "lower" = later.  (`Spec.TreeAlgo` lists the current node first; pass `stack.reverse` to it.)
* the **list of active formatting elements** is a `List (Entry N T)`, oldest entry first, the most
  recently added entry last.
* `N` is the type of node identities, `T` the type of tokens.  An `Elem` is a node together with
  its element type (namespace, local name).  Creating a node takes the next identity from
  `PState.supply`, the list of the nodes the DOM is going to hand out, in order; an element created
  for a token in a namespace is `⟨that node, ⟨namespace, tag name⟩⟩`.
* the DOM operations an algorithm performs are recorded, in order, in a log of `Edit`s.  The log is
  at the granularity of the DOM standard: *append*/*insert* of a node that may have a parent is
  preceded by an explicit `remove` entry (DOM §4.2.3 "insert": the node is first removed from its
  parent).
* The stack and the list never contain the same node twice.  For definiteness on lists that do,
  "the" position of a node in the stack is its last (lowest) occurrence and "the" entry of a node in
  the list of active formatting elements is its first occurrence.
* a result `none` means: the standard's steps are not defined on this state (they refer to a node
  that does not exist, e.g. "the current node" of an empty stack) — such states do not arise in the
  standard, where the stack always starts with the `html` element.
-/
namespace H5V.Spec.TreeAlgo2
open H5V.Spec
open H5V.Spec.TreeAlgo (Str Name nsHtml inHtml inTable)

/-- an element: node identity and element type -/
structure Elem (N : Type) where
  id : N
  name : Name
deriving DecidableEq, Repr

/-- an entry of the list of active formatting elements: a marker, or an element together with the
token for which it was created -/
inductive Entry (N T : Type)
  | marker
  | element (node : N) (tok : T)
deriving DecidableEq, Repr

def Entry.isMarker {N T : Type} : Entry N T → Bool
  | .marker => true
  | .element _ _ => false

def Entry.node? {N T : Type} : Entry N T → Option N
  | .marker => none
  | .element n _ => some n

/-! ### (i) §13.2.6.1 the appropriate place for inserting a node

> The *appropriate place for inserting a node*, optionally using a particular *override target*, is
> the position in an element returned by running the following steps:
> 1. If there was an override target specified, then let *target* be the override target.
>    Otherwise, let *target* be the current node.
> 2. Determine the *adjusted insertion location* using the first matching steps from the following
>    list:
>    **If foster parenting is enabled and *target* is a `table`, `tbody`, `tfoot`, `thead`, or `tr`
>    element** — Run these substeps:
>    1. Let *last template* be the last `template` element in the stack of open elements, if any.
>    2. Let *last table* be the last `table` element in the stack of open elements, if any.
>    3. If there is a *last template* and either there is no *last table*, or there is one, but
>       *last template* is lower (more recently added) than *last table* in the stack of open
>       elements, then: let *adjusted insertion location* be inside *last template*'s template
>       contents, after its last child (if any), and abort these steps.
>    4. If there is no *last table*, then let *adjusted insertion location* be inside the first
>       element in the stack of open elements (the `html` element), after its last child (if any),
>       and abort these steps.  (fragment case)
>    5. If *last table* has a parent node, then let *adjusted insertion location* be inside *last
>       table*'s parent node, immediately before *last table*, and abort these steps.
>    6. Let *previous element* be the element immediately above *last table* in the stack of open
>       elements.
>    7. Let *adjusted insertion location* be inside *previous element*, after its last child (if any).
>    **Otherwise** — Let *adjusted insertion location* be inside *target*, after its last child (if any).
> 3. If the *adjusted insertion location* is inside a `template` element, let it instead be inside
>    the `template` element's template contents, after its last child (if any).
> 4. Return the *adjusted insertion location*.

Substeps 5–7 (and step 3 for their results) ask the DOM whether *last table* has a parent and what
that parent is.  `appropriatePlace` carries the stack-dependent part out and answers
`Place.foster lastTable previousElement` for them; `Place.resolve` is the DOM-dependent rest. -/
inductive Place (N : Type)
  /-- inside `x`, after its last child (if any) -/
  | lastChildOf (x : N)
  /-- inside `x`'s template contents, after its last child (if any) -/
  | inTemplateContentsOf (x : N)
  /-- substeps 5–7 for *last table* and *previous element* (resolved against the DOM by `Place.resolve`) -/
  | foster (lastTable previousElement : Elem N)
deriving DecidableEq, Repr

section Place
variable {N : Type}

/-- position (0 = topmost) of the last (lowest, most recently added) element of the stack with `p` -/
def lastPos (p : Elem N → Bool) : List (Elem N) → Option Nat
  | [] => none
  | e :: rest =>
    match lastPos p rest with
    | some i => some (i + 1)
    | none => if p e then some 0 else none

/-- step 3 for a location "inside `x`, after its last child" -/
def inside (x : Elem N) : Place N :=
  if x.name.isHtml "template" then .inTemplateContentsOf x.id else .lastChildOf x.id

/-- the substeps of the foster-parenting case -/
def fosterPlace (stack : List (Elem N)) : Option (Place N) :=
  -- 1., 2.
  let lastTemplate := lastPos (fun e => e.name.isHtml "template") stack
  let lastTable := lastPos (fun e => e.name.isHtml "table") stack
  -- 5.–7. for the table at position `tb`; 6.: the element immediately above it
  let tableCase (tb : Nat) : Option (Place N) :=
    if tb = 0 then none
    else (stack[tb]?).bind fun t => (stack[tb - 1]?).map fun prev => Place.foster t prev
  match lastTemplate, lastTable with
  -- 3.
  | some tp, none => (stack[tp]?).map fun t => Place.inTemplateContentsOf t.id
  | some tp, some tb =>
    if tb < tp then (stack[tp]?).map fun t => Place.inTemplateContentsOf t.id else tableCase tb
  -- 4. (no template on the stack either: step 3 of the main algorithm cannot apply to `html`)
  | none, none => stack.head?.map fun h => inside h
  | none, some tb => tableCase tb

/-- steps 1–4; `stack`: current node last; `none`: no target (empty stack and no override), or no
*previous element* above the last table -/
def appropriatePlace (stack : List (Elem N)) (fosterParenting : Bool) (overrideTarget : Option (Elem N)) :
    Option (Place N) :=
  -- 1.
  (overrideTarget <|> stack.getLast?).bind fun target =>
    -- 2.
    if fosterParenting && inHtml TreeTables.fosterTarget target.name then fosterPlace stack
    -- "Otherwise", 3.
    else some (inside target)

/-- what the DOM says about the parent of a node -/
inductive ParentKind | none | templateElement | other
deriving DecidableEq, Repr

/-- a fully determined insertion location -/
inductive RPlace (N : Type)
  | lastChildOf (x : N)
  | inTemplateContentsOf (x : N)
  /-- inside `t`'s parent node, immediately before `t` -/
  | beforeInParent (t : N)
  /-- step 3 applied to the former: `t`'s parent is a `template` element -/
  | inTemplateContentsOfParentOf (t : N)
deriving DecidableEq, Repr

/-- substeps 5–7 and step 3 against the DOM (`parentKind t`: the parent of `t`) -/
def Place.resolve (parentKind : N → ParentKind) : Place N → RPlace N
  | .lastChildOf x => .lastChildOf x
  | .inTemplateContentsOf x => .inTemplateContentsOf x
  | .foster t prev =>
    match parentKind t.id with
    -- 5. (+ 3.)
    | .other => .beforeInParent t.id
    | .templateElement => .inTemplateContentsOfParentOf t.id
    -- 6., 7. (+ 3.)
    | .none => if prev.name.isHtml "template" then .inTemplateContentsOf prev.id else .lastChildOf prev.id

end Place

/-! ### the abstract parser state and the log of DOM operations -/

/-- one DOM operation of the tree construction stage -/
inductive Edit (N T : Type)
  /-- "create an element for the token" `tok` in namespace `ns`; `new` is the node obtained -/
  | create (new : N) (ns : Str) (tok : T)
  /-- "associate `elem` with the form element `form`" (`place`: where `elem` is about to be
  inserted; the standard adds the condition that this is in the same tree as `form`) -/
  | associateForm (elem form : N) (place : Place N)
  /-- insert the (parentless) node `child` at `place` -/
  | insert (place : Place N) (child : N)
  /-- "insert a character": append `text` to the Text node immediately before `place`, or insert a
  new Text node there -/
  | insertText (place : Place N) (text : Str)
  /-- create a Comment node with data `text`; `new` is the node obtained -/
  | createComment (new : N) (text : Str)
  /-- remove `node` from its parent, if it has one -/
  | remove (node : N)
  /-- "take all of the child nodes of `src` and append them to `dst`" -/
  | moveChildren (src dst : N)
deriving DecidableEq, Repr

/-- the part of the parser state the algorithms below read and write -/
structure PState (N T : Type) where
  /-- the stack of open elements, current node last -/
  stack : List (Elem N)
  /-- the list of active formatting elements, most recently added entry last -/
  list : List (Entry N T)
  /-- the foster parenting flag -/
  fosterParenting : Bool := false
  /-- the form element pointer -/
  formPointer : Option N := none
  /-- the nodes the DOM is going to hand out, in order -/
  supply : List N := []
  /-- the DOM operations performed so far, oldest first -/
  log : List (Edit N T) := []

/-- what the algorithms need to know about tokens -/
structure Ctx (T : Type) where
  /-- the tag name of a (start tag) token -/
  tokName : T → Str
  /-- does the token have a `form` attribute -/
  tokHasFormAttr : T → Bool

/-! ### (j) §13.2.6.1 insert a foreign element / insert an HTML element; create an element for a token

> To **insert a foreign element**, given a token *token*, a namespace *namespace* and a boolean
> *onlyAddToElementStack*:
> 1. Let the *adjustedInsertionLocation* be the appropriate place for inserting a node.
> 2. Let *element* be the result of creating an element for the token given *token*, *namespace*,
>    and the element in which the *adjustedInsertionLocation* finds itself.
> 3. If *onlyAddToElementStack* is false, then run insert an element at the adjusted insertion
>    location with *element*.
> 4. Push *element* onto the stack of open elements so that it is the new current node.
> 5. Return *element*.
> To **insert an HTML element** given a token *token*: insert a foreign element given *token*, the
> HTML namespace, and false.

> (create an element for a token, the step that concerns the tree builder:)  If *element* is a
> form-associated element and not a form-associated custom element, the form element pointer is not
> null, there is no `template` element on the stack of open elements, *element* is either not listed
> or doesn't have a `form` attribute, and the *intendedParent* is in the same tree as the element
> pointed to by the form element pointer, then associate *element* with the form element pointed to
> by the form element pointer and set *element*'s parser inserted flag.

> (HTML §4.10.2) *form-associated elements*: `button`, `fieldset`, `input`, `object`, `output`,
> `select`, `textarea`, `img`, and form-associated custom elements.  *listed elements*: `button`,
> `fieldset`, `input`, `object`, `output`, `select`, `textarea`, and form-associated custom elements.

The "same tree" condition is the DOM's to decide; the log entry `associateForm` carries the place. -/
def formAssociatedElements : List String :=
  ["button", "fieldset", "input", "object", "output", "select", "textarea", "img"]
def listedElements : List String :=
  ["button", "fieldset", "input", "object", "output", "select", "textarea"]

section Insert
variable {N T : Type}

/-- the tree builder's part of the form-association condition -/
def associatesWithForm (n : Name) (hasFormAttr formPointerSet templateOnStack : Bool) : Bool :=
  inHtml formAssociatedElements n && formPointerSet && !templateOnStack &&
    (!inHtml listedElements n || !hasFormAttr)

/-- take the next node from the supply (`none`: the supply is exhausted) -/
def PState.newNode (st : PState N T) : Option (N × PState N T) :=
  match st.supply with
  | [] => none
  | n :: rest => some (n, { st with supply := rest })

def insertForeignElement (cx : Ctx T) (st : PState N T) (tok : T) (ns : Str) (onlyAddToElementStack : Bool) :
    Option (PState N T × Elem N) :=
  -- 1.
  (appropriatePlace st.stack st.fosterParenting none).bind fun loc =>
    -- 2.
    st.newNode.map fun (n, st) =>
    let element : Elem N := ⟨n, ⟨ns, cx.tokName tok⟩⟩
    let assoc : List (Edit N T) :=
      match st.formPointer with
      | some form =>
        if associatesWithForm element.name (cx.tokHasFormAttr tok) true
            (st.stack.any fun e => e.name.isHtml "template")
        then [.associateForm element.id form loc] else []
      | none => []
    -- 3.
    let ins : List (Edit N T) := if onlyAddToElementStack then [] else [.insert loc element.id]
    -- 4., 5.
    ({ st with stack := st.stack ++ [element],
               log := st.log ++ [.create element.id ns tok] ++ assoc ++ ins }, element)

def insertHtmlElement (cx : Ctx T) (st : PState N T) (tok : T) : Option (PState N T × Elem N) :=
  insertForeignElement cx st tok nsHtml false

/-! ### (k) §13.2.6.1 insert a character, insert a comment

> **insert a character**: 1. Let *data* be the characters passed to the algorithm, or, if no
> characters were explicitly specified, the character of the character token being processed.
> 2. Let the *adjusted insertion location* be the appropriate place for inserting a node.  3. If the
> adjusted insertion location is in a Document node, then return.  4. If there is a Text node
> immediately before the adjusted insertion location, then append *data* to that Text node's data.
> Otherwise, create a new Text node whose data is *data* … and insert the newly created node at the
> adjusted insertion location.

(The appropriate place is always inside an element or inside template contents, never in a
Document; step 4 is one `insertText` entry of the log.)

> **insert a comment**: 1. Let *data* be the data given in the comment token being processed.
> 2. If *position* was specified, then let the *adjusted insertion location* be *position*.
> Otherwise, let *adjusted insertion location* be the appropriate place for inserting a node.
> 3. Create a Comment node whose `data` attribute is set to *data* … 4. Insert the newly created
> node at the adjusted insertion location. -/
def insertCharacters (st : PState N T) (data : Str) : Option (PState N T) :=
  (appropriatePlace st.stack st.fosterParenting none).map fun loc =>
    { st with log := st.log ++ [.insertText loc data] }

def insertComment (st : PState N T) (data : Str) : Option (PState N T) :=
  (appropriatePlace st.stack st.fosterParenting none).bind fun loc =>
    st.newNode.map fun (c, st) =>
    { st with log := st.log ++ [.createComment c data, .insert loc c] }

/-- "insert a comment" with *position* = the last child of the node `x` (the `Document` object, or
the `html` element — the first element in the stack) -/
def insertCommentAsLastChildOf (st : PState N T) (x : N) (data : Str) : Option (PState N T) :=
  st.newNode.map fun (c, st) =>
    { st with log := st.log ++ [.createComment c data, .insert (.lastChildOf x) c] }

end Insert

/-! ### (l) §13.2.4.3 reconstruct the active formatting elements

> When the steps below require the UA to **reconstruct the active formatting elements**, the UA must
> perform the following steps:
> 1. If there are no entries in the list of active formatting elements, then there is nothing to
>    reconstruct; stop this algorithm.
> 2. If the last (most recently added) entry in the list of active formatting elements is a marker,
>    or if it is an element that is in the stack of open elements, then there is nothing to
>    reconstruct; stop this algorithm.
> 3. Let *entry* be the last (most recently added) element in the list of active formatting elements.
> 4. *Rewind*: If there are no entries before *entry* in the list of active formatting elements,
>    then jump to the step labeled *create*.
> 5. Let *entry* be the entry one earlier than *entry* in the list of active formatting elements.
> 6. If *entry* is neither a marker nor an element that is also in the stack of open elements, go
>    to the step labeled *rewind*.
> 7. *Advance*: Let *entry* be the element one later than *entry* in the list of active formatting
>    elements.
> 8. *Create*: Insert an HTML element for the token for which the element *entry* was created, to
>    obtain *new element*.
> 9. Replace the entry for *entry* in the list with an entry for *new element*.
> 10. If the entry for *new element* in the list of active formatting elements is not the last
>     entry in the list, return to the step labeled *advance*.

*entry* is represented by its position in the list. -/
section Reconstruct
variable {N T : Type} [DecidableEq N]

/-- "a marker, or an element that is in the stack of open elements" -/
def markerOrOpen (stack : List (Elem N)) : Entry N T → Bool
  | .marker => true
  | .element n _ => stack.any fun e => e.id == n

/-- steps 4–7, started with *entry* at position `i`: the position of the entry at which *create*
is first reached -/
def reconstructRewind (stack : List (Elem N)) (list : List (Entry N T)) : Nat → Nat
  -- 4. no entries before entry: jump to create
  | 0 => 0
  -- 5. one earlier; 6. neither marker nor open: rewind again; otherwise 7. advance (one later)
  | i + 1 => if (list[i]?).any (markerOrOpen stack) then i + 1 else reconstructRewind stack list i

/-- steps 8–10 (and 7) from position `i` on; `n` bounds the number of entries still to visit -/
def reconstructCreate (cx : Ctx T) : Nat → Nat → PState N T → Option (PState N T)
  | 0, _, st => some st
  | n + 1, i, st =>
    match st.list[i]? with
    | some (.element _ tok) =>
      -- 8.
      (insertHtmlElement cx st tok).bind fun (st1, newElement) =>
        -- 9.
        let st2 := { st1 with list := st1.list.set i (.element newElement.id tok) }
        -- 10., 7.
        if i + 1 < st2.list.length then reconstructCreate cx n (i + 1) st2 else some st2
    -- not reachable: the rewinding stops below a marker, and `i` is a position of the list
    | _ => none

def reconstructActiveFormattingElements (cx : Ctx T) (st : PState N T) : Option (PState N T) :=
  match st.list.getLast? with
  -- 1.
  | none => some st
  | some last =>
    -- 2.
    if markerOrOpen st.stack last then some st
    else
      -- 3.–7.
      let start := reconstructRewind st.stack st.list (st.list.length - 1)
      -- 8.–10.
      reconstructCreate cx (st.list.length - start) start st

/-- (a reading aid, proved in `H5V.Props.C02Algo`) the entries re-created are exactly the longest
suffix of the list that contains neither a marker nor an open element -/
def reconstructSuffixLength (stack : List (Elem N)) (list : List (Entry N T)) : Nat :=
  (list.reverse.takeWhile fun e => !markerOrOpen stack e).length

end Reconstruct

/-! ### (m) §13.2.4.3 clear the list of active formatting elements up to the last marker

> When the steps below require the UA to **clear the list of active formatting elements up to the
> last marker**, the UA must perform the following steps:
> 1. Let *entry* be the last (most recently added) entry in the list of active formatting elements.
> 2. Remove *entry* from the list of active formatting elements.
> 3. If *entry* was a marker, then stop the algorithm at this point.  The list has been cleared up
>    to the last marker.
> 4. Go to step 1.

(On a list without a marker the steps empty the list; step 1 then finds no entry and the algorithm
stops.)  The function works on the reversed list (most recent entry first). -/
section Clear
variable {N T : Type}

def clearRev : List (Entry N T) → List (Entry N T)
  | [] => []
  | entry :: rest => if entry.isMarker then rest else clearRev rest

def clearToLastMarker (list : List (Entry N T)) : List (Entry N T) := (clearRev list.reverse).reverse

end Clear

/-! ### (n) §13.2.6.4.7 "any other end tag" (in body)

> **Any other end tag** — Run these steps:
> 1. Initialize *node* to be the current node (the bottommost node of the stack).
> 2. *Loop*: If *node* is an HTML element with the same tag name as the token, then:
>    1. Generate implied end tags, except for HTML elements with the same tag name as the token.
>    2. If *node* is not the current node, then this is a parse error.
>    3. Pop all the nodes from the current node up to *node*, including *node*, then stop these steps.
> 3. Otherwise, if *node* is in the special category, then this is a parse error; ignore the token,
>    and return.
> 4. Set *node* to the previous entry in the stack of open elements.
> 5. Return to the step labeled *loop*. -/
section AnyOther
variable {N : Type}

def isSpecial (e : Elem N) : Bool := inTable TreeTables.special e.name

/-- steps 1–5 on the stack listed with the current node first: `some k` = *node* is the entry `k`
places above the current node (`k = 0`: the current node itself), `none` = the token is ignored (or
the stack is exhausted) -/
def anyOtherEndTagSearch (name : Str) : List (Elem N) → Option Nat
  | [] => none
  | node :: rest =>
    if node.name.ns == nsHtml && node.name.loc == name then some 0
    else if isSpecial node then none
    else (anyOtherEndTagSearch name rest).map (· + 1)

/-- implied end tags on a stack of `Elem`s (current node last), via `Spec.TreeAlgo.impliedEndTag` -/
def generateImpliedEndTags (except : Option Str) (stack : List (Elem N)) : List (Elem N) :=
  (stack.reverse.dropWhile fun e => TreeAlgo.impliedEndTag except e.name).reverse

/-- the stack after "any other end tag" with tag name `name` -/
def anyOtherEndTag (name : Str) (stack : List (Elem N)) : List (Elem N) :=
  match anyOtherEndTagSearch name stack.reverse with
  | none => stack
  | some k =>
    -- position of *node* in the stack
    let pos := stack.length - 1 - k
    -- 2.1 (*node* itself is excepted, so only entries below it are popped)
    let stack1 := generateImpliedEndTags (some name) stack
    -- 2.3
    stack1.take pos

end AnyOther

/-! ### (o) §13.2.6.4.7 the adoption agency algorithm

> The **adoption agency algorithm**, which takes as its only argument a token *token* for which the
> algorithm is being run, consists of the following steps:
> 1. Let *subject* be *token*'s tag name.
> 2. If the current node is an HTML element whose tag name is *subject*, and the current node is not
>    in the list of active formatting elements, then pop the current node off the stack of open
>    elements and return.
> 3. Let *outerLoopCounter* be 0.
> 4. While true:
>    1. If *outerLoopCounter* is greater than or equal to 8, then return.
>    2. Increment *outerLoopCounter* by 1.
>    3. Let *formattingElement* be the last element in the list of active formatting elements that:
>       is between the end of the list and the last marker in the list, if any, or the start of the
>       list otherwise, and has the tag name *subject*.  If there is no such element, then return
>       and instead act as described in the "any other end tag" entry above.
>    4. If *formattingElement* is not in the stack of open elements, then this is a parse error;
>       remove the element from the list, and return.
>    5. If *formattingElement* is in the stack of open elements, but the element is not in scope,
>       then this is a parse error; return.
>    6. If *formattingElement* is not the current node, this is a parse error.  (But do not return.)
>    7. Let *furthestBlock* be the topmost node in the stack of open elements that is lower in the
>       stack than *formattingElement*, and is an element in the special category.  There might not
>       be one.
>    8. If there is no *furthestBlock*, then the UA must first pop all the nodes from the bottom of
>       the stack of open elements, from the current node up to and including *formattingElement*,
>       then remove *formattingElement* from the list of active formatting elements, and finally
>       return.
>    9. Let *commonAncestor* be the element immediately above *formattingElement* in the stack of
>       open elements.
>    10. Let a bookmark note the position of *formattingElement* in the list of active formatting
>        elements relative to the elements on either side of it in the list.
>    11. Let *node* and *lastNode* be *furthestBlock*.
>    12. Let *innerLoopCounter* be 0.
>    13. While true:
>        1. Increment *innerLoopCounter* by 1.
>        2. Let *node* be the element immediately above *node* in the stack of open elements, or if
>           *node* is no longer in the stack of open elements (e.g. because it got removed by this
>           algorithm), the element that was immediately above *node* in the stack of open elements
>           before *node* was removed.
>        3. If *node* is *formattingElement*, then break.
>        4. If *innerLoopCounter* is greater than 3 and *node* is in the list of active formatting
>           elements, then remove *node* from the list of active formatting elements.
>        5. If *node* is not in the list of active formatting elements, then remove *node* from the
>           stack of open elements and continue.
>        6. Create an element for the token for which the element *node* was created, in the HTML
>           namespace, with *commonAncestor* as the intended parent; replace the entry for *node* in
>           the list of active formatting elements with an entry for the new element, replace the
>           entry for *node* in the stack of open elements with an entry for the new element, and
>           let *node* be the new element.
>        7. If *lastNode* is *furthestBlock*, then move the aforementioned bookmark to be
>           immediately after the new *node* in the list of active formatting elements.
>        8. Append *lastNode* to *node*.
>        9. Set *lastNode* to *node*.
>    14. Insert whatever *lastNode* ended up being in the previous step at the appropriate place for
>        inserting a node, but using *commonAncestor* as the override target.
>    15. Create an element for the token for which *formattingElement* was created, in the HTML
>        namespace, with *furthestBlock* as the intended parent.
>    16. Take all of the child nodes of *furthestBlock* and append them to the element created in
>        the last step.
>    17. Append that new element to *furthestBlock*.
>    18. Remove *formattingElement* from the list of active formatting elements, and insert the new
>        element into the list of active formatting elements at the position of the aforementioned
>        bookmark.
>    19. Remove *formattingElement* from the stack of open elements, and insert the new element into
>        the stack of open elements immediately below the position of *furthestBlock* in that stack.

Representation.  Positions in the stack and in the list are indices (0 = topmost / oldest).  The
*node* of the inner loop is the index `idx` of the entry under inspection: "the element immediately
above *node*, or … the element that was immediately above *node* before *node* was removed" is the
entry at `idx - 1` in both cases.  The bookmark "relative to the elements on either side" is either
*the place of formattingElement itself* (`atFormattingElement`: the new element takes its place) or
*immediately after* a given entry (`after x`).  "Append *lastNode* to *node*" and "insert *lastNode*
at …" move a node that has a parent: a `remove` entry precedes the `insert` entry in the log. -/
section Adoption
variable {N T : Type} [DecidableEq N]

inductive Bookmark (N : Type)
  | atFormattingElement
  | after (x : N)
deriving DecidableEq, Repr

/-- position of the first entry of the list for the node `x` -/
def listPos (x : N) : List (Entry N T) → Option Nat
  | [] => none
  | .marker :: rest => (listPos x rest).map (· + 1)
  | .element n _ :: rest => if n = x then some 0 else (listPos x rest).map (· + 1)

/-- position of the last (lowest) entry of the stack for the node `x` -/
def stackPos (x : N) (stack : List (Elem N)) : Option Nat := lastPos (fun e => e.id == x) stack

/-- step 4.3 on the reversed list (most recent entry first); `len` = number of entries still
ahead, so that the entry under inspection has position `len - 1` in the list -/
def findFormattingRev (cx : Ctx T) (subject : Str) : List (Entry N T) → Nat → Option (Nat × N × T)
  | [], _ => none
  | .marker :: _, _ => none
  | .element n tok :: rest, len =>
    if cx.tokName tok == subject then some (len - 1, n, tok) else findFormattingRev cx subject rest (len - 1)

/-- step 4.3: position, node and token of *formattingElement* -/
def findFormattingElement (cx : Ctx T) (subject : Str) (list : List (Entry N T)) : Option (Nat × N × T) :=
  findFormattingRev cx subject list.reverse list.length

/-- §13.2.4.2 "has an element *target node* in a specific scope" (see `Spec.TreeAlgo.hasInScope`),
for a target given by identity; `stack`: current node **first** -/
def hasNodeInScope (target : N) (scopeList : Name → Bool) : List (Elem N) → Bool
  | [] => false
  | node :: rest =>
    if node.id = target then true else if scopeList node.name then false else hasNodeInScope target scopeList rest

/-- step 4.7: position and node of *furthestBlock* (`pos`: the position of *formattingElement*) -/
def furthestBlock (stack : List (Elem N)) (pos : Nat) : Option (Nat × Elem N) :=
  let below := stack.drop (pos + 1)
  (below.findIdx? isSpecial).bind fun j => (below[j]?).map fun e => (pos + 1 + j, e)

/-- steps 4.13.1–4.13.9.  `idx`: position of *node* **before** step 2 moves it up;
`counter`: *innerLoopCounter*; returns the state, *lastNode* and the bookmark at the `break` -/
def innerLoop (cx : Ctx T) (formattingElement furthestBlock : N) :
    Nat → Nat → N → Bookmark N → PState N T → Option (PState N T × N × Bookmark N)
  -- 2. there is nothing above the topmost entry (not reachable: formattingElement is above)
  | 0, _, _, _, _ => none
  | idx + 1, counter, lastNode, bookmark, st =>
    -- 1.
    let counter := counter + 1
    -- 2.
    match st.stack[idx]? with
    | none => none
    | some node =>
      -- 3.
      if node.id = formattingElement then some (st, lastNode, bookmark)
      else
        match TreeAlgo.innerLoopAction counter (listPos node.id st.list).isSome, listPos node.id st.list with
        -- 4. and then 5.
        | .removeFromBoth, some i =>
          innerLoop cx formattingElement furthestBlock idx counter lastNode bookmark
            { st with list := st.list.eraseIdx i, stack := st.stack.eraseIdx idx }
        -- 6.–9.
        | .replaceWithNewElement, some i =>
          match st.list[i]? with
          | some (.element _ tok) =>
            -- 6.
            st.newNode.bind fun (n, st) =>
            let newNode : Elem N := ⟨n, ⟨nsHtml, cx.tokName tok⟩⟩
            -- 7.
            let bookmark := if lastNode = furthestBlock then Bookmark.after newNode.id else bookmark
            -- 8., 9.
            innerLoop cx formattingElement furthestBlock idx counter newNode.id bookmark
              { st with list := st.list.set i (.element newNode.id tok),
                        stack := st.stack.set idx newNode,
                        log := st.log ++ [.create newNode.id nsHtml tok, .remove lastNode,
                                          .insert (.lastChildOf newNode.id) lastNode] }
          | _ => none
        -- 5.
        | _, _ =>
          innerLoop cx formattingElement furthestBlock idx counter lastNode bookmark
            { st with stack := st.stack.eraseIdx idx }

/-- the result of one round of the outer loop -/
inductive Round (N T : Type)
  /-- "return" -/
  | done (st : PState N T)
  /-- "return and instead act as described in the 'any other end tag' entry" -/
  | anyOtherEndTag (st : PState N T)
  /-- go round again -/
  | again (st : PState N T)

/-- insert `x` into the list immediately after the first entry for the node `y` -/
def insertAfter (y : N) (x : Entry N T) (list : List (Entry N T)) : Option (List (Entry N T)) :=
  (listPos y list).map fun i => list.insertIdx (i + 1) x

/-- steps 4.14–4.19 (`st`, `lastNode`, `bookmark`: as the inner loop left them) -/
def finishRound (cx : Ctx T) (fe : N) (feTok : T) (fb : Elem N) (commonAncestor : Elem N)
    (st : PState N T) (lastNode : N) (bookmark : Bookmark N) : Option (PState N T) :=
  -- 14.
  (appropriatePlace st.stack st.fosterParenting (some commonAncestor)).bind fun loc =>
    -- 15.
    st.newNode.bind fun (n, st) =>
    let newElement : Elem N := ⟨n, ⟨nsHtml, cx.tokName feTok⟩⟩
    -- 14.–17.
    let log : List (Edit N T) :=
      st.log ++ [Edit.remove lastNode, Edit.insert loc lastNode,
                 Edit.create newElement.id nsHtml feTok, Edit.moveChildren fb.id newElement.id,
                 Edit.insert (.lastChildOf fb.id) newElement.id]
    -- 18.
    let newEntry : Entry N T := .element newElement.id feTok
    let list18 : Option (List (Entry N T)) :=
      match bookmark with
      | .atFormattingElement => (listPos fe st.list).map fun i => st.list.set i newEntry
      | .after x => (listPos fe st.list).bind fun i => insertAfter x newEntry (st.list.eraseIdx i)
    list18.bind fun list =>
      -- 19.
      (stackPos fe st.stack).bind fun p =>
        let stack := st.stack.eraseIdx p
        (stack.findIdx? (fun e => e.id == fb.id)).map fun j =>
          { st with log := log, list := list,
                    stack := stack.insertIdx (j + 1) newElement }

/-- steps 4.3–4.19 -/
def outerRound (cx : Ctx T) (subject : Str) (st : PState N T) : Option (Round N T) :=
  -- 3.
  match findFormattingElement cx subject st.list with
  | none => some (.anyOtherEndTag st)
  | some (fePos, fe, feTok) =>
    -- 4.
    match stackPos fe st.stack with
    | none => some (.done { st with list := st.list.eraseIdx fePos })
    | some pos =>
      -- 5.
      if !hasNodeInScope fe TreeAlgo.defaultScopeList st.stack.reverse then some (.done st)
      else
        -- 6. (parse error only)  7.
        match furthestBlock st.stack pos with
        -- 8.
        | none => some (.done { st with stack := st.stack.take pos, list := st.list.eraseIdx fePos })
        | some (fbPos, fb) =>
          -- 9.
          if pos = 0 then none
          else
            (st.stack[pos - 1]?).bind fun commonAncestor =>
              -- 10.–13.
              (innerLoop cx fe fb.id fbPos 0 fb.id .atFormattingElement st).bind fun r =>
                -- 14.–19.
                (finishRound cx fe feTok fb commonAncestor r.1 r.2.1 r.2.2).map Round.again

/-- step 4 -/
def outerLoop (cx : Ctx T) (subject : Str) : Nat → PState N T → Option (PState N T × Bool)
  -- 4.1
  | 0, st => some (st, false)
  -- 4.2
  | n + 1, st =>
    match outerRound cx subject st with
    | none => none
    | some (.done st) => some (st, false)
    | some (.anyOtherEndTag st) => some (st, true)
    | some (.again st) => outerLoop cx subject n st

/-- steps 1–4; the Boolean says "instead act as described in the 'any other end tag' entry" -/
def adoptionAgency (cx : Ctx T) (subject : Str) (st : PState N T) : Option (PState N T × Bool) :=
  -- 2.
  match st.stack.getLast? with
  | none => none
  | some cur =>
    if cur.name.ns == nsHtml && cur.name.loc == subject && (listPos cur.id st.list).isNone then
      some ({ st with stack := st.stack.dropLast }, false)
    -- 3., 4.
    else outerLoop cx subject TreeTables.adoptionOuterLimit st

/-- the adoption agency algorithm together with the fallback of step 4.3 -/
def adoptionAgencyWithFallback (cx : Ctx T) (subject : Str) (st : PState N T) : Option (PState N T) :=
  (adoptionAgency cx subject st).map fun (st, anyOther) =>
    if anyOther then { st with stack := anyOtherEndTag subject st.stack } else st

end Adoption

/-! ### (p) §13.2.6.4.9 / .13 / .14 clearing the stack back to a table / table body / table row context

> **clear the stack back to a table context** … means that the UA must, while the current node is
> not a `table`, `template`, or `html` element, pop elements from the stack of open elements.
> **clear the stack back to a table body context**: … while the current node is not a `tbody`,
> `tfoot`, `thead`, `template`, or `html` element, pop elements from the stack of open elements.
> **clear the stack back to a table row context**: … while the current node is not a `tr`,
> `template`, or `html` element, pop elements from the stack of open elements. -/
section Tables
variable {N : Type}

/-- pop while the current node (the last entry) is not one of `context` -/
def clearStackBackTo (context : List String) (stack : List (Elem N)) : List (Elem N) :=
  (stack.reverse.dropWhile fun e => !inHtml context e.name).reverse

def clearStackBackToTableContext (stack : List (Elem N)) : List (Elem N) :=
  clearStackBackTo TreeTables.tableContext stack
def clearStackBackToTableBodyContext (stack : List (Elem N)) : List (Elem N) :=
  clearStackBackTo TreeTables.tableBodyContext stack
def clearStackBackToTableRowContext (stack : List (Elem N)) : List (Elem N) :=
  clearStackBackTo TreeTables.tableRowContext stack

/-! ### (q) §13.2.6.4.7 close a p element, §13.2.6.4.15 close the cell

> When the steps above say the UA is to **close a p element**, it means that the UA must run the
> following steps: 1. Generate implied end tags, except for `p` elements.  2. If the current node is
> not a `p` element, then this is a parse error.  3. Pop elements from the stack of open elements
> until a `p` element has been popped from the stack.

> Where the steps above say to **close the cell**, they mean to run the following algorithm:
> 1. Generate implied end tags.  2. If the current node is not now a `td` element or a `th` element,
> then this is a parse error.  3. Pop elements from the stack of open elements until a `td` element
> or a `th` element has been popped from the stack.  4. Clear the list of active formatting elements
> up to the last marker.  5. Switch the insertion mode to "in row". -/

/-- "pop elements from the stack of open elements until a … element has been popped" -/
def popUntilPopped (p : Elem N → Bool) (stack : List (Elem N)) : List (Elem N) :=
  ((stack.reverse.dropWhile fun e => !p e).drop 1).reverse

def closePElement (stack : List (Elem N)) : List (Elem N) :=
  popUntilPopped (fun e => e.name.isHtml "p") (generateImpliedEndTags (some "p".toList) stack)

/-- steps 1–4 of "close the cell" (step 5 is the caller's mode switch) -/
def closeTheCell {T : Type} (st : PState N T) : PState N T :=
  { st with
    stack := popUntilPopped (fun e => e.name.isHtml "td" || e.name.isHtml "th") (generateImpliedEndTags none st.stack),
    list := clearToLastMarker st.list }

end Tables

end H5V.Spec.TreeAlgo2
