import H5V.Spec.TreeModes1
/-!
`H5V.Spec.TreeModes2` — part 2 of `H5V.Spec.TreeModes` (see the header of `TreeModes1`):
§13.2.6.4.7 the "in body" insertion mode.
-/
namespace H5V.Spec.TreeModes
open H5V.Spec
open H5V.Spec.TreeAlgo (Str Name nsHtml nsMathml nsSvg DocMode inHtml)
open H5V.Spec.TreeAlgo2 (Elem Entry PState Ctx Edit Place)

section
variable {N : Type} [DecidableEq N]

/-! ### pieces used by several clauses -/

/-- > **An end-of-file token** ("in template") — If there is no `template` element on the stack of
> open elements, then stop parsing.  (fragment case)  Otherwise, this is a parse error.  Pop elements
> from the stack of open elements until a `template` element has been popped from the stack.  Clear
> the list of active formatting elements up to the last marker.  Pop the current template insertion
> mode off the stack of template insertion modes.  Reset the insertion mode appropriately.
> Reprocess the token.

(defined here because the end-of-file clause of "in body" refers to it) -/
def inTemplateEof (cfg : Config N) (s : State N) : M (Step N) := do
  if !s.templateOnStack then pure (.done (stopParsing s))
  else
    let s := s.err "in template: end of file"
    let s := popUntilPopped s "template"
    let s := s.clearToLastMarker
    let s := { s with templateModes := s.templateModes.dropLast }
    let s ← resetInsertionMode cfg s
    pure (.reprocess s)

/-- "if there is a node in the stack of open elements that is not either a dd element, a dt element,
an li element, an optgroup element, an option element, a p element, an rb element, an rp element, an
rt element, an rtc element, a tbody element, a td element, a tfoot element, a th element, a thead
element, a tr element, the body element, or the html element, then this is a parse error" -/
def bodyEndCheck (s : State N) (what : String) : State N :=
  if s.p.stack.any (fun e => !inHtml TreeTables.bodyEndOk e.name) then s.err what else s

/-- "insert a foreign element for the token, with `ns` and false"; remembers a MathML
`annotation-xml` element "whose start tag token had an attribute with the name "encoding" whose
value was an ASCII case-insensitive match for the string "text/html" / "application/xhtml+xml"" -/
def insertForeign (s : State N) (t : Tag) (kind : TreeAlgo.ForeignKind) (ns : Str) : M (State N × Elem N) := do
  let r ← req (TreeAlgo2.insertForeignElement cx s.p (t.etokForeign kind) ns false)
    "insert a foreign element: no place / no node"
  let s := { s with p := r.1 }
  let ip := ns == nsMathml && t.is "annotation-xml" &&
    (match t.attr? "encoding" with
     | some v => TreeAlgo.eqCI v "text/html" || TreeAlgo.eqCI v "application/xhtml+xml"
     | none => false)
  pure (if ip then { s with annotationHtml := s.annotationHtml ++ [r.2.id] } else s, r.2)

/-- remove the node `x` from the stack of open elements -/
def removeFromStack (s : State N) (x : N) : State N :=
  match TreeAlgo2.stackPos x s.p.stack with
  | some i => s.setStack (s.p.stack.eraseIdx i)
  | none => s

/-- remove the entry for the node `x` from the list of active formatting elements -/
def removeFromList (s : State N) (x : N) : State N :=
  match TreeAlgo2.listPos x s.p.list with
  | some i => s.setList (s.p.list.eraseIdx i)
  | none => s

/-- "run the adoption agency algorithm for the token" (with the fall-back of its step 4.3 to the
"any other end tag" steps) -/
def adoptionAgency (s : State N) (subject : Str) : M (State N) := do
  let p ← req (TreeAlgo2.adoptionAgencyWithFallback cx subject s.p) "adoption agency algorithm"
  pure { s with p := p }

/-- the `li` / `dd`,`dt` loops: steps 2–5.  `stack`: current node first.  `some n`: *node* is an
element with one of `names` (`n` its tag name); `none`: *done* was reached some other way. -/
def listItemLoop (names : List String) : List (Elem N) → Option Str
  | [] => none
  | node :: rest =>
    if inHtml names node.name then some node.name.loc
    else if TreeAlgo2.isSpecial node && !inHtml ["address", "div", "p"] node.name then none
    else listItemLoop names rest

/-- > (li) 1. Set the frameset-ok flag to "not ok".  2. Initialize *node* to be the current node (the
> bottommost node of the stack).  3. *Loop*: If *node* is an `li` element, then run these substeps:
> 1. Generate implied end tags, except for `li` elements.  2. If the current node is not an `li`
> element, then this is a parse error.  3. Pop elements from the stack of open elements until an `li`
> element has been popped from the stack.  4. Jump to the step labeled *done* below.
> 4. If *node* is in the special category, but is not an `address`, `div`, or `p` element, then jump
> to the step labeled *done* below.  5. Otherwise, set *node* to the previous entry in the stack of
> open elements and return to the step labeled *loop*.  6. *Done*: If the stack of open elements has
> a `p` element in button scope, then close a `p` element.  7. Finally, insert an HTML element for
> the token.
> (dd, dt) the same with "If *node* is a `dd` element … except for `dd` elements …; If *node* is a
> `dt` element … except for `dt` elements …". -/
def inBodyListItem (cfg : Config N) (s : State N) (t : Tag) (names : List String) : M (Step N) := do
  let s := s.notOk
  let s :=
    match listItemLoop names s.p.stack.reverse with
    | some n =>
      let s := genImpliedExceptStr s n
      let s := if s.cur.any (fun e => isNamed n e.name) then s else s.err "in body: li/dd/dt, current node differs"
      popUntilPoppedStr s n
    | none => s
  let s := closePIfInButtonScope cfg s
  .done <$> insertHtml' s t

/-- > (block end tags) If the stack of open elements does not have an element in scope that is an
> HTML element with the same tag name as that of the token, then this is a parse error; ignore the
> token.  Otherwise, run these steps: 1. Generate implied end tags.  2. If the current node is not
> an HTML element with the same tag name as that of the token, then this is a parse error.  3. Pop
> elements from the stack of open elements until an HTML element with the same tag name as the token
> has been popped from the stack. -/
def inBodyBlockEnd (cfg : Config N) (s : State N) (t : Tag) : Step N :=
  if !hasStrInScope cfg s t.name then .done (s.err "in body: end tag without element in scope")
  else
    let s := genImplied s
    let s := if s.cur.any (fun e => isNamed t.name e.name) then s else s.err "in body: end tag, current node differs"
    .done (popUntilPoppedStr s t.name)

/-- > **An end tag whose tag name is "form"** — If there is no `template` element on the stack of
> open elements, then run these substeps: 1. Let *node* be the element that the form element pointer
> is set to, or null if it is not set to an element.  2. Set the form element pointer to null.
> 3. If *node* is null or if the stack of open elements does not have *node* in scope, then this is a
> parse error; return and ignore the token.  4. Generate implied end tags.  5. If the current node is
> not *node*, then this is a parse error.  6. Remove *node* from the stack of open elements.
> If there *is* a `template` element on the stack of open elements, then run these substeps instead:
> 1. If the stack of open elements does not have a `form` element in scope, then this is a parse
> error; return and ignore the token.  2. Generate implied end tags.  3. If the current node is not a
> `form` element, then this is a parse error.  4. Pop elements from the stack of open elements until
> a `form` element has been popped from the stack. -/
def inBodyEndForm (cfg : Config N) (s : State N) : Step N :=
  if !s.templateOnStack then
    let node := s.p.formPointer
    let s := s.setForm none
    match node with
    | none => .done (s.err "in body: form end tag, no form element pointer")
    | some node =>
      if !hasNodeInScope cfg s node then .done (s.err "in body: form end tag, form not in scope")
      else
        let s := genImplied s
        let s := if s.cur.any (fun e => e.id = node) then s else s.err "in body: form end tag, current node is not the form"
        .done (removeFromStack s node)
  else
    if !hasInScope cfg s "form" then .done (s.err "in body: form end tag, no form in scope")
    else
      let s := genImplied s
      let s := if s.curIs "form" then s else s.err "in body: form end tag, current node is not form"
      .done (popUntilPopped s "form")

/-- > **A start tag whose tag name is "a"** — If the list of active formatting elements contains an
> `a` element between the end of the list and the last marker on the list (or the start of the list
> if there is no marker on the list), then this is a parse error; run the adoption agency algorithm
> for the token, then remove that element from the list of active formatting elements and the stack
> of open elements if the adoption agency algorithm didn't already remove it (it might not have if
> the element is not in table scope).
> Reconstruct the active formatting elements, if any.
> Insert an HTML element for the token.  Push onto the list of active formatting elements that element. -/
def inBodyStartA (s : State N) (t : Tag) : M (Step N) := do
  let s ← match TreeAlgo2.findFormattingElement cx "a".toList s.p.list with
    | some (_, a, _) => do
      let s := s.err "in body: a start tag with an a element in the list"
      let s ← adoptionAgency s t.name
      pure (removeFromStack (removeFromList s a) a)
    | none => pure s
  let s ← reconstruct s
  let r ← insertHtml s t
  pure (.done (pushFormatting r.1 r.2 t))

/-- > **A start tag whose tag name is "nobr"** — Reconstruct the active formatting elements, if any.
> If the stack of open elements has a `nobr` element in scope, then this is a parse error; run the
> adoption agency algorithm for the token, then once again reconstruct the active formatting
> elements, if any.
> Insert an HTML element for the token.  Push onto the list of active formatting elements that element. -/
def inBodyStartNobr (cfg : Config N) (s : State N) (t : Tag) : M (Step N) := do
  let s ← reconstruct s
  let s ← if hasInScope cfg s "nobr" then do
      let s := s.err "in body: nobr start tag with nobr in scope"
      let s ← adoptionAgency s t.name
      reconstruct s
    else pure s
  let r ← insertHtml s t
  pure (.done (pushFormatting r.1 r.2 t))

/-- > **A start tag whose tag name is "math"** — Reconstruct the active formatting elements, if any.
> Adjust MathML attributes for the token.  (This fixes the case of MathML attributes that are not
> all lowercase.)  Adjust foreign attributes for the token.  (This fixes the use of namespaced
> attributes, in particular XLink.)  Insert a foreign element for the token, with MathML namespace
> and false.  If the token has its self-closing flag set, pop the current node off the stack of open
> elements and acknowledge the token's self-closing flag.
> **A start tag whose tag name is "svg"** — … Adjust SVG attributes for the token.  (This fixes the
> case of SVG attributes that are not all lowercase.)  Adjust foreign attributes for the token.
> Insert a foreign element for the token, with SVG namespace and false.  If the token has its
> self-closing flag set, pop the current node … and acknowledge the token's self-closing flag. -/
def inBodyStartForeignRoot (s : State N) (t : Tag) (kind : TreeAlgo.ForeignKind) (ns : Str) : M (Step N) := do
  let s ← reconstruct s
  let r ← insertForeign s t kind ns
  let s := r.1
  pure (.done (if t.selfClosing then s.pop.ack t else s))

/-! ### the `select` family, `Edition.selectModes` (the text before 2025) -/

/-- > **A start tag whose tag name is "select"** — Reconstruct the active formatting elements, if
> any.  Insert an HTML element for the token.  Set the frameset-ok flag to "not ok".  If the
> insertion mode is one of "in table", "in caption", "in table body", "in row", or "in cell", then
> switch the insertion mode to "in select in table".  Otherwise, switch the insertion mode to "in select". -/
def inBodyStartSelectLegacy (s : State N) (t : Tag) : M (Step N) := do
  let s ← reconstruct s
  let s ← insertHtml' s t
  let s := s.notOk
  let inTableish := s.mode == .inTable || s.mode == .inCaption || s.mode == .inTableBody ||
    s.mode == .inRow || s.mode == .inCell
  pure (.done (s.setMode (if inTableish then .inSelectInTable else .inSelect)))

/-- > **A start tag whose tag name is one of: "optgroup", "option"** — If the current node is an
> `option` element, then pop the current node off the stack of open elements.  Reconstruct the
> active formatting elements, if any.  Insert an HTML element for the token. -/
def inBodyStartOptionLegacy (s : State N) (t : Tag) : M (Step N) := do
  let s := if s.curIs "option" then s.pop else s
  let s ← reconstruct s
  .done <$> insertHtml' s t

/-! ### the `select` family, `Edition.customizableSelect` (2025; recollection, `≈` throughout) -/

/-- "the parser was created as part of the HTML fragment parsing algorithm (fragment case) and the
context element is a `select` element" -/
def contextIsSelect (cfg : Config N) : Bool := cfg.context.any fun e => e.name.isHtml "select"

/-- > (2025, ≈) **A start tag whose tag name is "select"** — If the parser was created as part of
> the HTML fragment parsing algorithm (fragment case) and the context element is a `select` element,
> then this is a parse error; ignore the token.
> Otherwise, if the stack of open elements has a `select` element in scope, then: 1. Parse error.
> 2. Pop elements from the stack of open elements until a `select` element has been popped from the stack.
> Otherwise: Reconstruct the active formatting elements, if any.  Insert an HTML element for the
> token.  Set the frameset-ok flag to "not ok". -/
def inBodyStartSelect2025 (cfg : Config N) (s : State N) (t : Tag) : M (Step N) := do
  if contextIsSelect cfg then pure (.done (s.err "in body: select start tag in a select fragment"))
  else if hasInScope cfg s "select" then
    pure (.done (popUntilPopped (s.err "in body: select start tag inside select") "select"))
  else
    let s ← reconstruct s
    let s ← insertHtml' s t
    pure (.done s.notOk)

/-- > (2025, ≈) **A start tag whose tag name is "option"** — If the stack of open elements has a
> `select` element in scope, then: 1. Generate implied end tags except for `optgroup` elements.
> 2. If the stack of open elements has an `option` element in scope, then this is a parse error.
> Otherwise, if the current node is an `option` element, then pop the current node off the stack of
> open elements.
> Reconstruct the active formatting elements, if any.  Insert an HTML element for the token. -/
def inBodyStartOption2025 (cfg : Config N) (s : State N) (t : Tag) : M (Step N) := do
  let s :=
    if hasInScope cfg s "select" then
      let s := genImplied s (some "optgroup")
      if hasInScope cfg s "option" then s.err "in body: option start tag with option in scope" else s
    else if s.curIs "option" then s.pop else s
  let s ← reconstruct s
  .done <$> insertHtml' s t

/-- > (2025, ≈) **A start tag whose tag name is "optgroup"** — If the stack of open elements has a
> `select` element in scope, then: 1. Generate implied end tags.  2. If the stack of open elements
> has an `option` element in scope or has an `optgroup` element in scope, then this is a parse error.
> Otherwise, if the current node is an `option` element, then pop the current node off the stack of
> open elements.
> Reconstruct the active formatting elements, if any.  Insert an HTML element for the token. -/
def inBodyStartOptgroup2025 (cfg : Config N) (s : State N) (t : Tag) : M (Step N) := do
  let s :=
    if hasInScope cfg s "select" then
      let s := genImplied s
      if hasInScope cfg s "option" || hasInScope cfg s "optgroup" then
        s.err "in body: optgroup start tag with option/optgroup in scope" else s
    else if s.curIs "option" then s.pop else s
  let s ← reconstruct s
  .done <$> insertHtml' s t

/-- > **A start tag whose tag name is "hr"** — If the stack of open elements has a `p` element in
> button scope, then close a `p` element.
> (2025, ≈) If the stack of open elements has a `select` element in scope, then: 1. Generate implied
> end tags.  2. If the stack of open elements has an `option` element in scope or has an `optgroup`
> element in scope, then this is a parse error.
> Insert an HTML element for the token.  Immediately pop the current node off the stack of open
> elements.  Acknowledge the token's self-closing flag, if it is set.  Set the frameset-ok flag to
> "not ok". -/
def inBodyStartHr (cfg : Config N) (s : State N) (t : Tag) : M (Step N) := do
  let s := closePIfInButtonScope cfg s
  let s :=
    if cfg.edition == .customizableSelect && hasInScope cfg s "select" then
      let s := genImplied s
      if hasInScope cfg s "option" || hasInScope cfg s "optgroup" then
        s.err "in body: hr start tag with option/optgroup in scope" else s
    else s
  let s ← insertVoid s t
  pure (.done s.notOk)

/-- > **A start tag whose tag name is "input"** —
> (2025, ≈) If the parser was created as part of the HTML fragment parsing algorithm (fragment case)
> and the context element is a `select` element, then this is a parse error; ignore the token.
> (2025, ≈) If the stack of open elements has a `select` element in scope, then: 1. Parse error.
> 2. Pop elements from the stack of open elements until a `select` element has been popped from the stack.
> Reconstruct the active formatting elements, if any.  Insert an HTML element for the token.
> Immediately pop the current node off the stack of open elements.  Acknowledge the token's
> self-closing flag, if it is set.  If the token does not have an attribute with the name "type", or
> if it does, but that attribute's value is not an ASCII case-insensitive match for the string
> "hidden", then: set the frameset-ok flag to "not ok". -/
def inBodyStartInput (cfg : Config N) (s : State N) (t : Tag) : M (Step N) := do
  if cfg.edition == .customizableSelect && contextIsSelect cfg then
    pure (.done (s.err "in body: input start tag in a select fragment"))
  else
    let s :=
      if cfg.edition == .customizableSelect && hasInScope cfg s "select" then
        popUntilPopped (s.err "in body: input start tag inside select") "select"
      else s
    let s ← reconstruct s
    let s ← insertVoid s t
    pure (.done (if t.typeIsHidden then s else s.notOk))

/-! ### the start tags -/

def blockStart : List String :=
  ["address", "article", "aside", "blockquote", "center", "details", "dialog", "dir", "div", "dl",
   "fieldset", "figcaption", "figure", "footer", "header", "hgroup", "main", "menu", "nav", "ol", "p",
   "search", "section", "summary", "ul"]

def blockEnd : List String :=
  ["address", "article", "aside", "blockquote", "button", "center", "details", "dialog", "dir", "div",
   "dl", "fieldset", "figcaption", "figure", "footer", "header", "hgroup", "listing", "main", "menu",
   "nav", "ol", "pre", "search", "section", "summary", "ul"]

def formattingStart : List String :=
  ["b", "big", "code", "em", "font", "i", "s", "small", "strike", "strong", "tt", "u"]

def formattingEnd : List String :=
  ["a", "b", "big", "code", "em", "font", "i", "nobr", "s", "small", "strike", "strong", "tt", "u"]

/-- the start tag clauses of "in body" except `image` (see `inBodyStartTag`) -/
def inBodyStartTagCore (cfg : Config N) (s : State N) (t : Tag) : M (Step N) :=
  /- > **A start tag whose tag name is "html"** -/
  if t.is "html" then inBodyStartHtml s t
  /- > **A start tag whose tag name is one of: "base", "basefont", "bgsound", "link", "meta",
     > "noframes", "script", "style", "template", "title"; An end tag whose tag name is "template"**
     > — Process the token using the rules for the "in head" insertion mode. -/
  else if t.isOneOf ["base", "basefont", "bgsound", "link", "meta", "noframes", "script", "style",
      "template", "title"] then inHead cfg s (.startTag t)
  /- > **A start tag whose tag name is "body"** — Parse error.  If the stack of open elements has
     > only one element on it, if the second element on the stack of open elements is not a `body`
     > element, or if there is a `template` element on the stack of open elements, then ignore the
     > token.  (fragment case or there is a template element on the stack)  Otherwise, set the
     > frameset-ok flag to "not ok"; then, for each attribute on the token, check to see if the
     > attribute is already present on the `body` element (the second element) on the stack of open
     > elements, and if it is not, add the attribute and its corresponding value to that element. -/
  else if t.is "body" then
    let s := s.err "in body: body start tag"
    match s.p.stack[1]? with
    | some body =>
      if !body.name.isHtml "body" || s.templateOnStack then pure (.done s)
      else pure (.done (s.notOk.xop (.addMissingAttributes body.id t.attrs)))
    | none => pure (.done s)
  /- > **A start tag whose tag name is "frameset"** — Parse error.  If the stack of open elements
     > has only one element on it, or if the second element on the stack of open elements is not a
     > `body` element, then ignore the token.  (fragment case or there is a template element on the
     > stack)  If the frameset-ok flag is set to "not ok", ignore the token.  Otherwise, run the
     > following steps: 1. Remove the second element on the stack of open elements from its parent
     > node, if it has one.  2. Pop all the nodes from the bottom of the stack of open elements, from
     > the current node up to, but not including, the root `html` element.  3. Insert an HTML
     > element for the token.  4. Switch the insertion mode to "in frameset". -/
  else if t.is "frameset" then
    let s := s.err "in body: frameset start tag"
    match s.p.stack[1]? with
    | some body =>
      if !body.name.isHtml "body" then pure (.done s)
      else if !s.framesetOk then pure (.done s)
      else do
        let s := { s with p := { s.p with log := s.p.log ++ [Edit.remove body.id] } }
        let s := s.setStack (s.p.stack.take 1)
        let s ← insertHtml' s t
        pure (.done (s.setMode .inFrameset))
    | none => pure (.done s)
  /- > **A start tag whose tag name is one of: "address", "article", "aside", "blockquote", "center",
     > "details", "dialog", "dir", "div", "dl", "fieldset", "figcaption", "figure", "footer",
     > "header", "hgroup", "main", "menu", "nav", "ol", "p", "search", "section", "summary", "ul"** —
     > If the stack of open elements has a `p` element in button scope, then close a `p` element.
     > Insert an HTML element for the token. -/
  else if t.isOneOf blockStart then .done <$> insertHtml' (closePIfInButtonScope cfg s) t
  /- > **A start tag whose tag name is one of: "h1", "h2", "h3", "h4", "h5", "h6"** — If the stack
     > of open elements has a `p` element in button scope, then close a `p` element.  If the current
     > node is an HTML element whose tag name is one of "h1", "h2", "h3", "h4", "h5", or "h6", then
     > this is a parse error; pop the current node off the stack of open elements.  Insert an HTML
     > element for the token. -/
  else if t.isOneOf TreeTables.heading then
    let s := closePIfInButtonScope cfg s
    let s := if s.curIn TreeTables.heading then (s.err "in body: heading inside heading").pop else s
    .done <$> insertHtml' s t
  /- > **A start tag whose tag name is one of: "pre", "listing"** — If the stack of open elements
     > has a `p` element in button scope, then close a `p` element.  Insert an HTML element for the
     > token.  If the next token is a U+000A LINE FEED (LF) character token, then ignore that token
     > and move on to the next one.  (Newlines at the start of `pre` blocks are ignored as an
     > authoring convenience.)  Set the frameset-ok flag to "not ok". -/
  else if t.isOneOf ["pre", "listing"] then do
    let s ← insertHtml' (closePIfInButtonScope cfg s) t
    pure (.done { s with ignoreLf := true, framesetOk := false })
  /- > **A start tag whose tag name is "form"** — If the form element pointer is not null, and there
     > is no `template` element on the stack of open elements, then this is a parse error; ignore the
     > token.  Otherwise: If the stack of open elements has a `p` element in button scope, then
     > close a `p` element.  Insert an HTML element for the token, and, if there is no `template`
     > element on the stack of open elements, set the form element pointer to point to the element
     > created. -/
  else if t.is "form" then
    if s.p.formPointer.isSome && !s.templateOnStack then pure (.done (s.err "in body: nested form"))
    else do
      let r ← insertHtml (closePIfInButtonScope cfg s) t
      pure (.done (if r.1.templateOnStack then r.1 else r.1.setForm (some r.2.id)))
  /- > **A start tag whose tag name is "li"** -/
  else if t.is "li" then inBodyListItem cfg s t ["li"]
  /- > **A start tag whose tag name is one of: "dd", "dt"** -/
  else if t.isOneOf ["dd", "dt"] then inBodyListItem cfg s t ["dd", "dt"]
  /- > **A start tag whose tag name is "plaintext"** — If the stack of open elements has a `p`
     > element in button scope, then close a `p` element.  Insert an HTML element for the token.
     > Switch the tokenizer to the PLAINTEXT state. -/
  else if t.is "plaintext" then do
    let s ← insertHtml' (closePIfInButtonScope cfg s) t
    pure (.done (s.switchTokenizer .plaintext))
  /- > **A start tag whose tag name is "button"** — 1. If the stack of open elements has a `button`
     > element in scope, then run these substeps: 1. Parse error.  2. Generate implied end tags.
     > 3. Pop elements from the stack of open elements until a `button` element has been popped from
     > the stack.  2. Reconstruct the active formatting elements, if any.  3. Insert an HTML element
     > for the token.  4. Set the frameset-ok flag to "not ok". -/
  else if t.is "button" then do
    let s :=
      if hasInScope cfg s "button" then
        popUntilPopped (genImplied (s.err "in body: button inside button")) "button"
      else s
    let s ← reconstruct s
    let s ← insertHtml' s t
    pure (.done s.notOk)
  /- > **A start tag whose tag name is "a"** -/
  else if t.is "a" then inBodyStartA s t
  /- > **A start tag whose tag name is one of: "b", "big", "code", "em", "font", "i", "s", "small",
     > "strike", "strong", "tt", "u"** — Reconstruct the active formatting elements, if any.  Insert
     > an HTML element for the token.  Push onto the list of active formatting elements that element. -/
  else if t.isOneOf formattingStart then do
    let s ← reconstruct s
    let r ← insertHtml s t
    pure (.done (pushFormatting r.1 r.2 t))
  /- > **A start tag whose tag name is "nobr"** -/
  else if t.is "nobr" then inBodyStartNobr cfg s t
  /- > **A start tag whose tag name is one of: "applet", "marquee", "object"** — Reconstruct the
     > active formatting elements, if any.  Insert an HTML element for the token.  Insert a marker
     > at the end of the list of active formatting elements.  Set the frameset-ok flag to "not ok". -/
  else if t.isOneOf ["applet", "marquee", "object"] then do
    let s ← reconstruct s
    let s ← insertHtml' s t
    pure (.done s.insertMarker.notOk)
  /- > **A start tag whose tag name is "table"** — If the Document is *not* set to quirks mode, and
     > the stack of open elements has a `p` element in button scope, then close a `p` element.
     > Insert an HTML element for the token.  Set the frameset-ok flag to "not ok".  Switch the
     > insertion mode to "in table". -/
  else if t.is "table" then do
    let s := if s.quirks != .quirks then closePIfInButtonScope cfg s else s
    let s ← insertHtml' s t
    pure (.done (s.notOk.setMode .inTable))
  /- > **A start tag whose tag name is one of: "area", "br", "embed", "img", "keygen", "wbr"** —
     > Reconstruct the active formatting elements, if any.  Insert an HTML element for the token.
     > Immediately pop the current node off the stack of open elements.  Acknowledge the token's
     > self-closing flag, if it is set.  Set the frameset-ok flag to "not ok". -/
  else if t.isOneOf ["area", "br", "embed", "img", "keygen", "wbr"] then do
    let s ← reconstruct s
    let s ← insertVoid s t
    pure (.done s.notOk)
  /- > **A start tag whose tag name is "input"** -/
  else if t.is "input" then inBodyStartInput cfg s t
  /- > **A start tag whose tag name is one of: "param", "source", "track"** — Insert an HTML element
     > for the token.  Immediately pop the current node off the stack of open elements.  Acknowledge
     > the token's self-closing flag, if it is set. -/
  else if t.isOneOf ["param", "source", "track"] then .done <$> insertVoid s t
  /- > **A start tag whose tag name is "hr"** -/
  else if t.is "hr" then inBodyStartHr cfg s t
  /- (here the standard has **A start tag whose tag name is "image"**: see `inBodyStartTag`) -/
  /- > **A start tag whose tag name is "textarea"** — 1. Insert an HTML element for the token.
     > 2. If the next token is a U+000A LINE FEED (LF) character token, then ignore that token and
     > move on to the next one.  (Newlines at the start of `textarea` elements are ignored as an
     > authoring convenience.)  3. Switch the tokenizer to the RCDATA state.  4. Set the original
     > insertion mode to the current insertion mode.  5. Set the frameset-ok flag to "not ok".
     > 6. Switch the insertion mode to "text". -/
  else if t.is "textarea" then do
    let s ← insertHtml' s t
    let s := { s with ignoreLf := true }
    let s := s.switchTokenizer .rcdata
    let s := { s with originalMode := s.mode }
    let s := s.notOk
    pure (.done (s.setMode .text))
  /- > **A start tag whose tag name is "xmp"** — If the stack of open elements has a `p` element in
     > button scope, then close a `p` element.  Reconstruct the active formatting elements, if any.
     > Set the frameset-ok flag to "not ok".  Follow the generic raw text element parsing algorithm. -/
  else if t.is "xmp" then do
    let s ← reconstruct (closePIfInButtonScope cfg s)
    .done <$> genericRawText s.notOk t
  /- > **A start tag whose tag name is "iframe"** — Set the frameset-ok flag to "not ok".  Follow the
     > generic raw text element parsing algorithm. -/
  else if t.is "iframe" then .done <$> genericRawText s.notOk t
  /- > **A start tag whose tag name is "noembed"; A start tag whose tag name is "noscript", if the
     > scripting flag is enabled** — Follow the generic raw text element parsing algorithm. -/
  else if t.is "noembed" || (t.is "noscript" && cfg.scripting) then .done <$> genericRawText s t
  /- > **A start tag whose tag name is "select"** -/
  else if t.is "select" then
    match cfg.edition with
    | .selectModes => inBodyStartSelectLegacy s t
    | .customizableSelect => inBodyStartSelect2025 cfg s t
  /- > **A start tag whose tag name is one of: "optgroup", "option"** -/
  else if t.isOneOf ["optgroup", "option"] then
    match cfg.edition with
    | .selectModes => inBodyStartOptionLegacy s t
    | .customizableSelect => if t.is "option" then inBodyStartOption2025 cfg s t else inBodyStartOptgroup2025 cfg s t
  /- > **A start tag whose tag name is one of: "rb", "rtc"** — If the stack of open elements has a
     > `ruby` element in scope, then generate implied end tags.  If the current node is not now a
     > `ruby` element, this is a parse error.  Insert an HTML element for the token. -/
  else if t.isOneOf ["rb", "rtc"] then
    let s :=
      if hasInScope cfg s "ruby" then
        let s := genImplied s
        if s.curIs "ruby" then s else s.err "in body: rb/rtc, current node is not ruby"
      else s
    .done <$> insertHtml' s t
  /- > **A start tag whose tag name is one of: "rp", "rt"** — If the stack of open elements has a
     > `ruby` element in scope, then generate implied end tags, except for `rtc` elements.  If the
     > current node is not now a `rtc` element or a `ruby` element, this is a parse error.  Insert an
     > HTML element for the token. -/
  else if t.isOneOf ["rp", "rt"] then
    let s :=
      if hasInScope cfg s "ruby" then
        let s := genImplied s (some "rtc")
        if s.curIs "rtc" || s.curIs "ruby" then s else s.err "in body: rp/rt, current node is not rtc/ruby"
      else s
    .done <$> insertHtml' s t
  /- > **A start tag whose tag name is "math"** -/
  else if t.is "math" then inBodyStartForeignRoot s t .mathml nsMathml
  /- > **A start tag whose tag name is "svg"** -/
  else if t.is "svg" then inBodyStartForeignRoot s t .svg nsSvg
  /- > **A start tag whose tag name is one of: "caption", "col", "colgroup", "frame", "head",
     > "tbody", "td", "tfoot", "th", "thead", "tr"** — Parse error.  Ignore the token. -/
  else if t.isOneOf ["caption", "col", "colgroup", "frame", "head", "tbody", "td", "tfoot", "th",
      "thead", "tr"] then pure (.done (s.err "in body: stray table/head start tag"))
  /- > **Any other start tag** — Reconstruct the active formatting elements, if any.  Insert an HTML
     > element for the token.  (This element will be an ordinary element.) -/
  else do
    let s ← reconstruct s
    .done <$> insertHtml' s t

/-- > **A start tag whose tag name is "image"** — Parse error.  Change the token's tag name to
> "img" and reprocess it.  (Don't ask.)

(in the standard this clause stands between "hr" and "textarea"; the reprocessing is immediate: the
token is again a start tag, handled by "in body") -/
def inBodyStartTag (cfg : Config N) (s : State N) (t : Tag) : M (Step N) :=
  if t.is "image" then inBodyStartTagCore cfg (s.err "in body: image start tag") { t with name := "img".toList }
  else inBodyStartTagCore cfg s t

/-! ### the end tags -/

def inBodyEndTag (cfg : Config N) (s : State N) (t : Tag) : M (Step N) :=
  /- > **An end tag whose tag name is "template"** — Process the token using the rules for the "in
     > head" insertion mode. -/
  if t.is "template" then inHead cfg s (.endTag t)
  /- > **An end tag whose tag name is "body"** — If the stack of open elements does not have a
     > `body` element in scope, this is a parse error; ignore the token.  Otherwise, if there is a
     > node in the stack of open elements that is not either a dd element, …, the body element, or
     > the html element, then this is a parse error.  Switch the insertion mode to "after body". -/
  else if t.is "body" then
    if !hasInScope cfg s "body" then pure (.done (s.err "in body: body end tag without body in scope"))
    else pure (.done ((bodyEndCheck s "in body: body end tag with open elements").setMode .afterBody))
  /- > **An end tag whose tag name is "html"** — If the stack of open elements does not have a
     > `body` element in scope, this is a parse error; ignore the token.  Otherwise, if there is a
     > node … then this is a parse error.  Switch the insertion mode to "after body".  Reprocess the token. -/
  else if t.is "html" then
    if !hasInScope cfg s "body" then pure (.done (s.err "in body: html end tag without body in scope"))
    else pure (.reprocess ((bodyEndCheck s "in body: html end tag with open elements").setMode .afterBody))
  /- > **An end tag whose tag name is one of: "address", "article", "aside", "blockquote", "button",
     > "center", "details", "dialog", "dir", "div", "dl", "fieldset", "figcaption", "figure",
     > "footer", "header", "hgroup", "listing", "main", "menu", "nav", "ol", "pre", "search",
     > "section", "summary", "ul"**  ((2025, ≈) and "select") -/
  else if t.isOneOf blockEnd || (cfg.edition == .customizableSelect && t.is "select") then
    pure (inBodyBlockEnd cfg s t)
  /- > **An end tag whose tag name is "form"** -/
  else if t.is "form" then pure (inBodyEndForm cfg s)
  /- > **An end tag whose tag name is "p"** — If the stack of open elements does not have a `p`
     > element in button scope, then this is a parse error; insert an HTML element for a "p" start
     > tag token with no attributes.  Close a `p` element. -/
  else if t.is "p" then do
    let s ← if hasInButtonScope cfg s "p" then pure s
      else insertHtml' (s.err "in body: p end tag without p in button scope") (bareTag "p")
    pure (.done (closeP s))
  /- > **An end tag whose tag name is "li"** — If the stack of open elements does not have an `li`
     > element in list item scope, then this is a parse error; ignore the token.  Otherwise, run
     > these steps: 1. Generate implied end tags, except for `li` elements.  2. If the current node
     > is not an `li` element, then this is a parse error.  3. Pop elements from the stack of open
     > elements until an `li` element has been popped from the stack. -/
  else if t.is "li" then
    if !hasInListItemScope cfg s "li" then pure (.done (s.err "in body: li end tag without li in list item scope"))
    else
      let s := genImplied s (some "li")
      let s := if s.curIs "li" then s else s.err "in body: li end tag, current node is not li"
      pure (.done (popUntilPopped s "li"))
  /- > **An end tag whose tag name is one of: "dd", "dt"** — If the stack of open elements does not
     > have an element in scope that is an HTML element with the same tag name as that of the token,
     > then this is a parse error; ignore the token.  Otherwise, run these steps: 1. Generate implied
     > end tags, except for HTML elements with the same tag name as the token.  2. If the current
     > node is not an HTML element with the same tag name as that of the token, then this is a parse
     > error.  3. Pop elements from the stack of open elements until an HTML element with the same
     > tag name as the token has been popped from the stack. -/
  else if t.isOneOf ["dd", "dt"] then
    if !hasStrInScope cfg s t.name then pure (.done (s.err "in body: dd/dt end tag without element in scope"))
    else
      let s := genImpliedExceptStr s t.name
      let s := if s.cur.any (fun e => isNamed t.name e.name) then s else s.err "in body: dd/dt end tag, current node differs"
      pure (.done (popUntilPoppedStr s t.name))
  /- > **An end tag whose tag name is one of: "h1", "h2", "h3", "h4", "h5", "h6"** — If the stack of
     > open elements does not have an element in scope that is an HTML element and whose tag name is
     > one of "h1", "h2", "h3", "h4", "h5", or "h6", then this is a parse error; ignore the token.
     > Otherwise, run these steps: 1. Generate implied end tags.  2. If the current node is not an
     > HTML element with the same tag name as that of the token, then this is a parse error.  3. Pop
     > elements from the stack of open elements until an HTML element whose tag name is one of "h1",
     > "h2", "h3", "h4", "h5", or "h6" has been popped from the stack. -/
  else if t.isOneOf TreeTables.heading then
    if !hasAnyInScope cfg s TreeTables.heading then pure (.done (s.err "in body: heading end tag without heading in scope"))
    else
      let s := genImplied s
      let s := if s.cur.any (fun e => isNamed t.name e.name) then s else s.err "in body: heading end tag, current node differs"
      pure (.done (popUntilPoppedAny s TreeTables.heading))
  /- > **An end tag whose tag name is one of: "a", "b", "big", "code", "em", "font", "i", "nobr", "s",
     > "small", "strike", "strong", "tt", "u"** — Run the adoption agency algorithm for the token. -/
  else if t.isOneOf formattingEnd then .done <$> adoptionAgency s t.name
  /- > **An end tag whose tag name is one of: "applet", "marquee", "object"** — If the stack of open
     > elements does not have an element in scope that is an HTML element with the same tag name as
     > that of the token, then this is a parse error; ignore the token.  Otherwise, run these steps:
     > 1. Generate implied end tags.  2. If the current node is not an HTML element with the same tag
     > name as that of the token, then this is a parse error.  3. Pop elements from the stack of open
     > elements until an HTML element with the same tag name as the token has been popped from the
     > stack.  4. Clear the list of active formatting elements up to the last marker. -/
  else if t.isOneOf ["applet", "marquee", "object"] then
    if !hasStrInScope cfg s t.name then pure (.done (s.err "in body: applet/marquee/object end tag without element in scope"))
    else
      let s := genImplied s
      let s := if s.cur.any (fun e => isNamed t.name e.name) then s else s.err "in body: applet/marquee/object end tag, current node differs"
      let s := popUntilPoppedStr s t.name
      pure (.done s.clearToLastMarker)
  /- > **An end tag whose tag name is "br"** — Parse error.  Drop the attributes from the token, and
     > act as described in the next entry; i.e. act as if this was a "br" start tag token with no
     > attributes, rather than the end tag token that it actually is. -/
  else if t.is "br" then inBodyStartTagCore cfg (s.err "in body: br end tag") (bareTag "br")
  /- > **Any other end tag** — (the steps of `TreeAlgo2.anyOtherEndTag`) -/
  else pure (.done (s.setStack (TreeAlgo2.anyOtherEndTag t.name s.p.stack)))

/-! ### the mode -/

def inBody (cfg : Config N) (s : State N) (tok : STok) : M (Step N) :=
  match tok with
  | .character c =>
    /- > **A character token that is U+0000 NULL** — Parse error.  Ignore the token. -/
    if c == '\x00' then pure (.done (s.err "in body: U+0000"))
    /- > **A character token that is one of U+0009 CHARACTER TABULATION, U+000A LINE FEED (LF), U+000C
       > FORM FEED (FF), U+000D CARRIAGE RETURN (CR), or U+0020 SPACE** — Reconstruct the active
       > formatting elements, if any.  Insert the token's character. -/
    else if isWs c then do
      let s ← reconstruct s
      .done <$> insertChar s c
    /- > **Any other character token** — Reconstruct the active formatting elements, if any.  Insert
       > the token's character.  Set the frameset-ok flag to "not ok". -/
    else do
      let s ← reconstruct s
      let s ← insertChar s c
      pure (.done s.notOk)
  /- > **A comment token** — Insert a comment. -/
  | .comment d => .done <$> insertComment s d
  /- > **A DOCTYPE token** — Parse error.  Ignore the token. -/
  | .doctype .. => pure (.done (s.err "in body: doctype"))
  | .startTag t => inBodyStartTag cfg s t
  /- > **An end-of-file token** — If the stack of template insertion modes is not empty, then
     > process the token using the rules for the "in template" insertion mode.  Otherwise, follow
     > these steps: 1. If there is a node in the stack of open elements that is not either a dd
     > element, …, the body element, or the html element, then this is a parse error.  2. Stop parsing. -/
  | .eof =>
    if !s.templateModes.isEmpty then inTemplateEof cfg s
    else pure (.done (stopParsing (bodyEndCheck s "in body: end of file with open elements")))
  | .endTag t => inBodyEndTag cfg s t

/-- "Process the token using the rules for the "in body" insertion mode" in "in head" & co. for a
start tag whose tag name is "html" is `inBodyStartHtml` -/
theorem inBody_startHtml (cfg : Config N) (s : State N) (t : Tag) (h : t.is "html" = true) :
    inBody cfg s (.startTag t) = inBodyStartHtml s t := by
  have h' : t.is "image" = false := by
    simp only [Tag.is, strIs] at h ⊢
    have : t.name = "html".toList := by simpa using h
    rw [this]; decide
  simp [inBody, inBodyStartTag, inBodyStartTagCore, h, h']

end

end H5V.Spec.TreeModes
