import H5V.Model.HtmlTok
import H5V.Spec.Entities
import H5V.Spec.C1
/-!
# The WHATWG HTML tokenization algorithm (HTML Standard, section 13.2.5 "Tokenization")

An executable transcription of the standard, state by state, written **independently of
html5ever's source and of the model `H5V.Model.HtmlTok`'s transition functions** (only the
*token types* `Token`, `Tag`, `Attr`, `Doctype` of that file are used, so that both sides print the
same canonical form). It is the reference the real tokenizer is compared against for property C01.

Conventions (how the prose of the standard is rendered):

* The input is the *already newline-normalised* list of code points (`normalizeNewlines`:
  CR LF → LF, lone CR → LF; section 13.2.3.5 "Preprocessing the input stream").
* "Consume the next input character": every state function receives `c : Option Char`, the next
  input character, `none` = EOF. "Reconsume in the X state" = `reconsumeIn X` (the character is not
  consumed); "Switch to the X state" = `switchTo X` (the character stays consumed); "ignore the
  character" / staying in the state = `done`.
* "Emit an end-of-file token" = `emitEOF`: it ends the run; the EOF token is appended by
  `tokenize`. Tokens emitted before it are `Emit`s, a type that has no EOF constructor — so
  "exactly one EOF, and it is last" holds by construction (`Props/C01.lean`).
* Parse errors are not tokens and are not recorded (they do not change any transition); the places
  where the standard says "This is an … parse error" are marked `-- parse error`.
* "The next few characters are …" look-aheads (markup declaration open state, after DOCTYPE name
  state, named character reference state) are functions of the remaining input.
* Tree-construction feedback (`Tree`): the answer to "there is an adjusted current node and it is not
  an element in the HTML namespace" (CDATA), and the tokenizer state switch that the tree
  construction stage performs when it processes a start tag (`title`/`textarea` → RCDATA, `style`…
  → RAWTEXT, `script` → script data, `plaintext` → PLAINTEXT) — given as a function of the tag.
* U+0000: the data state (and the CDATA section state) "emit the current input character as a
  character token"; that token is kept distinct as `Emit.null` (html5ever hands it to the sink as
  `NullCharacterToken`). Everywhere else the standard itself replaces it by U+FFFD.
* Attributes: "when the user agent leaves the attribute name state … if there is already an attribute
  on the token with the exact same name, … the new attribute must be removed from the token" (it
  stays the *current attribute* so its value is collected and discarded). Names are complete at that
  point, so this is rendered as first-wins de-duplication when the tag token is emitted
  (`dedupAttrs`); `hadDup` records that something was removed.

Every function is total; `run` uses explicit fuel and `Props/C01.lean` proves the fuel given by
`tokenize` always suffices.
-/
namespace H5V.Spec.HtmlTokenizer
open H5V.Model.HtmlTok (Token Tag Attr Doctype TagKind Str)

/-! ## 13.2.3.5 Preprocessing the input stream -/

/-- `afterCR` = the previous code point was a CR (already turned into LF): a LF directly after it
is the second half of a CR LF pair and is dropped -/
def normalizeNewlinesFrom : Bool → Str → Str
  | _, [] => []
  | afterCR, c :: rest =>
    if c = '\r' then '\n' :: normalizeNewlinesFrom true rest
    else if c = '\n' && afterCR then normalizeNewlinesFrom false rest
    else c :: normalizeNewlinesFrom false rest

/-- newline normalisation: every CR LF pair becomes LF, every remaining CR becomes LF -/
def normalizeNewlines (s : Str) : Str := normalizeNewlinesFrom false s

/-! ## The 80 tokenizer states -/

inductive St
  | data | rcdata | rawtext | scriptData | plaintext | tagOpen | endTagOpen | tagName
  | rcdataLessThanSign | rcdataEndTagOpen | rcdataEndTagName
  | rawtextLessThanSign | rawtextEndTagOpen | rawtextEndTagName
  | scriptDataLessThanSign | scriptDataEndTagOpen | scriptDataEndTagName
  | scriptDataEscapeStart | scriptDataEscapeStartDash
  | scriptDataEscaped | scriptDataEscapedDash | scriptDataEscapedDashDash
  | scriptDataEscapedLessThanSign | scriptDataEscapedEndTagOpen | scriptDataEscapedEndTagName
  | scriptDataDoubleEscapeStart | scriptDataDoubleEscaped | scriptDataDoubleEscapedDash
  | scriptDataDoubleEscapedDashDash | scriptDataDoubleEscapedLessThanSign | scriptDataDoubleEscapeEnd
  | beforeAttributeName | attributeName | afterAttributeName | beforeAttributeValue
  | attributeValueDoubleQuoted | attributeValueSingleQuoted | attributeValueUnquoted
  | afterAttributeValueQuoted | selfClosingStartTag | bogusComment | markupDeclarationOpen
  | commentStart | commentStartDash | comment | commentLessThanSign | commentLessThanSignBang
  | commentLessThanSignBangDash | commentLessThanSignBangDashDash | commentEndDash | commentEnd
  | commentEndBang
  | doctype | beforeDoctypeName | doctypeName | afterDoctypeName
  | afterDoctypePublicKeyword | beforeDoctypePublicIdentifier
  | doctypePublicIdentifierDoubleQuoted | doctypePublicIdentifierSingleQuoted
  | afterDoctypePublicIdentifier | betweenDoctypePublicAndSystemIdentifiers
  | afterDoctypeSystemKeyword | beforeDoctypeSystemIdentifier
  | doctypeSystemIdentifierDoubleQuoted | doctypeSystemIdentifierSingleQuoted
  | afterDoctypeSystemIdentifier | bogusDoctype
  | cdataSection | cdataSectionBracket | cdataSectionEnd
  | characterReference | namedCharacterReference | ambiguousAmpersand | numericCharacterReference
  | hexadecimalCharacterReferenceStart | decimalCharacterReferenceStart
  | hexadecimalCharacterReference | decimalCharacterReference | numericCharacterReferenceEnd
deriving DecidableEq, Repr, Inhabited

/-- the states a character reference can return to ("return state"): the only states that say
"set the return state to …" -/
inductive ReturnSt
  | data | rcdata | attributeValueDoubleQuoted | attributeValueSingleQuoted | attributeValueUnquoted
deriving DecidableEq, Repr, Inhabited

def ReturnSt.toSt : ReturnSt → St
  | .data => .data | .rcdata => .rcdata
  | .attributeValueDoubleQuoted => .attributeValueDoubleQuoted
  | .attributeValueSingleQuoted => .attributeValueSingleQuoted
  | .attributeValueUnquoted => .attributeValueUnquoted

/-- "consumed as part of an attribute": the return state is one of the attribute value states -/
def ReturnSt.inAttribute : ReturnSt → Bool
  | .data | .rcdata => false
  | _ => true

/-! ## Tokens emitted before the end-of-file token -/

inductive Emit
  /-- a character token -/
  | char (c : Char)
  /-- the character token for U+0000 emitted by the data / CDATA section states -/
  | null
  | tag (t : Tag)
  | comment (data : Str)
  | doctype (d : Doctype)
deriving DecidableEq, Repr, Inhabited

def Emit.toToken : Emit → Token
  | .char c => .chars [c]
  | .null => .nullChar
  | .tag t => .tag t
  | .comment s => .comment s
  | .doctype d => .doctype d

/-! ## Feedback from the tree construction stage -/

/-- the tokenizer state switch performed by the tree construction stage on a tag token -/
inductive Switch
  | none | data | plaintext | rcdata | rawtext | scriptData | scriptDataEscaped | scriptDataDoubleEscaped
deriving DecidableEq, Repr, Inhabited

structure Tree where
  /-- switch requested after the given tag token was emitted (first argument: everything emitted so
  far, newest first, the tag included) -/
  onTag : List Emit → Tag → Switch
  /-- "there is an adjusted current node and it is not an element in the HTML namespace" -/
  foreign : List Emit → Bool

/-! ## Tokenizer registers -/

structure Tok where
  state : St
  returnState : ReturnSt := .data
  temporaryBuffer : Str := []
  characterReferenceCode : Nat := 0
  /-- the current tag token -/
  tagKind : TagKind := .startTag
  tagName : Str := []
  selfClosing : Bool := false
  /-- attributes of the current tag token in source order; the last one is the current attribute -/
  attrs : List Attr := []
  /-- the current comment token's data -/
  comment : Str := []
  /-- the current DOCTYPE token -/
  doctype : Doctype := {}
  /-- name of the last start tag token emitted (for "appropriate end tag token") -/
  lastStartTag : Option Str := none
  /-- tokens emitted so far, newest first -/
  out : List Emit := []
deriving Repr, Inhabited

/-- how a step ends -/
inductive Ctl
  /-- continue after consuming `n` input characters (0 = the current input character is reconsumed) -/
  | advance (n : Nat)
  /-- an end-of-file token was emitted: tokenization is over -/
  | stop
deriving DecidableEq, Repr, Inhabited

abbrev Res := Tok × Ctl

/-! ## Character classes (Infra standard) -/

def isAsciiUpperAlpha (c : Char) : Bool := 'A' ≤ c && c ≤ 'Z'
def isAsciiLowerAlpha (c : Char) : Bool := 'a' ≤ c && c ≤ 'z'
def isAsciiAlpha (c : Char) : Bool := isAsciiUpperAlpha c || isAsciiLowerAlpha c
def isAsciiDigit (c : Char) : Bool := '0' ≤ c && c ≤ '9'
def isAsciiAlphanumeric (c : Char) : Bool := isAsciiDigit c || isAsciiAlpha c
def isAsciiUpperHexDigit (c : Char) : Bool := 'A' ≤ c && c ≤ 'F'
def isAsciiLowerHexDigit (c : Char) : Bool := 'a' ≤ c && c ≤ 'f'
def isAsciiHexDigit (c : Char) : Bool := isAsciiDigit c || isAsciiUpperHexDigit c || isAsciiLowerHexDigit c

/-- "the lowercase version of the current input character (add 0x0020 to the character's code
point)" — applied to ASCII upper alpha only -/
def lowercase (c : Char) : Char := if isAsciiUpperAlpha c then Char.ofNat (c.toNat + 0x20) else c

def replacementCharacter : Char := Char.ofNat 0xFFFD

/-! ## Register operations (the verbs of the standard) -/

namespace Tok

def setState (t : Tok) (s : St) : Tok := { t with state := s }

/-- "Switch to the X state" (the current input character stays consumed) -/
def switchTo (t : Tok) (s : St) : Res := ({ t with state := s }, .advance 1)
/-- "Reconsume in the X state" -/
def reconsumeIn (t : Tok) (s : St) : Res := ({ t with state := s }, .advance 0)
/-- the step is over, the current input character has been consumed, same state -/
def done (t : Tok) : Res := (t, .advance 1)
/-- "Emit an end-of-file token." -/
def emitEOF (t : Tok) : Res := (t, .stop)

def emit (t : Tok) (e : Emit) : Tok := { t with out := e :: t.out }
/-- "Emit … as a character token" -/
def emitChar (t : Tok) (c : Char) : Tok := t.emit (.char c)
def emitChars (t : Tok) (s : Str) : Tok := s.foldl emitChar t
/-- U+0000 emitted as a character token (data state, CDATA section state) -/
def emitNull (t : Tok) : Tok := t.emit .null

def setReturnState (t : Tok) (r : ReturnSt) : Tok := { t with returnState := r }
def clearTemporaryBuffer (t : Tok) : Tok := { t with temporaryBuffer := [] }
def appendTemporaryBuffer (t : Tok) (c : Char) : Tok := { t with temporaryBuffer := t.temporaryBuffer ++ [c] }

/-- "Create a new start/end tag token, set its tag name to the empty string." -/
def createTag (t : Tok) (k : TagKind) : Tok :=
  { t with tagKind := k, tagName := [], selfClosing := false, attrs := [] }
def appendTagName (t : Tok) (c : Char) : Tok := { t with tagName := t.tagName ++ [c] }
def setSelfClosing (t : Tok) : Tok := { t with selfClosing := true }

/-- "Start a new attribute in the current tag token. Set that attribute name and value to the
empty string." -/
def startAttribute (t : Tok) : Tok := { t with attrs := t.attrs ++ [⟨[], []⟩] }

/-- modify the current attribute (the last one). When the tokenizer was *started* in an
attribute state there is no attribute yet: the first thing appended creates it. -/
def modifyCurrentAttribute (t : Tok) (f : Attr → Attr) : Tok :=
  match t.attrs.getLast? with
  | some a => { t with attrs := t.attrs.dropLast ++ [f a] }
  | none => { t with attrs := [f ⟨[], []⟩] }

def appendAttributeName (t : Tok) (c : Char) : Tok :=
  t.modifyCurrentAttribute fun a => { a with name := a.name ++ [c] }
def appendAttributeValue (t : Tok) (c : Char) : Tok :=
  t.modifyCurrentAttribute fun a => { a with value := a.value ++ [c] }

/-- "Create a comment token whose data is …" -/
def createComment (t : Tok) (data : Str) : Tok := { t with comment := data }
def appendComment (t : Tok) (c : Char) : Tok := { t with comment := t.comment ++ [c] }
def appendCommentStr (t : Tok) (s : Str) : Tok := { t with comment := t.comment ++ s }
/-- "Emit the current comment token." -/
def emitComment (t : Tok) : Tok := t.emit (.comment t.comment)

/-- "Create a new DOCTYPE token." (name, public and system identifier missing, force-quirks off) -/
def createDoctype (t : Tok) : Tok := { t with doctype := {} }
def setForceQuirks (t : Tok) : Tok := { t with doctype := { t.doctype with forceQuirks := true } }
def setDoctypeName (t : Tok) (s : Str) : Tok := { t with doctype := { t.doctype with name := some s } }
def appendDoctypeName (t : Tok) (c : Char) : Tok :=
  { t with doctype := { t.doctype with name := some (t.doctype.name.getD [] ++ [c]) } }
/-- "Set the current DOCTYPE token's public identifier to the empty string (not missing)" -/
def setPublicIdEmpty (t : Tok) : Tok := { t with doctype := { t.doctype with publicId := some [] } }
def setSystemIdEmpty (t : Tok) : Tok := { t with doctype := { t.doctype with systemId := some [] } }
def appendPublicId (t : Tok) (c : Char) : Tok :=
  { t with doctype := { t.doctype with publicId := some (t.doctype.publicId.getD [] ++ [c]) } }
def appendSystemId (t : Tok) (c : Char) : Tok :=
  { t with doctype := { t.doctype with systemId := some (t.doctype.systemId.getD [] ++ [c]) } }
/-- "Emit the current DOCTYPE token." -/
def emitDoctype (t : Tok) : Tok := t.emit (.doctype t.doctype)

/-- "an appropriate end tag token is an end tag token whose tag name matches the tag name of the last
start tag to have been emitted from this tokenizer, if any. If no start tag has been emitted from
this tokenizer, then no end tag token is appropriate." -/
def isAppropriateEndTag (t : Tok) : Bool :=
  t.tagKind == .endTag && t.lastStartTag == some t.tagName

end Tok

/-- duplicate attributes: the first attribute of a name wins, later ones are removed -/
def dedupAttrs (attrs : List Attr) : List Attr :=
  attrs.foldl (fun kept a => if kept.any (fun b => b.name == a.name) then kept else kept ++ [a]) []

/-- the tag token that "Emit the current tag token" produces from the registers.
An attribute whose name is empty can only be the placeholder of a run *started* inside an attribute
value state (the standard never creates an empty attribute name: every path into the attribute name
state appends at least one character); it is not part of the token. -/
def Tok.currentTag (t : Tok) : Tag :=
  let named := t.attrs.filter fun a => !a.name.isEmpty
  let kept := dedupAttrs named
  { kind := t.tagKind, name := t.tagName, selfClosing := t.selfClosing, attrs := kept,
    hadDup := kept.length != named.length }

def Switch.apply (t : Tok) : Switch → Tok
  | .none => t
  | .data => t.setState .data
  | .plaintext => t.setState .plaintext
  | .rcdata => t.setState .rcdata
  | .rawtext => t.setState .rawtext
  | .scriptData => t.setState .scriptData
  | .scriptDataEscaped => t.setState .scriptDataEscaped
  | .scriptDataDoubleEscaped => t.setState .scriptDataDoubleEscaped

/-- "Emit the current tag token." The tree construction stage processes the token immediately and
may switch the tokenizer state; a start tag becomes the last start tag emitted. -/
def Tok.emitCurrentTag (tree : Tree) (t : Tok) : Tok :=
  let tag := t.currentTag
  let t := t.emit (.tag tag)
  let t := if tag.kind = .startTag then { t with lastStartTag := some tag.name } else t
  (tree.onTag t.out tag).apply t

/-- "Flush code points consumed as a character reference": for each code point in the temporary
buffer (in the order they were added), if the character reference was consumed as part of an
attribute append it to the current attribute's value, otherwise emit it as a character token. -/
def Tok.flushCodePoints (t : Tok) : Tok :=
  if t.returnState.inAttribute then t.temporaryBuffer.foldl Tok.appendAttributeValue t
  else t.temporaryBuffer.foldl Tok.emitChar t

open Tok

/-! ## 13.2.5.1 – 13.2.5.5 text states -/

/-- 13.2.5.1 Data state -/
def dataState (t : Tok) : Option Char → Res
  | some '&' => (t.setReturnState .data).switchTo .characterReference
  | some '<' => t.switchTo .tagOpen
  | some '\x00' => t.emitNull.done            -- parse error; emit the current input character
  | none => t.emitEOF
  | some c => (t.emitChar c).done

/-- 13.2.5.2 RCDATA state -/
def rcdataState (t : Tok) : Option Char → Res
  | some '&' => (t.setReturnState .rcdata).switchTo .characterReference
  | some '<' => t.switchTo .rcdataLessThanSign
  | some '\x00' => (t.emitChar replacementCharacter).done   -- parse error
  | none => t.emitEOF
  | some c => (t.emitChar c).done

/-- 13.2.5.3 RAWTEXT state -/
def rawtextState (t : Tok) : Option Char → Res
  | some '<' => t.switchTo .rawtextLessThanSign
  | some '\x00' => (t.emitChar replacementCharacter).done   -- parse error
  | none => t.emitEOF
  | some c => (t.emitChar c).done

/-- 13.2.5.4 Script data state -/
def scriptDataState (t : Tok) : Option Char → Res
  | some '<' => t.switchTo .scriptDataLessThanSign
  | some '\x00' => (t.emitChar replacementCharacter).done   -- parse error
  | none => t.emitEOF
  | some c => (t.emitChar c).done

/-- 13.2.5.5 PLAINTEXT state -/
def plaintextState (t : Tok) : Option Char → Res
  | some '\x00' => (t.emitChar replacementCharacter).done   -- parse error
  | none => t.emitEOF
  | some c => (t.emitChar c).done

/-! ## 13.2.5.6 – 13.2.5.8 tags -/

/-- 13.2.5.6 Tag open state -/
def tagOpenState (t : Tok) : Option Char → Res
  | some '!' => t.switchTo .markupDeclarationOpen
  | some '/' => t.switchTo .endTagOpen
  | some '?' => (t.createComment []).reconsumeIn .bogusComment   -- parse error
  | none => (t.emitChar '<').emitEOF                              -- parse error
  | some c =>
    if isAsciiAlpha c then (t.createTag .startTag).reconsumeIn .tagName
    else (t.emitChar '<').reconsumeIn .data                       -- parse error

/-- 13.2.5.7 End tag open state -/
def endTagOpenState (t : Tok) : Option Char → Res
  | some '>' => t.switchTo .data                                  -- parse error
  | none => ((t.emitChar '<').emitChar '/').emitEOF               -- parse error
  | some c =>
    if isAsciiAlpha c then (t.createTag .endTag).reconsumeIn .tagName
    else (t.createComment []).reconsumeIn .bogusComment           -- parse error

/-- 13.2.5.8 Tag name state -/
def tagNameState (tree : Tree) (t : Tok) : Option Char → Res
  | some '\t' | some '\n' | some '\x0c' | some ' ' => t.switchTo .beforeAttributeName
  | some '/' => t.switchTo .selfClosingStartTag
  | some '>' => ((t.setState .data).emitCurrentTag tree).done
  | some '\x00' => (t.appendTagName replacementCharacter).done   -- parse error
  | none => t.emitEOF                                             -- parse error
  | some c =>
    if isAsciiUpperAlpha c then (t.appendTagName (lowercase c)).done
    else (t.appendTagName c).done

/-! ## 13.2.5.9 – 13.2.5.14 RCDATA / RAWTEXT end tags -/

/-- the text shared by the "… end tag name" states (RCDATA, RAWTEXT, script data, script data
escaped), which differ only in the state they fall back to -/
def genericEndTagNameState (tree : Tree) (fallback : St) (t : Tok) (c : Option Char) : Res :=
  let anythingElse : Res :=
    (((t.emitChar '<').emitChar '/').emitChars t.temporaryBuffer).reconsumeIn fallback
  match c with
  | some '\t' | some '\n' | some '\x0c' | some ' ' =>
    if t.isAppropriateEndTag then t.switchTo .beforeAttributeName else anythingElse
  | some '/' =>
    if t.isAppropriateEndTag then t.switchTo .selfClosingStartTag else anythingElse
  | some '>' =>
    if t.isAppropriateEndTag then ((t.setState .data).emitCurrentTag tree).done else anythingElse
  | some c =>
    if isAsciiUpperAlpha c then ((t.appendTagName (lowercase c)).appendTemporaryBuffer c).done
    else if isAsciiLowerAlpha c then ((t.appendTagName c).appendTemporaryBuffer c).done
    else anythingElse
  | none => anythingElse

/-- 13.2.5.9 RCDATA less-than sign state -/
def rcdataLessThanSignState (t : Tok) : Option Char → Res
  | some '/' => t.clearTemporaryBuffer.switchTo .rcdataEndTagOpen
  | _ => (t.emitChar '<').reconsumeIn .rcdata

/-- 13.2.5.10 RCDATA end tag open state -/
def rcdataEndTagOpenState (t : Tok) (c : Option Char) : Res :=
  if c.any isAsciiAlpha then (t.createTag .endTag).reconsumeIn .rcdataEndTagName
  else ((t.emitChar '<').emitChar '/').reconsumeIn .rcdata

/-- 13.2.5.11 RCDATA end tag name state -/
def rcdataEndTagNameState (tree : Tree) := genericEndTagNameState tree .rcdata

/-- 13.2.5.12 RAWTEXT less-than sign state -/
def rawtextLessThanSignState (t : Tok) : Option Char → Res
  | some '/' => t.clearTemporaryBuffer.switchTo .rawtextEndTagOpen
  | _ => (t.emitChar '<').reconsumeIn .rawtext

/-- 13.2.5.13 RAWTEXT end tag open state -/
def rawtextEndTagOpenState (t : Tok) (c : Option Char) : Res :=
  if c.any isAsciiAlpha then (t.createTag .endTag).reconsumeIn .rawtextEndTagName
  else ((t.emitChar '<').emitChar '/').reconsumeIn .rawtext

/-- 13.2.5.14 RAWTEXT end tag name state -/
def rawtextEndTagNameState (tree : Tree) := genericEndTagNameState tree .rawtext

/-! ## 13.2.5.15 – 13.2.5.31 script data -/

/-- 13.2.5.15 Script data less-than sign state -/
def scriptDataLessThanSignState (t : Tok) : Option Char → Res
  | some '/' => t.clearTemporaryBuffer.switchTo .scriptDataEndTagOpen
  | some '!' => ((t.setState .scriptDataEscapeStart).emitChar '<').emitChar '!' |>.done
  | _ => (t.emitChar '<').reconsumeIn .scriptData

/-- 13.2.5.16 Script data end tag open state -/
def scriptDataEndTagOpenState (t : Tok) (c : Option Char) : Res :=
  if c.any isAsciiAlpha then (t.createTag .endTag).reconsumeIn .scriptDataEndTagName
  else ((t.emitChar '<').emitChar '/').reconsumeIn .scriptData

/-- 13.2.5.17 Script data end tag name state -/
def scriptDataEndTagNameState (tree : Tree) := genericEndTagNameState tree .scriptData

/-- 13.2.5.18 Script data escape start state -/
def scriptDataEscapeStartState (t : Tok) : Option Char → Res
  | some '-' => ((t.setState .scriptDataEscapeStartDash).emitChar '-').done
  | _ => t.reconsumeIn .scriptData

/-- 13.2.5.19 Script data escape start dash state -/
def scriptDataEscapeStartDashState (t : Tok) : Option Char → Res
  | some '-' => ((t.setState .scriptDataEscapedDashDash).emitChar '-').done
  | _ => t.reconsumeIn .scriptData

/-- 13.2.5.20 Script data escaped state -/
def scriptDataEscapedState (t : Tok) : Option Char → Res
  | some '-' => ((t.setState .scriptDataEscapedDash).emitChar '-').done
  | some '<' => t.switchTo .scriptDataEscapedLessThanSign
  | some '\x00' => (t.emitChar replacementCharacter).done   -- parse error
  | none => t.emitEOF                                        -- parse error
  | some c => (t.emitChar c).done

/-- 13.2.5.21 Script data escaped dash state -/
def scriptDataEscapedDashState (t : Tok) : Option Char → Res
  | some '-' => ((t.setState .scriptDataEscapedDashDash).emitChar '-').done
  | some '<' => t.switchTo .scriptDataEscapedLessThanSign
  | some '\x00' => ((t.setState .scriptDataEscaped).emitChar replacementCharacter).done   -- parse error
  | none => t.emitEOF                                        -- parse error
  | some c => ((t.setState .scriptDataEscaped).emitChar c).done

/-- 13.2.5.22 Script data escaped dash dash state -/
def scriptDataEscapedDashDashState (t : Tok) : Option Char → Res
  | some '-' => (t.emitChar '-').done
  | some '<' => t.switchTo .scriptDataEscapedLessThanSign
  | some '>' => ((t.setState .scriptData).emitChar '>').done
  | some '\x00' => ((t.setState .scriptDataEscaped).emitChar replacementCharacter).done   -- parse error
  | none => t.emitEOF                                        -- parse error
  | some c => ((t.setState .scriptDataEscaped).emitChar c).done

/-- 13.2.5.23 Script data escaped less-than sign state -/
def scriptDataEscapedLessThanSignState (t : Tok) : Option Char → Res
  | some '/' => t.clearTemporaryBuffer.switchTo .scriptDataEscapedEndTagOpen
  | some c =>
    if isAsciiAlpha c then
      (t.clearTemporaryBuffer.emitChar '<').reconsumeIn .scriptDataDoubleEscapeStart
    else (t.emitChar '<').reconsumeIn .scriptDataEscaped
  | none => (t.emitChar '<').reconsumeIn .scriptDataEscaped

/-- 13.2.5.24 Script data escaped end tag open state -/
def scriptDataEscapedEndTagOpenState (t : Tok) (c : Option Char) : Res :=
  if c.any isAsciiAlpha then (t.createTag .endTag).reconsumeIn .scriptDataEscapedEndTagName
  else ((t.emitChar '<').emitChar '/').reconsumeIn .scriptDataEscaped

/-- 13.2.5.25 Script data escaped end tag name state -/
def scriptDataEscapedEndTagNameState (tree : Tree) := genericEndTagNameState tree .scriptDataEscaped

/-- 13.2.5.26 Script data double escape start state -/
def scriptDataDoubleEscapeStartState (t : Tok) : Option Char → Res
  | some c =>
    if c = '\t' || c = '\n' || c = '\x0c' || c = ' ' || c = '/' || c = '>' then
      let t := if t.temporaryBuffer = "script".toList then t.setState .scriptDataDoubleEscaped
               else t.setState .scriptDataEscaped
      (t.emitChar c).done
    else if isAsciiUpperAlpha c then ((t.appendTemporaryBuffer (lowercase c)).emitChar c).done
    else if isAsciiLowerAlpha c then ((t.appendTemporaryBuffer c).emitChar c).done
    else t.reconsumeIn .scriptDataEscaped
  | none => t.reconsumeIn .scriptDataEscaped

/-- 13.2.5.27 Script data double escaped state -/
def scriptDataDoubleEscapedState (t : Tok) : Option Char → Res
  | some '-' => ((t.setState .scriptDataDoubleEscapedDash).emitChar '-').done
  | some '<' => ((t.setState .scriptDataDoubleEscapedLessThanSign).emitChar '<').done
  | some '\x00' => (t.emitChar replacementCharacter).done   -- parse error
  | none => t.emitEOF                                        -- parse error
  | some c => (t.emitChar c).done

/-- 13.2.5.28 Script data double escaped dash state -/
def scriptDataDoubleEscapedDashState (t : Tok) : Option Char → Res
  | some '-' => ((t.setState .scriptDataDoubleEscapedDashDash).emitChar '-').done
  | some '<' => ((t.setState .scriptDataDoubleEscapedLessThanSign).emitChar '<').done
  | some '\x00' => ((t.setState .scriptDataDoubleEscaped).emitChar replacementCharacter).done   -- parse error
  | none => t.emitEOF                                        -- parse error
  | some c => ((t.setState .scriptDataDoubleEscaped).emitChar c).done

/-- 13.2.5.29 Script data double escaped dash dash state -/
def scriptDataDoubleEscapedDashDashState (t : Tok) : Option Char → Res
  | some '-' => (t.emitChar '-').done
  | some '<' => ((t.setState .scriptDataDoubleEscapedLessThanSign).emitChar '<').done
  | some '>' => ((t.setState .scriptData).emitChar '>').done
  | some '\x00' => ((t.setState .scriptDataDoubleEscaped).emitChar replacementCharacter).done   -- parse error
  | none => t.emitEOF                                        -- parse error
  | some c => ((t.setState .scriptDataDoubleEscaped).emitChar c).done

/-- 13.2.5.30 Script data double escaped less-than sign state -/
def scriptDataDoubleEscapedLessThanSignState (t : Tok) : Option Char → Res
  | some '/' => ((t.clearTemporaryBuffer.setState .scriptDataDoubleEscapeEnd).emitChar '/').done
  | _ => t.reconsumeIn .scriptDataDoubleEscaped

/-- 13.2.5.31 Script data double escape end state -/
def scriptDataDoubleEscapeEndState (t : Tok) : Option Char → Res
  | some c =>
    if c = '\t' || c = '\n' || c = '\x0c' || c = ' ' || c = '/' || c = '>' then
      let t := if t.temporaryBuffer = "script".toList then t.setState .scriptDataEscaped
               else t.setState .scriptDataDoubleEscaped
      (t.emitChar c).done
    else if isAsciiUpperAlpha c then ((t.appendTemporaryBuffer (lowercase c)).emitChar c).done
    else if isAsciiLowerAlpha c then ((t.appendTemporaryBuffer c).emitChar c).done
    else t.reconsumeIn .scriptDataDoubleEscaped
  | none => t.reconsumeIn .scriptDataDoubleEscaped

/-! ## 13.2.5.32 – 13.2.5.40 attributes -/

/-- 13.2.5.32 Before attribute name state -/
def beforeAttributeNameState (t : Tok) : Option Char → Res
  | some '\t' | some '\n' | some '\x0c' | some ' ' => t.done      -- ignore the character
  | some '/' | some '>' | none => t.reconsumeIn .afterAttributeName
  | some '=' => (t.startAttribute.appendAttributeName '=').switchTo .attributeName   -- parse error
  | some _ => t.startAttribute.reconsumeIn .attributeName

/-- 13.2.5.33 Attribute name state -/
def attributeNameState (t : Tok) : Option Char → Res
  | some '\t' | some '\n' | some '\x0c' | some ' ' | some '/' | some '>' | none =>
    t.reconsumeIn .afterAttributeName
  | some '=' => t.switchTo .beforeAttributeValue
  | some '\x00' => (t.appendAttributeName replacementCharacter).done   -- parse error
  | some c =>
    -- '"', "'", '<': parse error, treated as "anything else"
    if isAsciiUpperAlpha c then (t.appendAttributeName (lowercase c)).done
    else (t.appendAttributeName c).done

/-- 13.2.5.34 After attribute name state -/
def afterAttributeNameState (tree : Tree) (t : Tok) : Option Char → Res
  | some '\t' | some '\n' | some '\x0c' | some ' ' => t.done      -- ignore the character
  | some '/' => t.switchTo .selfClosingStartTag
  | some '=' => t.switchTo .beforeAttributeValue
  | some '>' => ((t.setState .data).emitCurrentTag tree).done
  | none => t.emitEOF                                              -- parse error
  | some _ => t.startAttribute.reconsumeIn .attributeName

/-- 13.2.5.35 Before attribute value state -/
def beforeAttributeValueState (tree : Tree) (t : Tok) : Option Char → Res
  | some '\t' | some '\n' | some '\x0c' | some ' ' => t.done      -- ignore the character
  | some '"' => t.switchTo .attributeValueDoubleQuoted
  | some '\'' => t.switchTo .attributeValueSingleQuoted
  | some '>' => ((t.setState .data).emitCurrentTag tree).done     -- parse error
  | _ => t.reconsumeIn .attributeValueUnquoted

/-- 13.2.5.36 Attribute value (double-quoted) state -/
def attributeValueDoubleQuotedState (t : Tok) : Option Char → Res
  | some '"' => t.switchTo .afterAttributeValueQuoted
  | some '&' => (t.setReturnState .attributeValueDoubleQuoted).switchTo .characterReference
  | some '\x00' => (t.appendAttributeValue replacementCharacter).done   -- parse error
  | none => t.emitEOF                                                    -- parse error
  | some c => (t.appendAttributeValue c).done

/-- 13.2.5.37 Attribute value (single-quoted) state -/
def attributeValueSingleQuotedState (t : Tok) : Option Char → Res
  | some '\'' => t.switchTo .afterAttributeValueQuoted
  | some '&' => (t.setReturnState .attributeValueSingleQuoted).switchTo .characterReference
  | some '\x00' => (t.appendAttributeValue replacementCharacter).done   -- parse error
  | none => t.emitEOF                                                    -- parse error
  | some c => (t.appendAttributeValue c).done

/-- 13.2.5.38 Attribute value (unquoted) state -/
def attributeValueUnquotedState (tree : Tree) (t : Tok) : Option Char → Res
  | some '\t' | some '\n' | some '\x0c' | some ' ' => t.switchTo .beforeAttributeName
  | some '&' => (t.setReturnState .attributeValueUnquoted).switchTo .characterReference
  | some '>' => ((t.setState .data).emitCurrentTag tree).done
  | some '\x00' => (t.appendAttributeValue replacementCharacter).done   -- parse error
  | none => t.emitEOF                                                    -- parse error
  | some c =>
    -- '"', "'", '<', '=', '`': parse error, treated as "anything else"
    (t.appendAttributeValue c).done

/-- 13.2.5.39 After attribute value (quoted) state -/
def afterAttributeValueQuotedState (tree : Tree) (t : Tok) : Option Char → Res
  | some '\t' | some '\n' | some '\x0c' | some ' ' => t.switchTo .beforeAttributeName
  | some '/' => t.switchTo .selfClosingStartTag
  | some '>' => ((t.setState .data).emitCurrentTag tree).done
  | none => t.emitEOF                                              -- parse error
  | some _ => t.reconsumeIn .beforeAttributeName                   -- parse error

/-- 13.2.5.40 Self-closing start tag state -/
def selfClosingStartTagState (tree : Tree) (t : Tok) : Option Char → Res
  | some '>' => ((t.setSelfClosing.setState .data).emitCurrentTag tree).done
  | none => t.emitEOF                                              -- parse error
  | some _ => t.reconsumeIn .beforeAttributeName                   -- parse error

/-! ## 13.2.5.41 – 13.2.5.52 comments -/

/-- 13.2.5.41 Bogus comment state -/
def bogusCommentState (t : Tok) : Option Char → Res
  | some '>' => ((t.setState .data).emitComment).done
  | none => t.emitComment.emitEOF
  | some '\x00' => (t.appendComment replacementCharacter).done   -- parse error
  | some c => (t.appendComment c).done

/-- ASCII case-insensitive match of the first `kw.length` characters of `inp` with the (lower-case)
keyword `kw` -/
def nextAre (kw : String) (inp : Str) : Bool := inp.take kw.length == kw.toList
def nextAreCaseInsensitive (kw : String) (inp : Str) : Bool :=
  (inp.take kw.length).map lowercase == kw.toList

/-- 13.2.5.42 Markup declaration open state (does not "consume the next input character": it looks
at the next few characters) -/
def markupDeclarationOpenState (tree : Tree) (t : Tok) (inp : Str) : Res :=
  if nextAre "--" inp then
    ((t.createComment []).setState .commentStart, .advance 2)
  else if nextAreCaseInsensitive "doctype" inp then
    (t.setState .doctype, .advance 7)
  else if nextAre "[CDATA[" inp then
    if tree.foreign t.out then (t.setState .cdataSection, .advance 7)
    else ((t.createComment "[CDATA[".toList).setState .bogusComment, .advance 7)   -- parse error
  else
    -- parse error; "(don't consume anything in the current state)"
    ((t.createComment []).setState .bogusComment, .advance 0)

/-- 13.2.5.43 Comment start state -/
def commentStartState (t : Tok) : Option Char → Res
  | some '-' => t.switchTo .commentStartDash
  | some '>' => ((t.setState .data).emitComment).done            -- parse error
  | _ => t.reconsumeIn .comment

/-- 13.2.5.44 Comment start dash state -/
def commentStartDashState (t : Tok) : Option Char → Res
  | some '-' => t.switchTo .commentEnd
  | some '>' => ((t.setState .data).emitComment).done            -- parse error
  | none => t.emitComment.emitEOF                                 -- parse error
  | some _ => (t.appendComment '-').reconsumeIn .comment

/-- 13.2.5.45 Comment state -/
def commentState (t : Tok) : Option Char → Res
  | some '<' => (t.appendComment '<').switchTo .commentLessThanSign
  | some '-' => t.switchTo .commentEndDash
  | some '\x00' => (t.appendComment replacementCharacter).done   -- parse error
  | none => t.emitComment.emitEOF                                 -- parse error
  | some c => (t.appendComment c).done

/-- 13.2.5.46 Comment less-than sign state -/
def commentLessThanSignState (t : Tok) : Option Char → Res
  | some '!' => (t.appendComment '!').switchTo .commentLessThanSignBang
  | some '<' => (t.appendComment '<').done
  | _ => t.reconsumeIn .comment

/-- 13.2.5.47 Comment less-than sign bang state -/
def commentLessThanSignBangState (t : Tok) : Option Char → Res
  | some '-' => t.switchTo .commentLessThanSignBangDash
  | _ => t.reconsumeIn .comment

/-- 13.2.5.48 Comment less-than sign bang dash state -/
def commentLessThanSignBangDashState (t : Tok) : Option Char → Res
  | some '-' => t.switchTo .commentLessThanSignBangDashDash
  | _ => t.reconsumeIn .commentEndDash

/-- 13.2.5.49 Comment less-than sign bang dash dash state -/
def commentLessThanSignBangDashDashState (t : Tok) : Option Char → Res
  | some '>' | none => t.reconsumeIn .commentEnd
  | some _ => t.reconsumeIn .commentEnd                           -- parse error (nested comment)

/-- 13.2.5.50 Comment end dash state -/
def commentEndDashState (t : Tok) : Option Char → Res
  | some '-' => t.switchTo .commentEnd
  | none => t.emitComment.emitEOF                                 -- parse error
  | some _ => (t.appendComment '-').reconsumeIn .comment

/-- 13.2.5.51 Comment end state -/
def commentEndState (t : Tok) : Option Char → Res
  | some '>' => ((t.setState .data).emitComment).done
  | some '!' => t.switchTo .commentEndBang
  | some '-' => (t.appendComment '-').done
  | none => t.emitComment.emitEOF                                 -- parse error
  | some _ => (t.appendCommentStr ['-', '-']).reconsumeIn .comment

/-- 13.2.5.52 Comment end bang state -/
def commentEndBangState (t : Tok) : Option Char → Res
  | some '-' => (t.appendCommentStr ['-', '-', '!']).switchTo .commentEndDash
  | some '>' => ((t.setState .data).emitComment).done            -- parse error
  | none => t.emitComment.emitEOF                                 -- parse error
  | some _ => (t.appendCommentStr ['-', '-', '!']).reconsumeIn .comment

/-! ## 13.2.5.53 – 13.2.5.68 DOCTYPE -/

/-- 13.2.5.53 DOCTYPE state -/
def doctypeState (t : Tok) : Option Char → Res
  | some '\t' | some '\n' | some '\x0c' | some ' ' => t.switchTo .beforeDoctypeName
  | some '>' => t.reconsumeIn .beforeDoctypeName
  | none => t.createDoctype.setForceQuirks.emitDoctype.emitEOF   -- parse error
  | some _ => t.reconsumeIn .beforeDoctypeName                    -- parse error

/-- 13.2.5.54 Before DOCTYPE name state -/
def beforeDoctypeNameState (t : Tok) : Option Char → Res
  | some '\t' | some '\n' | some '\x0c' | some ' ' => t.done      -- ignore the character
  | some '\x00' => (t.createDoctype.setDoctypeName [replacementCharacter]).switchTo .doctypeName  -- parse error
  | some '>' => ((t.createDoctype.setForceQuirks.setState .data).emitDoctype).done   -- parse error
  | none => t.createDoctype.setForceQuirks.emitDoctype.emitEOF   -- parse error
  | some c =>
    if isAsciiUpperAlpha c then (t.createDoctype.setDoctypeName [lowercase c]).switchTo .doctypeName
    else (t.createDoctype.setDoctypeName [c]).switchTo .doctypeName

/-- 13.2.5.55 DOCTYPE name state -/
def doctypeNameState (t : Tok) : Option Char → Res
  | some '\t' | some '\n' | some '\x0c' | some ' ' => t.switchTo .afterDoctypeName
  | some '>' => ((t.setState .data).emitDoctype).done
  | some '\x00' => (t.appendDoctypeName replacementCharacter).done   -- parse error
  | none => t.setForceQuirks.emitDoctype.emitEOF                      -- parse error
  | some c =>
    if isAsciiUpperAlpha c then (t.appendDoctypeName (lowercase c)).done
    else (t.appendDoctypeName c).done

/-- 13.2.5.56 After DOCTYPE name state ("the six characters starting from the current input
character" = the first six characters of the remaining input) -/
def afterDoctypeNameState (t : Tok) (inp : Str) : Res :=
  match inp.head? with
  | some '\t' | some '\n' | some '\x0c' | some ' ' => t.done      -- ignore the character
  | some '>' => ((t.setState .data).emitDoctype).done
  | none => t.setForceQuirks.emitDoctype.emitEOF                  -- parse error
  | some _ =>
    if nextAreCaseInsensitive "public" inp then (t.setState .afterDoctypePublicKeyword, .advance 6)
    else if nextAreCaseInsensitive "system" inp then (t.setState .afterDoctypeSystemKeyword, .advance 6)
    else t.setForceQuirks.reconsumeIn .bogusDoctype               -- parse error

/-- 13.2.5.57 After DOCTYPE public keyword state -/
def afterDoctypePublicKeywordState (t : Tok) : Option Char → Res
  | some '\t' | some '\n' | some '\x0c' | some ' ' => t.switchTo .beforeDoctypePublicIdentifier
  | some '"' => t.setPublicIdEmpty.switchTo .doctypePublicIdentifierDoubleQuoted    -- parse error
  | some '\'' => t.setPublicIdEmpty.switchTo .doctypePublicIdentifierSingleQuoted   -- parse error
  | some '>' => ((t.setForceQuirks.setState .data).emitDoctype).done   -- parse error
  | none => t.setForceQuirks.emitDoctype.emitEOF                        -- parse error
  | some _ => t.setForceQuirks.reconsumeIn .bogusDoctype                -- parse error

/-- 13.2.5.58 Before DOCTYPE public identifier state -/
def beforeDoctypePublicIdentifierState (t : Tok) : Option Char → Res
  | some '\t' | some '\n' | some '\x0c' | some ' ' => t.done      -- ignore the character
  | some '"' => t.setPublicIdEmpty.switchTo .doctypePublicIdentifierDoubleQuoted
  | some '\'' => t.setPublicIdEmpty.switchTo .doctypePublicIdentifierSingleQuoted
  | some '>' => ((t.setForceQuirks.setState .data).emitDoctype).done   -- parse error
  | none => t.setForceQuirks.emitDoctype.emitEOF                        -- parse error
  | some _ => t.setForceQuirks.reconsumeIn .bogusDoctype                -- parse error

/-- 13.2.5.59 DOCTYPE public identifier (double-quoted) state -/
def doctypePublicIdentifierDoubleQuotedState (t : Tok) : Option Char → Res
  | some '"' => t.switchTo .afterDoctypePublicIdentifier
  | some '\x00' => (t.appendPublicId replacementCharacter).done   -- parse error
  | some '>' => ((t.setForceQuirks.setState .data).emitDoctype).done   -- parse error
  | none => t.setForceQuirks.emitDoctype.emitEOF                        -- parse error
  | some c => (t.appendPublicId c).done

/-- 13.2.5.60 DOCTYPE public identifier (single-quoted) state -/
def doctypePublicIdentifierSingleQuotedState (t : Tok) : Option Char → Res
  | some '\'' => t.switchTo .afterDoctypePublicIdentifier
  | some '\x00' => (t.appendPublicId replacementCharacter).done   -- parse error
  | some '>' => ((t.setForceQuirks.setState .data).emitDoctype).done   -- parse error
  | none => t.setForceQuirks.emitDoctype.emitEOF                        -- parse error
  | some c => (t.appendPublicId c).done

/-- 13.2.5.61 After DOCTYPE public identifier state -/
def afterDoctypePublicIdentifierState (t : Tok) : Option Char → Res
  | some '\t' | some '\n' | some '\x0c' | some ' ' => t.switchTo .betweenDoctypePublicAndSystemIdentifiers
  | some '>' => ((t.setState .data).emitDoctype).done
  | some '"' => t.setSystemIdEmpty.switchTo .doctypeSystemIdentifierDoubleQuoted    -- parse error
  | some '\'' => t.setSystemIdEmpty.switchTo .doctypeSystemIdentifierSingleQuoted   -- parse error
  | none => t.setForceQuirks.emitDoctype.emitEOF                        -- parse error
  | some _ => t.setForceQuirks.reconsumeIn .bogusDoctype                -- parse error

/-- 13.2.5.62 Between DOCTYPE public and system identifiers state -/
def betweenDoctypePublicAndSystemIdentifiersState (t : Tok) : Option Char → Res
  | some '\t' | some '\n' | some '\x0c' | some ' ' => t.done      -- ignore the character
  | some '>' => ((t.setState .data).emitDoctype).done
  | some '"' => t.setSystemIdEmpty.switchTo .doctypeSystemIdentifierDoubleQuoted
  | some '\'' => t.setSystemIdEmpty.switchTo .doctypeSystemIdentifierSingleQuoted
  | none => t.setForceQuirks.emitDoctype.emitEOF                        -- parse error
  | some _ => t.setForceQuirks.reconsumeIn .bogusDoctype                -- parse error

/-- 13.2.5.63 After DOCTYPE system keyword state -/
def afterDoctypeSystemKeywordState (t : Tok) : Option Char → Res
  | some '\t' | some '\n' | some '\x0c' | some ' ' => t.switchTo .beforeDoctypeSystemIdentifier
  | some '"' => t.setSystemIdEmpty.switchTo .doctypeSystemIdentifierDoubleQuoted    -- parse error
  | some '\'' => t.setSystemIdEmpty.switchTo .doctypeSystemIdentifierSingleQuoted   -- parse error
  | some '>' => ((t.setForceQuirks.setState .data).emitDoctype).done   -- parse error
  | none => t.setForceQuirks.emitDoctype.emitEOF                        -- parse error
  | some _ => t.setForceQuirks.reconsumeIn .bogusDoctype                -- parse error

/-- 13.2.5.64 Before DOCTYPE system identifier state -/
def beforeDoctypeSystemIdentifierState (t : Tok) : Option Char → Res
  | some '\t' | some '\n' | some '\x0c' | some ' ' => t.done      -- ignore the character
  | some '"' => t.setSystemIdEmpty.switchTo .doctypeSystemIdentifierDoubleQuoted
  | some '\'' => t.setSystemIdEmpty.switchTo .doctypeSystemIdentifierSingleQuoted
  | some '>' => ((t.setForceQuirks.setState .data).emitDoctype).done   -- parse error
  | none => t.setForceQuirks.emitDoctype.emitEOF                        -- parse error
  | some _ => t.setForceQuirks.reconsumeIn .bogusDoctype                -- parse error

/-- 13.2.5.65 DOCTYPE system identifier (double-quoted) state -/
def doctypeSystemIdentifierDoubleQuotedState (t : Tok) : Option Char → Res
  | some '"' => t.switchTo .afterDoctypeSystemIdentifier
  | some '\x00' => (t.appendSystemId replacementCharacter).done   -- parse error
  | some '>' => ((t.setForceQuirks.setState .data).emitDoctype).done   -- parse error
  | none => t.setForceQuirks.emitDoctype.emitEOF                        -- parse error
  | some c => (t.appendSystemId c).done

/-- 13.2.5.66 DOCTYPE system identifier (single-quoted) state -/
def doctypeSystemIdentifierSingleQuotedState (t : Tok) : Option Char → Res
  | some '\'' => t.switchTo .afterDoctypeSystemIdentifier
  | some '\x00' => (t.appendSystemId replacementCharacter).done   -- parse error
  | some '>' => ((t.setForceQuirks.setState .data).emitDoctype).done   -- parse error
  | none => t.setForceQuirks.emitDoctype.emitEOF                        -- parse error
  | some c => (t.appendSystemId c).done

/-- 13.2.5.67 After DOCTYPE system identifier state -/
def afterDoctypeSystemIdentifierState (t : Tok) : Option Char → Res
  | some '\t' | some '\n' | some '\x0c' | some ' ' => t.done      -- ignore the character
  | some '>' => ((t.setState .data).emitDoctype).done
  | none => t.setForceQuirks.emitDoctype.emitEOF                  -- parse error
  | some _ => t.reconsumeIn .bogusDoctype    -- parse error; "(This does not set the force-quirks flag)"

/-- 13.2.5.68 Bogus DOCTYPE state -/
def bogusDoctypeState (t : Tok) : Option Char → Res
  | some '>' => ((t.setState .data).emitDoctype).done
  | some '\x00' => t.done                    -- parse error; ignore the character
  | none => t.emitDoctype.emitEOF
  | some _ => t.done                         -- ignore the character

/-! ## 13.2.5.69 – 13.2.5.71 CDATA sections -/

/-- 13.2.5.69 CDATA section state ("U+0000 NULL characters are handled in the tree construction
stage": the tokenizer emits the current input character as a character token) -/
def cdataSectionState (t : Tok) : Option Char → Res
  | some ']' => t.switchTo .cdataSectionBracket
  | none => t.emitEOF                        -- parse error
  | some '\x00' => t.emitNull.done
  | some c => (t.emitChar c).done

/-- 13.2.5.70 CDATA section bracket state -/
def cdataSectionBracketState (t : Tok) : Option Char → Res
  | some ']' => t.switchTo .cdataSectionEnd
  | _ => (t.emitChar ']').reconsumeIn .cdataSection

/-- 13.2.5.71 CDATA section end state -/
def cdataSectionEndState (t : Tok) : Option Char → Res
  | some ']' => (t.emitChar ']').done
  | some '>' => t.switchTo .data
  | _ => ((t.emitChar ']').emitChar ']').reconsumeIn .cdataSection

/-! ## 13.2.5.72 – 13.2.5.80 character references -/

/-- 13.2.5.72 Character reference state -/
def characterReferenceState (t : Tok) (c : Option Char) : Res :=
  let t := t.clearTemporaryBuffer.appendTemporaryBuffer '&'
  match c with
  | some '#' => (t.appendTemporaryBuffer '#').switchTo .numericCharacterReference
  | some c =>
    if isAsciiAlphanumeric c then t.reconsumeIn .namedCharacterReference
    else t.flushCodePoints.reconsumeIn t.returnState.toSt
  | none => t.flushCodePoints.reconsumeIn t.returnState.toSt

/-- is the identifier `name` (code points) a prefix of the input? -/
def isPrefixOfInput : List Nat → Str → Bool
  | [], _ => true
  | _ :: _, [] => false
  | n :: ns, c :: cs => n == c.toNat && isPrefixOfInput ns cs

/-- the longest identifier of the named character references table (first column, without the
leading `&`) that the input starts with -/
def longestNamedReference (inp : Str) : Option Entities.Row :=
  match inp with
  | [] => none
  | c :: _ =>
    (Entities.bucket c.toNat).foldl (fun best row =>
      if isPrefixOfInput row.1 inp then
        match best with
        | some b => if b.1.length < row.1.length then some row else best
        | none => some row
      else best) none

/-- 13.2.5.73 Named character reference state ("consume the maximum number of characters possible,
where the consumed characters are one of the identifiers in the first column of the named character
references table"; when nothing matches nothing is consumed here — the ambiguous ampersand state
then passes the alphanumerics through one by one, which is the same text) -/
def namedCharacterReferenceState (t : Tok) (inp : Str) : Res :=
  match longestNamedReference inp with
  | some (name, cp1, cp2) =>
    let n := name.length
    let t := (inp.take n).foldl Tok.appendTemporaryBuffer t
    let lastIsSemicolon := name.getLast? == some 59
    let nextChar := (inp.drop n).head?
    if t.returnState.inAttribute && !lastIsSemicolon
        && (nextChar == some '=' || nextChar.any isAsciiAlphanumeric) then
      -- "for historical reasons"
      (t.flushCodePoints.setState t.returnState.toSt, .advance n)
    else
      -- parse error if the last character matched is not ';'
      let t := t.clearTemporaryBuffer.appendTemporaryBuffer (Char.ofNat cp1)
      let t := if cp2 = 0 then t else t.appendTemporaryBuffer (Char.ofNat cp2)
      (t.flushCodePoints.setState t.returnState.toSt, .advance n)
  | none => (t.flushCodePoints.setState .ambiguousAmpersand, .advance 0)

/-- 13.2.5.74 Ambiguous ampersand state -/
def ambiguousAmpersandState (t : Tok) : Option Char → Res
  | some ';' => t.reconsumeIn t.returnState.toSt                  -- parse error
  | some c =>
    if isAsciiAlphanumeric c then
      if t.returnState.inAttribute then (t.appendAttributeValue c).done else (t.emitChar c).done
    else t.reconsumeIn t.returnState.toSt
  | none => t.reconsumeIn t.returnState.toSt

/-- 13.2.5.75 Numeric character reference state -/
def numericCharacterReferenceState (t : Tok) (c : Option Char) : Res :=
  let t := { t with characterReferenceCode := 0 }
  match c with
  | some 'x' => (t.appendTemporaryBuffer 'x').switchTo .hexadecimalCharacterReferenceStart
  | some 'X' => (t.appendTemporaryBuffer 'X').switchTo .hexadecimalCharacterReferenceStart
  | _ => t.reconsumeIn .decimalCharacterReferenceStart

/-- 13.2.5.76 Hexadecimal character reference start state -/
def hexadecimalCharacterReferenceStartState (t : Tok) (c : Option Char) : Res :=
  if c.any isAsciiHexDigit then t.reconsumeIn .hexadecimalCharacterReference
  else t.flushCodePoints.reconsumeIn t.returnState.toSt           -- parse error

/-- 13.2.5.77 Decimal character reference start state -/
def decimalCharacterReferenceStartState (t : Tok) (c : Option Char) : Res :=
  if c.any isAsciiDigit then t.reconsumeIn .decimalCharacterReference
  else t.flushCodePoints.reconsumeIn t.returnState.toSt           -- parse error

/-- 13.2.5.78 Hexadecimal character reference state -/
def hexadecimalCharacterReferenceState (t : Tok) : Option Char → Res
  | some ';' => t.switchTo .numericCharacterReferenceEnd
  | some c =>
    let code := t.characterReferenceCode
    if isAsciiDigit c then ({ t with characterReferenceCode := code * 16 + (c.toNat - 0x30) }).done
    else if isAsciiUpperHexDigit c then ({ t with characterReferenceCode := code * 16 + (c.toNat - 0x37) }).done
    else if isAsciiLowerHexDigit c then ({ t with characterReferenceCode := code * 16 + (c.toNat - 0x57) }).done
    else t.reconsumeIn .numericCharacterReferenceEnd              -- parse error
  | none => t.reconsumeIn .numericCharacterReferenceEnd           -- parse error

/-- 13.2.5.79 Decimal character reference state -/
def decimalCharacterReferenceState (t : Tok) : Option Char → Res
  | some ';' => t.switchTo .numericCharacterReferenceEnd
  | some c =>
    if isAsciiDigit c then
      ({ t with characterReferenceCode := t.characterReferenceCode * 10 + (c.toNat - 0x30) }).done
    else t.reconsumeIn .numericCharacterReferenceEnd              -- parse error
  | none => t.reconsumeIn .numericCharacterReferenceEnd           -- parse error

/-- the checks of the numeric character reference end state on the character reference code -/
def numericReferenceCodePoint (code : Nat) : Nat :=
  if code = 0 then 0xFFFD                                         -- null-character-reference
  else if code > 0x10FFFF then 0xFFFD                             -- character-reference-outside-unicode-range
  else if 0xD800 ≤ code ∧ code ≤ 0xDFFF then 0xFFFD               -- surrogate-character-reference
  -- noncharacter: parse error only
  else if 0x80 ≤ code ∧ code ≤ 0x9F then
    -- control-character-reference: the table of replacements (0x80 … 0x9F)
    match C1.table[code - 0x80]? with
    | some (some r) => r
    | _ => code
  else code

/-- 13.2.5.80 Numeric character reference end state (consumes nothing) -/
def numericCharacterReferenceEndState (t : Tok) : Res :=
  let cp := numericReferenceCodePoint t.characterReferenceCode
  let t := { t with characterReferenceCode := cp }
  let t := t.clearTemporaryBuffer.appendTemporaryBuffer (Char.ofNat cp)
  (t.flushCodePoints.setState t.returnState.toSt, .advance 0)

/-! ## One step of the tokenizer, the run, the result -/

/-- dispatch on the current state -/
def step (tree : Tree) (t : Tok) (inp : Str) : Res :=
  let c := inp.head?
  match t.state with
  | .data => dataState t c
  | .rcdata => rcdataState t c
  | .rawtext => rawtextState t c
  | .scriptData => scriptDataState t c
  | .plaintext => plaintextState t c
  | .tagOpen => tagOpenState t c
  | .endTagOpen => endTagOpenState t c
  | .tagName => tagNameState tree t c
  | .rcdataLessThanSign => rcdataLessThanSignState t c
  | .rcdataEndTagOpen => rcdataEndTagOpenState t c
  | .rcdataEndTagName => rcdataEndTagNameState tree t c
  | .rawtextLessThanSign => rawtextLessThanSignState t c
  | .rawtextEndTagOpen => rawtextEndTagOpenState t c
  | .rawtextEndTagName => rawtextEndTagNameState tree t c
  | .scriptDataLessThanSign => scriptDataLessThanSignState t c
  | .scriptDataEndTagOpen => scriptDataEndTagOpenState t c
  | .scriptDataEndTagName => scriptDataEndTagNameState tree t c
  | .scriptDataEscapeStart => scriptDataEscapeStartState t c
  | .scriptDataEscapeStartDash => scriptDataEscapeStartDashState t c
  | .scriptDataEscaped => scriptDataEscapedState t c
  | .scriptDataEscapedDash => scriptDataEscapedDashState t c
  | .scriptDataEscapedDashDash => scriptDataEscapedDashDashState t c
  | .scriptDataEscapedLessThanSign => scriptDataEscapedLessThanSignState t c
  | .scriptDataEscapedEndTagOpen => scriptDataEscapedEndTagOpenState t c
  | .scriptDataEscapedEndTagName => scriptDataEscapedEndTagNameState tree t c
  | .scriptDataDoubleEscapeStart => scriptDataDoubleEscapeStartState t c
  | .scriptDataDoubleEscaped => scriptDataDoubleEscapedState t c
  | .scriptDataDoubleEscapedDash => scriptDataDoubleEscapedDashState t c
  | .scriptDataDoubleEscapedDashDash => scriptDataDoubleEscapedDashDashState t c
  | .scriptDataDoubleEscapedLessThanSign => scriptDataDoubleEscapedLessThanSignState t c
  | .scriptDataDoubleEscapeEnd => scriptDataDoubleEscapeEndState t c
  | .beforeAttributeName => beforeAttributeNameState t c
  | .attributeName => attributeNameState t c
  | .afterAttributeName => afterAttributeNameState tree t c
  | .beforeAttributeValue => beforeAttributeValueState tree t c
  | .attributeValueDoubleQuoted => attributeValueDoubleQuotedState t c
  | .attributeValueSingleQuoted => attributeValueSingleQuotedState t c
  | .attributeValueUnquoted => attributeValueUnquotedState tree t c
  | .afterAttributeValueQuoted => afterAttributeValueQuotedState tree t c
  | .selfClosingStartTag => selfClosingStartTagState tree t c
  | .bogusComment => bogusCommentState t c
  | .markupDeclarationOpen => markupDeclarationOpenState tree t inp
  | .commentStart => commentStartState t c
  | .commentStartDash => commentStartDashState t c
  | .comment => commentState t c
  | .commentLessThanSign => commentLessThanSignState t c
  | .commentLessThanSignBang => commentLessThanSignBangState t c
  | .commentLessThanSignBangDash => commentLessThanSignBangDashState t c
  | .commentLessThanSignBangDashDash => commentLessThanSignBangDashDashState t c
  | .commentEndDash => commentEndDashState t c
  | .commentEnd => commentEndState t c
  | .commentEndBang => commentEndBangState t c
  | .doctype => doctypeState t c
  | .beforeDoctypeName => beforeDoctypeNameState t c
  | .doctypeName => doctypeNameState t c
  | .afterDoctypeName => afterDoctypeNameState t inp
  | .afterDoctypePublicKeyword => afterDoctypePublicKeywordState t c
  | .beforeDoctypePublicIdentifier => beforeDoctypePublicIdentifierState t c
  | .doctypePublicIdentifierDoubleQuoted => doctypePublicIdentifierDoubleQuotedState t c
  | .doctypePublicIdentifierSingleQuoted => doctypePublicIdentifierSingleQuotedState t c
  | .afterDoctypePublicIdentifier => afterDoctypePublicIdentifierState t c
  | .betweenDoctypePublicAndSystemIdentifiers => betweenDoctypePublicAndSystemIdentifiersState t c
  | .afterDoctypeSystemKeyword => afterDoctypeSystemKeywordState t c
  | .beforeDoctypeSystemIdentifier => beforeDoctypeSystemIdentifierState t c
  | .doctypeSystemIdentifierDoubleQuoted => doctypeSystemIdentifierDoubleQuotedState t c
  | .doctypeSystemIdentifierSingleQuoted => doctypeSystemIdentifierSingleQuotedState t c
  | .afterDoctypeSystemIdentifier => afterDoctypeSystemIdentifierState t c
  | .bogusDoctype => bogusDoctypeState t c
  | .cdataSection => cdataSectionState t c
  | .cdataSectionBracket => cdataSectionBracketState t c
  | .cdataSectionEnd => cdataSectionEndState t c
  | .characterReference => characterReferenceState t c
  | .namedCharacterReference => namedCharacterReferenceState t inp
  | .ambiguousAmpersand => ambiguousAmpersandState t c
  | .numericCharacterReference => numericCharacterReferenceState t c
  | .hexadecimalCharacterReferenceStart => hexadecimalCharacterReferenceStartState t c
  | .decimalCharacterReferenceStart => decimalCharacterReferenceStartState t c
  | .hexadecimalCharacterReference => hexadecimalCharacterReferenceState t c
  | .decimalCharacterReference => decimalCharacterReferenceState t c
  | .numericCharacterReferenceEnd => numericCharacterReferenceEndState t

/-- run until the end-of-file token; `none` = out of fuel -/
def run (tree : Tree) : Nat → Tok → Str → Option (List Emit)
  | 0, _, _ => none
  | fuel + 1, t, inp =>
    match step tree t inp with
    | (t', .stop) => some t'.out.reverse
    | (t', .advance n) => run tree fuel t' (inp.drop n)

/-- a step consumes a character or strictly lowers the state's rank (< `stepsPerChar`), see
`Props/C01.lean` -/
def stepsPerChar : Nat := 8

def fuelFor (inp : Str) : Nat := stepsPerChar * (inp.length + 1) + 1

/-- the tokenizer started in `state` with the given last start tag name and empty registers -/
def Tok.initial (state : St) (lastStartTag : Option Str) : Tok :=
  { state := state, lastStartTag := lastStartTag }

/-- the tokens the standard's algorithm delivers for the (newline-normalised) input -/
def tokenize (tree : Tree) (state : St) (lastStartTag : Option Str) (inp : Str) : Option (List Token) :=
  (run tree (fuelFor inp) (Tok.initial state lastStartTag) inp).map
    fun es => es.map Emit.toToken ++ [Token.eof]

end H5V.Spec.HtmlTokenizer
