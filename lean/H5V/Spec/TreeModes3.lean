import H5V.Spec.TreeModes2
/-!
`H5V.Spec.TreeModes3` — part 3 of `H5V.Spec.TreeModes` (see the header of `TreeModes1`): "text", the
table modes, the select modes, "in template", and "initial", "before html", "before head", "in head
noscript", "after head", "after body", "in frameset", "after frameset", "after after body", "after
after frameset"; `byMode` = "the rules given in the section corresponding to the current insertion
mode in HTML content".
-/
namespace H5V.Spec.TreeModes
open H5V.Spec
open H5V.Spec.TreeAlgo (Str Name nsHtml nsMathml nsSvg DocMode inHtml)
open H5V.Spec.TreeAlgo2 (Elem Entry PState Ctx Edit Place)

section
variable {N : Type} [DecidableEq N]

/-! ## §13.2.6.4.8 The "text" insertion mode -/

def text (s : State N) (tok : STok) : M (Step N) :=
  match tok with
  /- > **A character token** — Insert the token's character.  (This can never be a U+0000 NULL
     > character; the tokenizer converts those to U+FFFD REPLACEMENT CHARACTER characters.) -/
  | .character c => .done <$> insertChar s c
  /- > **An end-of-file token** — Parse error.  If the current node is a `script` element, then set
     > its already started to true.  Pop the current node off the stack of open elements.  Switch
     > the insertion mode to the original insertion mode and reprocess the token. -/
  | .eof => pure (.reprocess ((s.err "text: end of file").pop.setMode s.originalMode))
  | .endTag t =>
    /- > **An end tag whose tag name is "script"** — (≈) … Let *script* be the current node (which
       > will be a `script` element).  Pop the current node off the stack of open elements.  Switch
       > the insertion mode to the original insertion mode.  … (prepare the script element *script*;
       > while there is a pending parsing-blocking script: … execute the script element …)
       (the script does nothing; the answer to the tokenizer is `Out.script`) -/
    if t.is "script" then do
      let script ← req s.cur "text: script end tag on an empty stack"
      let s := s.pop.setMode s.originalMode
      pure (.done { s with out := { s.out with script := some script.id } })
    /- > **Any other end tag** — Pop the current node off the stack of open elements.  Switch the
       > insertion mode to the original insertion mode. -/
    else pure (.done (s.pop.setMode s.originalMode))
  /- (the tokenizer emits nothing else while the insertion mode is "text") -/
  | _ => throw "text: the standard has no clause for this token"

/-! ## §13.2.6.4.9 The "in table" insertion mode -/

/-- > **Anything else** ("in table") — Parse error.  Enable foster parenting, process the token
> using the rules for the "in body" insertion mode, and then disable foster parenting. -/
def inTableAnythingElse (cfg : Config N) (s : State N) (tok : STok) : M (Step N) := do
  let s := s.err "in table: foster parenting"
  let r ← inBody cfg (s.setFoster true) tok
  pure (r.map fun s => s.setFoster false)

def clearBackToTable (s : State N) : State N :=
  s.setStack (TreeAlgo2.clearStackBackToTableContext s.p.stack)
def clearBackToTableBody (s : State N) : State N :=
  s.setStack (TreeAlgo2.clearStackBackToTableBodyContext s.p.stack)
def clearBackToTableRow (s : State N) : State N :=
  s.setStack (TreeAlgo2.clearStackBackToTableRowContext s.p.stack)

def inTable (cfg : Config N) (s : State N) (tok : STok) : M (Step N) :=
  match tok with
  /- > **A character token, if the current node is `table`, `tbody`, `template`, `tfoot`, `thead`, or
     > `tr` element** — Let the pending table character tokens be an empty list of tokens.  Set the
     > original insertion mode to the current insertion mode.  Switch the insertion mode to "in
     > table text" and reprocess the token. -/
  | .character _ =>
    if s.curIn ["table", "tbody", "template", "tfoot", "thead", "tr"] then
      pure (.reprocess { s with pendingTableChars := [], originalMode := s.mode, mode := .inTableText })
    else inTableAnythingElse cfg s tok
  /- > **A comment token** — Insert a comment. -/
  | .comment d => .done <$> insertComment s d
  /- > **A DOCTYPE token** — Parse error.  Ignore the token. -/
  | .doctype .. => pure (.done (s.err "in table: doctype"))
  | .startTag t =>
    /- > **A start tag whose tag name is "caption"** — Clear the stack back to a table context.
       > Insert a marker at the end of the list of active formatting elements.  Insert an HTML
       > element for the token, then switch the insertion mode to "in caption". -/
    if t.is "caption" then do
      let s ← insertHtml' (clearBackToTable s).insertMarker t
      pure (.done (s.setMode .inCaption))
    /- > **A start tag whose tag name is "colgroup"** — Clear the stack back to a table context.
       > Insert an HTML element for the token, then switch the insertion mode to "in column group". -/
    else if t.is "colgroup" then do
      let s ← insertHtml' (clearBackToTable s) t
      pure (.done (s.setMode .inColumnGroup))
    /- > **A start tag whose tag name is "col"** — Clear the stack back to a table context.  Insert
       > an HTML element for a "colgroup" start tag token with no attributes, then switch the
       > insertion mode to "in column group".  Reprocess the current token. -/
    else if t.is "col" then do
      let s ← insertHtml' (clearBackToTable s) (bareTag "colgroup")
      pure (.reprocess (s.setMode .inColumnGroup))
    /- > **A start tag whose tag name is one of: "tbody", "tfoot", "thead"** — Clear the stack back
       > to a table context.  Insert an HTML element for the token, then switch the insertion mode
       > to "in table body". -/
    else if t.isOneOf ["tbody", "tfoot", "thead"] then do
      let s ← insertHtml' (clearBackToTable s) t
      pure (.done (s.setMode .inTableBody))
    /- > **A start tag whose tag name is one of: "td", "th", "tr"** — Clear the stack back to a table
       > context.  Insert an HTML element for a "tbody" start tag token with no attributes, then
       > switch the insertion mode to "in table body".  Reprocess the current token. -/
    else if t.isOneOf ["td", "th", "tr"] then do
      let s ← insertHtml' (clearBackToTable s) (bareTag "tbody")
      pure (.reprocess (s.setMode .inTableBody))
    /- > **A start tag whose tag name is "table"** — Parse error.  If the stack of open elements does
       > not have a `table` element in table scope, ignore the token.  Otherwise: Pop elements from
       > this stack until a `table` element has been popped from the stack.  Reset the insertion
       > mode appropriately.  Reprocess the token. -/
    else if t.is "table" then do
      let s := s.err "in table: table start tag"
      if !hasInTableScope s "table" then pure (.done s)
      else .reprocess <$> resetInsertionMode cfg (popUntilPopped s "table")
    /- > **A start tag whose tag name is one of: "style", "script", "template"; An end tag whose tag
       > name is "template"** — Process the token using the rules for the "in head" insertion mode. -/
    else if t.isOneOf ["style", "script", "template"] then inHead cfg s tok
    /- > **A start tag whose tag name is "input"** — If the token does not have an attribute with the
       > name "type", or if it does, but that attribute's value is not an ASCII case-insensitive
       > match for the string "hidden", then: act as described in the "anything else" entry below.
       > Otherwise: Parse error.  Insert an HTML element for the token.  Pop that `input` element off
       > the stack of open elements.  Acknowledge the token's self-closing flag, if it is set. -/
    else if t.is "input" then
      if !t.typeIsHidden then inTableAnythingElse cfg s tok
      else .done <$> insertVoid (s.err "in table: input type=hidden") t
    /- > **A start tag whose tag name is "form"** — Parse error.  If there is a `template` element on
       > the stack of open elements, or if the form element pointer is not null, ignore the token.
       > Otherwise: Insert an HTML element for the token, and set the form element pointer to point
       > to the element created.  Pop that `form` element off the stack of open elements. -/
    else if t.is "form" then do
      let s := s.err "in table: form start tag"
      if s.templateOnStack || s.p.formPointer.isSome then pure (.done s)
      else
        let r ← insertHtml s t
        pure (.done (r.1.setForm (some r.2.id)).pop)
    else inTableAnythingElse cfg s tok
  | .endTag t =>
    /- > **An end tag whose tag name is "table"** — If the stack of open elements does not have a
       > `table` element in table scope, this is a parse error; ignore the token.  Otherwise: Pop
       > elements from this stack until a `table` element has been popped from the stack.  Reset the
       > insertion mode appropriately. -/
    if t.is "table" then
      if !hasInTableScope s "table" then pure (.done (s.err "in table: table end tag without table in table scope"))
      else .done <$> resetInsertionMode cfg (popUntilPopped s "table")
    /- > **An end tag whose tag name is one of: "body", "caption", "col", "colgroup", "html", "tbody",
       > "td", "tfoot", "th", "thead", "tr"** — Parse error.  Ignore the token. -/
    else if t.isOneOf ["body", "caption", "col", "colgroup", "html", "tbody", "td", "tfoot", "th",
        "thead", "tr"] then pure (.done (s.err "in table: stray end tag"))
    else if t.is "template" then inHead cfg s tok
    else inTableAnythingElse cfg s tok
  /- > **An end-of-file token** — Process the token using the rules for the "in body" insertion mode. -/
  | .eof => inBody cfg s tok

/-! ## §13.2.6.4.10 The "in table text" insertion mode -/

/-- the non-whitespace case of "anything else": "reprocess the character tokens in the pending
table character tokens list using the rules given in the "anything else" entry in the "in table"
insertion mode" -/
def flushPendingFostered (cfg : Config N) : Str → State N → M (State N)
  | [], s => pure s
  | c :: cs, s => do
    let r ← inTableAnythingElse cfg s (.character c)
    flushPendingFostered cfg cs r.state

def inTableText (cfg : Config N) (s : State N) (tok : STok) : M (Step N) :=
  /- > **Anything else** — If any of the tokens in the pending table character tokens list are
     > character tokens that are not ASCII whitespace, then this is a parse error: reprocess the
     > character tokens in the pending table character tokens list using the rules given in the
     > "anything else" entry in the "in table" insertion mode.  Otherwise, insert the characters
     > given by the pending table character tokens list.  Switch the insertion mode to the original
     > insertion mode and reprocess the token. -/
  let anythingElse : M (Step N) := do
    let s ← if s.pendingTableChars.any (fun c => !isWs c) then
        flushPendingFostered cfg s.pendingTableChars (s.err "in table text: non-whitespace")
      else insertChars s s.pendingTableChars
    pure (.reprocess (s.setMode s.originalMode))
  match tok with
  | .character c =>
    /- > **A character token that is U+0000 NULL** — Parse error.  Ignore the token. -/
    if c == '\x00' then pure (.done (s.err "in table text: U+0000"))
    /- > **Any other character token** — Append the character token to the pending table character
       > tokens list. -/
    else pure (.done { s with pendingTableChars := s.pendingTableChars ++ [c] })
  | _ => anythingElse

/-! ## §13.2.6.4.11 The "in caption" insertion mode -/

/-- > If the stack of open elements does not have a `caption` element in table scope, this is a
> parse error; ignore the token.  Otherwise: Generate implied end tags.  Now, if the current node is
> not a `caption` element, then this is a parse error.  Pop elements from this stack until a
> `caption` element has been popped from the stack.  Clear the list of active formatting elements up
> to the last marker.  Switch the insertion mode to "in table".
`none` = the token is ignored -/
def closeCaption (s : State N) : Option (State N) :=
  if !hasInTableScope s "caption" then none
  else
    let s := genImplied s
    let s := if s.curIs "caption" then s else s.err "in caption: current node is not caption"
    let s := popUntilPopped s "caption"
    some (s.clearToLastMarker.setMode .inTable)

def inCaption (cfg : Config N) (s : State N) (tok : STok) : M (Step N) :=
  match tok with
  | .endTag t =>
    /- > **An end tag whose tag name is "caption"** — (the steps of `closeCaption`) -/
    if t.is "caption" then
      match closeCaption s with
      | none => pure (.done (s.err "in caption: caption end tag without caption in table scope"))
      | some s => pure (.done s)
    /- > **A start tag whose tag name is one of: "caption", "col", "colgroup", "tbody", "td", "tfoot",
       > "th", "thead", "tr"; An end tag whose tag name is "table"** — (the same steps, then:)
       > Reprocess the token. -/
    else if t.is "table" then
      match closeCaption s with
      | none => pure (.done (s.err "in caption: table end tag without caption in table scope"))
      | some s => pure (.reprocess s)
    /- > **An end tag whose tag name is one of: "body", "col", "colgroup", "html", "tbody", "td",
       > "tfoot", "th", "thead", "tr"** — Parse error.  Ignore the token. -/
    else if t.isOneOf ["body", "col", "colgroup", "html", "tbody", "td", "tfoot", "th", "thead", "tr"] then
      pure (.done (s.err "in caption: stray end tag"))
    else inBody cfg s tok
  | .startTag t =>
    if t.isOneOf ["caption", "col", "colgroup", "tbody", "td", "tfoot", "th", "thead", "tr"] then
      match closeCaption s with
      | none => pure (.done (s.err "in caption: table start tag without caption in table scope"))
      | some s => pure (.reprocess s)
    else inBody cfg s tok
  /- > **Anything else** — Process the token using the rules for the "in body" insertion mode. -/
  | _ => inBody cfg s tok

/-! ## §13.2.6.4.12 The "in column group" insertion mode -/

def inColumnGroup (cfg : Config N) (s : State N) (tok : STok) : M (Step N) :=
  /- > **Anything else** — If the current node is not a `colgroup` element, then this is a parse
     > error; ignore the token.  Otherwise, pop the current node from the stack of open elements.
     > Switch the insertion mode to "in table".  Reprocess the token. -/
  let anythingElse : M (Step N) :=
    if !s.curIs "colgroup" then pure (.done (s.err "in column group: current node is not colgroup"))
    else pure (.reprocess (s.pop.setMode .inTable))
  match tok with
  /- > **A character token that is one of U+0009 …, or U+0020 SPACE** — Insert the character. -/
  | .character c => if isWs c then .done <$> insertChar s c else anythingElse
  /- > **A comment token** — Insert a comment. -/
  | .comment d => .done <$> insertComment s d
  /- > **A DOCTYPE token** — Parse error.  Ignore the token. -/
  | .doctype .. => pure (.done (s.err "in column group: doctype"))
  | .startTag t =>
    /- > **A start tag whose tag name is "html"** — Process the token using the rules for the "in
       > body" insertion mode. -/
    if t.is "html" then inBody cfg s tok
    /- > **A start tag whose tag name is "col"** — Insert an HTML element for the token.  Immediately
       > pop the current node off the stack of open elements.  Acknowledge the token's self-closing
       > flag, if it is set. -/
    else if t.is "col" then .done <$> insertVoid s t
    /- > **A start tag whose tag name is "template"; An end tag whose tag name is "template"** —
       > Process the token using the rules for the "in head" insertion mode. -/
    else if t.is "template" then inHead cfg s tok
    else anythingElse
  | .endTag t =>
    /- > **An end tag whose tag name is "colgroup"** — If the current node is not a `colgroup`
       > element, then this is a parse error; ignore the token.  Otherwise, pop the current node from
       > the stack of open elements.  Switch the insertion mode to "in table". -/
    if t.is "colgroup" then
      if !s.curIs "colgroup" then pure (.done (s.err "in column group: colgroup end tag, current node is not colgroup"))
      else pure (.done (s.pop.setMode .inTable))
    /- > **An end tag whose tag name is "col"** — Parse error.  Ignore the token. -/
    else if t.is "col" then pure (.done (s.err "in column group: col end tag"))
    else if t.is "template" then inHead cfg s tok
    else anythingElse
  /- > **An end-of-file token** — Process the token using the rules for the "in body" insertion mode. -/
  | .eof => inBody cfg s tok

/-! ## §13.2.6.4.13 The "in table body" insertion mode -/

def inTableBody (cfg : Config N) (s : State N) (tok : STok) : M (Step N) :=
  /- > **A start tag whose tag name is one of: "caption", "col", "colgroup", "tbody", "tfoot",
     > "thead"; An end tag whose tag name is "table"** — If the stack of open elements does not have
     > a `tbody`, `thead`, or `tfoot` element in table scope, this is a parse error; ignore the
     > token.  Otherwise: Clear the stack back to a table body context.  Act as if an end tag with
     > the same tag name as the current node ("tbody", "tfoot", or "thead") had been seen, then
     > reprocess the current token.
     (that end tag: "clear the stack back to a table body context" — already done —, "pop the current
     node from the stack of open elements, switch the insertion mode to "in table"") -/
  let closeBody : M (Step N) :=
    if !hasAnyInTableScope s ["tbody", "thead", "tfoot"] then
      pure (.done (s.err "in table body: no tbody/thead/tfoot in table scope"))
    else pure (.reprocess ((clearBackToTableBody s).pop.setMode .inTable))
  match tok with
  | .startTag t =>
    /- > **A start tag whose tag name is "tr"** — Clear the stack back to a table body context.
       > Insert an HTML element for the token, then switch the insertion mode to "in row". -/
    if t.is "tr" then do
      let s ← insertHtml' (clearBackToTableBody s) t
      pure (.done (s.setMode .inRow))
    /- > **A start tag whose tag name is one of: "th", "td"** — Parse error.  Clear the stack back to
       > a table body context.  Insert an HTML element for a "tr" start tag token with no attributes,
       > then switch the insertion mode to "in row".  Reprocess the current token. -/
    else if t.isOneOf ["th", "td"] then do
      let s ← insertHtml' (clearBackToTableBody (s.err "in table body: cell without row")) (bareTag "tr")
      pure (.reprocess (s.setMode .inRow))
    else if t.isOneOf ["caption", "col", "colgroup", "tbody", "tfoot", "thead"] then closeBody
    else inTable cfg s tok
  | .endTag t =>
    /- > **An end tag whose tag name is one of: "tbody", "tfoot", "thead"** — If the stack of open
       > elements does not have an element in table scope that is an HTML element with the same tag
       > name as the token, this is a parse error; ignore the token.  Otherwise: Clear the stack back
       > to a table body context.  Pop the current node from the stack of open elements.  Switch the
       > insertion mode to "in table". -/
    if t.isOneOf ["tbody", "tfoot", "thead"] then
      if !hasStrInTableScope s t.name then pure (.done (s.err "in table body: end tag without element in table scope"))
      else pure (.done ((clearBackToTableBody s).pop.setMode .inTable))
    else if t.is "table" then closeBody
    /- > **An end tag whose tag name is one of: "body", "caption", "col", "colgroup", "html", "td",
       > "th", "tr"** — Parse error.  Ignore the token. -/
    else if t.isOneOf ["body", "caption", "col", "colgroup", "html", "td", "th", "tr"] then
      pure (.done (s.err "in table body: stray end tag"))
    else inTable cfg s tok
  /- > **Anything else** — Process the token using the rules for the "in table" insertion mode. -/
  | _ => inTable cfg s tok

/-! ## §13.2.6.4.14 The "in row" insertion mode -/

def inRow (cfg : Config N) (s : State N) (tok : STok) : M (Step N) :=
  /- "Clear the stack back to a table row context.  Pop the current node (which will be a `tr`
     element) from the stack of open elements.  Switch the insertion mode to "in table body"." -/
  let closeRow (s : State N) : State N := (clearBackToTableRow s).pop.setMode .inTableBody
  match tok with
  | .startTag t =>
    /- > **A start tag whose tag name is one of: "th", "td"** — Clear the stack back to a table row
       > context.  Insert an HTML element for the token, then switch the insertion mode to "in
       > cell".  Insert a marker at the end of the list of active formatting elements. -/
    if t.isOneOf ["th", "td"] then do
      let s ← insertHtml' (clearBackToTableRow s) t
      pure (.done (s.setMode .inCell).insertMarker)
    /- > **A start tag whose tag name is one of: "caption", "col", "colgroup", "tbody", "tfoot",
       > "thead", "tr"; An end tag whose tag name is "table"** — If the stack of open elements does
       > not have a `tr` element in table scope, this is a parse error; ignore the token.
       > Otherwise: Clear the stack back to a table row context.  Pop the current node (which will be
       > a `tr` element) from the stack of open elements.  Switch the insertion mode to "in table
       > body".  Reprocess the token. -/
    else if t.isOneOf ["caption", "col", "colgroup", "tbody", "tfoot", "thead", "tr"] then
      if !hasInTableScope s "tr" then pure (.done (s.err "in row: no tr in table scope"))
      else pure (.reprocess (closeRow s))
    else inTable cfg s tok
  | .endTag t =>
    /- > **An end tag whose tag name is "tr"** — If the stack of open elements does not have a `tr`
       > element in table scope, this is a parse error; ignore the token.  Otherwise: Clear the stack
       > back to a table row context.  Pop the current node (which will be a `tr` element) from the
       > stack of open elements.  Switch the insertion mode to "in table body". -/
    if t.is "tr" then
      if !hasInTableScope s "tr" then pure (.done (s.err "in row: tr end tag without tr in table scope"))
      else pure (.done (closeRow s))
    else if t.is "table" then
      if !hasInTableScope s "tr" then pure (.done (s.err "in row: no tr in table scope"))
      else pure (.reprocess (closeRow s))
    /- > **An end tag whose tag name is one of: "tbody", "tfoot", "thead"** — If the stack of open
       > elements does not have an element in table scope that is an HTML element with the same tag
       > name as the token, this is a parse error; ignore the token.  If the stack of open elements
       > does not have a `tr` element in table scope, ignore the token.  Otherwise: Clear the stack
       > back to a table row context.  Pop the current node (which will be a `tr` element) from the
       > stack of open elements.  Switch the insertion mode to "in table body".  Reprocess the token. -/
    else if t.isOneOf ["tbody", "tfoot", "thead"] then
      if !hasStrInTableScope s t.name then pure (.done (s.err "in row: end tag without element in table scope"))
      else if !hasInTableScope s "tr" then pure (.done s)
      else pure (.reprocess (closeRow s))
    /- > **An end tag whose tag name is one of: "body", "caption", "col", "colgroup", "html", "td",
       > "th"** — Parse error.  Ignore the token. -/
    else if t.isOneOf ["body", "caption", "col", "colgroup", "html", "td", "th"] then
      pure (.done (s.err "in row: stray end tag"))
    else inTable cfg s tok
  /- > **Anything else** — Process the token using the rules for the "in table" insertion mode. -/
  | _ => inTable cfg s tok

/-! ## §13.2.6.4.15 The "in cell" insertion mode -/

/-- "close the cell" (`TreeAlgo2.closeTheCell` + step 2's parse error + step 5) -/
def closeCell (s : State N) : State N :=
  let s := if (genImplied s).curIn ["td", "th"] then s else s.err "close the cell: current node is not td/th"
  { s with p := TreeAlgo2.closeTheCell s.p, mode := .inRow }

def inCell (cfg : Config N) (s : State N) (tok : STok) : M (Step N) :=
  match tok with
  | .endTag t =>
    /- > **An end tag whose tag name is one of: "td", "th"** — If the stack of open elements does not
       > have an element in table scope that is an HTML element with the same tag name as that of
       > the token, then this is a parse error; ignore the token.  Otherwise: Generate implied end
       > tags.  Now, if the current node is not an HTML element with the same tag name as the token,
       > then this is a parse error.  Pop elements from the stack of open elements until an HTML
       > element with the same tag name as the token has been popped from the stack.  Clear the list
       > of active formatting elements up to the last marker.  Switch the insertion mode to "in row". -/
    if t.isOneOf ["td", "th"] then
      if !hasStrInTableScope s t.name then pure (.done (s.err "in cell: end tag without cell in table scope"))
      else
        let s := genImplied s
        let s := if s.cur.any (fun e => isNamed t.name e.name) then s else s.err "in cell: current node differs"
        let s := popUntilPoppedStr s t.name
        pure (.done (s.clearToLastMarker.setMode .inRow))
    /- > **An end tag whose tag name is one of: "body", "caption", "col", "colgroup", "html"** — Parse
       > error.  Ignore the token. -/
    else if t.isOneOf ["body", "caption", "col", "colgroup", "html"] then
      pure (.done (s.err "in cell: stray end tag"))
    /- > **An end tag whose tag name is one of: "table", "tbody", "tfoot", "thead", "tr"** — If the
       > stack of open elements does not have an element in table scope that is an HTML element with
       > the same tag name as that of the token, then this is a parse error; ignore the token.
       > Otherwise, close the cell (see below) and reprocess the token. -/
    else if t.isOneOf ["table", "tbody", "tfoot", "thead", "tr"] then
      if !hasStrInTableScope s t.name then pure (.done (s.err "in cell: end tag without element in table scope"))
      else pure (.reprocess (closeCell s))
    else inBody cfg s tok
  | .startTag t =>
    /- > **A start tag whose tag name is one of: "caption", "col", "colgroup", "tbody", "td", "tfoot",
       > "th", "thead", "tr"** — Assert: The stack of open elements has a `td` or `th` element in
       > table scope.  Close the cell (see below) and reprocess the token. -/
    if t.isOneOf ["caption", "col", "colgroup", "tbody", "td", "tfoot", "th", "thead", "tr"] then
      if !hasAnyInTableScope s ["td", "th"] then throw "in cell: Assert failed: no td or th in table scope"
      else pure (.reprocess (closeCell s))
    else inBody cfg s tok
  /- > **Anything else** — Process the token using the rules for the "in body" insertion mode. -/
  | _ => inBody cfg s tok

/-! ## §13.2.6.4.16 The "in select" insertion mode (`Edition.selectModes`) -/

def inSelect (cfg : Config N) (s : State N) (tok : STok) : M (Step N) :=
  /- "Pop elements from the stack of open elements until a `select` element has been popped from
     the stack.  Reset the insertion mode appropriately." -/
  let closeSelect (s : State N) : M (State N) := resetInsertionMode cfg (popUntilPopped s "select")
  match tok with
  | .character c =>
    /- > **A character token that is U+0000 NULL** — Parse error.  Ignore the token. -/
    if c == '\x00' then pure (.done (s.err "in select: U+0000"))
    /- > **Any other character token** — Insert the token's character. -/
    else .done <$> insertChar s c
  /- > **A comment token** — Insert a comment. -/
  | .comment d => .done <$> insertComment s d
  /- > **A DOCTYPE token** — Parse error.  Ignore the token. -/
  | .doctype .. => pure (.done (s.err "in select: doctype"))
  | .startTag t =>
    /- > **A start tag whose tag name is "html"** — Process the token using the rules for the "in
       > body" insertion mode. -/
    if t.is "html" then inBody cfg s tok
    /- > **A start tag whose tag name is "option"** — If the current node is an `option` element, pop
       > that node from the stack of open elements.  Insert an HTML element for the token. -/
    else if t.is "option" then
      .done <$> insertHtml' (if s.curIs "option" then s.pop else s) t
    /- > **A start tag whose tag name is "optgroup"** — If the current node is an `option` element,
       > pop that node from the stack of open elements.  If the current node is an `optgroup`
       > element, pop that node from the stack of open elements.  Insert an HTML element for the token. -/
    else if t.is "optgroup" then
      let s := if s.curIs "option" then s.pop else s
      let s := if s.curIs "optgroup" then s.pop else s
      .done <$> insertHtml' s t
    /- > **A start tag whose tag name is "hr"** — If the current node is an `option` element, pop that
       > node from the stack of open elements.  If the current node is an `optgroup` element, pop
       > that node from the stack of open elements.  Insert an HTML element for the token.
       > Immediately pop the current node off the stack of open elements.  Acknowledge the token's
       > self-closing flag, if it is set. -/
    else if t.is "hr" then
      let s := if s.curIs "option" then s.pop else s
      let s := if s.curIs "optgroup" then s.pop else s
      .done <$> insertVoid s t
    /- > **A start tag whose tag name is "select"** — Parse error.  If the stack of open elements
       > does not have a `select` element in select scope, ignore the token.  (fragment case)
       > Otherwise: Pop elements from the stack of open elements until a `select` element has been
       > popped from the stack.  Reset the insertion mode appropriately.
       > (It just gets treated like an end tag.) -/
    else if t.is "select" then
      let s := s.err "in select: select start tag"
      if !hasInSelectScope s "select" then pure (.done s) else .done <$> closeSelect s
    /- > **A start tag whose tag name is one of: "input", "keygen", "textarea"** — Parse error.  If
       > the stack of open elements does not have a `select` element in select scope, ignore the
       > token.  (fragment case)  Otherwise: Pop elements from the stack of open elements until a
       > `select` element has been popped from the stack.  Reset the insertion mode appropriately.
       > Reprocess the token. -/
    else if t.isOneOf ["input", "keygen", "textarea"] then
      let s := s.err "in select: input/keygen/textarea start tag"
      if !hasInSelectScope s "select" then pure (.done s) else .reprocess <$> closeSelect s
    /- > **A start tag whose tag name is one of: "script", "template"; An end tag whose tag name is
       > "template"** — Process the token using the rules for the "in head" insertion mode. -/
    else if t.isOneOf ["script", "template"] then inHead cfg s tok
    /- > **Anything else** — Parse error.  Ignore the token. -/
    else pure (.done (s.err "in select: unexpected start tag"))
  | .endTag t =>
    /- > **An end tag whose tag name is "optgroup"** — First, if the current node is an `option`
       > element, and the node immediately before it in the stack of open elements is an `optgroup`
       > element, then pop the current node from the stack of open elements.  If the current node is
       > an `optgroup` element, then pop that node from the stack of open elements.  Otherwise, this
       > is a parse error; ignore the token. -/
    if t.is "optgroup" then
      let before := s.p.stack.dropLast.getLast?
      let s := if s.curIs "option" && before.any (fun e => e.name.isHtml "optgroup") then s.pop else s
      if s.curIs "optgroup" then pure (.done s.pop) else pure (.done (s.err "in select: optgroup end tag"))
    /- > **An end tag whose tag name is "option"** — If the current node is an `option` element, then
       > pop that node from the stack of open elements.  Otherwise, this is a parse error; ignore
       > the token. -/
    else if t.is "option" then
      if s.curIs "option" then pure (.done s.pop) else pure (.done (s.err "in select: option end tag"))
    /- > **An end tag whose tag name is "select"** — If the stack of open elements does not have a
       > `select` element in select scope, this is a parse error; ignore the token.  (fragment case)
       > Otherwise: Pop elements from the stack of open elements until a `select` element has been
       > popped from the stack.  Reset the insertion mode appropriately. -/
    else if t.is "select" then
      if !hasInSelectScope s "select" then pure (.done (s.err "in select: select end tag without select"))
      else .done <$> closeSelect s
    else if t.is "template" then inHead cfg s tok
    else pure (.done (s.err "in select: unexpected end tag"))
  /- > **An end-of-file token** — Process the token using the rules for the "in body" insertion mode. -/
  | .eof => inBody cfg s tok

/-! ## §13.2.6.4.17 The "in select in table" insertion mode (`Edition.selectModes`) -/

def inSelectInTable (cfg : Config N) (s : State N) (tok : STok) : M (Step N) :=
  let names := ["caption", "table", "tbody", "tfoot", "thead", "tr", "td", "th"]
  match tok with
  /- > **A start tag whose tag name is one of: "caption", "table", "tbody", "tfoot", "thead", "tr",
     > "td", "th"** — Parse error.  Pop elements from the stack of open elements until a `select`
     > element has been popped from the stack.  Reset the insertion mode appropriately.  Reprocess
     > the token. -/
  | .startTag t =>
    if t.isOneOf names then
      .reprocess <$> resetInsertionMode cfg (popUntilPopped (s.err "in select in table: table start tag") "select")
    else inSelect cfg s tok
  /- > **An end tag whose tag name is one of: "caption", "table", "tbody", "tfoot", "thead", "tr",
     > "td", "th"** — Parse error.  If the stack of open elements does not have an element in table
     > scope that is an HTML element with the same tag name as that of the token, then ignore the
     > token.  Otherwise: Pop elements from the stack of open elements until a `select` element has
     > been popped from the stack.  Reset the insertion mode appropriately.  Reprocess the token. -/
  | .endTag t =>
    if t.isOneOf names then
      let s := s.err "in select in table: table end tag"
      if !hasStrInTableScope s t.name then pure (.done s)
      else .reprocess <$> resetInsertionMode cfg (popUntilPopped s "select")
    else inSelect cfg s tok
  /- > **Anything else** — Process the token using the rules for the "in select" insertion mode. -/
  | _ => inSelect cfg s tok

/-! ## §13.2.6.4.18 The "in template" insertion mode -/

def inTemplate (cfg : Config N) (s : State N) (tok : STok) : M (Step N) :=
  /- "Pop the current template insertion mode off the stack of template insertion modes.  Push `m`
     onto the stack of template insertion modes so that it is the new current template insertion
     mode.  Switch the insertion mode to `m`, and reprocess the token." -/
  let switchTo (m : IMode) : M (Step N) :=
    pure (.reprocess { s with templateModes := s.templateModes.dropLast ++ [m], mode := m })
  match tok with
  /- > **A character token; A comment token; A DOCTYPE token** — Process the token using the rules
     > for the "in body" insertion mode. -/
  | .character _ | .comment _ | .doctype .. => inBody cfg s tok
  | .startTag t =>
    /- > **A start tag whose tag name is one of: "base", "basefont", "bgsound", "link", "meta",
       > "noframes", "script", "style", "template", "title"; An end tag whose tag name is "template"**
       > — Process the token using the rules for the "in head" insertion mode. -/
    if t.isOneOf ["base", "basefont", "bgsound", "link", "meta", "noframes", "script", "style",
        "template", "title"] then inHead cfg s tok
    /- > **A start tag whose tag name is one of: "caption", "colgroup", "tbody", "tfoot", "thead"** —
       > Pop the current template insertion mode …  Push "in table" …  Switch the insertion mode to
       > "in table", and reprocess the token. -/
    else if t.isOneOf ["caption", "colgroup", "tbody", "tfoot", "thead"] then switchTo .inTable
    /- > **A start tag whose tag name is "col"** — … "in column group" … -/
    else if t.is "col" then switchTo .inColumnGroup
    /- > **A start tag whose tag name is "tr"** — … "in table body" … -/
    else if t.is "tr" then switchTo .inTableBody
    /- > **A start tag whose tag name is one of: "td", "th"** — … "in row" … -/
    else if t.isOneOf ["td", "th"] then switchTo .inRow
    /- > **Any other start tag** — … "in body" … -/
    else switchTo .inBody
  | .endTag t =>
    if t.is "template" then inHead cfg s tok
    /- > **Any other end tag** — Parse error.  Ignore the token. -/
    else pure (.done (s.err "in template: unexpected end tag"))
  /- > **An end-of-file token** — (the steps of `inTemplateEof`) -/
  | .eof => inTemplateEof cfg s

/-! ## §13.2.6.4.1 The "initial" insertion mode -/

def initial (cfg : Config N) (s : State N) (tok : STok) : M (Step N) :=
  /- > **Anything else** — If the document is not an iframe srcdoc document, then this is a parse
     > error; if the parser cannot change the mode flag is false, set the Document to quirks mode.
     > In any case, switch the insertion mode to "before html", then reprocess the token. -/
  let anythingElse : M (Step N) :=
    let s :=
      if !cfg.srcdoc then
        let s := s.err "initial: no doctype"
        if !cfg.cannotChangeMode then { s.xop (.setDocumentMode .quirks) with quirks := .quirks } else s
      else s
    pure (.reprocess (s.setMode .beforeHtml))
  match tok with
  /- > **A character token that is one of U+0009 CHARACTER TABULATION, U+000A LINE FEED (LF), U+000C
     > FORM FEED (FF), U+000D CARRIAGE RETURN (CR), or U+0020 SPACE** — Ignore the token. -/
  | .character c => if isWs c then pure (.done s) else anythingElse
  /- > **A comment token** — Insert a comment as the last child of the Document object. -/
  | .comment d => .done <$> insertCommentIn s cfg.document d
  /- > **A DOCTYPE token** — If the DOCTYPE token's name is not "html", or the token's public
     > identifier is not missing, or the token's system identifier is neither missing nor
     > "about:legacy-compat", then there is a parse error.
     > Append a DocumentType node to the Document node, with its name set to the name given in the
     > DOCTYPE token, or the empty string if the name was missing; its public ID set to the public
     > identifier given in the DOCTYPE token, or the empty string if the public identifier was
     > missing; and its system ID set to the system identifier given in the DOCTYPE token, or the
     > empty string if the system identifier was missing.
     > Then, if the document is not an iframe srcdoc document, and the parser cannot change the mode
     > flag is false, and the DOCTYPE token matches one of the conditions in the following list,
     > then set the Document to quirks mode: …  Otherwise, if … then set the Document to
     > limited-quirks mode: …  (`TreeAlgo.quirksMode`)
     > Then, switch the insertion mode to "before html". -/
  | .doctype name pub sys forceQuirks => do
    let s :=
      if name != some "html".toList || pub.isSome || (sys.isSome && sys != some "about:legacy-compat".toList)
      then s.err "initial: doctype" else s
    let r ← req s.p.newNode "initial: no node for the DocumentType"
    let s := { s with p := r.2 }
    let s := s.xop (.appendDoctype r.1 (name.getD []) (pub.getD []) (sys.getD []))
    let m := if cfg.cannotChangeMode then DocMode.noQuirks else TreeAlgo.quirksMode name pub sys forceQuirks cfg.srcdoc
    let s := if m != .noQuirks then { s.xop (.setDocumentMode m) with quirks := m } else s
    pure (.done (s.setMode .beforeHtml))
  | _ => anythingElse

/-! ## §13.2.6.4.2 The "before html" insertion mode -/

/-- "Create an element for the token in the HTML namespace, with the Document as the intended
parent.  Append it to the Document object.  Put this element in the stack of open elements." -/
def createRootHtml (cfg : Config N) (s : State N) (t : Tag) : M (State N) := do
  let r ← req s.p.newNode "before html: no node for the html element"
  let e : Elem N := ⟨r.1, ⟨nsHtml, "html".toList⟩⟩
  pure { s with p := { r.2 with
    stack := r.2.stack ++ [e],
    log := r.2.log ++ [Edit.create e.id nsHtml t.etok, Edit.insert (.lastChildOf cfg.document) e.id] } }

def beforeHtml (cfg : Config N) (s : State N) (tok : STok) : M (Step N) :=
  /- > **Anything else** — Create an `html` element whose node document is the Document object.
     > Append it to the Document object.  Put this element in the stack of open elements.  Switch
     > the insertion mode to "before head", then reprocess the token. -/
  let anythingElse : M (Step N) := do
    let s ← createRootHtml cfg s (bareTag "html")
    pure (.reprocess (s.setMode .beforeHead))
  match tok with
  /- > **A DOCTYPE token** — Parse error.  Ignore the token. -/
  | .doctype .. => pure (.done (s.err "before html: doctype"))
  /- > **A comment token** — Insert a comment as the last child of the Document object. -/
  | .comment d => .done <$> insertCommentIn s cfg.document d
  /- > **A character token that is one of U+0009 …, or U+0020 SPACE** — Ignore the token. -/
  | .character c => if isWs c then pure (.done s) else anythingElse
  | .startTag t =>
    /- > **A start tag whose tag name is "html"** — Create an element for the token in the HTML
       > namespace, with the Document as the intended parent.  Append it to the Document object.
       > Put this element in the stack of open elements.  Switch the insertion mode to "before head". -/
    if t.is "html" then do
      let s ← createRootHtml cfg s t
      pure (.done (s.setMode .beforeHead))
    else anythingElse
  | .endTag t =>
    /- > **An end tag whose tag name is one of: "head", "body", "html", "br"** — Act as described in
       > the "anything else" entry below. -/
    if t.isOneOf ["head", "body", "html", "br"] then anythingElse
    /- > **Any other end tag** — Parse error.  Ignore the token. -/
    else pure (.done (s.err "before html: unexpected end tag"))
  | .eof => anythingElse

/-! ## §13.2.6.4.3 The "before head" insertion mode -/

def beforeHead (cfg : Config N) (s : State N) (tok : STok) : M (Step N) :=
  /- > **Anything else** — Insert an HTML element for a "head" start tag token with no attributes.
     > Set the head element pointer to the newly created `head` element.  Switch the insertion mode
     > to "in head".  Reprocess the current token. -/
  let anythingElse : M (Step N) := do
    let r ← insertHtml s (bareTag "head")
    pure (.reprocess { r.1 with headPointer := some r.2, mode := .inHead })
  match tok with
  /- > **A character token that is one of U+0009 …, or U+0020 SPACE** — Ignore the token. -/
  | .character c => if isWs c then pure (.done s) else anythingElse
  /- > **A comment token** — Insert a comment. -/
  | .comment d => .done <$> insertComment s d
  /- > **A DOCTYPE token** — Parse error.  Ignore the token. -/
  | .doctype .. => pure (.done (s.err "before head: doctype"))
  | .startTag t =>
    /- > **A start tag whose tag name is "html"** — Process the token using the rules for the "in
       > body" insertion mode. -/
    if t.is "html" then inBody cfg s tok
    /- > **A start tag whose tag name is "head"** — Insert an HTML element for the token.  Set the
       > head element pointer to the newly created `head` element.  Switch the insertion mode to
       > "in head". -/
    else if t.is "head" then do
      let r ← insertHtml s t
      pure (.done { r.1 with headPointer := some r.2, mode := .inHead })
    else anythingElse
  | .endTag t =>
    /- > **An end tag whose tag name is one of: "head", "body", "html", "br"** — Act as described in
       > the "anything else" entry below. -/
    if t.isOneOf ["head", "body", "html", "br"] then anythingElse
    /- > **Any other end tag** — Parse error.  Ignore the token. -/
    else pure (.done (s.err "before head: unexpected end tag"))
  | .eof => anythingElse

/-! ## §13.2.6.4.5 The "in head noscript" insertion mode -/

def inHeadNoscript (cfg : Config N) (s : State N) (tok : STok) : M (Step N) :=
  /- > **Anything else** — Parse error.  Pop the current node (which will be a `noscript` element)
     > from the stack of open elements; the new current node will be a `head` element.  Switch the
     > insertion mode to "in head".  Reprocess the token. -/
  let anythingElse : M (Step N) :=
    pure (.reprocess ((s.err "in head noscript: unexpected token").pop.setMode .inHead))
  match tok with
  /- > **A DOCTYPE token** — Parse error.  Ignore the token. -/
  | .doctype .. => pure (.done (s.err "in head noscript: doctype"))
  /- > **A character token that is one of U+0009 …, or U+0020 SPACE; A comment token; A start tag
     > whose tag name is one of: "basefont", "bgsound", "link", "meta", "noframes", "style"** —
     > Process the token using the rules for the "in head" insertion mode. -/
  | .character c => if isWs c then inHead cfg s tok else anythingElse
  | .comment _ => inHead cfg s tok
  | .startTag t =>
    /- > **A start tag whose tag name is "html"** — Process the token using the rules for the "in
       > body" insertion mode. -/
    if t.is "html" then inBody cfg s tok
    else if t.isOneOf ["basefont", "bgsound", "link", "meta", "noframes", "style"] then inHead cfg s tok
    /- > **A start tag whose tag name is one of: "head", "noscript"; Any other end tag** — Parse
       > error.  Ignore the token. -/
    else if t.isOneOf ["head", "noscript"] then pure (.done (s.err "in head noscript: head/noscript start tag"))
    else anythingElse
  | .endTag t =>
    /- > **An end tag whose tag name is "noscript"** — Pop the current node (which will be a
       > `noscript` element) from the stack of open elements; the new current node will be a `head`
       > element.  Switch the insertion mode to "in head". -/
    if t.is "noscript" then pure (.done (s.pop.setMode .inHead))
    /- > **An end tag whose tag name is "br"** — Act as described in the "anything else" entry below. -/
    else if t.is "br" then anythingElse
    else pure (.done (s.err "in head noscript: unexpected end tag"))
  | .eof => anythingElse

/-! ## §13.2.6.4.6 The "after head" insertion mode -/

def afterHead (cfg : Config N) (s : State N) (tok : STok) : M (Step N) :=
  /- > **Anything else** — Insert an HTML element for a "body" start tag token with no attributes.
     > Switch the insertion mode to "in body".  Reprocess the current token. -/
  let anythingElse : M (Step N) := do
    let s ← insertHtml' s (bareTag "body")
    pure (.reprocess (s.setMode .inBody))
  match tok with
  /- > **A character token that is one of U+0009 …, or U+0020 SPACE** — Insert the character. -/
  | .character c => if isWs c then .done <$> insertChar s c else anythingElse
  /- > **A comment token** — Insert a comment. -/
  | .comment d => .done <$> insertComment s d
  /- > **A DOCTYPE token** — Parse error.  Ignore the token. -/
  | .doctype .. => pure (.done (s.err "after head: doctype"))
  | .startTag t =>
    /- > **A start tag whose tag name is "html"** — Process the token using the rules for the "in
       > body" insertion mode. -/
    if t.is "html" then inBody cfg s tok
    /- > **A start tag whose tag name is "body"** — Insert an HTML element for the token.  Set the
       > frameset-ok flag to "not ok".  Switch the insertion mode to "in body". -/
    else if t.is "body" then do
      let s ← insertHtml' s t
      pure (.done (s.notOk.setMode .inBody))
    /- > **A start tag whose tag name is "frameset"** — Insert an HTML element for the token.  Switch
       > the insertion mode to "in frameset". -/
    else if t.is "frameset" then do
      let s ← insertHtml' s t
      pure (.done (s.setMode .inFrameset))
    /- > **A start tag whose tag name is one of: "base", "basefont", "bgsound", "link", "meta",
       > "noframes", "script", "style", "template", "title"** — Parse error.  Push the node pointed to
       > by the head element pointer onto the stack of open elements.  Process the token using the
       > rules for the "in head" insertion mode.  Remove the node pointed to by the head element
       > pointer from the stack of open elements.  (It might not be the current node at this point.) -/
    else if t.isOneOf ["base", "basefont", "bgsound", "link", "meta", "noframes", "script", "style",
        "template", "title"] then do
      let s := s.err "after head: head content"
      let head ← req s.headPointer "after head: the head element pointer is null"
      let r ← inHead cfg (s.setStack (s.p.stack ++ [head])) tok
      pure (r.map fun s => removeFromStack s head.id)
    /- > **A start tag whose tag name is "head"; Any other end tag** — Parse error.  Ignore the token. -/
    else if t.is "head" then pure (.done (s.err "after head: head start tag"))
    else anythingElse
  | .endTag t =>
    /- > **An end tag whose tag name is "template"** — Process the token using the rules for the "in
       > head" insertion mode. -/
    if t.is "template" then inHead cfg s tok
    /- > **An end tag whose tag name is one of: "body", "html", "br"** — Act as described in the
       > "anything else" entry below. -/
    else if t.isOneOf ["body", "html", "br"] then anythingElse
    else pure (.done (s.err "after head: unexpected end tag"))
  | .eof => anythingElse

/-! ## §13.2.6.4.19 The "after body" insertion mode -/

def afterBody (cfg : Config N) (s : State N) (tok : STok) : M (Step N) :=
  /- > **Anything else** — Parse error.  Switch the insertion mode to "in body" and reprocess the token. -/
  let anythingElse : M (Step N) := pure (.reprocess ((s.err "after body: unexpected token").setMode .inBody))
  match tok with
  /- > **A character token that is one of U+0009 …, or U+0020 SPACE** — Process the token using the
     > rules for the "in body" insertion mode. -/
  | .character c => if isWs c then inBody cfg s tok else anythingElse
  /- > **A comment token** — Insert a comment as the last child of the first element in the stack of
     > open elements (the `html` element). -/
  | .comment d => do
    let html ← req s.p.stack.head? "after body: empty stack"
    .done <$> insertCommentIn s html.id d
  /- > **A DOCTYPE token** — Parse error.  Ignore the token. -/
  | .doctype .. => pure (.done (s.err "after body: doctype"))
  | .startTag t =>
    /- > **A start tag whose tag name is "html"** — Process the token using the rules for the "in
       > body" insertion mode. -/
    if t.is "html" then inBody cfg s tok else anythingElse
  | .endTag t =>
    /- > **An end tag whose tag name is "html"** — If the parser was created as part of the HTML
       > fragment parsing algorithm, this is a parse error; ignore the token.  (fragment case)
       > Otherwise, switch the insertion mode to "after after body". -/
    if t.is "html" then
      if cfg.context.isSome then pure (.done (s.err "after body: html end tag in a fragment"))
      else pure (.done (s.setMode .afterAfterBody))
    else anythingElse
  /- > **An end-of-file token** — Stop parsing. -/
  | .eof => pure (.done (stopParsing s))

/-! ## §13.2.6.4.20 The "in frameset" insertion mode -/

/-- "the current node is the root `html` element" (the first element of the stack) -/
def curIsRoot (s : State N) : Bool := s.p.stack.length == 1

def inFrameset (cfg : Config N) (s : State N) (tok : STok) : M (Step N) :=
  /- > **Anything else** — Parse error.  Ignore the token. -/
  let anythingElse : M (Step N) := pure (.done (s.err "in frameset: unexpected token"))
  match tok with
  /- > **A character token that is one of U+0009 …, or U+0020 SPACE** — Insert the character. -/
  | .character c => if isWs c then .done <$> insertChar s c else anythingElse
  /- > **A comment token** — Insert a comment. -/
  | .comment d => .done <$> insertComment s d
  /- > **A DOCTYPE token** — Parse error.  Ignore the token. -/
  | .doctype .. => pure (.done (s.err "in frameset: doctype"))
  | .startTag t =>
    /- > **A start tag whose tag name is "html"** — Process the token using the rules for the "in
       > body" insertion mode. -/
    if t.is "html" then inBody cfg s tok
    /- > **A start tag whose tag name is "frameset"** — Insert an HTML element for the token. -/
    else if t.is "frameset" then .done <$> insertHtml' s t
    /- > **A start tag whose tag name is "frame"** — Insert an HTML element for the token.
       > Immediately pop the current node off the stack of open elements.  Acknowledge the token's
       > self-closing flag, if it is set. -/
    else if t.is "frame" then .done <$> insertVoid s t
    /- > **A start tag whose tag name is "noframes"** — Process the token using the rules for the "in
       > head" insertion mode. -/
    else if t.is "noframes" then inHead cfg s tok
    else anythingElse
  | .endTag t =>
    /- > **An end tag whose tag name is "frameset"** — If the current node is the root `html` element,
       > then this is a parse error; ignore the token.  (fragment case)  Otherwise, pop the current
       > node from the stack of open elements.  If the parser was not created as part of the HTML
       > fragment parsing algorithm (fragment case), and the current node is no longer a `frameset`
       > element, then switch the insertion mode to "after frameset". -/
    if t.is "frameset" then
      if curIsRoot s then pure (.done (s.err "in frameset: frameset end tag at the root"))
      else
        let s := s.pop
        pure (.done (if cfg.context.isNone && !s.curIs "frameset" then s.setMode .afterFrameset else s))
    else anythingElse
  /- > **An end-of-file token** — If the current node is not the root `html` element, then this is a
     > parse error.  (The current node can only be the root `html` element in the fragment case.)
     > Stop parsing. -/
  | .eof => pure (.done (stopParsing (if curIsRoot s then s else s.err "in frameset: end of file")))

/-! ## §13.2.6.4.21 The "after frameset" insertion mode -/

def afterFrameset (cfg : Config N) (s : State N) (tok : STok) : M (Step N) :=
  /- > **Anything else** — Parse error.  Ignore the token. -/
  let anythingElse : M (Step N) := pure (.done (s.err "after frameset: unexpected token"))
  match tok with
  /- > **A character token that is one of U+0009 …, or U+0020 SPACE** — Insert the character. -/
  | .character c => if isWs c then .done <$> insertChar s c else anythingElse
  /- > **A comment token** — Insert a comment. -/
  | .comment d => .done <$> insertComment s d
  /- > **A DOCTYPE token** — Parse error.  Ignore the token. -/
  | .doctype .. => pure (.done (s.err "after frameset: doctype"))
  | .startTag t =>
    /- > **A start tag whose tag name is "html"** — Process the token using the rules for the "in
       > body" insertion mode. -/
    if t.is "html" then inBody cfg s tok
    /- > **A start tag whose tag name is "noframes"** — Process the token using the rules for the "in
       > head" insertion mode. -/
    else if t.is "noframes" then inHead cfg s tok
    else anythingElse
  | .endTag t =>
    /- > **An end tag whose tag name is "html"** — Switch the insertion mode to "after after frameset". -/
    if t.is "html" then pure (.done (s.setMode .afterAfterFrameset)) else anythingElse
  /- > **An end-of-file token** — Stop parsing. -/
  | .eof => pure (.done (stopParsing s))

/-! ## §13.2.6.4.22 The "after after body" insertion mode -/

def afterAfterBody (cfg : Config N) (s : State N) (tok : STok) : M (Step N) :=
  /- > **Anything else** — Parse error.  Switch the insertion mode to "in body" and reprocess the token. -/
  let anythingElse : M (Step N) := pure (.reprocess ((s.err "after after body: unexpected token").setMode .inBody))
  match tok with
  /- > **A comment token** — Insert a comment as the last child of the Document object. -/
  | .comment d => .done <$> insertCommentIn s cfg.document d
  /- > **A DOCTYPE token; A character token that is one of U+0009 …, or U+0020 SPACE; A start tag
     > whose tag name is "html"** — Process the token using the rules for the "in body" insertion mode. -/
  | .doctype .. => inBody cfg s tok
  | .character c => if isWs c then inBody cfg s tok else anythingElse
  | .startTag t => if t.is "html" then inBody cfg s tok else anythingElse
  /- > **An end-of-file token** — Stop parsing. -/
  | .eof => pure (.done (stopParsing s))
  | .endTag _ => anythingElse

/-! ## §13.2.6.4.23 The "after after frameset" insertion mode -/

def afterAfterFrameset (cfg : Config N) (s : State N) (tok : STok) : M (Step N) :=
  /- > **Anything else** — Parse error.  Ignore the token. -/
  let anythingElse : M (Step N) := pure (.done (s.err "after after frameset: unexpected token"))
  match tok with
  /- > **A comment token** — Insert a comment as the last child of the Document object. -/
  | .comment d => .done <$> insertCommentIn s cfg.document d
  /- > **A DOCTYPE token; A character token that is one of U+0009 …, or U+0020 SPACE; A start tag
     > whose tag name is "html"** — Process the token using the rules for the "in body" insertion mode. -/
  | .doctype .. => inBody cfg s tok
  | .character c => if isWs c then inBody cfg s tok else anythingElse
  | .startTag t =>
    if t.is "html" then inBody cfg s tok
    /- > **A start tag whose tag name is "noframes"** — Process the token using the rules for the "in
       > head" insertion mode. -/
    else if t.is "noframes" then inHead cfg s tok
    else anythingElse
  /- > **An end-of-file token** — Stop parsing. -/
  | .eof => pure (.done (stopParsing s))
  | .endTag _ => anythingElse

/-! ## "the rules given in the section corresponding to the current insertion mode in HTML content" -/

def byMode (cfg : Config N) (s : State N) (tok : STok) : M (Step N) :=
  match s.mode with
  | .initial => initial cfg s tok
  | .beforeHtml => beforeHtml cfg s tok
  | .beforeHead => beforeHead cfg s tok
  | .inHead => inHead cfg s tok
  | .inHeadNoscript => inHeadNoscript cfg s tok
  | .afterHead => afterHead cfg s tok
  | .inBody => inBody cfg s tok
  | .text => text s tok
  | .inTable => inTable cfg s tok
  | .inTableText => inTableText cfg s tok
  | .inCaption => inCaption cfg s tok
  | .inColumnGroup => inColumnGroup cfg s tok
  | .inTableBody => inTableBody cfg s tok
  | .inRow => inRow cfg s tok
  | .inCell => inCell cfg s tok
  | .inSelect => inSelect cfg s tok
  | .inSelectInTable => inSelectInTable cfg s tok
  | .inTemplate => inTemplate cfg s tok
  | .afterBody => afterBody cfg s tok
  | .inFrameset => inFrameset cfg s tok
  | .afterFrameset => afterFrameset cfg s tok
  | .afterAfterBody => afterAfterBody cfg s tok
  | .afterAfterFrameset => afterAfterFrameset cfg s tok

end

end H5V.Spec.TreeModes
