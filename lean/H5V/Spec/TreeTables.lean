/-!
`H5V.Spec.TreeTables` — the *frozen* tables of the WHATWG HTML standard, §13.2.4 – §13.2.6
("Parse state", "Tokenization" is not used here, "Tree construction").

Written from the standard's text, **not** from `/repo`.  `tools/extract.py` regenerates
`H5V.Gen.TreeTables` from html5ever's sources on every run and `H5V.Props.C02` proves
`Gen = Spec` table by table (as sets / as maps); `tools/props/C02.py` parses this file (the layout
`def <name> : <type> := [ … ]` is relied upon) to name a differing row and to build an input that
exercises it.  Do not edit to follow the code: a difference is a finding.

Names are written `(namespace keyword, local name)` with the keywords `html`, `mathml`, `svg`.

Edition notes (where the current standard differs from older editions, which matters when an older
implementation such as html5lib 1.1 is used as a reference):
* **`select` in the "has an element in scope" list**: added by the 2025 "customizable select"
  parser change (whatwg/html #10548), which also removed the "in select" / "in select in table"
  insertion modes, the select steps of "reset the insertion mode appropriately" and the then unused
  "has an element in select scope".  Older editions: no `select` in the list, select scope = every
  element type except `optgroup`/`option`.  `selectScopeExceptLegacy` below records the old
  definition for reference only; nothing in the current algorithm uses it.
* special category: `search` added 2023, `keygen` still listed, `isindex`, `menuitem`, `command`
  removed (2016–2017); `main` added 2013; `dialog` is *not* special.
* foreign attributes: `xml:base` removed (2017).  SVG attributes: `contentScriptType`,
  `contentStyleType`, `externalResourcesRequired`, `filterRes` removed (2017); SVG tag names:
  `feDropShadow` added.
* foreign-content break-out: the end tags `</br>` and `</p>` were added in 2017.
* quirks: the public-identifier prefix `+//Silmaril//dtd html Pro v0r11 19970101//` is the first of
  the 55 prefixes; the `iframe srcdoc` exemption covers *every* quirks / limited-quirks condition.
-/
namespace H5V.Spec.TreeTables

/-! ### §13.2.4.2 the stack of open elements -/

/-- the *special* category -/
def special : List (String × String) := [
  ("html", "address"), ("html", "applet"), ("html", "area"), ("html", "article"), ("html", "aside"),
  ("html", "base"), ("html", "basefont"), ("html", "bgsound"), ("html", "blockquote"), ("html", "body"),
  ("html", "br"), ("html", "button"), ("html", "caption"), ("html", "center"), ("html", "col"),
  ("html", "colgroup"), ("html", "dd"), ("html", "details"), ("html", "dir"), ("html", "div"),
  ("html", "dl"), ("html", "dt"), ("html", "embed"), ("html", "fieldset"), ("html", "figcaption"),
  ("html", "figure"), ("html", "footer"), ("html", "form"), ("html", "frame"), ("html", "frameset"),
  ("html", "h1"), ("html", "h2"), ("html", "h3"), ("html", "h4"), ("html", "h5"), ("html", "h6"),
  ("html", "head"), ("html", "header"), ("html", "hgroup"), ("html", "hr"), ("html", "html"),
  ("html", "iframe"), ("html", "img"), ("html", "input"), ("html", "keygen"), ("html", "li"),
  ("html", "link"), ("html", "listing"), ("html", "main"), ("html", "marquee"), ("html", "menu"),
  ("html", "meta"), ("html", "nav"), ("html", "noembed"), ("html", "noframes"), ("html", "noscript"),
  ("html", "object"), ("html", "ol"), ("html", "p"), ("html", "param"), ("html", "plaintext"),
  ("html", "pre"), ("html", "script"), ("html", "search"), ("html", "section"), ("html", "select"),
  ("html", "source"), ("html", "style"), ("html", "summary"), ("html", "table"), ("html", "tbody"),
  ("html", "td"), ("html", "template"), ("html", "textarea"), ("html", "tfoot"), ("html", "th"),
  ("html", "thead"), ("html", "title"), ("html", "tr"), ("html", "track"), ("html", "ul"),
  ("html", "wbr"), ("html", "xmp"),
  ("mathml", "mi"), ("mathml", "mo"), ("mathml", "mn"), ("mathml", "ms"), ("mathml", "mtext"),
  ("mathml", "annotation-xml"),
  ("svg", "foreignObject"), ("svg", "desc"), ("svg", "title")]

/-- the *formatting* category -/
def formatting : List String := [
  "a", "b", "big", "code", "em", "font", "i", "nobr", "s", "small", "strike", "strong", "tt", "u"]

/-- "has a particular element in scope": the element types that bound the search -/
def defaultScope : List (String × String) := [
  ("html", "applet"), ("html", "caption"), ("html", "html"), ("html", "table"), ("html", "td"),
  ("html", "th"), ("html", "marquee"), ("html", "object"), ("html", "select"), ("html", "template"),
  ("mathml", "mi"), ("mathml", "mo"), ("mathml", "mn"), ("mathml", "ms"), ("mathml", "mtext"),
  ("mathml", "annotation-xml"),
  ("svg", "foreignObject"), ("svg", "desc"), ("svg", "title")]

/-- "in list item scope" = the default list plus these -/
def listItemScopeExtra : List (String × String) := [("html", "ol"), ("html", "ul")]

/-- "in button scope" = the default list plus these -/
def buttonScopeExtra : List (String × String) := [("html", "button")]

/-- "in table scope" -/
def tableScope : List (String × String) := [("html", "html"), ("html", "table"), ("html", "template")]

/-- pre-2025 editions only: "in select scope" consisted of all element types *except* these -/
def selectScopeExceptLegacy : List (String × String) := [("html", "optgroup"), ("html", "option")]

/-- "generate implied end tags" -/
def impliedEnd : List String := ["dd", "dt", "li", "optgroup", "option", "p", "rb", "rp", "rt", "rtc"]

/-- "generate all implied end tags thoroughly" = the list above plus these -/
def impliedEndThoroughExtra : List String := [
  "caption", "colgroup", "tbody", "td", "tfoot", "th", "thead", "tr"]

/-- "clear the stack back to a table context / table body context / table row context" -/
def tableContext : List String := ["table", "template", "html"]
def tableBodyContext : List String := ["tbody", "tfoot", "thead", "template", "html"]
def tableRowContext : List String := ["tr", "template", "html"]

/-- "in table": "A character token, if the current node is table, tbody, template, tfoot, thead, or tr
element" — the current nodes under which characters are collected as pending table character tokens -/
def tableTextCurrentNodes : List String := ["table", "tbody", "template", "tfoot", "thead", "tr"]

/-- the elements that may be open at "stop parsing" / `</body>` without a parse error -/
def bodyEndOk : List String := [
  "dd", "dt", "li", "optgroup", "option", "p", "rb", "rp", "rt", "rtc", "tbody", "td", "tfoot", "th",
  "thead", "tr", "body", "html"]

/-- foster parenting applies when the target is one of these -/
def fosterTarget : List String := ["table", "tbody", "tfoot", "thead", "tr"]

/-- MathML text integration points / the SVG members of the HTML integration points -/
def mathmlTextIntegrationPoint : List String := ["mi", "mo", "mn", "ms", "mtext"]
def svgHtmlIntegrationPoint : List String := ["foreignObject", "desc", "title"]

/-- heading elements (`<h1>`–`<h6>` rules of "in body") -/
def heading : List String := ["h1", "h2", "h3", "h4", "h5", "h6"]

/-! ### loop limits -/

/-- adoption agency algorithm: "if outer loop counter is greater than or equal to 8, then return" -/
def adoptionOuterLimit : Nat := 8
/-- "if inner loop counter is greater than 3 and node is in the list of active formatting elements,
then remove node from the list" -/
def adoptionInnerLimit : Nat := 3
/-- Noah's Ark clause: "if there are already three elements … remove the earliest" -/
def noahLimit : Nat := 3

/-! ### §13.2.6.4.1 the "initial" insertion mode: DOCTYPE → quirks mode

All comparisons of identifiers are ASCII case-insensitive; the strings are given as the standard
prints them. -/

/-- "The public identifier starts with:" (quirks) -/
def quirksPublicPrefixes : List String := [
  "+//Silmaril//dtd html Pro v0r11 19970101//",
  "-//AS//DTD HTML 3.0 asWedit + extensions//",
  "-//AdvaSoft Ltd//DTD HTML 3.0 asWedit + extensions//",
  "-//IETF//DTD HTML 2.0 Level 1//",
  "-//IETF//DTD HTML 2.0 Level 2//",
  "-//IETF//DTD HTML 2.0 Strict Level 1//",
  "-//IETF//DTD HTML 2.0 Strict Level 2//",
  "-//IETF//DTD HTML 2.0 Strict//",
  "-//IETF//DTD HTML 2.0//",
  "-//IETF//DTD HTML 2.1E//",
  "-//IETF//DTD HTML 3.0//",
  "-//IETF//DTD HTML 3.2 Final//",
  "-//IETF//DTD HTML 3.2//",
  "-//IETF//DTD HTML 3//",
  "-//IETF//DTD HTML Level 0//",
  "-//IETF//DTD HTML Level 1//",
  "-//IETF//DTD HTML Level 2//",
  "-//IETF//DTD HTML Level 3//",
  "-//IETF//DTD HTML Strict Level 0//",
  "-//IETF//DTD HTML Strict Level 1//",
  "-//IETF//DTD HTML Strict Level 2//",
  "-//IETF//DTD HTML Strict Level 3//",
  "-//IETF//DTD HTML Strict//",
  "-//IETF//DTD HTML//",
  "-//Metrius//DTD Metrius Presentational//",
  "-//Microsoft//DTD Internet Explorer 2.0 HTML Strict//",
  "-//Microsoft//DTD Internet Explorer 2.0 HTML//",
  "-//Microsoft//DTD Internet Explorer 2.0 Tables//",
  "-//Microsoft//DTD Internet Explorer 3.0 HTML Strict//",
  "-//Microsoft//DTD Internet Explorer 3.0 HTML//",
  "-//Microsoft//DTD Internet Explorer 3.0 Tables//",
  "-//Netscape Comm. Corp.//DTD HTML//",
  "-//Netscape Comm. Corp.//DTD Strict HTML//",
  "-//O'Reilly and Associates//DTD HTML 2.0//",
  "-//O'Reilly and Associates//DTD HTML Extended 1.0//",
  "-//O'Reilly and Associates//DTD HTML Extended Relaxed 1.0//",
  "-//SQ//DTD HTML 2.0 HoTMetaL + extensions//",
  "-//SoftQuad Software//DTD HoTMetaL PRO 6.0::19990601::extensions to HTML 4.0//",
  "-//SoftQuad//DTD HoTMetaL PRO 4.0::19971010::extensions to HTML 4.0//",
  "-//Spyglass//DTD HTML 2.0 Extended//",
  "-//Sun Microsystems Corp.//DTD HotJava HTML//",
  "-//Sun Microsystems Corp.//DTD HotJava Strict HTML//",
  "-//W3C//DTD HTML 3 1995-03-24//",
  "-//W3C//DTD HTML 3.2 Draft//",
  "-//W3C//DTD HTML 3.2 Final//",
  "-//W3C//DTD HTML 3.2//",
  "-//W3C//DTD HTML 3.2S Draft//",
  "-//W3C//DTD HTML 4.0 Frameset//",
  "-//W3C//DTD HTML 4.0 Transitional//",
  "-//W3C//DTD HTML Experimental 19960712//",
  "-//W3C//DTD HTML Experimental 970421//",
  "-//W3C//DTD W3 HTML//",
  "-//W3O//DTD W3 HTML 3.0//",
  "-//WebTechs//DTD Mozilla HTML 2.0//",
  "-//WebTechs//DTD Mozilla HTML//"]

/-- "The public identifier is set to:" (quirks) -/
def quirksPublicIds : List String := [
  "-//W3O//DTD W3 HTML Strict 3.0//EN//", "-/W3C/DTD HTML 4.0 Transitional/EN", "HTML"]

/-- "The system identifier is set to:" (quirks) -/
def quirksSystemIds : List String := ["http://www.ibm.com/data/dtd/v11/ibmxhtml1-transitional.dtd"]

/-- "The public identifier starts with:" (limited quirks) -/
def limitedQuirksPublicPrefixes : List String := [
  "-//W3C//DTD XHTML 1.0 Frameset//", "-//W3C//DTD XHTML 1.0 Transitional//"]

/-- quirks when the system identifier is missing, limited quirks when it is not -/
def html401PublicPrefixes : List String := [
  "-//W3C//DTD HTML 4.01 Frameset//", "-//W3C//DTD HTML 4.01 Transitional//"]

/-! ### §13.2.6.5 foreign content -/

/-- start tags that break out of foreign content (`font` only with a `color`/`face`/`size`
attribute, see `fontBreakoutAttrs`) -/
def foreignBreakoutStart : List String := [
  "b", "big", "blockquote", "body", "br", "center", "code", "dd", "div", "dl", "dt", "em", "embed",
  "h1", "h2", "h3", "h4", "h5", "h6", "head", "hr", "i", "img", "li", "listing", "menu", "meta",
  "nobr", "ol", "p", "pre", "ruby", "s", "small", "span", "strong", "strike", "sub", "sup", "table",
  "tt", "u", "ul", "var"]

/-- end tags that break out of foreign content -/
def foreignBreakoutEnd : List String := ["br", "p"]

def fontBreakoutAttrs : List String := ["color", "face", "size"]

/-- SVG tag-name adjustment (token's tag name ↦ element name) -/
def svgTagNames : List (String × String) := [
  ("altglyph", "altGlyph"), ("altglyphdef", "altGlyphDef"), ("altglyphitem", "altGlyphItem"),
  ("animatecolor", "animateColor"), ("animatemotion", "animateMotion"),
  ("animatetransform", "animateTransform"), ("clippath", "clipPath"), ("feblend", "feBlend"),
  ("fecolormatrix", "feColorMatrix"), ("fecomponenttransfer", "feComponentTransfer"),
  ("fecomposite", "feComposite"), ("feconvolvematrix", "feConvolveMatrix"),
  ("fediffuselighting", "feDiffuseLighting"), ("fedisplacementmap", "feDisplacementMap"),
  ("fedistantlight", "feDistantLight"), ("fedropshadow", "feDropShadow"), ("feflood", "feFlood"),
  ("fefunca", "feFuncA"), ("fefuncb", "feFuncB"), ("fefuncg", "feFuncG"), ("fefuncr", "feFuncR"),
  ("fegaussianblur", "feGaussianBlur"), ("feimage", "feImage"), ("femerge", "feMerge"),
  ("femergenode", "feMergeNode"), ("femorphology", "feMorphology"), ("feoffset", "feOffset"),
  ("fepointlight", "fePointLight"), ("fespecularlighting", "feSpecularLighting"),
  ("fespotlight", "feSpotLight"), ("fetile", "feTile"), ("feturbulence", "feTurbulence"),
  ("foreignobject", "foreignObject"), ("glyphref", "glyphRef"), ("lineargradient", "linearGradient"),
  ("radialgradient", "radialGradient"), ("textpath", "textPath")]

/-- "adjust SVG attributes" -/
def svgAttrNames : List (String × String) := [
  ("attributename", "attributeName"), ("attributetype", "attributeType"),
  ("basefrequency", "baseFrequency"), ("baseprofile", "baseProfile"), ("calcmode", "calcMode"),
  ("clippathunits", "clipPathUnits"), ("diffuseconstant", "diffuseConstant"), ("edgemode", "edgeMode"),
  ("filterunits", "filterUnits"), ("glyphref", "glyphRef"), ("gradienttransform", "gradientTransform"),
  ("gradientunits", "gradientUnits"), ("kernelmatrix", "kernelMatrix"),
  ("kernelunitlength", "kernelUnitLength"), ("keypoints", "keyPoints"), ("keysplines", "keySplines"),
  ("keytimes", "keyTimes"), ("lengthadjust", "lengthAdjust"), ("limitingconeangle", "limitingConeAngle"),
  ("markerheight", "markerHeight"), ("markerunits", "markerUnits"), ("markerwidth", "markerWidth"),
  ("maskcontentunits", "maskContentUnits"), ("maskunits", "maskUnits"), ("numoctaves", "numOctaves"),
  ("pathlength", "pathLength"), ("patterncontentunits", "patternContentUnits"),
  ("patterntransform", "patternTransform"), ("patternunits", "patternUnits"), ("pointsatx", "pointsAtX"),
  ("pointsaty", "pointsAtY"), ("pointsatz", "pointsAtZ"), ("preservealpha", "preserveAlpha"),
  ("preserveaspectratio", "preserveAspectRatio"), ("primitiveunits", "primitiveUnits"), ("refx", "refX"),
  ("refy", "refY"), ("repeatcount", "repeatCount"), ("repeatdur", "repeatDur"),
  ("requiredextensions", "requiredExtensions"), ("requiredfeatures", "requiredFeatures"),
  ("specularconstant", "specularConstant"), ("specularexponent", "specularExponent"),
  ("spreadmethod", "spreadMethod"), ("startoffset", "startOffset"), ("stddeviation", "stdDeviation"),
  ("stitchtiles", "stitchTiles"), ("surfacescale", "surfaceScale"), ("systemlanguage", "systemLanguage"),
  ("tablevalues", "tableValues"), ("targetx", "targetX"), ("targety", "targetY"),
  ("textlength", "textLength"), ("viewbox", "viewBox"), ("viewtarget", "viewTarget"),
  ("xchannelselector", "xChannelSelector"), ("ychannelselector", "yChannelSelector"),
  ("zoomandpan", "zoomAndPan")]

/-- "adjust MathML attributes" -/
def mathmlAttrNames : List (String × String) := [("definitionurl", "definitionURL")]

/-- "adjust foreign attributes": (attribute name, prefix — `none` = the standard's "(none)", local
name, namespace keyword) -/
def foreignAttrs : List (String × Option String × String × String) := [
  ("xlink:actuate", some "xlink", "actuate", "xlink"),
  ("xlink:arcrole", some "xlink", "arcrole", "xlink"),
  ("xlink:href", some "xlink", "href", "xlink"),
  ("xlink:role", some "xlink", "role", "xlink"),
  ("xlink:show", some "xlink", "show", "xlink"),
  ("xlink:title", some "xlink", "title", "xlink"),
  ("xlink:type", some "xlink", "type", "xlink"),
  ("xml:lang", some "xml", "lang", "xml"),
  ("xml:space", some "xml", "space", "xml"),
  ("xmlns", none, "xmlns", "xmlns"),
  ("xmlns:xlink", some "xmlns", "xlink", "xmlns")]

/-! ### §13.4 fragment parsing: tokenizer start state by context element (HTML namespace) -/

def fragmentRcdata : List String := ["title", "textarea"]
def fragmentRawtext : List String := ["style", "xmp", "iframe", "noembed", "noframes"]
def fragmentScriptData : List String := ["script"]
/-- RAWTEXT iff the scripting flag is enabled -/
def fragmentNoscript : List String := ["noscript"]
def fragmentPlaintext : List String := ["plaintext"]

end H5V.Spec.TreeTables
