/-
Character-level specification of "escaping a string" (HTML fragment serialisation algorithm,
current standard: `<` and `>` are escaped in attribute mode too) and of the way the tokenizer
reads such text back (data state / attribute value (double-quoted) state), restricted to the five
character references the serializer can emit.

Written independently of the code: no bytes, no indices.
-/
namespace H5V.Spec.HtmlEscape

def eAmp : List Char := ['&', 'a', 'm', 'p', ';']
def eNbsp : List Char := ['&', 'n', 'b', 's', 'p', ';']
def eLt : List Char := ['&', 'l', 't', ';']
def eGt : List Char := ['&', 'g', 't', ';']
def eQuot : List Char := ['&', 'q', 'u', 'o', 't', ';']

/-- one character of "escaping a string"; `attr` = attribute mode -/
def escChar (attr : Bool) (c : Char) : List Char :=
  if c = '&' then eAmp
  else if c = '\u00A0' then eNbsp
  else if c = '<' then eLt
  else if c = '>' then eGt
  else if c = '"' ∧ attr = true then eQuot
  else [c]

def escape (attr : Bool) (s : List Char) : List Char := s.flatMap (escChar attr)

abbrev escapeText := escape false
abbrev escapeAttr := escape true

/-! ### reading back -/

/-- the character that ends the context: `<` opens a tag in the data state, `"` closes a
double-quoted attribute value -/
def stopChar (attr : Bool) : Char := if attr then '"' else '<'

/-- names (after the `&`) of the references the serializer emits, with their values -/
def refs : List (List Char × Char) :=
  [(['a', 'm', 'p', ';'], '&'), (['l', 't', ';'], '<'), (['g', 't', ';'], '>'),
   (['q', 'u', 'o', 't', ';'], '"'), (['n', 'b', 's', 'p', ';'], '\u00A0')]

/-- the reference starting right after an `&`: its value and the number of characters it occupies -/
def matchRef (rest : List Char) : Option (Char × Nat) :=
  refs.findSome? (fun r => if r.1.isPrefixOf rest then some (r.2, r.1.length) else none)

/--
The reader.  `skip` = number of characters still to be dropped (the body of a reference just
resolved).  Input-stream preprocessing is part of it: CR LF and a lone CR become LF; U+0000 becomes
U+FFFD in an attribute value and is dropped in text (tree builder, "in body").  An `&` that starts
none of the five references stays a literal `&` (all the serializer ever needs).  Reading ends at
the first unescaped `stopChar`.
-/
def unescapeAux (attr : Bool) : Nat → List Char → List Char
  | _, [] => []
  | n + 1, _ :: rest => unescapeAux attr n rest
  | 0, c :: rest =>
    if c = '&' then
      match matchRef rest with
      | some (v, n) => v :: unescapeAux attr n rest
      | none => '&' :: unescapeAux attr 0 rest
    else if c = stopChar attr then []
    else if c = '\r' then
      match rest with
      | '\n' :: _ => unescapeAux attr 0 rest
      | _ => '\n' :: unescapeAux attr 0 rest
    else if c = '\u0000' then
      if attr then '\uFFFD' :: unescapeAux attr 0 rest else unescapeAux attr 0 rest
    else c :: unescapeAux attr 0 rest

def unescape (attr : Bool) (s : List Char) : List Char := unescapeAux attr 0 s

/-- strings the round trip is claimed for: CR is rewritten by input-stream preprocessing
(CR, CR LF → LF) and U+0000 is replaced / dropped, so neither can survive *any* escaping that
writes them literally -/
def noCRNUL (s : List Char) : Prop := ∀ c ∈ s, c ≠ '\r' ∧ c ≠ '\u0000'

instance (s : List Char) : Decidable (noCRNUL s) := by unfold noCRNUL; infer_instance

end H5V.Spec.HtmlEscape
