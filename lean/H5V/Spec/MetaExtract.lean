/-
Specification: WHATWG HTML, "algorithm for extracting a character encoding from a meta element"
(https://html.spec.whatwg.org/multipage/urls-and-fetching.html#algorithm-for-extracting-a-character-encoding-from-a-meta-element),
transcribed step by step.  The string is a list of bytes (UTF-8 of the attribute value): every
character the algorithm looks at is ASCII, and no byte of a multi-byte UTF-8 sequence is ASCII, so
the byte-level and the code-point-level readings coincide (trusted, see C19.py TRUSTED).

The standard's last step, "return the result of *getting an encoding* from the substring", is NOT
part of this function: html5ever reports the raw label and leaves the label lookup to the embedder
(rules.rs: "We don't verify the validity of the encoding here").  `extract` therefore returns the
substring itself; `none` = the algorithm's "return nothing".
-/
namespace H5V.Spec.MetaExtract

/-- ASCII whitespace: TAB, LF, FF, CR, SPACE -/
def isWs (b : UInt8) : Bool := b == 0x09 || b == 0x0A || b == 0x0C || b == 0x0D || b == 0x20

def toLower (b : UInt8) : UInt8 := if 0x41 ≤ b.toNat ∧ b.toNat ≤ 0x5A then b + 0x20 else b

/-- "charset" -/
def word : List UInt8 := [0x63, 0x68, 0x61, 0x72, 0x73, 0x65, 0x74]

/-- the first seven characters of `s` are an ASCII case-insensitive match for "charset" -/
def startsWithCharset (s : List UInt8) : Bool := (s.take 7).map toLower == word

/-- Step 2: "Find the first seven characters in s after position that are an ASCII case-insensitive
match for the word "charset". If no such match is found, return nothing."  Returns what follows the
match. -/
def findCharset : List UInt8 → Option (List UInt8)
  | [] => none
  | b :: tl => if startsWithCharset (b :: tl) then some ((b :: tl).drop 7) else findCharset tl

/-- Steps 3 and 5: "Skip any ASCII whitespace that immediately follow …" -/
def skipWs (s : List UInt8) : List UInt8 := s.dropWhile isWs

theorem findCharset_length {s after : List UInt8} (h : findCharset s = some after) :
    after.length < s.length := by
  induction s with
  | nil => simp [findCharset] at h
  | cons b tl ih =>
    simp only [findCharset] at h
    split at h
    · cases h; simp only [List.length_drop, List.length_cons]; omega
    · have := ih h; simp only [List.length_cons]; omega

theorem skipWs_length (s : List UInt8) : (skipWs s).length ≤ s.length := by
  unfold skipWs
  induction s with
  | nil => simp
  | cons b tl ih => simp only [List.dropWhile]; split <;> simp <;> omega

/-- Steps 2–4 ("Loop"): returns what follows the `=` sign.
Step 4: "If the next character is not a U+003D EQUALS SIGN (=), then move position to point just
before that next character, and jump back to the step labeled loop." -/
def afterEquals (s : List UInt8) : Option (List UInt8) :=
  match h : findCharset s with
  | none => none
  | some after =>
    match h' : skipWs after with
    | 0x3D :: rest => some rest
    | next => afterEquals next
termination_by s.length
decreasing_by
  have h1 := findCharset_length h
  have h2 := skipWs_length after
  rw [h'] at h2
  omega

/-- Steps 5–6 -/
def value (rest : List UInt8) : Option (List UInt8) :=
  match skipWs rest with
  | [] => none                                           -- "Otherwise: return nothing" (no next character)
  | q :: tl =>
    if q == 0x22 || q == 0x27 then
      -- a quote: the substring between this character and its next earliest occurrence, if any
      if tl.contains q then some (tl.takeWhile (fun b => b != q)) else none
    else
      -- up to but not including the first ASCII whitespace or U+003B (;), or the end of s
      some ((q :: tl).takeWhile (fun b => !(isWs b || b == 0x3B)))

def extract (s : List UInt8) : Option (List UInt8) := (afterEquals s).bind value

end H5V.Spec.MetaExtract
