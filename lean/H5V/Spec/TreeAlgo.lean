import H5V.Spec.TreeTables
/-!
`H5V.Spec.TreeAlgo` — sub-algorithms of WHATWG HTML §13.2.4–13.2.6 as small pure functions, each
written from the standard's prose (quoted in the doc comments), independently of html5ever's code.
`H5V.Lemmas.HtmlTBSpec` / `H5V.Props.C02` prove the model's transcription of the *code* equal to
these for all inputs.

Conventions: a stack of open elements is a `List Name` with the **current node first** (the
"bottommost" node of the standard; the `html` element is last).  Strings are `List Char`.
-/
namespace H5V.Spec.TreeAlgo
open H5V.Spec

abbrev Str := List Char

/-! ### names -/

def nsHtml : Str := "http://www.w3.org/1999/xhtml".toList
def nsMathml : Str := "http://www.w3.org/1998/Math/MathML".toList
def nsSvg : Str := "http://www.w3.org/2000/svg".toList
def nsXlink : Str := "http://www.w3.org/1999/xlink".toList
def nsXml : Str := "http://www.w3.org/XML/1998/namespace".toList
def nsXmlns : Str := "http://www.w3.org/2000/xmlns/".toList

/-- the namespace a keyword of `Spec.TreeTables` stands for -/
def nsUrl (kw : String) : Str :=
  if kw = "html" then nsHtml else if kw = "mathml" then nsMathml else if kw = "svg" then nsSvg
  else if kw = "xlink" then nsXlink else if kw = "xml" then nsXml else if kw = "xmlns" then nsXmlns else kw.toList

/-- an element type: (namespace, local name) -/
structure Name where
  ns : Str
  loc : Str
deriving DecidableEq, Repr

def Name.isHtml (n : Name) (loc : String) : Bool := n.ns == nsHtml && n.loc == loc.toList

/-- membership of an element type in a table of `(namespace keyword, local name)` rows -/
def inTable (t : List (String × String)) (n : Name) : Bool := t.any (fun r => nsUrl r.1 == n.ns && r.2.toList == n.loc)

/-- membership in a list of HTML element names -/
def inHtml (t : List String) (n : Name) : Bool := n.ns == nsHtml && t.any (fun s => s.toList == n.loc)

/-! ### ASCII case-insensitive comparison -/

/-- "ASCII lowercase" of one code point -/
def lower (c : Char) : Char := if 'A' ≤ c ∧ c ≤ 'Z' then Char.ofNat (c.toNat + 32) else c

/-- "ASCII case-insensitive match" with a string of the standard -/
def eqCI (a : Str) (b : String) : Bool := a.map lower == b.toList.map lower

/-- "starts with", ASCII case-insensitively -/
def startsWithCI (a : Str) (pre : String) : Bool := (pre.toList.map lower).isPrefixOf (a.map lower)

/-! ### (a) §13.2.6.4.1 the "initial" insertion mode: DOCTYPE token → document mode

> Then, if the document is *not* an iframe srcdoc document, and the parser cannot change the mode
> flag is false, and the DOCTYPE token matches one of the conditions in the following list, then
> set the Document to quirks mode: the force-quirks flag is set to on; the name is not "html"; the
> public identifier is set to: …; the system identifier is set to: …; the public identifier starts
> with: …; the system identifier is missing and the public identifier starts with one of the two HTML 4.01
> Frameset / Transitional prefixes.
> Otherwise, if the document is not an iframe srcdoc document, and the parser cannot change the
> mode flag is false, and the DOCTYPE token matches one of the conditions in the following list,
> then set the Document to limited-quirks mode: the public identifier starts with one of the two XHTML 1.0
> Frameset / Transitional prefixes; the system identifier is not missing and the public identifier starts
> with one of the two HTML 4.01 prefixes.
> The system identifier and public identifier strings must be compared to the values given in the
> lists above in an ASCII case-insensitive manner.  A system identifier whose value is the empty
> string is not considered missing for the purposes of the conditions above.

("parser cannot change the mode flag" is false for every parse html5ever performs.) -/
inductive DocMode | noQuirks | limitedQuirks | quirks
deriving DecidableEq, Repr

def quirksCondition (name pub sys : Option Str) (forceQuirks : Bool) : Bool :=
  forceQuirks
  || name != some "html".toList
  || (match pub with | some p => TreeTables.quirksPublicIds.any (eqCI p) | none => false)
  || (match sys with | some s => TreeTables.quirksSystemIds.any (eqCI s) | none => false)
  || (match pub with | some p => TreeTables.quirksPublicPrefixes.any (startsWithCI p) | none => false)
  || (sys.isNone && (match pub with | some p => TreeTables.html401PublicPrefixes.any (startsWithCI p) | none => false))

def limitedQuirksCondition (pub sys : Option Str) : Bool :=
  (match pub with | some p => TreeTables.limitedQuirksPublicPrefixes.any (startsWithCI p) | none => false)
  || (sys.isSome && (match pub with | some p => TreeTables.html401PublicPrefixes.any (startsWithCI p) | none => false))

def quirksMode (name pub sys : Option Str) (forceQuirks srcdoc : Bool) : DocMode :=
  if !srcdoc && quirksCondition name pub sys forceQuirks then .quirks
  else if !srcdoc && limitedQuirksCondition pub sys then .limitedQuirks
  else .noQuirks

/-! ### (b) §13.2.4.2 "has an element in a specific scope"

> The stack of open elements is said to have an element *target node* in a specific scope
> consisting of a list of element types *list* when the following algorithm terminates in a match
> state: 1. Initialize *node* to be the current node (the bottommost node of the stack).  2. If
> *node* is the target node, terminate in a match state.  3. Otherwise, if *node* is one of the
> element types in *list*, terminate in a failure state.  4. Otherwise, set *node* to the previous
> entry in the stack of open elements and return to step 2.  (This will never fail, since the loop
> will always terminate in the previous step if the top of the stack — an `html` element — is
> reached.) -/
def hasInScope (isTarget : Name → Bool) (list : Name → Bool) : List Name → Bool
  | [] => false
  | node :: rest => if isTarget node then true else if list node then false else hasInScope isTarget list rest

def defaultScopeList : Name → Bool := inTable TreeTables.defaultScope
def listItemScopeList : Name → Bool := inTable (TreeTables.defaultScope ++ TreeTables.listItemScopeExtra)
def buttonScopeList : Name → Bool := inTable (TreeTables.defaultScope ++ TreeTables.buttonScopeExtra)
def tableScopeList : Name → Bool := inTable TreeTables.tableScope
/-- pre-2025 editions: "in select scope" = all element types except `optgroup` and `option` -/
def selectScopeListLegacy (n : Name) : Bool := !inTable TreeTables.selectScopeExceptLegacy n

/-- "has a `name` element in scope" (target = an HTML element with that tag name) -/
def hasElementInScope (name : Str) : List Name → Bool :=
  hasInScope (fun n => n.ns == nsHtml && n.loc == name) defaultScopeList
def hasElementInListItemScope (name : Str) : List Name → Bool :=
  hasInScope (fun n => n.ns == nsHtml && n.loc == name) listItemScopeList
def hasElementInButtonScope (name : Str) : List Name → Bool :=
  hasInScope (fun n => n.ns == nsHtml && n.loc == name) buttonScopeList
def hasElementInTableScope (name : Str) : List Name → Bool :=
  hasInScope (fun n => n.ns == nsHtml && n.loc == name) tableScopeList
def hasElementInSelectScopeLegacy (name : Str) : List Name → Bool :=
  hasInScope (fun n => n.ns == nsHtml && n.loc == name) selectScopeListLegacy

/-! ### (c) §13.2.6.3 closing elements that have implied end tags

> When the steps below require the UA to generate implied end tags, then, while the current node
> is a dd element, a dt element, an li element, an optgroup element, an option element, a p
> element, an rb element, an rp element, an rt element, or an rtc element, the UA must pop the
> current node off the stack of open elements.  If a step requires the UA to generate implied end
> tags but lists an element to exclude from the process, then the UA must perform the above steps
> as if that element was not in the above list.
> When the steps below require the UA to generate all implied end tags thoroughly, then, while the
> current node is a caption, colgroup, dd, dt, li, optgroup, option, p, rb, rp, rt, rtc, tbody, td,
> tfoot, th, thead, or tr element, the UA must pop the current node off the stack. -/
def impliedEndTag (except : Option Str) (n : Name) : Bool :=
  inHtml TreeTables.impliedEnd n && !(n.ns == nsHtml && some n.loc == except)

def generateImpliedEndTags (except : Option Str) (stack : List Name) : List Name :=
  stack.dropWhile (impliedEndTag except)

def generateAllImpliedEndTagsThoroughly (stack : List Name) : List Name :=
  stack.dropWhile (inHtml (TreeTables.impliedEnd ++ TreeTables.impliedEndThoroughExtra))

/-! ### (d) §13.2.4.1 "reset the insertion mode appropriately" (current standard: no select steps)

> 1. Let *last* be false.  2. Let *node* be the last node in the stack of open elements.
> 3. *Loop*: If *node* is the first node in the stack of open elements, then set *last* to true,
>    and, if the parser was created as part of the HTML fragment parsing algorithm (fragment case),
>    set *node* to the context element passed to that algorithm.
> 4. If node is a td or th element and last is false, then switch to "in cell" and return.
> 5. tr → "in row".  6. tbody, thead, tfoot → "in table body".  7. caption → "in caption".
> 8. colgroup → "in column group".  9. table → "in table".  10. template → the current template
>    insertion mode.  11. head and last is false → "in head".  12. body → "in body".
> 13. frameset → "in frameset" (fragment case).  14. html: if the head element pointer is null,
>    "before head" (fragment case), otherwise "after head".  15. If last is true, "in body"
>    (fragment case).  16. Let node now be the node before node in the stack.  17. Return to *loop*.

(Editions before 2025 had a step "If node is a select element …" between 3 and 4, with "in select"
/ "in select in table"; the customizable-select change removed both modes and the step.) -/
inductive Mode
  | initial | beforeHtml | beforeHead | inHead | inHeadNoscript | afterHead | inBody | text
  | inTable | inTableText | inCaption | inColumnGroup | inTableBody | inRow | inCell | inTemplate
  | afterBody | inFrameset | afterFrameset | afterAfterBody | afterAfterFrameset
deriving DecidableEq, Repr

/-- steps 4–15 for one *node*: `some m` = "switch the insertion mode to m and return" (`m = none`:
the current template insertion mode does not exist — excluded by the standard), `none` = go on
with step 16.  `tm` = the current template insertion mode. -/
def resetStep (node : Name) (last : Bool) (tm : Option Mode) (headPointerNull : Bool) : Option (Option Mode) :=
  if (node.isHtml "td" || node.isHtml "th") && !last then some (some .inCell)
  else if node.isHtml "tr" then some (some .inRow)
  else if node.isHtml "tbody" || node.isHtml "thead" || node.isHtml "tfoot" then some (some .inTableBody)
  else if node.isHtml "caption" then some (some .inCaption)
  else if node.isHtml "colgroup" then some (some .inColumnGroup)
  else if node.isHtml "table" then some (some .inTable)
  else if node.isHtml "template" then some tm
  else if node.isHtml "head" && !last then some (some .inHead)
  else if node.isHtml "body" then some (some .inBody)
  else if node.isHtml "frameset" then some (some .inFrameset)
  else if node.isHtml "html" then (if headPointerNull then some (some .beforeHead) else some (some .afterHead))
  else if last then some (some .inBody)
  else none

/-- `stack`: current node first; `context`: the fragment case's context element; `currentTemplateMode`:
top of the stack of template insertion modes (the standard guarantees it exists whenever a
`template` element is open; `none` models the impossible case) -/
def resetInsertionMode (context : Option Name) (headPointerNull : Bool) (currentTemplateMode : Option Mode) :
    List Name → Option Mode
  | [] => some .inBody     -- not reachable in the standard (the stack holds `html`); html5ever answers "in body"
  | node0 :: rest =>
    -- step 3: `last`, and the context element in the fragment case
    let last := rest.isEmpty
    let node := if last then context.getD node0 else node0
    -- steps 4–15, else steps 16–17
    (resetStep node last currentTemplateMode headPointerNull).getD
      (resetInsertionMode context headPointerNull currentTemplateMode rest)

/-! ### (e) §13.2.6 the tree construction dispatcher

> As each token is emitted from the tokenizer, the user agent must follow the appropriate steps
> from the following list, known as the tree construction dispatcher:
> If the stack of open elements is empty; If the adjusted current node is an element in the HTML
> namespace; If the adjusted current node is a MathML text integration point and the token is a
> start tag whose tag name is neither "mglyph" nor "malignmark"; If the adjusted current node is a
> MathML text integration point and the token is a character token; If the adjusted current node
> is a MathML annotation-xml element and the token is a start tag whose tag name is "svg"; If the
> adjusted current node is an HTML integration point and the token is a start tag; If the adjusted
> current node is an HTML integration point and the token is a character token; If the token is
> an end-of-file token → process the token according to the rules given in the section
> corresponding to the current insertion mode in HTML content.
> Otherwise → process the token according to the rules given in the section for parsing tokens
> in foreign content.
> The adjusted current node is the context element if the parser was created as part of the HTML
> fragment parsing algorithm and the stack of open elements has only one element in it (fragment
> case); otherwise, the adjusted current node is the current node.
> A node is an HTML integration point if it is: a MathML annotation-xml element whose start tag
> token had an attribute with the name "encoding" whose value was an ASCII case-insensitive match
> for the string "text/html" / "application/xhtml+xml"; an SVG foreignObject / desc / title element. -/
inductive TokenKind
  | startTag (name : Str)
  | endTag (name : Str)
  | character
  | comment
  | eof
deriving DecidableEq, Repr

/-- an open element as the dispatcher sees it: its type and, for MathML `annotation-xml`, whether
its start tag had an `encoding` attribute with one of the two values -/
structure OpenElem where
  name : Name
  encodingHtml : Bool

def adjustedCurrentNode {α : Type} (stack : List α) (context : Option α) : Option α :=
  match stack, context with
  | [_], some c => some c
  | cur :: _, _ => some cur
  | [], _ => none

def isMathmlTextIntegrationPoint (n : Name) : Bool :=
  n.ns == nsMathml && TreeTables.mathmlTextIntegrationPoint.any (fun s => s.toList == n.loc)

def isHtmlIntegrationPoint (e : OpenElem) : Bool :=
  (e.name.ns == nsMathml && e.name.loc == "annotation-xml".toList && e.encodingHtml)
  || (e.name.ns == nsSvg && TreeTables.svgHtmlIntegrationPoint.any (fun s => s.toList == e.name.loc))

/-- `true` = "process the token according to the rules of the current insertion mode in HTML
content", `false` = foreign content; `acn` = the adjusted current node (`none`: empty stack) -/
def useHtmlRules (acn : Option OpenElem) (tok : TokenKind) : Bool :=
  match acn with
  | none => true
  | some e =>
    e.name.ns == nsHtml
    || (isMathmlTextIntegrationPoint e.name &&
        (match tok with | .startTag n => n != "mglyph".toList && n != "malignmark".toList | _ => false))
    || (isMathmlTextIntegrationPoint e.name && tok == .character)
    || (e.name.ns == nsMathml && e.name.loc == "annotation-xml".toList &&
        (match tok with | .startTag n => n == "svg".toList | _ => false))
    || (isHtmlIntegrationPoint e && (match tok with | .startTag _ => true | _ => false))
    || (isHtmlIntegrationPoint e && tok == .character)
    || tok == .eof

/-! ### (f) §13.2.6.1 / §13.2.6.5 adjust MathML / SVG / foreign attributes, SVG tag names

> adjust MathML attributes: if the token has an attribute named `definitionurl`, change its name
> to `definitionURL`.  adjust SVG attributes: for each attribute on the token whose attribute name
> is one of the ones in the first column of the table, change the attribute's name to the name
> given in the corresponding cell in the second column.  adjust foreign attributes: if any of the
> attributes on the token match the strings given in the first column of the table, let the
> attribute be a namespaced attribute, with the prefix being the string given in the
> corresponding cell in the second column, the local name the third, the namespace the fourth.

A token attribute is a (name, value) pair; the adjusted attribute has a prefix, a namespace
(`[]` = none) and a local name. -/
structure AdjAttr where
  pfx : Option Str
  ns : Str
  loc : Str
  value : Str
deriving DecidableEq, Repr

inductive ForeignKind | mathml | svg | other
deriving DecidableEq, Repr

def lookup2 (t : List (String × String)) (k : Str) : Option String :=
  (t.find? (fun r => r.1.toList == k)).map (·.2)

/-- the first (MathML / SVG) adjustment of an attribute name -/
def adjustName1 (kind : ForeignKind) (n : Str) : Str :=
  match kind with
  | .mathml => ((lookup2 TreeTables.mathmlAttrNames n).map String.toList).getD n
  | .svg => ((lookup2 TreeTables.svgAttrNames n).map String.toList).getD n
  | .other => n

/-- "adjust foreign attributes" for one attribute -/
def adjustForeign1 (n v : Str) : AdjAttr :=
  match TreeTables.foreignAttrs.find? (fun r => r.1.toList == n) with
  | some r => { pfx := r.2.1.map String.toList, ns := nsUrl r.2.2.2, loc := r.2.2.1.toList, value := v }
  | none => { pfx := none, ns := [], loc := n, value := v }

/-- the attributes of a start tag token inserted as a foreign element of the given kind -/
def adjustAttributes (kind : ForeignKind) (attrs : List (Str × Str)) : List AdjAttr :=
  attrs.map (fun (n, v) => adjustForeign1 (adjustName1 kind n) v)

/-- SVG: "if the token's tag name is one of the ones in the first column of the table, change
the tag name to the name given in the corresponding cell in the second column" -/
def adjustSvgTagName (n : Str) : Str := ((lookup2 TreeTables.svgTagNames n).map String.toList).getD n

/-- the start tags that break out of foreign content (§13.2.6.5) -/
def breaksOutOfForeign (name : Str) (attrNames : List Str) : Bool :=
  TreeTables.foreignBreakoutStart.any (fun s => s.toList == name)
  || (name == "font".toList && attrNames.any (fun a => TreeTables.fontBreakoutAttrs.any (fun s => s.toList == a)))

/-! ### (g) §13.2.4.3 push onto the list of active formatting elements (the Noah's Ark clause)

> When the steps below require the UA to push onto the list of active formatting elements an
> element *element*, the UA must perform the following steps: 1. If there are already three
> elements in the list of active formatting elements after the last marker, if any, or anywhere in
> the list if there are no markers, that have the same tag name, namespace, and attributes as
> *element*, then remove the earliest such element from the list of active formatting elements.
> For these purposes, the attributes must be compared as they were when the elements were created
> by the parser; two elements have the same attributes if all their parsed attributes can be
> paired such that the two attributes in each pair have identical names, namespaces, and values
> (the order of the attributes does not matter).  2. Add *element* to the list.

The list is a `List (Option E)`, oldest first, `none` = marker; `same` compares an entry with the
element being pushed. -/
section Noah
variable {E : Type}

/-- the entries after the last marker (or the whole list), oldest first -/
def afterLastMarker : List (Option E) → List E
  | [] => []
  | none :: rest => afterLastMarker rest
  | some e :: rest =>
    if rest.any Option.isNone then afterLastMarker rest else e :: afterLastMarker rest

/-- remove the first entry (marker-free suffix only) satisfying `p` -/
def removeEarliestAfterMarker (p : E → Bool) : List (Option E) → List (Option E)
  | [] => []
  | none :: rest => none :: removeEarliestAfterMarker p rest
  | some e :: rest =>
    if rest.any Option.isNone then some e :: removeEarliestAfterMarker p rest
    else if p e then rest else some e :: removeEarliestAfterMarker p rest

def noahPush (same : E → E → Bool) (list : List (Option E)) (e : E) : List (Option E) :=
  let list := if ((afterLastMarker list).filter (same e)).length ≥ TreeTables.noahLimit
              then removeEarliestAfterMarker (same e) list else list
  list ++ [some e]

end Noah

/-! ### (h) the adoption agency algorithm's loop structure (§13.2.6.4.7)

> 3. Let *outer loop counter* be 0.  4. While true: 1. If outer loop counter is greater than or
> equal to 8, then return.  2. Increment outer loop counter by 1.  …
> 4.13 Let *inner loop counter* be 0; *inner loop*: 1. Increment inner loop counter by 1.  2. Let
> node be the element immediately above node in the stack …  3. If node is formatting element,
> then break.  4. If inner loop counter is greater than 3 and node is in the list of active
> formatting elements, then remove node from the list of active formatting elements.  5. If node
> is not in the list of active formatting elements, then remove node from the stack of open
> elements and continue.  6. Create an element for the token for which the element node was
> created …, replace the entry for node in the list of active formatting elements …, and the
> entry in the stack …  7. If last node is furthest block, then move the aforementioned bookmark
> to be immediately after the new node in the list of active formatting elements.

`boundedLoop n step`: run `step` until it reports completion, at most `n` times. -/
def boundedLoop {m : Type → Type} [Monad m] (step : m Bool) : Nat → m Unit
  | 0 => pure ()
  | n + 1 => do if ← step then pure () else boundedLoop step n

/-- what the inner loop does with a node that is not the formatting element -/
inductive InnerAction | removeFromBoth | removeFromStack | replaceWithNewElement
deriving DecidableEq, Repr

/-- steps 4–6 of the inner loop: `counter` is the value *after* the increment of step 1 -/
def innerLoopAction (counter : Nat) (inActiveFormatting : Bool) : InnerAction :=
  if counter > TreeTables.adoptionInnerLimit && inActiveFormatting then .removeFromBoth
  else if !inActiveFormatting then .removeFromStack
  else .replaceWithNewElement

end H5V.Spec.TreeAlgo
