import H5V.Spec.TreeModes3
/-!
`H5V.Spec.TreeModes4` — part 4 of `H5V.Spec.TreeModes` (see the header of `TreeModes1`):
§13.2.6.5 the rules for parsing tokens in foreign content, §13.2.6 the tree construction
dispatcher, the driver (`processSTok`, `processChars`, `processToken`, `run`), `parseDocument`, and
§13.4 the tree-construction part of the HTML fragment parsing algorithm (`parseFragment`).
-/
namespace H5V.Spec.TreeModes
open H5V.Spec
open H5V.Spec.TreeAlgo (Str Name nsHtml nsMathml nsSvg DocMode inHtml)
open H5V.Spec.TreeAlgo2 (Elem Entry PState Ctx Edit Place)

section
variable {N : Type} [DecidableEq N]

/-! ## the adjusted current node, integration points -/

/-- an element of the stack as `TreeAlgo.useHtmlRules` wants it -/
def openElem (s : State N) (e : Elem N) : TreeAlgo.OpenElem :=
  { name := e.name, encodingHtml := s.annotationHtml.contains e.id }

/-- > The **adjusted current node** is the context element if the parser was created as part of the
> HTML fragment parsing algorithm and the stack of open elements has only one element in it
> (fragment case); otherwise, the adjusted current node is the current node. -/
def adjustedCurrentNode (cfg : Config N) (s : State N) : Option TreeAlgo.OpenElem :=
  TreeAlgo.adjustedCurrentNode (s.p.stack.reverse.map (openElem s))
    (cfg.context.map fun c => { name := c.name, encodingHtml := cfg.contextEncodingHtml })

/-! ## §13.2.6.5 The rules for parsing tokens in foreign content -/

/-- "the current node is a MathML text integration point, an HTML integration point, or an element
in the HTML namespace" -/
def stopsBreakOut (s : State N) (e : Elem N) : Bool :=
  TreeAlgo.isMathmlTextIntegrationPoint e.name || TreeAlgo.isHtmlIntegrationPoint (openElem s e) ||
    e.name.ns == nsHtml

/-- > **A start tag whose tag name is one of: "b", "big", "blockquote", "body", "br", "center",
> "code", "dd", "div", "dl", "dt", "em", "embed", "h1", "h2", "h3", "h4", "h5", "h6", "head", "hr",
> "i", "img", "li", "listing", "menu", "meta", "nobr", "ol", "p", "pre", "ruby", "s", "small",
> "span", "strong", "strike", "sub", "sup", "table", "tt", "u", "ul", "var"; A start tag whose tag
> name is "font", if the token has any attributes named "color", "face", or "size"; An end tag whose
> tag name is "br", "p"** — Parse error.  While the current node is not a MathML text integration
> point, an HTML integration point, or an element in the HTML namespace, pop elements from the stack
> of open elements.  Reprocess the token according to the rules given in the section corresponding
> to the current insertion mode in HTML content. -/
def foreignBreakOut (s : State N) : Step N :=
  let s := s.err "foreign content: HTML tag breaks out"
  .reprocessHtml (s.setStack (s.p.stack.reverse.dropWhile fun e => !stopsBreakOut s e).reverse)

/-- "pop the current node off the stack of open elements … (process the SVG script element
according to the SVG rules)" -/
def foreignEndSvgScript (s : State N) : M (Step N) := do
  let script ← req s.cur "foreign content: script end tag on an empty stack"
  let s := s.pop
  pure (.done { s with out := { s.out with svgScript := some script.id } })

/-- > **Any other start tag** — If the adjusted current node is an element in the MathML namespace,
> adjust MathML attributes for the token.  (This fixes the case of MathML attributes that are not
> all lowercase.)
> If the adjusted current node is an element in the SVG namespace, and the token's tag name is one
> of the ones in the first column of the following table, change the tag name to the name given in
> the corresponding cell in the second column.  (This fixes the case of SVG elements that are not
> all lowercase.)
> If the adjusted current node is an element in the SVG namespace, adjust SVG attributes for the
> token.  (This fixes the case of SVG attributes that are not all lowercase.)
> Adjust foreign attributes for the token.  (This fixes the use of namespaced attributes, in
> particular XLink in SVG.)
> Insert a foreign element for the token, with the adjusted current node's namespace and false.
> If the token has its self-closing flag set, then run the appropriate steps from the following
> list: **If the token's tag name is "script", and the new current node is in the SVG namespace** —
> Acknowledge the token's self-closing flag, and then act as described in the steps for a "script"
> end tag below.  **Otherwise** — Pop the current node off the stack of open elements and
> acknowledge the token's self-closing flag. -/
def foreignAnyOtherStartTag (cfg : Config N) (s : State N) (t : Tag) : M (Step N) := do
  let acn ← req (adjustedCurrentNode cfg s) "foreign content: no adjusted current node"
  let ns := acn.name.ns
  let kind : TreeAlgo.ForeignKind :=
    if ns == nsMathml then .mathml else if ns == nsSvg then .svg else .other
  let t' : Tag := if ns == nsSvg then { t with name := TreeAlgo.adjustSvgTagName t.name } else t
  let r ← insertForeign s t' kind ns
  let s := r.1
  if t.selfClosing then
    if t'.is "script" && r.2.name.ns == nsSvg then foreignEndSvgScript (s.ack t)
    else pure (.done (s.pop.ack t))
  else pure (.done s)

/-- the outcome of the loop of "any other end tag" -/
inductive ForeignEnd
  /-- "return" (step 3) -/
  | ret
  /-- step 4 for the entry `k` places above the current node -/
  | popThrough (k : Nat)
  /-- step 7 -/
  | html
deriving DecidableEq, Repr

/-- steps 3–7; the stack with the current node first, `k` = how far *node* is above the current node -/
def foreignEndLoop (name : Str) : List (Elem N) → Nat → ForeignEnd
  | [], _ => .ret
  -- 3. node is the topmost element in the stack
  | [_], _ => .ret
  | node :: prev :: rest, k =>
    -- 4.
    if node.name.loc.map TreeAlgo.lower == name then .popThrough k
    -- 5., 6.
    else if prev.name.ns != nsHtml then foreignEndLoop name (prev :: rest) (k + 1)
    -- 7.
    else .html

/-- > **Any other end tag** — Run these steps:
> 1. Initialize *node* to be the current node (the bottommost node of the stack).
> 2. If *node*'s tag name, converted to ASCII lowercase, is not the same as the tag name of the
>    token, then this is a parse error.
> 3. *Loop*: If *node* is the topmost element in the stack of open elements, then return.  (fragment case)
> 4. If *node*'s tag name, converted to ASCII lowercase, is the same as the tag name of the token,
>    pop elements from the stack of open elements until *node* has been popped from the stack, and
>    then return.
> 5. Set *node* to the previous entry in the stack of open elements.
> 6. If *node* is not an element in the HTML namespace, return to the step labeled *loop*.
> 7. Otherwise, process the token according to the rules given in the section corresponding to the
>    current insertion mode in HTML content. -/
def foreignAnyOtherEndTag (cfg : Config N) (s : State N) (t : Tag) : M (Step N) :=
  let s := if s.cur.any (fun e => e.name.loc.map TreeAlgo.lower == t.name) then s
    else s.err "foreign content: end tag does not match the current node"
  match foreignEndLoop t.name s.p.stack.reverse 0 with
  | .ret => pure (.done s)
  | .popThrough k => pure (.done (s.setStack (s.p.stack.take (s.p.stack.length - (k + 1)))))
  | .html => byMode cfg s (.endTag t)

def foreign (cfg : Config N) (s : State N) (tok : STok) : M (Step N) :=
  match tok with
  | .character c =>
    /- > **A character token that is U+0000 NULL** — Parse error.  Insert a U+FFFD REPLACEMENT
       > CHARACTER character. -/
    if c == '\x00' then .done <$> insertChar (s.err "foreign content: U+0000") '�'
    /- > **A character token that is one of U+0009 CHARACTER TABULATION, U+000A LINE FEED (LF), U+000C
       > FORM FEED (FF), U+000D CARRIAGE RETURN (CR), or U+0020 SPACE** — Insert the token's character. -/
    else if isWs c then .done <$> insertChar s c
    /- > **Any other character token** — Insert the token's character.  Set the frameset-ok flag to
       > "not ok". -/
    else do
      let s ← insertChar s c
      pure (.done s.notOk)
  /- > **A comment token** — Insert a comment. -/
  | .comment d => .done <$> insertComment s d
  /- > **A DOCTYPE token** — Parse error.  Ignore the token. -/
  | .doctype .. => pure (.done (s.err "foreign content: doctype"))
  | .startTag t =>
    if TreeAlgo.breaksOutOfForeign t.name (t.attrs.map (·.name)) then pure (foreignBreakOut s)
    else foreignAnyOtherStartTag cfg s t
  | .endTag t =>
    if t.isOneOf TreeTables.foreignBreakoutEnd then pure (foreignBreakOut s)
    /- > **An end tag whose tag name is "script", if the current node is an SVG `script` element** —
       > Pop the current node off the stack of open elements.  (≈ … Process the SVG `script` element
       > according to the SVG rules, if the user agent supports SVG. …) -/
    else if t.is "script" && s.cur.any (fun e => e.name.ns == nsSvg && e.name.loc == "script".toList) then
      foreignEndSvgScript s
    else foreignAnyOtherEndTag cfg s t
  /- (the dispatcher sends every end-of-file token to the insertion mode) -/
  | .eof => throw "foreign content: end-of-file token"

/-! ## §13.2.6 the tree construction dispatcher -/

/-- (`TreeAlgo.TokenKind` has no DOCTYPE: no condition of the dispatcher mentions the DOCTYPE token,
so it is classified like a comment token) -/
def tokenKind : STok → TreeAlgo.TokenKind
  | .startTag t => .startTag t.name
  | .endTag t => .endTag t.name
  | .character _ => .character
  | .comment _ => .comment
  | .doctype .. => .comment
  | .eof => .eof

/-- > As each token is emitted from the tokenizer, the user agent must follow the appropriate steps
> from the following list, known as the tree construction dispatcher: … (`TreeAlgo.useHtmlRules`)
> → Process the token according to the rules given in the section corresponding to the current
> insertion mode in HTML content.  Otherwise → Process the token according to the rules given in
> the section for parsing tokens in foreign content. -/
def dispatch (cfg : Config N) (s : State N) (tok : STok) : M (Step N) :=
  if TreeAlgo.useHtmlRules (adjustedCurrentNode cfg s) (tokenKind tok) then byMode cfg s tok
  else foreign cfg s tok

/-! ## the driver -/

/-- process one token until no rule says "reprocess"; `html`: the last step asked for the rules of
the current insertion mode in HTML content (by-passing the dispatcher).
**Reading chosen for "Reprocess the token" in §13.2.6.4:** the token goes through the dispatcher
again (as a token would that has just been emitted); the alternative reading — apply the rules of
the (new) current insertion mode directly — is `loop` with `html := true` throughout. -/
def loop (cfg : Config N) : Nat → Bool → State N → STok → M (State N)
  | 0, _, _, _ => throw "out of fuel"
  | fuel + 1, html, s, tok => do
    let r ← if html then byMode cfg s tok else dispatch cfg s tok
    match r with
    | .done s => pure s
    | .reprocess s => loop cfg fuel false s tok
    | .reprocessHtml s => loop cfg fuel true s tok

/-- one token of the standard.  After "stop parsing" nothing is processed.
> (pre, listing, textarea) If the next token is a U+000A LINE FEED (LF) character token, then ignore
> that token and move on to the next one. -/
def processSTok (cfg : Config N) (fuel : Nat) (s : State N) (tok : STok) : M (State N) :=
  if s.stopped then pure s
  else if s.ignoreLf then
    let s := { s with ignoreLf := false }
    if tok == .character '\n' then pure s else loop cfg fuel false s tok
  else loop cfg fuel false s tok

/-- a run of character tokens = the fold of the single-character behaviour -/
def processChars (cfg : Config N) (fuel : Nat) : State N → Str → M (State N)
  | s, [] => pure s
  | s, c :: cs => do
    let s ← processSTok cfg fuel s (.character c)
    processChars cfg fuel s cs

def processSToks (cfg : Config N) (fuel : Nat) : State N → List STok → M (State N)
  | s, [] => pure s
  | s, t :: ts => do
    let s ← processSTok cfg fuel s t
    processSToks cfg fuel s ts

/-- one input token; `s.out` afterwards is the answer to the tokenizer, also appended to `s.outs`.
> (§13.2.5) When a start tag token is emitted with its self-closing flag set, if the flag is not
> acknowledged when it is processed by the tree construction stage, that is a parse error. -/
def processToken (cfg : Config N) (fuel : Nat) (s : State N) (tok : Token) : M (State N) := do
  let s := { s with out := {} }
  let s ← match tok with
    | .chars cs => processChars cfg fuel s cs
    | _ => processSToks cfg fuel s tok.expand
  let s := match tok with
    | .startTag t => if t.selfClosing && !s.out.ackSelfClosing then s.err "non-void element with self-closing flag" else s
    | _ => s
  pure { s with outs := s.outs ++ [s.out] }

/-- all the tokens, `fuel` reprocessing steps allowed for each standard token -/
def run (cfg : Config N) (fuel : Nat) : State N → List Token → M (State N)
  | s, [] => pure s
  | s, t :: ts => do
    let s ← processToken cfg fuel s t
    run cfg fuel s ts

/-- a generous number of reprocessing steps for one token (each "reprocess" either pops an element or
moves the insertion mode along; not proved sufficient here) -/
def autoFuel (s : State N) : Nat := 4 * s.p.stack.length + 64

def runAuto (cfg : Config N) : State N → List Token → M (State N)
  | s, [] => pure s
  | s, t :: ts => do
    let s ← processToken cfg (autoFuel s) s t
    runAuto cfg s ts

theorem processChars_eq_processSToks (cfg : Config N) (fuel : Nat) (s : State N) (cs : Str) :
    processChars cfg fuel s cs = processSToks cfg fuel s (Token.chars cs).expand := by
  induction cs generalizing s with
  | nil => rfl
  | cons c cs ih =>
    simp only [processChars, Token.expand, List.map_cons, processSToks]
    cases processSTok cfg fuel s (.character c) with
    | error e => rfl
    | ok s' => exact (by simpa [Token.expand] using ih s' : processChars cfg fuel s' cs = processSToks cfg fuel s' (cs.map STok.character))

/-! ## parsing a document -/

/-- the state of a parser just created: insertion mode "initial", empty stack, frameset-ok "ok", …;
`supply`: the nodes the DOM will hand out -/
def initialState (supply : List N) : State N := { p := { stack := [], list := [], supply := supply } }

def parseDocument (cfg : Config N) (fuel : Nat) (supply : List N) (toks : List Token) : M (State N) :=
  run cfg fuel (initialState supply) toks

/-! ## §13.4 the HTML fragment parsing algorithm (tree construction part)

> (≈) 1. Let *document* be a Document node whose type is "html".  2. If the node document of the
> *context* element is in quirks mode, then let *document* be in quirks mode.  Otherwise, if … in
> limited-quirks mode, then … limited-quirks mode.  Otherwise, leave *document* in no-quirks mode.
> 3. (declarative shadow roots)  4. Create a new HTML parser, and associate it with *document*.
> 5. Set the state of the HTML parser's tokenization stage as follows, switching on the context
> element: `title`, `textarea` → RCDATA state; `style`, `xmp`, `iframe`, `noembed`, `noframes` →
> RAWTEXT state; `script` → script data state; `noscript` → if the scripting flag is enabled, RAWTEXT
> state, otherwise leave the tokenizer in the data state; `plaintext` → PLAINTEXT state; any other
> element → leave the tokenizer in the data state.
> 6. Let *root* be the result of creating an element given *document*, "html", and the HTML
> namespace.  7. Append *root* to *document*.  8. Set up the HTML parser's stack of open elements so
> that it contains just the single element *root*.  9. If *context* is a `template` element, then
> push "in template" onto the stack of template insertion modes so that it is the new current
> template insertion mode.  10. Create a start tag token whose name is the local name of *context*
> and whose attributes are the attributes of *context*.  Let this start tag token be the start tag
> token of *context*; e.g. for the purposes of determining if it is an HTML integration point.
> 11. Reset the parser's insertion mode appropriately.  12. Set the parser's form element pointer to
> the nearest node to *context* that is a `form` element (going straight up the ancestor chain, and
> including the element itself, if it is a `form` element), if any.  13.–14. (encoding)  15. Start
> the HTML parser and let it run until it has consumed all the characters just inserted into the
> input stream.  16. Return *root*'s children, in tree order.

`cfg.context` is the context element (with `cfg.contextEncodingHtml` for step 10), `docMode` the
mode of its node document (step 2), `form` the result of step 12's search. -/
def fragmentTokenizerState (cfg : Config N) : Option TokSwitch :=
  match cfg.context with
  | none => none
  | some c =>
    if inHtml TreeTables.fragmentRcdata c.name then some .rcdata
    else if inHtml TreeTables.fragmentRawtext c.name then some .rawtext
    else if inHtml TreeTables.fragmentScriptData c.name then some .scriptData
    else if inHtml TreeTables.fragmentNoscript c.name then (if cfg.scripting then some .rawtext else none)
    else if inHtml TreeTables.fragmentPlaintext c.name then some .plaintext
    else none

/-- steps 2, 6–12 -/
def fragmentState (cfg : Config N) (docMode : DocMode) (form : Option N) (supply : List N) : M (State N) := do
  let context ← req cfg.context "parseFragment: no context element"
  let s : State N := { initialState supply with quirks := docMode }
  -- 6.–8.
  let s ← createRootHtml cfg s (bareTag "html")
  -- 9.
  let s := if context.name.isHtml "template" then { s with templateModes := [.inTemplate] } else s
  -- 11.
  let s ← resetInsertionMode cfg s
  -- 12.
  pure (s.setForm form)

def parseFragment (cfg : Config N) (fuel : Nat) (docMode : DocMode) (form : Option N) (supply : List N)
    (toks : List Token) : M (State N) := do
  let s ← fragmentState cfg docMode form supply
  run cfg fuel s toks

end

end H5V.Spec.TreeModes
