import H5V.Spec.TreeAlgo2
/-!
`H5V.Spec.TreeModes1` — part 1 of `H5V.Spec.TreeModes`: token type, parser state, the small helpers
the insertion modes share, and the "in head" insertion mode.

# `H5V.Spec.TreeModes` — the insertion modes of WHATWG HTML §13.2.6.4, §13.2.6.5, the dispatcher of §13.2.6

An executable, literal transcription of the **standard's prose**, clause by clause in the order of
the standard; every clause stands under a doc comment quoting it (quoted from memory; `≈` marks a
paraphrase / condensed quotation).  Nothing here was written from, or checked against, html5ever's
sources, the model of its tree builder, html5lib, or any other implementation.  The sub-algorithms
are the ones of `H5V.Spec.TreeAlgo` / `H5V.Spec.TreeAlgo2` (not re-transcribed).

## Files
* `TreeModes1` types, state, helpers, "in head"
* `TreeModes2` "in body"
* `TreeModes3` "text", the table modes, the select modes, "in template", "initial" … "after after frameset"
* `TreeModes4` foreign content, dispatcher, driver (`processToken`, `run`), `parseDocument`, `parseFragment`
* `TreeModes`  imports the four and holds the `example`s

## Which `select` rules (IMPORTANT)
The configuration carries an `Edition`:
* `Edition.selectModes` — the text of the standard **before** the 2025 "customizable select" parser
  change (whatwg/html #10548), i.e. with the "in select" and "in select in table" insertion modes,
  the `select` step of "reset the insertion mode appropriately", "has an element in select scope",
  `select` **not** in the "has an element in scope" list, and including the 2023 addition of `hr`
  inside `select`.  **This is the version I am sure of.**
* `Edition.customizableSelect` — the text after that change (no select modes, `select` in the scope
  list — this is what the frozen `Spec.TreeTables.defaultScope` / `Spec.TreeAlgo.resetInsertionMode`
  contain): `select`, `option`, `optgroup`, `hr`, `input` start tags and the `select` end tag are
  handled in "in body".  My recollection of these clauses is **less certain**; each is marked
  `(2025, ≈)` and listed in the final report.  The DOM-only part of that change ("maybe clone an
  option into selectedcontent") does not touch the parser state and is not modelled.

## Conventions
* stack of open elements: `PState.stack`, **current node last** (as in `Spec.TreeAlgo2`).
* stack of template insertion modes: a list, **current template insertion mode last**.
* node identities `N` come from `PState.supply`; the `Document` is `Config.document`.
* the element-creating token type of `PState N T` is `T := ETok`: the start tag token *after* the
  "adjust … attributes" steps (so each attribute is a `TreeAlgo.AdjAttr`; for an HTML element every
  attribute has no prefix and no namespace).
* DOM operations that `TreeAlgo2.Edit` does not have (DocumentType node, attribute merging on
  `html`/`body`) are `XOp`s in `State.xlog`, each tagged with the length of `p.log` at the time, so
  that `State.fullLog` is the single ordered log.
* "Parse error." = an entry in `State.errors` (a label naming the clause); **not** part of any
  compared output.  "Ignore the token." = the state is returned unchanged.
* "Process the token using the rules for the X insertion mode" = a call of X's function;
  "Reprocess the token" = `Step.reprocess` (the driver runs the dispatcher again);
  "Reprocess the token according to the rules given in the section corresponding to the current
  insertion mode in HTML content" (foreign content) = `Step.reprocessHtml`.
* `throw` (= `Except.error`) marks a state on which the standard's steps are undefined or an
  "Assert:" of the standard fails, or an exhausted node supply / fuel.
* Not modelled (no effect on stack / tree shape): character-encoding changes for `meta`, the
  declarative-shadow-root steps of the `template` start tag (as if "allow declarative shadow roots"
  were false), script execution (the answer to `</script>` is `Out.script := some node`; no script
  ever touches the tree or the input stream), "already started"/"parser document" script flags,
  custom elements, the `sarcasm` joke clause (= "any other end tag").
-/
namespace H5V.Spec.TreeModes
open H5V.Spec
open H5V.Spec.TreeAlgo (Str Name nsHtml nsMathml nsSvg DocMode inHtml)
open H5V.Spec.TreeAlgo2 (Elem Entry PState Ctx Edit Place)

/-! ## tokens -/

structure Attr where
  name : Str
  value : Str
deriving DecidableEq, Repr

/-- a start or end tag token: tag name, attributes, self-closing flag -/
structure Tag where
  name : Str
  attrs : List Attr := []
  selfClosing : Bool := false
deriving DecidableEq, Repr

/-- a token of the standard (`character`: one code point; U+0000 is an ordinary `character '\x00'`) -/
inductive STok
  | doctype (name pub sys : Option Str) (forceQuirks : Bool)
  | startTag (t : Tag)
  | endTag (t : Tag)
  | comment (data : Str)
  | character (c : Char)
  | eof
deriving DecidableEq, Repr

/-- the input of `processToken` / `run`: as `STok`, but a run of character tokens comes as one
`chars s` (= the character tokens `s[0]`, `s[1]`, … in order; U+0000 included) -/
inductive Token
  | doctype (name pub sys : Option Str) (forceQuirks : Bool)
  | startTag (t : Tag)
  | endTag (t : Tag)
  | comment (data : Str)
  | chars (s : Str)
  | eof
deriving DecidableEq, Repr

def Token.expand : Token → List STok
  | .doctype n p s f => [.doctype n p s f]
  | .startTag t => [.startTag t]
  | .endTag t => [.endTag t]
  | .comment d => [.comment d]
  | .chars s => s.map .character
  | .eof => [.eof]

/-- the token an element is created for, after the "adjust MathML / SVG / foreign attributes" steps -/
structure ETok where
  name : Str
  attrs : List TreeAlgo.AdjAttr := []
deriving DecidableEq, Repr

/-- a start tag token used to create an HTML element: no attribute is adjusted -/
def Tag.etok (t : Tag) : ETok :=
  { name := t.name, attrs := t.attrs.map fun a => { pfx := none, ns := [], loc := a.name, value := a.value } }

/-- a start tag token used to create a MathML / SVG element: "adjust MathML attributes" resp.
"adjust SVG attributes", then "adjust foreign attributes" (`TreeAlgo.adjustAttributes`) -/
def Tag.etokForeign (kind : TreeAlgo.ForeignKind) (t : Tag) : ETok :=
  { name := t.name, attrs := TreeAlgo.adjustAttributes kind (t.attrs.map fun a => (a.name, a.value)) }

/-- "a start tag token with no attributes" -/
def bareTag (name : String) : Tag := { name := name.toList }

def cx : Ctx ETok :=
  { tokName := fun t => t.name
    tokHasFormAttr := fun t => t.attrs.any fun a => a.ns == [] && a.loc == "form".toList }

/-! ## names, characters -/

def strIs (a : Str) (b : String) : Bool := a == b.toList
def strIsOneOf (a : Str) (l : List String) : Bool := l.any fun b => a == b.toList
/-- "whose tag name is `b`" -/
def Tag.is (t : Tag) (b : String) : Bool := strIs t.name b
/-- "whose tag name is one of: …" -/
def Tag.isOneOf (t : Tag) (l : List String) : Bool := strIsOneOf t.name l

/-- U+0009 CHARACTER TABULATION, U+000A LINE FEED (LF), U+000C FORM FEED (FF), U+000D CARRIAGE
RETURN (CR), or U+0020 SPACE -/
def isWs (c : Char) : Bool :=
  c == '\t' || c == '\n' || c == '\x0C' || c == '\r' || c == ' '

def Tag.attr? (t : Tag) (name : String) : Option Str :=
  (t.attrs.find? fun a => a.name == name.toList).map (·.value)

/-- "the token does not have an attribute with the name "type", or it does, but that attribute's
value is not an ASCII case-insensitive match for the string "hidden"" — negated -/
def Tag.typeIsHidden (t : Tag) : Bool :=
  match t.attr? "type" with
  | some v => TreeAlgo.eqCI v "hidden"
  | none => false

/-! ## insertion modes, edition, configuration -/

/-- §13.2.4.1 the insertion modes (`inSelect`, `inSelectInTable`: `Edition.selectModes` only) -/
inductive IMode
  | initial | beforeHtml | beforeHead | inHead | inHeadNoscript | afterHead | inBody | text
  | inTable | inTableText | inCaption | inColumnGroup | inTableBody | inRow | inCell
  | inSelect | inSelectInTable | inTemplate
  | afterBody | inFrameset | afterFrameset | afterAfterBody | afterAfterFrameset
deriving DecidableEq, Repr

def IMode.ofAlgo : TreeAlgo.Mode → IMode
  | .initial => .initial | .beforeHtml => .beforeHtml | .beforeHead => .beforeHead | .inHead => .inHead
  | .inHeadNoscript => .inHeadNoscript | .afterHead => .afterHead | .inBody => .inBody | .text => .text
  | .inTable => .inTable | .inTableText => .inTableText | .inCaption => .inCaption
  | .inColumnGroup => .inColumnGroup | .inTableBody => .inTableBody | .inRow => .inRow | .inCell => .inCell
  | .inTemplate => .inTemplate | .afterBody => .afterBody | .inFrameset => .inFrameset
  | .afterFrameset => .afterFrameset | .afterAfterBody => .afterAfterBody
  | .afterAfterFrameset => .afterAfterFrameset

/-- `none`: one of the two select modes, which `TreeAlgo.Mode` (2025 text) does not have -/
def IMode.toAlgo : IMode → Option TreeAlgo.Mode
  | .initial => some .initial | .beforeHtml => some .beforeHtml | .beforeHead => some .beforeHead
  | .inHead => some .inHead | .inHeadNoscript => some .inHeadNoscript | .afterHead => some .afterHead
  | .inBody => some .inBody | .text => some .text | .inTable => some .inTable
  | .inTableText => some .inTableText | .inCaption => some .inCaption
  | .inColumnGroup => some .inColumnGroup | .inTableBody => some .inTableBody | .inRow => some .inRow
  | .inCell => some .inCell | .inSelect => none | .inSelectInTable => none
  | .inTemplate => some .inTemplate | .afterBody => some .afterBody | .inFrameset => some .inFrameset
  | .afterFrameset => some .afterFrameset | .afterAfterBody => some .afterAfterBody
  | .afterAfterFrameset => some .afterAfterFrameset

inductive Edition
  /-- before whatwg/html #10548: "in select" / "in select in table" exist -/
  | selectModes
  /-- after it: customizable `<select>` -/
  | customizableSelect
deriving DecidableEq, Repr

/-- what does not change during a parse -/
structure Config (N : Type) where
  /-- the `Document` node -/
  document : N
  edition : Edition
  /-- the scripting flag -/
  scripting : Bool := false
  /-- "the document is an iframe srcdoc document" -/
  srcdoc : Bool := false
  /-- the "parser cannot change the mode flag" -/
  cannotChangeMode : Bool := false
  /-- fragment case: the context element -/
  context : Option (Elem N) := none
  /-- fragment case: the context element is a MathML `annotation-xml` whose start tag had an
  `encoding` attribute that matches `text/html` / `application/xhtml+xml` -/
  contextEncodingHtml : Bool := false

/-! ## the output channel to the tokenizer -/

/-- "switch the tokenizer to the … state" -/
inductive TokSwitch | rcdata | rawtext | scriptData | plaintext
deriving DecidableEq, Repr

/-- what the tree construction stage tells the tokenizer while it processes one token -/
structure Out (N : Type) where
  switch : Option TokSwitch := none
  /-- "acknowledge the token's self-closing flag" -/
  ackSelfClosing : Bool := false
  /-- an HTML `script` element was popped by its end tag: the parser pauses, "the script is
  executed" (here: nothing happens), and tokenization resumes -/
  script : Option N := none
  /-- the same for an SVG `script` element ("process the SVG script element according to the SVG rules") -/
  svgScript : Option N := none
deriving DecidableEq, Repr

/-! ## state -/

/-- the DOM operations `TreeAlgo2.Edit` lacks -/
inductive XOp (N : Type)
  /-- "Append a DocumentType node to the Document node, with its name set to the name given in the
  DOCTYPE token, or the empty string if the name was missing; its public ID set to the public
  identifier given in the DOCTYPE token, or the empty string if the public identifier was missing;
  and its system ID set to …" -/
  | appendDoctype (new : N) (name pub sys : Str)
  /-- "for each attribute on the token, check to see if the attribute is already present on the
  element; if it is not, add the attribute and its corresponding value to that element" (the check
  is the DOM's; `attrs` = all the attributes of the token, in order) -/
  | addMissingAttributes (elem : N) (attrs : List Attr)
  /-- "set the Document to quirks mode / limited-quirks mode" -/
  | setDocumentMode (m : DocMode)
deriving DecidableEq, Repr

/-- the merged log -/
inductive Op (N : Type)
  | edit (e : Edit N ETok)
  | x (o : XOp N)
deriving DecidableEq, Repr

structure State (N : Type) where
  /-- stack of open elements, list of active formatting elements, foster-parenting flag, form
  element pointer, node supply, edit log -/
  p : PState N ETok
  /-- the insertion mode -/
  mode : IMode := .initial
  /-- the original insertion mode -/
  originalMode : IMode := .initial
  /-- the stack of template insertion modes, current template insertion mode last -/
  templateModes : List IMode := []
  /-- the head element pointer -/
  headPointer : Option (Elem N) := none
  /-- the frameset-ok flag (`true` = "ok") -/
  framesetOk : Bool := true
  /-- the pending table character tokens -/
  pendingTableChars : Str := []
  /-- the Document's mode -/
  quirks : DocMode := .noQuirks
  /-- "If the next token is a U+000A LINE FEED (LF) character token, then ignore that token and move
  on to the next one." -/
  ignoreLf : Bool := false
  /-- the MathML `annotation-xml` elements on (or once on) the stack that are HTML integration points -/
  annotationHtml : List N := []
  /-- "stop parsing" was reached -/
  stopped : Bool := false
  /-- the extra DOM operations, each with `p.log.length` at the time it was performed -/
  xlog : List (Nat × XOp N) := []
  /-- parse errors (labels); not compared -/
  errors : List String := []
  /-- the answer to the token being processed -/
  out : Out N := {}
  /-- the answers to the `Token`s processed so far, oldest first (`run`) -/
  outs : List (Out N) := []

/-- result of applying the rules of one insertion mode to one token -/
inductive Step (N : Type)
  | done (s : State N)
  /-- "reprocess the token" -/
  | reprocess (s : State N)
  /-- "reprocess the token according to the rules given in the section corresponding to the current
  insertion mode in HTML content" -/
  | reprocessHtml (s : State N)

def Step.map {N : Type} (f : State N → State N) : Step N → Step N
  | .done s => .done (f s)
  | .reprocess s => .reprocess (f s)
  | .reprocessHtml s => .reprocessHtml (f s)

def Step.state {N : Type} : Step N → State N
  | .done s => s | .reprocess s => s | .reprocessHtml s => s

abbrev M := Except String

def req {α : Type} (o : Option α) (msg : String) : M α :=
  match o with
  | some a => pure a
  | none => throw msg

/-- merge `p.log` and `xlog` into the one ordered log: an extra operation tagged `j` comes after the
first `j` edits (`i` = number of edits already emitted; the tags are non-decreasing) -/
def mergeLog {N : Type} : List (Nat × XOp N) → Nat → List (Edit N ETok) → List (Op N)
  | [], _, es => es.map .edit
  | (j, x) :: xs, i, es =>
    (es.take (j - i)).map .edit ++ .x x :: mergeLog xs (max i j) (es.drop (j - i))

def State.fullLog {N : Type} (s : State N) : List (Op N) := mergeLog s.xlog 0 s.p.log

section Helpers
variable {N : Type} [DecidableEq N]

namespace State

/-- "this is a parse error" -/
def err (s : State N) (what : String) : State N := { s with errors := s.errors ++ [what] }

def xop (s : State N) (o : XOp N) : State N := { s with xlog := s.xlog ++ [(s.p.log.length, o)] }

def setStack (s : State N) (st : List (Elem N)) : State N := { s with p := { s.p with stack := st } }
def setList (s : State N) (l : List (Entry N ETok)) : State N := { s with p := { s.p with list := l } }
def setMode (s : State N) (m : IMode) : State N := { s with mode := m }
def setFoster (s : State N) (b : Bool) : State N := { s with p := { s.p with fosterParenting := b } }
def setForm (s : State N) (f : Option N) : State N := { s with p := { s.p with formPointer := f } }
def notOk (s : State N) : State N := { s with framesetOk := false }

/-- the current node -/
def cur (s : State N) : Option (Elem N) := s.p.stack.getLast?
/-- "the current node is an `n` element" (HTML namespace) -/
def curIs (s : State N) (n : String) : Bool := s.cur.any fun e => e.name.isHtml n
def curIn (s : State N) (l : List String) : Bool := s.cur.any fun e => inHtml l e.name
/-- "pop the current node off the stack of open elements" -/
def pop (s : State N) : State N := s.setStack s.p.stack.dropLast
/-- the element types on the stack, **current node first** (the order `Spec.TreeAlgo` wants) -/
def names (s : State N) : List Name := s.p.stack.reverse.map (·.name)
/-- "there is a `template` element on the stack of open elements" -/
def templateOnStack (s : State N) : Bool := s.p.stack.any fun e => e.name.isHtml "template"
/-- "insert a marker at the end of the list of active formatting elements" -/
def insertMarker (s : State N) : State N := s.setList (s.p.list ++ [.marker])
def clearToLastMarker (s : State N) : State N := s.setList (TreeAlgo2.clearToLastMarker s.p.list)
def switchTokenizer (s : State N) (t : TokSwitch) : State N := { s with out := { s.out with switch := some t } }
/-- "acknowledge the token's self-closing flag, if it is set" -/
def ack (s : State N) (t : Tag) : State N :=
  if t.selfClosing then { s with out := { s.out with ackSelfClosing := true } } else s

end State

/-! ### scope (§13.2.4.2), by edition -/

/-- `Edition.selectModes`: `select` is not one of the element types of "has an element in scope" -/
def scopeList (cfg : Config N) (base : Name → Bool) (n : Name) : Bool :=
  match cfg.edition with
  | .selectModes => base n && !n.isHtml "select"
  | .customizableSelect => base n

def isNamed (name : Str) (n : Name) : Bool := n.ns == nsHtml && n.loc == name

def hasInScope (cfg : Config N) (s : State N) (name : String) : Bool :=
  TreeAlgo.hasInScope (isNamed name.toList) (scopeList cfg TreeAlgo.defaultScopeList) s.names
def hasStrInScope (cfg : Config N) (s : State N) (name : Str) : Bool :=
  TreeAlgo.hasInScope (isNamed name) (scopeList cfg TreeAlgo.defaultScopeList) s.names
def hasAnyInScope (cfg : Config N) (s : State N) (l : List String) : Bool :=
  TreeAlgo.hasInScope (inHtml l) (scopeList cfg TreeAlgo.defaultScopeList) s.names
def hasInListItemScope (cfg : Config N) (s : State N) (name : String) : Bool :=
  TreeAlgo.hasInScope (isNamed name.toList) (scopeList cfg TreeAlgo.listItemScopeList) s.names
def hasInButtonScope (cfg : Config N) (s : State N) (name : String) : Bool :=
  TreeAlgo.hasInScope (isNamed name.toList) (scopeList cfg TreeAlgo.buttonScopeList) s.names
def hasInTableScope (s : State N) (name : String) : Bool :=
  TreeAlgo.hasElementInTableScope name.toList s.names
def hasStrInTableScope (s : State N) (name : Str) : Bool :=
  TreeAlgo.hasElementInTableScope name s.names
def hasAnyInTableScope (s : State N) (l : List String) : Bool :=
  TreeAlgo.hasInScope (inHtml l) TreeAlgo.tableScopeList s.names
/-- `Edition.selectModes` only -/
def hasInSelectScope (s : State N) (name : String) : Bool :=
  TreeAlgo.hasElementInSelectScopeLegacy name.toList s.names
/-- has a given *node* in scope -/
def hasNodeInScope (cfg : Config N) (s : State N) (x : N) : Bool :=
  TreeAlgo2.hasNodeInScope x (scopeList cfg TreeAlgo.defaultScopeList) s.p.stack.reverse

/-! ### popping -/

/-- "generate implied end tags" (, "except for `x` elements") -/
def genImplied (s : State N) (except : Option String := none) : State N :=
  s.setStack (TreeAlgo2.generateImpliedEndTags (except.map String.toList) s.p.stack)
def genImpliedExceptStr (s : State N) (except : Str) : State N :=
  s.setStack (TreeAlgo2.generateImpliedEndTags (some except) s.p.stack)

/-- "generate all implied end tags thoroughly" (`TreeAlgo.generateAllImpliedEndTagsThoroughly` on
the element types; the same number of entries is popped here) -/
def genAllImpliedThoroughly (s : State N) : State N :=
  let k := (TreeAlgo.generateAllImpliedEndTagsThoroughly s.names).length
  s.setStack (s.p.stack.take k)

/-- "pop elements from the stack of open elements until a `name` element has been popped" -/
def popUntilPopped (s : State N) (name : String) : State N :=
  s.setStack (TreeAlgo2.popUntilPopped (fun e => e.name.isHtml name) s.p.stack)
def popUntilPoppedStr (s : State N) (name : Str) : State N :=
  s.setStack (TreeAlgo2.popUntilPopped (fun e => isNamed name e.name) s.p.stack)
def popUntilPoppedAny (s : State N) (l : List String) : State N :=
  s.setStack (TreeAlgo2.popUntilPopped (fun e => inHtml l e.name) s.p.stack)

/-- "close a p element" -/
def closeP (s : State N) : State N :=
  let s := if (genImplied s (some "p")).curIs "p" then s else s.err "close a p element: current node is not p"
  s.setStack (TreeAlgo2.closePElement s.p.stack)

/-- "If the stack of open elements has a p element in button scope, then close a p element." -/
def closePIfInButtonScope (cfg : Config N) (s : State N) : State N :=
  if hasInButtonScope cfg s "p" then closeP s else s

/-! ### inserting -/

/-- "insert an HTML element for the token" -/
def insertHtml (s : State N) (t : Tag) : M (State N × Elem N) := do
  let r ← req (TreeAlgo2.insertHtmlElement cx s.p t.etok) "insert an HTML element: no place / no node"
  pure ({ s with p := r.1 }, r.2)

def insertHtml' (s : State N) (t : Tag) : M (State N) := do
  let r ← insertHtml s t
  pure r.1

/-- "insert an HTML element for the token.  Immediately pop the current node off the stack of open
elements.  Acknowledge the token's self-closing flag, if it is set." -/
def insertVoid (s : State N) (t : Tag) : M (State N) := do
  let s ← insertHtml' s t
  pure (s.pop.ack t)

/-- "insert a character" -/
def insertChar (s : State N) (c : Char) : M (State N) := do
  let p ← req (TreeAlgo2.insertCharacters s.p [c]) "insert a character: no place"
  pure { s with p := p }

def insertChars (s : State N) (cs : Str) : M (State N) :=
  match cs with
  | [] => pure s
  | _ => do
    let p ← req (TreeAlgo2.insertCharacters s.p cs) "insert a character: no place"
    pure { s with p := p }

/-- "insert a comment" -/
def insertComment (s : State N) (data : Str) : M (State N) := do
  let p ← req (TreeAlgo2.insertComment s.p data) "insert a comment: no place / no node"
  pure { s with p := p }

/-- "insert a comment as the last child of" the node `x` -/
def insertCommentIn (s : State N) (x : N) (data : Str) : M (State N) := do
  let p ← req (TreeAlgo2.insertCommentAsLastChildOf s.p x data) "insert a comment: no node"
  pure { s with p := p }

/-- "reconstruct the active formatting elements, if any" -/
def reconstruct (s : State N) : M (State N) := do
  let p ← req (TreeAlgo2.reconstructActiveFormattingElements cx s.p) "reconstruct the active formatting elements"
  pure { s with p := p }

/-! ### §13.2.4.3 push onto the list of active formatting elements

`TreeAlgo.noahPush` on the list with markers as `none`; two entries are "the same" when the tokens
they were created for have the same tag name and the same attributes up to order (every element of
the list is in the HTML namespace). -/

def sameFormatting (a b : N × ETok) : Bool := a.2.name == b.2.name && a.2.attrs.isPerm b.2.attrs

def entryToOpt : Entry N ETok → Option (N × ETok)
  | .marker => none
  | .element n t => some (n, t)

def optToEntry : Option (N × ETok) → Entry N ETok
  | none => .marker
  | some (n, t) => .element n t

def pushFormatting (s : State N) (e : Elem N) (t : Tag) : State N :=
  s.setList ((TreeAlgo.noahPush sameFormatting (s.p.list.map entryToOpt) (e.id, t.etok)).map optToEntry)

/-! ### §13.2.6.2 parsing elements that contain only text

> The **generic raw text element parsing algorithm** and the **generic RCDATA element parsing
> algorithm** consist of the following steps.  1. Insert an HTML element for the token.  2. If the
> algorithm that was invoked is the generic raw text element parsing algorithm, switch the tokenizer
> to the RAWTEXT state; otherwise the algorithm invoked was the generic RCDATA element parsing
> algorithm, switch the tokenizer to the RCDATA state.  3. Set the original insertion mode to the
> current insertion mode.  4. Then, switch the insertion mode to "text". -/
def genericTextElement (s : State N) (t : Tag) (sw : TokSwitch) : M (State N) := do
  let s ← insertHtml' s t
  let s := s.switchTokenizer sw
  pure { s with originalMode := s.mode, mode := .text }

def genericRawText (s : State N) (t : Tag) : M (State N) := genericTextElement s t .rawtext
def genericRcdata (s : State N) (t : Tag) : M (State N) := genericTextElement s t .rcdata

/-! ### §13.2.4.1 reset the insertion mode appropriately

`Edition.customizableSelect`: `TreeAlgo.resetInsertionMode`.  `Edition.selectModes`: the same loop
with the step the 2025 change deleted:

> 4. If *node* is a `select` element, run these substeps: 1. If *last* is true, jump to the step
> below labeled *done*.  2. Let *ancestor* be *node*.  3. *Loop*: If *ancestor* is the first node in
> the stack of open elements, jump to the step below labeled *done*.  4. Let *ancestor* be the node
> before *ancestor* in the stack of open elements.  5. If *ancestor* is a `template` node, jump to
> the step below labeled *done*.  6. If *ancestor* is a `table` node, switch the insertion mode to
> "in select in table" and return.  7. Jump back to the step labeled *loop*.  8. *Done*: Switch the
> insertion mode to "in select" and return. -/
def selectAncestorLoop : List Name → IMode
  -- 3. ancestor is the first node in the stack (nothing before it)
  | [] => .inSelect
  -- 4.–7.
  | ancestor :: above =>
    if ancestor.isHtml "template" then .inSelect
    else if ancestor.isHtml "table" then .inSelectInTable
    else selectAncestorLoop above

/-- the legacy loop; `stack`: current node first; the other steps are `TreeAlgo.resetStep` -/
def resetLegacy (context : Option Name) (headPointerNull : Bool) (tm : Option TreeAlgo.Mode) :
    List Name → Option IMode
  | [] => some .inBody
  | node0 :: rest =>
    let last := rest.isEmpty
    let node := if last then context.getD node0 else node0
    if node.isHtml "select" then
      some (if last then .inSelect else selectAncestorLoop rest)
    else
      match TreeAlgo.resetStep node last tm headPointerNull with
      | some m => m.map IMode.ofAlgo
      | none => resetLegacy context headPointerNull tm rest

def resetInsertionMode (cfg : Config N) (s : State N) : M (State N) := do
  let tm : Option TreeAlgo.Mode := s.templateModes.getLast?.bind IMode.toAlgo
  let ctxName := cfg.context.map (·.name)
  let m ← match cfg.edition with
    | .customizableSelect =>
      req ((TreeAlgo.resetInsertionMode ctxName s.headPointer.isNone tm s.names).map IMode.ofAlgo)
        "reset the insertion mode appropriately: no current template insertion mode"
    | .selectModes =>
      req (resetLegacy ctxName s.headPointer.isNone tm s.names)
        "reset the insertion mode appropriately: no current template insertion mode"
  pure (s.setMode m)

/-! ### §13.2.7 the end ("stop parsing")

> 4. Pop *all* the nodes off the stack of open elements.  (≈ the other steps — readiness, deferred
> scripts, events — do not touch the stack or the tree) -/
def stopParsing (s : State N) : State N := { s.setStack [] with stopped := true }

end Helpers

/-! ## §13.2.6.4.4 The "in head" insertion mode

`inBodyStartHtml` is the clause of "in body" for a start tag whose tag name is "html" (defined here
because "in head", "in body" and several other modes refer to one another; `TreeModes2` proves
`inBody … (.startTag t) = inBodyStartHtml …` for such a token). -/
section
variable {N : Type} [DecidableEq N]

/-- > **A start tag whose tag name is "html"** (in body) — Parse error.  If there is a `template`
> element on the stack of open elements, then ignore the token.  Otherwise, for each attribute on
> the token, check to see if the attribute is already present on the top element of the stack of
> open elements.  If it is not, add the attribute and its corresponding value to that element. -/
def inBodyStartHtml (s : State N) (t : Tag) : M (Step N) := do
  let s := s.err "in body: html start tag"
  if s.templateOnStack then pure (.done s)
  else
    let top ← req s.p.stack.head? "in body, html start tag: empty stack"
    pure (.done (s.xop (.addMissingAttributes top.id t.attrs)))

/-- > **A start tag whose tag name is "template"** (in head) —
> Let *template start tag* be the start tag.
> Insert a marker at the end of the list of active formatting elements.
> Set the frameset-ok flag to "not ok".
> Switch the insertion mode to "in template".
> Push "in template" onto the stack of template insertion modes so that it is the new current
> template insertion mode.
> (≈ the declarative-shadow-root steps: not modelled; "Otherwise:") Insert an HTML element for the token. -/
def inHeadStartTemplate (s : State N) (t : Tag) : M (Step N) := do
  let s := s.insertMarker
  let s := s.notOk
  let s := s.setMode .inTemplate
  let s := { s with templateModes := s.templateModes ++ [.inTemplate] }
  let s ← insertHtml' s t
  pure (.done s)

/-- > **An end tag whose tag name is "template"** (in head) —
> If there is no `template` element on the stack of open elements, then this is a parse error;
> ignore the token.  Otherwise, run these steps:
> 1. Generate all implied end tags thoroughly.
> 2. If the current node is not a `template` element, then this is a parse error.
> 3. Pop elements from the stack of open elements until a `template` element has been popped from the stack.
> 4. Clear the list of active formatting elements up to the last marker.
> 5. Pop the current template insertion mode off the stack of template insertion modes.
> 6. Reset the insertion mode appropriately. -/
def inHeadEndTemplate (cfg : Config N) (s : State N) : M (Step N) := do
  if !s.templateOnStack then pure (.done (s.err "in head: template end tag without template"))
  else
    let s := genAllImpliedThoroughly s
    let s := if s.curIs "template" then s else s.err "in head: template end tag, current node is not template"
    let s := popUntilPopped s "template"
    let s := s.clearToLastMarker
    let s := { s with templateModes := s.templateModes.dropLast }
    let s ← resetInsertionMode cfg s
    pure (.done s)

def inHead (cfg : Config N) (s : State N) (tok : STok) : M (Step N) :=
  /- > **Anything else** — Pop the current node (which will be the `head` element) off the stack of
     > open elements.  Switch the insertion mode to "after head".  Reprocess the token. -/
  let anythingElse : M (Step N) := pure (.reprocess (s.pop.setMode .afterHead))
  match tok with
  /- > **A character token that is one of U+0009 CHARACTER TABULATION, U+000A LINE FEED (LF), U+000C
     > FORM FEED (FF), U+000D CARRIAGE RETURN (CR), or U+0020 SPACE** — Insert the character. -/
  | .character c => if isWs c then .done <$> insertChar s c else anythingElse
  /- > **A comment token** — Insert a comment. -/
  | .comment d => .done <$> insertComment s d
  /- > **A DOCTYPE token** — Parse error.  Ignore the token. -/
  | .doctype .. => pure (.done (s.err "in head: doctype"))
  | .startTag t =>
    /- > **A start tag whose tag name is "html"** — Process the token using the rules for the "in
       > body" insertion mode. -/
    if t.is "html" then inBodyStartHtml s t
    /- > **A start tag whose tag name is one of: "base", "basefont", "bgsound", "link"** — Insert an
       > HTML element for the token.  Immediately pop the current node off the stack of open
       > elements.  Acknowledge the token's self-closing flag, if it is set. -/
    else if t.isOneOf ["base", "basefont", "bgsound", "link"] then .done <$> insertVoid s t
    /- > **A start tag whose tag name is "meta"** — Insert an HTML element for the token.
       > Immediately pop the current node off the stack of open elements.  Acknowledge the token's
       > self-closing flag, if it is set.  (≈ the `charset` / `http-equiv` encoding steps: not modelled) -/
    else if t.is "meta" then .done <$> insertVoid s t
    /- > **A start tag whose tag name is "title"** — Follow the generic RCDATA element parsing algorithm. -/
    else if t.is "title" then .done <$> genericRcdata s t
    /- > **A start tag whose tag name is "noscript", if the scripting flag is enabled**;
       > **A start tag whose tag name is one of: "noframes", "style"** — Follow the generic raw text
       > element parsing algorithm. -/
    else if (t.is "noscript" && cfg.scripting) || t.isOneOf ["noframes", "style"] then
      .done <$> genericRawText s t
    /- > **A start tag whose tag name is "noscript", if the scripting flag is disabled** — Insert an
       > HTML element for the token.  Switch the insertion mode to "in head noscript". -/
    else if t.is "noscript" then do
      let s ← insertHtml' s t
      pure (.done (s.setMode .inHeadNoscript))
    /- > **A start tag whose tag name is "script"** — (≈) 1. Let the adjusted insertion location be
       > the appropriate place for inserting a node.  2. Create an element for the token in the HTML
       > namespace, with the intended parent being the element in which the adjusted insertion
       > location finds itself.  3.–5. (script flags)  6. Insert the newly created element at the
       > adjusted insertion location.  7. Push the element onto the stack of open elements so that
       > it is the new current node.  8. Switch the tokenizer to the script data state.  9. Set the
       > original insertion mode to the current insertion mode.  10. Switch the insertion mode to "text".
       (steps 1, 2, 6, 7 = "insert an HTML element") -/
    else if t.is "script" then do
      let s ← insertHtml' s t
      let s := s.switchTokenizer .scriptData
      pure (.done { s with originalMode := s.mode, mode := .text })
    /- > **A start tag whose tag name is "template"** -/
    else if t.is "template" then inHeadStartTemplate s t
    /- > **A start tag whose tag name is "head"** — Parse error.  Ignore the token. -/
    else if t.is "head" then pure (.done (s.err "in head: head start tag"))
    else anythingElse
  | .endTag t =>
    /- > **An end tag whose tag name is "head"** — Pop the current node (which will be the `head`
       > element) off the stack of open elements.  Switch the insertion mode to "after head". -/
    if t.is "head" then pure (.done (s.pop.setMode .afterHead))
    /- > **An end tag whose tag name is one of: "body", "html", "br"** — Act as described in the
       > "anything else" entry below. -/
    else if t.isOneOf ["body", "html", "br"] then anythingElse
    /- > **An end tag whose tag name is "template"** -/
    else if t.is "template" then inHeadEndTemplate cfg s
    /- > **Any other end tag** — Parse error.  Ignore the token. -/
    else pure (.done (s.err "in head: unexpected end tag"))
  | .eof => anythingElse

end

end H5V.Spec.TreeModes
