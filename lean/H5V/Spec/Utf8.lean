/-
Specification of lossy UTF-8 decoding ("one U+FFFD per maximal ill-formed subsequence"),
written from the Unicode Standard, chapter 3: Table 3-7 (well-formed UTF-8 byte sequences) and
the "U+FFFD substitution of maximal subparts" practice (the policy of `String::from_utf8_lossy`,
of the WHATWG Encoding standard's UTF-8 decoder and of Python's `errors="replace"`).

The definition is table driven and independent of the structure of the Rust code: at every
position the unique row of the table whose first range contains the byte is matched as far as
possible.  A complete match is one scalar value; an incomplete match (a mismatching byte, or the
end of the input) is one *maximal subpart of an ill-formed subsequence* and becomes one U+FFFD;
a byte that starts no row is replaced on its own.
-/
namespace H5V.Spec.Utf8

/-- an inclusive byte range `lo..hi` -/
abbrev Range := Nat × Nat

/-- Unicode 15, Table 3-7 "Well-Formed UTF-8 Byte Sequences" -/
def table : List (List Range) := [
  [(0x00, 0x7F)],
  [(0xC2, 0xDF), (0x80, 0xBF)],
  [(0xE0, 0xE0), (0xA0, 0xBF), (0x80, 0xBF)],
  [(0xE1, 0xEC), (0x80, 0xBF), (0x80, 0xBF)],
  [(0xED, 0xED), (0x80, 0x9F), (0x80, 0xBF)],
  [(0xEE, 0xEF), (0x80, 0xBF), (0x80, 0xBF)],
  [(0xF0, 0xF0), (0x90, 0xBF), (0x80, 0xBF), (0x80, 0xBF)],
  [(0xF1, 0xF3), (0x80, 0xBF), (0x80, 0xBF), (0x80, 0xBF)],
  [(0xF4, 0xF4), (0x80, 0x8F), (0x80, 0xBF), (0x80, 0xBF)]]

def inR (r : Range) (b : UInt8) : Bool := decide (r.1 ≤ b.toNat) && decide (b.toNat ≤ r.2)

/-- the row of the table a sequence starting with `b` has to follow (first ranges are disjoint) -/
def rowOf (b : UInt8) : Option (List Range) :=
  table.find? (fun row => match row with | r :: _ => inR r b | [] => false)

/-- how many leading bytes of the input follow the successive ranges of the row -/
def matchLen : List Range → List UInt8 → Nat
  | r :: rs, b :: bs => if inR r b then matchLen rs bs + 1 else 0
  | _, _ => 0

/-- what stands at the head of a non-empty input `b :: rest` -/
inductive Head where
  /-- a well-formed sequence of `n` bytes (one Unicode scalar value) -/
  | scalar (n : Nat)
  /-- a maximal ill-formed subpart of `n ≥ 1` bytes followed by a byte that cannot continue it -/
  | invalid (n : Nat)
  /-- the whole remaining input is a proper prefix of a well-formed sequence -/
  | truncated
deriving Repr, DecidableEq

def head (b : UInt8) (rest : List UInt8) : Head :=
  match rowOf b with
  | none => .invalid 1
  | some row =>
    let k := matchLen row (b :: rest)
    if k = row.length then .scalar k
    else if k = (b :: rest).length then .truncated
    else .invalid k

/-- the units of the decoded stream -/
inductive Unit where
  /-- the bytes of one well-formed sequence -/
  | scalar (bytes : List UInt8)
  /-- one U+FFFD standing for one maximal ill-formed subpart -/
  | repl
deriving Repr, DecidableEq

/-- the decoded stream of a complete input (end of input after the last byte) -/
def units : List UInt8 → List Unit
  | [] => []
  | b :: rest =>
    match head b rest with
    | .scalar n => .scalar (b :: rest.take (n - 1)) :: units (rest.drop (n - 1))
    | .invalid n => .repl :: units (rest.drop (n - 1))
    | .truncated => [.repl]
termination_by bs => bs.length
decreasing_by all_goals (simp only [List.length_drop, List.length_cons]; omega)

/-- UTF-8 of U+FFFD -/
def replBytes : List UInt8 := [0xEF, 0xBF, 0xBD]

/-- scalar value encoded by a well-formed sequence (Unicode Table 3-6 bit distribution) -/
def scalarValue : List UInt8 → Nat
  | [a] => a.toNat
  | [a, b] => (a.toNat % 32) * 64 + b.toNat % 64
  | [a, b, c] => (a.toNat % 16) * 4096 + (b.toNat % 64) * 64 + c.toNat % 64
  | [a, b, c, d] => (a.toNat % 8) * 262144 + (b.toNat % 64) * 4096 + (c.toNat % 64) * 64 + d.toNat % 64
  | _ => 0xFFFD

def Unit.bytes : Unit → List UInt8
  | .scalar bs => bs
  | .repl => replBytes

def Unit.value : Unit → Nat
  | .scalar bs => scalarValue bs
  | .repl => 0xFFFD

/-- `String::from_utf8_lossy` as a sequence of scalar values -/
def lossy (bs : List UInt8) : List Nat := (units bs).map Unit.value

/-- the same, re-encoded as UTF-8 (what a `Tendril<UTF8>` sink receives) -/
def lossyBytes (bs : List UInt8) : List UInt8 := (units bs).flatMap Unit.bytes

/-- number of U+FFFD substitutions (= number of errors to report) -/
def replacements (bs : List UInt8) : Nat := (units bs).count .repl

/-- well-formed UTF-8: decoding substitutes nothing -/
def WellFormed (bs : List UInt8) : Prop := ∀ u ∈ units bs, u ≠ .repl

/-- The stream a sink observes, errors marked in place: `some b` is a byte of text,
`none` is one `error(..)` call.  A replacement is reported as an error immediately followed by
the text U+FFFD. -/
def Unit.marked : Unit → List (Option UInt8)
  | .scalar bs => bs.map some
  | .repl => none :: replBytes.map some

def marked (bs : List UInt8) : List (Option UInt8) := (units bs).flatMap Unit.marked

end H5V.Spec.Utf8
