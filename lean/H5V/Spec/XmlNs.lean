import H5V.Model.XmlTB
/-!
# Spec: Namespaces in XML as lexical scoping over an XML5 token stream

Independent of the tree builder's structure: there is no DOM, no "current namespace" scratch map,
no separately pushed/popped stack.  The environment is the list of the *open elements' own
declaration frames* (innermost first), zipped with the element names, so that scope and nesting
cannot get out of step by construction.

Rules (the property's statement, plus explicit choices where it is silent):
* `xml` ↦ `http://www.w3.org/XML/1998/namespace` and `xmlns` ↦ `http://www.w3.org/2000/xmlns/` are
  fixed and cannot be changed or un-bound;
* `xmlns="u"` sets the default namespace of this element and its descendants, `xmlns=""` un-binds it;
  `xmlns:p="u"` binds `p`, `xmlns:p=""` un-binds it;
* the default namespace applies to unprefixed *element* names only; unprefixed attributes have no
  namespace;
* a declaration is visible in its own tag and in descendants only;
* CHOICE: an unbound or un-declared prefix gives the empty namespace (upstream additionally reports a
  parse error, mod.rs:287-289);
* CHOICE: a declaration whose value is the xmlns URI, and every declaration for the prefixes `xml`
  and `xmlns`, has no effect; any other prefix may be bound to the xml URI (upstream allows it);
* CHOICE: of several declarations of one prefix in one tag the first counts (the later ones are
  duplicate attributes);
* CHOICE: declarations are consumed (never appear among the element's attributes), as upstream does;
* CHOICE: an end tag's name is resolved in the scope of the element it is written in, extended by
  declarations the end tag itself carries (the xml5ever tokenizer never delivers any);
* duplicates: among *prefixed* attributes the first with a given expanded name is kept.  Unprefixed
  duplicates have equal raw names and are removed by the tokenizer; the tree-level spec keeps them.
* nesting (XML5 recovery): an end tag closes up to and including the nearest open element with the
  same expanded name and is ignored if there is none; `</>` closes the current element; nothing is
  created after the root element has been closed, after EOF, or after a NUL-character token.
-/
namespace H5V.Spec.XmlNs
open H5V.Model.XmlTB

/-- the bindings one tag declares: prefix (`none` = default) ↦ URI (`none` = un-declared); the first
entry for a prefix counts -/
abbrev NsFrame := List (Option Str × Option Str)

def isDecl (n : RName) : Bool := n.pfx == some sXmlns || (n.pfx == none && n.loc == sXmlns)

/-- the binding a declaration attribute makes, if it has any effect -/
def declOf (a : RAttr) : Option (Option Str × Option Str) :=
  if !isDecl a.name then none
  else if a.value = XMLNS_URI then none
  else if a.name.pfx = some sXmlns then
    (if a.name.loc = sXml ∨ a.name.loc = sXmlns then none else some (some a.name.loc, optUri a.value))
  else some (none, optUri a.value)

def frameOf (attrs : List RAttr) : NsFrame := attrs.filterMap declOf

/-- namespace of a prefix (`none` = the default namespace) in an environment, innermost frame first -/
def lookupNs (env : List NsFrame) (p : Option Str) : Str :=
  if p = some sXml then XML_URI
  else if p = some sXmlns then XMLNS_URI
  else match env.findSome? (fun f => f.lookup p) with
    | some (some uri) => uri
    | _ => []

def resolveElemName (env : List NsFrame) (n : RName) : QName := ⟨n.pfx, lookupNs env n.pfx, n.loc⟩

def resolveAttrName (env : List NsFrame) (n : RName) : QName :=
  match n.pfx with
  | none => ⟨none, [], n.loc⟩
  | some _ => ⟨n.pfx, lookupNs env n.pfx, n.loc⟩

/-- keep the first of the prefixed attributes with one expanded name (`seen` = expanded names of the
prefixed attributes kept so far) -/
def dedupPrefixed : List (Str × Str) → List Attr → List Attr
  | _, [] => []
  | seen, a :: rest =>
    if a.name.pfx.isSome then
      if seen.contains (a.name.ns, a.name.loc) then dedupPrefixed seen rest
      else a :: dedupPrefixed ((a.name.ns, a.name.loc) :: seen) rest
    else a :: dedupPrefixed seen rest

def resolveAttrs (env : List NsFrame) (attrs : List RAttr) : List Attr :=
  dedupPrefixed [] ((attrs.filter (fun a => !isDecl a.name)).map
    (fun a => ⟨resolveAttrName env a.name, a.value⟩))

/-- an open element: its expanded name and the frame its start tag declared -/
structure Scope where
  ns : Str
  loc : Str
  frame : NsFrame
deriving Repr, DecidableEq

def envOf (scopes : List Scope) : List NsFrame := scopes.map (·.frame)

/-- the element a start/empty tag creates in the scope `scopes` -/
def resolveTag (scopes : List Scope) (t : Tag) : Created :=
  let env := frameOf t.attrs :: envOf scopes
  ⟨resolveElemName env t.name, resolveAttrs env t.attrs⟩

def scopeOf (c : Created) (t : Tag) : Scope := ⟨c.name.ns, c.name.loc, frameOf t.attrs⟩

/-- an end tag with expanded name `(ns, loc)`: drop scopes up to and including the nearest match -/
def closeScopes (ns loc : Str) : List Scope → Option (List Scope)
  | [] => none
  | s :: rest => if s.ns = ns ∧ s.loc = loc then some rest else closeScopes ns loc rest

inductive Where where
  | prolog
  | content (scopes : List Scope)
  | epilog
deriving Repr, DecidableEq

def afterClose : List Scope → Where
  | [] => .epilog
  | l => .content l

/-- **S.resolve**: the elements created by a token list, with their resolved names and attributes -/
def resolve : Where → List Token → List Created
  | _, [] => []
  | .prolog, tok :: rest =>
    match tok with
    | .tag ⟨.start, n, as⟩ =>
      let c := resolveTag [] ⟨.start, n, as⟩
      c :: resolve (.content [scopeOf c ⟨.start, n, as⟩]) rest
    | .tag ⟨.empty, n, as⟩ => resolveTag [] ⟨.empty, n, as⟩ :: resolve .epilog rest
    | .eof => resolve .epilog rest
    | _ => resolve .prolog rest
  | .content scopes, tok :: rest =>
    match tok with
    | .tag ⟨.start, n, as⟩ =>
      let c := resolveTag scopes ⟨.start, n, as⟩
      c :: resolve (.content (scopeOf c ⟨.start, n, as⟩ :: scopes)) rest
    | .tag ⟨.empty, n, as⟩ => resolveTag scopes ⟨.empty, n, as⟩ :: resolve (.content scopes) rest
    | .tag ⟨.end_, n, as⟩ =>
      let nm := resolveElemName (frameOf as :: envOf scopes) n
      match closeScopes nm.ns nm.loc scopes with
      | some scopes' => resolve (afterClose scopes') rest
      | none => resolve (.content scopes) rest
    | .tag ⟨.short, _, _⟩ => resolve (afterClose scopes.tail) rest
    | .eof => resolve .epilog rest
    | .nullChar => resolve .epilog rest
    | _ => resolve (.content scopes) rest
  | .epilog, _ :: rest => resolve .epilog rest

end H5V.Spec.XmlNs
