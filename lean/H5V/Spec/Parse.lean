import H5V.Spec.HtmlTokenizer
import H5V.Spec.TreeModes
/-!
# `H5V.Spec.Parse` — the WHATWG HTML parser as ONE pure function of the input text

HTML Standard §13.2 "Parsing HTML documents": *the input stream* (§13.2.3, after decoding and newline
normalisation) is passed through the **tokenization** stage (§13.2.5, `H5V.Spec.HtmlTokenizer`) and the
tokens through the **tree construction** stage (§13.2.6, `H5V.Spec.TreeModes`).  The two stages are the two
independent transcriptions of the project; this file only *couples* them, by the two clauses with which the
standard itself couples them:

* §13.2.5 / §13.2.6: "When a token is emitted, it must immediately be handled by the tree construction stage.
  The tree construction stage can affect the state of the tokenization stage" — the rules for `title`,
  `textarea` (RCDATA), `style`, `xmp`, `iframe`, `noembed`, `noframes`, `noscript` with scripting (RAWTEXT),
  `script` (script data) and `plaintext` (PLAINTEXT) say "switch the tokenizer to the … state".
  `Spec.TreeModes` reports this as `Out.switch`; `Spec.HtmlTokenizer` asks for it as `Tree.onTag`.
* §13.2.5.42 "Markup declaration open state": a `[CDATA[` opens a CDATA section only "if there is an *adjusted
  current node* and it is not an element in the HTML namespace" — a question about the tree construction
  state; `Spec.HtmlTokenizer` asks it as `Tree.foreign`.

Both answers are functions of the tree construction state, which is a function of the tokens emitted so far.
`Spec.HtmlTokenizer.Tree` is exactly "a function of the tokens emitted so far", so the coupling is the `Tree`
`treeOfSpec` that *replays* `Spec.TreeModes.run` on the history and reads the answer off the resulting state.
(An implementation keeps the state instead of replaying; the function computed is the same.)

`specParse` then is: tokenize with `treeOfSpec`, feed ALL tokens to `Spec.TreeModes.parseDocument`.  The result
is the tree construction state after the end-of-file token: its `fullLog` is the list of DOM operations the
standard prescribes, `quirks` the document mode, `mode` the final insertion mode, `outs` the answers given to
the tokenizer.

Not modelled (as in the two specifications): script execution (`document.write`, a script changing the tree:
the answer to `</script>` is "pause, run nothing, resume"), the character-encoding change triggered by
`<meta charset>` (the parser is not restarted), decoding.

Parameters that are not part of the standard's text: `fuel` (an upper bound on "reprocess the token" steps for
one token; the result does not depend on it once it is large enough) and `supply` (the identities of the nodes
the DOM creates, in order of creation).
-/
namespace H5V.Spec.Parse
open H5V.Spec
open H5V.Spec.HtmlTokenizer (Emit Tree Switch St)

abbrev Str := List Char

/-- what the pipeline is run with -/
structure Cfg where
  /-- scripting flag, srcdoc flag, the Document node, edition of the `select` rules -/
  tree : TreeModes.Config Nat
  fuel : Nat
  supply : List Nat

/-! ## tokens of the tokenization stage as tokens of the tree construction stage -/

def treeTag (t : H5V.Model.HtmlTok.Tag) : TreeModes.Tag :=
  { name := t.name, attrs := t.attrs.map fun a => ⟨a.name, a.value⟩, selfClosing := t.selfClosing }

/-- a token emitted by the tokenizer before the end-of-file token (one character per character token;
U+0000 from the data / CDATA section states is the character token U+0000) -/
def treeTok : Emit → TreeModes.Token
  | .char c => .chars [c]
  | .null => .chars ['\x00']
  | .tag t => if t.kind == .startTag then .startTag (treeTag t) else .endTag (treeTag t)
  | .comment d => .comment d
  | .doctype d => .doctype d.name d.publicId d.systemId d.forceQuirks

/-- the same for the `Token`s returned by `HtmlTokenizer.tokenize` (which never contain parse errors or the
model's pause markers) -/
def treeToken : H5V.Model.HtmlTok.Token → Option TreeModes.Token
  | .chars s => some (.chars s)
  | .nullChar => some (.chars ['\x00'])
  | .tag t => some (if t.kind == .startTag then .startTag (treeTag t) else .endTag (treeTag t))
  | .comment d => some (.comment d)
  | .doctype d => some (.doctype d.name d.publicId d.systemId d.forceQuirks)
  | .eof => some .eof
  | .error _ => none
  | .pause _ => none

/-! ## the tree construction stage as seen from the tokenizer -/

/-- the tree construction state after the tokens `hist` (newest first) -/
def stateAfter (c : Cfg) (hist : List Emit) : TreeModes.M (TreeModes.State Nat) :=
  TreeModes.run c.tree c.fuel (TreeModes.initialState c.supply) (hist.reverse.map treeTok)

/-- "switch the tokenizer to the … state" as the tokenizer's `Switch` -/
def switchOf : Option TreeModes.TokSwitch → Switch
  | some .rcdata => .rcdata
  | some .rawtext => .rawtext
  | some .scriptData => .scriptData
  | some .plaintext => .plaintext
  | none => .none

/-- the switch the tree construction stage performed while processing the last token -/
def lastSwitch (s : TreeModes.State Nat) : Switch :=
  match s.outs.getLast? with
  | some o => switchOf o.switch
  | none => .none

/-- "there is an adjusted current node and it is not an element in the HTML namespace" -/
def acnForeign (cfg : TreeModes.Config Nat) (s : TreeModes.State Nat) : Bool :=
  match TreeModes.adjustedCurrentNode cfg s with
  | some e => e.name.ns != TreeAlgo.nsHtml
  | none => false

/-- **the coupling**: the feedback of the tree construction stage to the tokenizer, as a function of the
tokens emitted so far (`onTag`: the history includes the tag just emitted) -/
def treeOfSpec (c : Cfg) : Tree :=
  { onTag := fun hist _ =>
      match stateAfter c hist with
      | .ok s => lastSwitch s
      | .error _ => .none
    foreign := fun hist =>
      match stateAfter c hist with
      | .ok s => acnForeign c.tree s
      | .error _ => false }

/-! ## the pipeline -/

/-- the tokens of the input stream `input` (already decoded, not yet newline-normalised) -/
def specTokens (c : Cfg) (input : Str) : Option (List H5V.Model.HtmlTok.Token) :=
  HtmlTokenizer.tokenize (treeOfSpec c) .data none (HtmlTokenizer.normalizeNewlines input)

/-- **the WHATWG parser**: tokenization coupled with tree construction, then tree construction of all the
tokens (end-of-file included) -/
def specParse (c : Cfg) (input : Str) : TreeModes.M (TreeModes.State Nat) :=
  match specTokens c input with
  | none => .error "tokenizer: out of fuel"      -- impossible: `C01_spec_total`
  | some toks => TreeModes.parseDocument c.tree c.fuel c.supply (toks.filterMap treeToken)

/-- a document parse with the 2025 `select` rules, scripting off, Document node `0`, nodes `1, 2, 3, …` -/
def defaultCfg (fuel nodes : Nat) : Cfg :=
  { tree := { document := 0, edition := .customizableSelect }, fuel := fuel, supply := List.range' 1 nodes }

/-! ## examples (kernel evaluation of the two specifications and their coupling) -/
namespace Examples
open H5V.Spec.TreeModes.Examples (logOf modeOf cr ins txt cmt)

def parse (s : String) : TreeModes.M (TreeModes.State Nat) := specParse (defaultCfg 50 60) s.toList

/-- `title` switches the tokenizer to RCDATA: `<b>` inside is text, `&amp;` is resolved -/
example : logOf (parse "<!DOCTYPE html><title>a&amp;<b></title>x") =
    [.x (.appendDoctype 1 "html".toList [] []), cr 2 "html", ins 2 0, cr 3 "head", ins 3 2,
     cr 4 "title", ins 4 3, txt "a" 4, txt "&" 4, txt "<" 4, txt "b" 4, txt ">" 4,
     cr 5 "body", ins 5 2, txt "x" 5] := by decide +kernel

/-- the CDATA question: a bogus comment in HTML content, a CDATA section inside `svg` -/
example : logOf (parse "<!DOCTYPE html><![CDATA[a]]><svg><![CDATA[b]]></svg>") =
    [.x (.appendDoctype 1 "html".toList [] []), cmt 2 "[CDATA[a]]", ins 2 0, cr 3 "html", ins 3 0,
     cr 4 "head", ins 4 3, cr 5 "body", ins 5 3, cr 6 "svg" TreeAlgo.nsSvg, ins 6 5, txt "b" 6] := by
  decide +kernel

/-- `<script>` switches to script data; `</script>` is answered with the pause `Out.script`; `plaintext` -/
example : (match parse "<script>a<b</script><plaintext></plaintext>" with
    | .ok s => s.outs.filterMap (fun o => o.switch) | .error _ => []) = [.scriptData, .plaintext] := by
  decide +kernel

example : modeOf (parse "<table><tr><td>x") = some .inCell := by decide +kernel

end Examples

end H5V.Spec.Parse
