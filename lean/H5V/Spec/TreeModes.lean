import H5V.Spec.TreeModes1
import H5V.Spec.TreeModes2
import H5V.Spec.TreeModes3
import H5V.Spec.TreeModes4
/-!
`H5V.Spec.TreeModes` — the insertion modes of WHATWG HTML §13.2.6.4, the foreign-content rules of
§13.2.6.5, the tree construction dispatcher of §13.2.6, and a driver; see the header of
`H5V.Spec.TreeModes1` for conventions, the list of files and the **edition note on `select`**.

Public API (namespace `H5V.Spec.TreeModes`):
* tokens `Attr`, `Tag`, `STok` (the standard's tokens, one character each), `Token` (input, with
  `chars`), `Token.expand`; `ETok` (token an element is created for)
* `Config`, `Edition`, `IMode`, `State`, `Out`, `TokSwitch`, `XOp`, `Op`, `State.fullLog`, `Step`
* the modes: `initial`, `beforeHtml`, `beforeHead`, `inHead`, `inHeadNoscript`, `afterHead`, `inBody`
  (`inBodyStartTag`, `inBodyEndTag`, …), `text`, `inTable`, `inTableText`, `inCaption`,
  `inColumnGroup`, `inTableBody`, `inRow`, `inCell`, `inSelect`, `inSelectInTable`, `inTemplate`,
  `afterBody`, `inFrameset`, `afterFrameset`, `afterAfterBody`, `afterAfterFrameset`; `byMode`
* `foreign`, `dispatch`, `loop`, `processSTok`, `processChars`, `processToken`, `run`, `runAuto`
* `initialState`, `parseDocument`, `fragmentTokenizerState`, `fragmentState`, `parseFragment`

Below: sanity examples, checked by `decide` (kernel evaluation of the specification).  Node
identities are `Nat`s, the Document is node `0`, the DOM hands out `1, 2, 3, …`.
-/
namespace H5V.Spec.TreeModes.Examples
open H5V.Spec H5V.Spec.TreeModes
open H5V.Spec.TreeAlgo (Str nsHtml nsMathml nsSvg DocMode)
open H5V.Spec.TreeAlgo2 (Elem Edit Place)

def st (n : String) (attrs : List (String × String) := []) (sc := false) : Token :=
  .startTag { name := n.toList, attrs := attrs.map fun a => ⟨a.1.toList, a.2.toList⟩, selfClosing := sc }
def et (n : String) : Token := .endTag { name := n.toList }
def ch (s : String) : Token := .chars s.toList
def doctypeHtml : Token := .doctype (some "html".toList) none none false

def cfg (ed : Edition) : Config Nat := { document := 0, edition := ed }
def doc (toks : List Token) (ed : Edition := .customizableSelect) : M (State Nat) :=
  parseDocument (cfg ed) 50 (List.range' 1 60) toks
def frag (context : String) (toks : List Token) (ed : Edition := .customizableSelect) : M (State Nat) :=
  parseFragment { cfg ed with context := some ⟨100, ⟨nsHtml, context.toList⟩⟩ } 50 .noQuirks none (List.range' 1 60) toks

/-- the stack (current node last) as (node, local name) -/
def stackOf (r : M (State Nat)) : List (Nat × Str) :=
  match r with
  | .ok s => s.p.stack.map fun e => (e.id, e.name.loc)
  | .error _ => []
def logOf (r : M (State Nat)) : List (Op Nat) :=
  match r with
  | .ok s => s.fullLog
  | .error _ => []
def modeOf (r : M (State Nat)) : Option IMode :=
  match r with
  | .ok s => some s.mode
  | .error _ => none
def outsOf (r : M (State Nat)) : List (Out Nat) :=
  match r with
  | .ok s => s.outs
  | .error _ => []

/-- create element `n` for a start tag `name` without attributes -/
def cr (n : Nat) (name : String) (ns : Str := nsHtml) : Op Nat := .edit (.create n ns { name := name.toList })
/-- insert node `c` as the last child of `x` -/
def ins (c x : Nat) : Op Nat := .edit (.insert (.lastChildOf x) c)
def txt (t : String) (x : Nat) : Op Nat := .edit (.insertText (.lastChildOf x) t.toList)
def rem (n : Nat) : Op Nat := .edit (.remove n)
def mv (a b : Nat) : Op Nat := .edit (.moveChildren a b)
def cmt (n : Nat) (t : String) : Op Nat := .edit (.createComment n t.toList)
def el (n : Nat) (name : String) : Elem Nat := ⟨n, ⟨nsHtml, name.toList⟩⟩
def nm (n : Nat) (name : String) : Nat × Str := (n, name.toList)
/-- no DOCTYPE: quirks mode, then `html` 1, `head` 2, `body` 3 -/
def pre : List (Op Nat) :=
  [.x (.setDocumentMode .quirks), cr 1 "html", ins 1 0, cr 2 "head", ins 2 1, cr 3 "body", ins 3 1]

/-! `<p>a<p>b`: the second `p` closes the first -/
example : logOf (doc [st "p", ch "a", st "p", ch "b"]) =
    pre ++ [cr 4 "p", ins 4 3, txt "a" 4, cr 5 "p", ins 5 3, txt "b" 5] := by decide
example : stackOf (doc [st "p", ch "a", st "p", ch "b"]) = [nm 1 "html", nm 3 "body", nm 5 "p"] := by decide

/-! `<b><p>x</b>y`: the adoption agency algorithm — `p` moves to `body`, a new `b` takes its
children; second round pops the new `b`; result `<b></b><p><b>x</b>y</p>` -/
example : logOf (doc [st "b", st "p", ch "x", et "b", ch "y"]) =
    pre ++ [cr 4 "b", ins 4 3, cr 5 "p", ins 5 4, txt "x" 5,
            rem 5, ins 5 3, cr 6 "b", mv 5 6, ins 6 5, txt "y" 5] := by decide
example : stackOf (doc [st "b", st "p", ch "x", et "b", ch "y"]) = [nm 1 "html", nm 3 "body", nm 5 "p"] := by decide

/-! `<table>x<tr><td>y`: `x` is foster-parented (before the table 4, whose previous stack entry is
`body` 3), `tbody` is implied -/
example : logOf (doc [st "table", ch "x", st "tr", st "td", ch "y"]) =
    pre ++ [cr 4 "table", ins 4 3, .edit (.insertText (.foster (el 4 "table") (el 3 "body")) "x".toList),
            cr 5 "tbody", ins 5 4, cr 6 "tr", ins 6 5, cr 7 "td", ins 7 6, txt "y" 7] := by decide
example : modeOf (doc [st "table", ch "x", st "tr", st "td", ch "y"]) = some .inCell := by decide

/-! `<select><option>a<option>b` — same tree in both editions; the insertion mode differs -/
example : logOf (doc [st "select", st "option", ch "a", st "option", ch "b"] .selectModes) =
    pre ++ [cr 4 "select", ins 4 3, cr 5 "option", ins 5 4, txt "a" 5, cr 6 "option", ins 6 4, txt "b" 6] := by decide
example : logOf (doc [st "select", st "option", ch "a", st "option", ch "b"] .customizableSelect) =
    pre ++ [cr 4 "select", ins 4 3, cr 5 "option", ins 5 4, txt "a" 5, cr 6 "option", ins 6 4, txt "b" 6] := by decide
example : modeOf (doc [st "select", st "option"] .selectModes) = some .inSelect := by decide
example : modeOf (doc [st "select", st "option"] .customizableSelect) = some .inBody := by decide

/-! `<select><div><input>`: before 2025 the `div` is dropped; after, it is a child of the `select`;
in both the `input` closes the `select` -/
example : logOf (doc [st "select", st "div", st "input"] .selectModes) =
    pre ++ [cr 4 "select", ins 4 3, cr 5 "input", ins 5 3] := by decide
example : logOf (doc [st "select", st "div", st "input"] .customizableSelect) =
    pre ++ [cr 4 "select", ins 4 3, cr 5 "div", ins 5 4, cr 6 "input", ins 6 3] := by decide

/-! `<svg><p>`: `p` breaks out of foreign content -/
example : logOf (doc [st "svg", st "p"]) = pre ++ [cr 4 "svg" nsSvg, ins 4 3, cr 5 "p", ins 5 3] := by decide
example : stackOf (doc [st "svg", st "p"]) = [nm 1 "html", nm 3 "body", nm 5 "p"] := by decide

/-! `<svg><foreignObject><p></svg>x`: HTML integration point; `</svg>` is ignored ("any other end
tag" stops at the special element `p`) -/
example : stackOf (doc [st "svg", st "foreignobject", st "p", et "svg", ch "x"]) =
    [nm 1 "html", nm 3 "body", nm 4 "svg", nm 5 "foreignObject", nm 6 "p"] := by decide

/-! `<template><tr>`: `template` goes into `head`, `tr` into its template contents; the current
template insertion mode becomes "in table body", the insertion mode "in row" -/
example : logOf (doc [st "template", st "tr"]) =
    [.x (.setDocumentMode .quirks), cr 1 "html", ins 1 0, cr 2 "head", ins 2 1, cr 3 "template", ins 3 2,
     cr 4 "tr", .edit (.insert (.inTemplateContentsOf 3) 4)] := by decide
example : (match doc [st "template", st "tr"] with
    | .ok s => (s.mode, s.templateModes) | .error _ => (.initial, [])) = (.inRow, [.inTableBody]) := by decide

/-! `<frameset><frame></frameset>` EOF: no `body`; "stop parsing" empties the stack -/
example : logOf (doc [st "frameset", st "frame", et "frameset", .eof]) =
    [.x (.setDocumentMode .quirks), cr 1 "html", ins 1 0, cr 2 "head", ins 2 1, cr 3 "frameset", ins 3 1,
     cr 4 "frame", ins 4 3] := by decide
example : stackOf (doc [st "frameset", st "frame", et "frameset", .eof]) = [] := by decide
example : modeOf (doc [st "frameset", st "frame", et "frameset", .eof]) = some .afterFrameset := by decide

/-! `<p>x<frameset>`: frameset-ok is "not ok": ignored; `<p> <frameset>`: `body` is removed -/
example : logOf (doc [st "p", ch "x", st "frameset"]) = pre ++ [cr 4 "p", ins 4 3, txt "x" 4] := by decide
example : logOf (doc [st "p", ch " ", st "frameset"]) =
    pre ++ [cr 4 "p", ins 4 3, txt " " 4, rem 3, cr 5 "frameset", ins 5 1] := by decide

/-! a complete document: DOCTYPE node 1; comment after `</body>` in `html`, after `</html>` in the Document -/
example : logOf (doc [doctypeHtml, st "html", st "head", st "title", ch "t", et "title", et "head",
      st "body", et "body", .comment "c".toList, et "html", .comment "d".toList, .eof]) =
    [.x (.appendDoctype 1 "html".toList [] []), cr 2 "html", ins 2 0, cr 3 "head", ins 3 2,
     cr 4 "title", ins 4 3, txt "t" 4, cr 5 "body", ins 5 2, cmt 6 "c", ins 6 2, cmt 7 "d", ins 7 0] := by decide

/-! no-quirks: `<p><table>` closes the `p`; quirks (no DOCTYPE): it does not -/
example : stackOf (doc [doctypeHtml, st "p", st "table"]) = [nm 2 "html", nm 4 "body", nm 6 "table"] := by decide
example : stackOf (doc [st "p", st "table"]) = [nm 1 "html", nm 3 "body", nm 4 "p", nm 5 "table"] := by decide

/-! the channel to the tokenizer: `<textarea>` → RCDATA (and the LF after it is dropped), `</script>` → pause -/
example : outsOf (doc [st "textarea", ch "\nx", et "textarea", st "script", ch "s", et "script", st "br" [] true]) =
    [{ switch := some .rcdata }, {}, {}, { switch := some .scriptData }, {}, { script := some 5 },
     { ackSelfClosing := true }] := by decide
example : logOf (doc [st "textarea", ch "\nx", et "textarea"]) = pre ++ [cr 4 "textarea", ins 4 3, txt "x" 4] := by decide

/-! `<a><table><a>z`: the first `a` is not in scope at the second; both the new `a` and nothing else are fostered -/
example : stackOf (doc [st "a", st "table", st "a", ch "z"]) =
    [nm 1 "html", nm 3 "body", nm 5 "table", nm 6 "a"] := by decide

/-! fragments: context `tr` → "in row"; context `select` → "in select" / "in body"; context `title` → RCDATA -/
example : modeOf (frag "tr" []) = some .inRow := by decide
example : logOf (frag "tr" [st "td", ch "x"]) = [cr 1 "html", ins 1 0, cr 2 "td", ins 2 1, txt "x" 2] := by decide
example : modeOf (frag "select" [] .selectModes) = some .inSelect := by decide
example : modeOf (frag "select" [] .customizableSelect) = some .inBody := by decide
example : fragmentTokenizerState { cfg .selectModes with context := some (el 100 "title") } = some .rcdata := by decide
example : stackOf (frag "template" [st "td", .eof]) = [] := by decide

end H5V.Spec.TreeModes.Examples
