/- frozen reference: HTML standard numeric character reference table (cross-checked with cp1252) -/
namespace H5V.Spec.C1

def table : List (Option Nat) := [some 8364, none, some 8218, some 402, some 8222, some 8230, some 8224, some 8225, some 710, some 8240, some 352, some 8249, some 338, none, some 381, none, none, some 8216, some 8217, some 8220, some 8221, some 8226, some 8211, some 8212, some 732, some 8482, some 353, some 8250, some 339, none, some 382, some 376]

end H5V.Spec.C1
