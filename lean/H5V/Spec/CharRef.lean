import H5V.Spec.Entities
import H5V.Spec.C1
/-!
# Character references as the HTML standard prescribes them (§13.2.5.72 – §13.2.5.80)

`specCharRef inAttr s atEof` is what the standard's character-reference states do with the text `s`
that follows a U+0026 AMPERSAND in the data / RCDATA state (`inAttr = false`) or in one of the three
attribute-value states (`inAttr = true`, "consumed as part of an attribute"). It is written from the
text of the standard, as a function of the text — no state machine, no registers.

The answer (`Outcome.resolved chars consumed err`):

* `chars` — the code points the reference contributes (emitted as character tokens / appended to
  the attribute value); the literal `&` when the `&` does not start a reference;
* `consumed` — how many characters of `s` belong to the reference; the rest `s.drop consumed` is
  tokenized by the return state as usual;
* `err` — whether the standard reports (at least one) parse error.

Where the standard says "flush code points consumed as a character reference" for a temporary
buffer holding `&`, `&#`, `&#x` or `&` + ASCII alphanumerics, this file answers "`&`, nothing
consumed": the return state (data, RCDATA, attribute value) treats `#`, `x`, `X` and ASCII
alphanumerics as ordinary text, so emitting them from the buffer and re-reading them from the input
are the same thing. The same holds for the ambiguous ampersand state (§13.2.5.74), which copies
ASCII alphanumerics through unchanged.

`Outcome.needMore`: `s` is only the text received *so far* (`atEof = false`) and it ends before the
standard's "next input character" is available at a point where the standard looks at it. With
`atEof = true` the end of `s` is the end of the stream (the standard's EOF "character").
`needMore` is kept simple rather than minimal: for named references it is the answer as long as the
whole text seen is an initial segment of some identifier — also for a complete identifier ending
in `;` such as `amp;`, although no identifier continues after a `;`. This does no harm: an outcome
`resolved …` is the outcome of every extension of the text and of the complete stream
(`C14_spec_decision_final` in `Props/C14Run.lean`), and with `atEof = true` there is always an
outcome (`C14_spec_total_at_eof`).
-/
namespace H5V.Spec.CharRef

abbrev Str := List Char

inductive Outcome
  | needMore
  | resolved (chars : Str) (consumed : Nat) (err : Bool)
deriving DecidableEq, Repr

/-- "not a character reference": the `&` stands for itself, nothing after it is consumed -/
def literal (err : Bool) : Outcome := .resolved ['&'] 0 err

/-- ASCII alphanumeric = ASCII digit (U+0030–U+0039), ASCII upper alpha (U+0041–U+005A) or ASCII
lower alpha (U+0061–U+007A) — Infra standard -/
def isAlnum (c : Char) : Bool :=
  (0x30 ≤ c.toNat && c.toNat ≤ 0x39) || (0x41 ≤ c.toNat && c.toNat ≤ 0x5A) || (0x61 ≤ c.toNat && c.toNat ≤ 0x7A)

/-! ## named character references — the table of §13.5 (`Spec.Entities`, 2231 rows) -/

/-- the rows of the table that can concern the text `p`: those starting with its first character -/
def rowsFor (p : Str) : List Entities.Row :=
  match p with
  | [] => []
  | c :: _ => Entities.bucket c.toNat

/-- `p` (without the `&`) is one of the identifiers in the first column of the table: its one or
two code points (second = 0 when there is only one) -/
def nameValue (p : Str) : Option (Nat × Nat) :=
  ((rowsFor p).find? (fun r => r.1 == p.map Char.toNat)).map (·.2)

/-- `p` is an initial segment of some identifier of the table (so more input could still turn it
into one) -/
def isNamePrefix (p : Str) : Bool :=
  (rowsFor p).any (fun r => (p.map Char.toNat).isPrefixOf r.1)

/-- the longest identifier among `s.take k, s.take (k-1), …, s.take 1` -/
def longestFrom (s : Str) : Nat → Option (Nat × Nat × Nat)
  | 0 => none
  | k + 1 =>
    match nameValue (s.take (k + 1)) with
    | some v => some (k + 1, v)
    | none => longestFrom s k

/-- "Consume the maximum number of characters possible, where the consumed characters are one of
the identifiers in the first column of the named character references table." (§13.2.5.73) —
the length of the longest identifier that `s` starts with, and its value -/
def longestName (s : Str) : Option (Nat × Nat × Nat) := longestFrom s s.length

/-- "Append one or two characters corresponding to the character reference name (as given by the
second column of the named character references table)" -/
def nameChars (v : Nat × Nat) : Str :=
  if v.2 = 0 then [Char.ofNat v.1] else [Char.ofNat v.1, Char.ofNat v.2]

/-- §13.2.5.74 Ambiguous ampersand state, entered when no identifier matched:
"ASCII alphanumeric: … emit the current input character as a character token / append it to the
current attribute's value. U+003B SEMICOLON (;): This is an unknown-named-character-reference parse
error. Reconsume in the return state. Anything else: Reconsume in the return state." -/
def specAmbiguous (s : Str) (atEof : Bool) : Outcome :=
  let rest := s.dropWhile isAlnum
  match rest with
  | [] => if atEof then literal false else .needMore
  | f :: _ => literal (f == ';')

/-- §13.2.5.73 Named character reference state (`s` starts with an ASCII alphanumeric). -/
def specNamed (inAttr : Bool) (s : Str) (atEof : Bool) : Outcome :=
  -- the maximum is known only once the text seen cannot grow into a (longer) identifier
  if !atEof && isNamePrefix s then .needMore else
  match longestName s with
  | some (k, v) =>
    let last := s[k - 1]?
    let next := s[k]?
    /- "If the character reference was consumed as part of an attribute, and the last character
       matched is not a U+003B SEMICOLON character (;), and the next input character is either a
       U+003D EQUALS SIGN character (=) or an ASCII alphanumeric, then, for historical reasons,
       flush code points consumed as a character reference and switch to the return state." -/
    if inAttr && last != some ';' && (next == some '=' || next.any isAlnum) then literal false
    /- "Otherwise: 1. If the last character matched is not a U+003B SEMICOLON character (;), then
       this is a missing-semicolon-after-character-reference parse error. 2. Set the temporary
       buffer to the empty string. Append one or two characters corresponding to the character
       reference name … 3. Flush code points consumed as a character reference. Switch to the
       return state." -/
    else .resolved (nameChars v) k (last != some ';')
  /- "Otherwise: Flush code points consumed as a character reference. Switch to the ambiguous
     ampersand state." -/
  | none => specAmbiguous s atEof

/-! ## numeric character references -/

/-- ASCII digit / ASCII hex digit and its "numeric version": "subtract 0x0030 / 0x0037 / 0x0057
from the character's code point" (§13.2.5.78–79) -/
def digitVal (base : Nat) (c : Char) : Option Nat :=
  let n := c.toNat
  if 0x30 ≤ n && n ≤ 0x39 then some (n - 0x30)
  else if base = 16 && 0x41 ≤ n && n ≤ 0x46 then some (n - 0x37)
  else if base = 16 && 0x61 ≤ n && n ≤ 0x66 then some (n - 0x57)
  else none

/-- "Multiply the character reference code by 16 (10). Add a numeric version of the current input
character to the character reference code." -/
def digitsValue (base : Nat) (ds : List Nat) : Nat := ds.foldl (fun acc d => acc * base + d) 0

/-- noncharacter (Infra): U+FDD0–U+FDEF, or U+FFFE, U+FFFF, U+1FFFE, U+1FFFF, …, U+10FFFE, U+10FFFF -/
def isNoncharacter (v : Nat) : Bool :=
  (0xFDD0 ≤ v && v ≤ 0xFDEF) || (v ≤ 0x10FFFF && (v % 0x10000 = 0xFFFE || v % 0x10000 = 0xFFFF))

/-- control (Infra): a C0 control (U+0000–U+001F) or U+007F–U+009F -/
def isControl (v : Nat) : Bool := v ≤ 0x1F || (0x7F ≤ v && v ≤ 0x9F)

/-- ASCII whitespace (Infra): TAB, LF, FF, CR, SPACE -/
def isAsciiWhitespace (v : Nat) : Bool := v = 0x09 || v = 0x0A || v = 0x0C || v = 0x0D || v = 0x20

/-- the table of §13.2.5.80 (0x80 → U+20AC … 0x9F → U+0178), `Spec.C1.table` -/
def c1 (v : Nat) : Nat :=
  if 0x80 ≤ v && v ≤ 0x9F then (C1.table.getD (v - 0x80) none).getD v else v

/-- §13.2.5.80 Numeric character reference end state: the code point and whether a parse error is
reported. -/
def numericEnd (v : Nat) : Nat × Bool :=
  /- "If the number is 0x00, then this is a null-character-reference parse error. Set the
     character reference code to 0xFFFD." -/
  if v = 0 then (0xFFFD, true)
  /- "If the number is greater than 0x10FFFF, then this is a
     character-reference-outside-unicode-range parse error. Set … to 0xFFFD." -/
  else if v > 0x10FFFF then (0xFFFD, true)
  /- "If the number is a surrogate, then this is a surrogate-character-reference parse error.
     Set … to 0xFFFD." -/
  else if 0xD800 ≤ v && v ≤ 0xDFFF then (0xFFFD, true)
  /- "If the number is a noncharacter, then this is a noncharacter-character-reference parse
     error." -/
  else if isNoncharacter v then (v, true)
  /- "If the number is 0x0D, or a control that's not ASCII whitespace, then this is a
     control-character-reference parse error. If the number is one of the numbers in the first
     column of the following table, then find the row with that number in the first column, and
     set the character reference code to the number in the second column of that row." -/
  else if v = 0x0D || (isControl v && !isAsciiWhitespace v) then (c1 v, true)
  else (v, false)

/-- §13.2.5.76–79: the digits. `u` is the text after `&#` (`base = 10`, `lead = 1`) resp. after
`&#x` / `&#X` (`base = 16`, `lead = 2`); `lead` counts the characters between `&` and `u`. -/
def specDigits (base lead : Nat) (u : Str) (atEof : Bool) : Outcome :=
  -- §13.2.5.78–79: every ASCII (hex) digit is accumulated
  let ds := u.takeWhile (fun c => (digitVal base c).isSome)
  let after := u.drop ds.length
  -- the character that ends the digits (or tells that there are none) has not arrived yet
  if after.isEmpty && !atEof then .needMore
  /- §13.2.5.76–77 "Anything else: This is an absence-of-digits-in-numeric-character-reference parse
     error. Flush code points consumed as a character reference. Reconsume in the return state." -/
  else if ds.isEmpty then literal true
  else
    let v := digitsValue base (ds.filterMap (digitVal base))
    let r := numericEnd v
    /- "U+003B SEMICOLON: Switch to the numeric character reference end state. Anything else: This
       is a missing-semicolon-after-character-reference parse error. Reconsume in the numeric
       character reference end state." -/
    if after.head? == some ';' then .resolved [Char.ofNat r.1] (lead + ds.length + 1) r.2
    else .resolved [Char.ofNat r.1] (lead + ds.length) true

/-- §13.2.5.75 Numeric character reference state: `t` is the text after `&#`.
"U+0078 (x), U+0058 (X): Append the current input character to the temporary buffer. Switch to the
hexadecimal character reference start state. Anything else: Reconsume in the decimal character
reference start state." (With nothing after `&#` yet, the digit rule answers `needMore`, resp. at
EOF "absence of digits".) -/
def specNumeric (t : Str) (atEof : Bool) : Outcome :=
  if t.head? == some 'x' || t.head? == some 'X' then specDigits 16 2 t.tail atEof
  else specDigits 10 1 t atEof

/-- §13.2.5.72 Character reference state. `s` is the text after the `&`. -/
def specCharRef (inAttr : Bool) (s : Str) (atEof : Bool) : Outcome :=
  match s with
  | [] => if atEof then literal false else .needMore
  | c :: t =>
    /- "ASCII alphanumeric: Reconsume in the named character reference state." -/
    if isAlnum c then specNamed inAttr s atEof
    /- "U+0023 NUMBER SIGN (#): Append the current input character to the temporary buffer. Switch
       to the numeric character reference state." -/
    else if c = '#' then specNumeric t atEof
    /- "Anything else: Flush code points consumed as a character reference. Reconsume in the
       return state." -/
    else literal false

end H5V.Spec.CharRef
