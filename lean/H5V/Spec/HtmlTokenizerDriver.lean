import H5V.Proto
import H5V.Model.HtmlTokDriver
import H5V.Spec.HtmlTokenizer
/- engine `tokspec` — the WHATWG tokenization algorithm (`H5V.Spec.HtmlTokenizer`) run on the fields
   of a `tok` case (see `H5V.Model.HtmlTokDriver`): opts ; initial state (html5ever Debug name or `-`) ;
   last start tag ; policy ; chunks ; injections (ignored: C01 cases have none).
   Output: the canonical token list in the `tok` format without parse errors, pause markers, line
   numbers (`@0`) and without the ` F=` suffix.
   From the model driver only the *printing* (`showTok`, `canon`, `optStr`) and the generic field
   parsers are used. -/
namespace H5V.Spec.HtmlTokenizerDriver
open H5V.Proto H5V.Spec.HtmlTokenizer
open H5V.Model.HtmlTok (Token Tag Str)

/-- html5ever's `states::State` Debug names → states of the standard. The two constructors
`RawEndTagOpen(ScriptDataEscaped(DoubleEscaped))` / `RawEndTagName(ScriptDataEscaped(DoubleEscaped))`
have no counterpart in the standard (the script data double escaped less-than sign state goes to the
double escape *end* state): `none`. -/
def stateOfName : String → Option St
  | "Data" => some .data
  | "Plaintext" => some .plaintext
  | "TagOpen" => some .tagOpen
  | "EndTagOpen" => some .endTagOpen
  | "TagName" => some .tagName
  | "RawData(Rcdata)" => some .rcdata
  | "RawData(Rawtext)" => some .rawtext
  | "RawData(ScriptData)" => some .scriptData
  | "RawData(ScriptDataEscaped(Escaped))" => some .scriptDataEscaped
  | "RawData(ScriptDataEscaped(DoubleEscaped))" => some .scriptDataDoubleEscaped
  | "RawLessThanSign(Rcdata)" => some .rcdataLessThanSign
  | "RawLessThanSign(Rawtext)" => some .rawtextLessThanSign
  | "RawLessThanSign(ScriptData)" => some .scriptDataLessThanSign
  | "RawLessThanSign(ScriptDataEscaped(Escaped))" => some .scriptDataEscapedLessThanSign
  | "RawLessThanSign(ScriptDataEscaped(DoubleEscaped))" => some .scriptDataDoubleEscapedLessThanSign
  | "RawEndTagOpen(Rcdata)" => some .rcdataEndTagOpen
  | "RawEndTagOpen(Rawtext)" => some .rawtextEndTagOpen
  | "RawEndTagOpen(ScriptData)" => some .scriptDataEndTagOpen
  | "RawEndTagOpen(ScriptDataEscaped(Escaped))" => some .scriptDataEscapedEndTagOpen
  | "RawEndTagName(Rcdata)" => some .rcdataEndTagName
  | "RawEndTagName(Rawtext)" => some .rawtextEndTagName
  | "RawEndTagName(ScriptData)" => some .scriptDataEndTagName
  | "RawEndTagName(ScriptDataEscaped(Escaped))" => some .scriptDataEscapedEndTagName
  | "ScriptDataEscapeStart(Escaped)" => some .scriptDataEscapeStart
  | "ScriptDataEscapeStart(DoubleEscaped)" => some .scriptDataDoubleEscapeStart
  | "ScriptDataEscapeStartDash" => some .scriptDataEscapeStartDash
  | "ScriptDataEscapedDash(Escaped)" => some .scriptDataEscapedDash
  | "ScriptDataEscapedDash(DoubleEscaped)" => some .scriptDataDoubleEscapedDash
  | "ScriptDataEscapedDashDash(Escaped)" => some .scriptDataEscapedDashDash
  | "ScriptDataEscapedDashDash(DoubleEscaped)" => some .scriptDataDoubleEscapedDashDash
  | "ScriptDataDoubleEscapeEnd" => some .scriptDataDoubleEscapeEnd
  | "BeforeAttributeName" => some .beforeAttributeName
  | "AttributeName" => some .attributeName
  | "AfterAttributeName" => some .afterAttributeName
  | "BeforeAttributeValue" => some .beforeAttributeValue
  | "AttributeValue(Unquoted)" => some .attributeValueUnquoted
  | "AttributeValue(SingleQuoted)" => some .attributeValueSingleQuoted
  | "AttributeValue(DoubleQuoted)" => some .attributeValueDoubleQuoted
  | "AfterAttributeValueQuoted" => some .afterAttributeValueQuoted
  | "SelfClosingStartTag" => some .selfClosingStartTag
  | "BogusComment" => some .bogusComment
  | "MarkupDeclarationOpen" => some .markupDeclarationOpen
  | "CommentStart" => some .commentStart
  | "CommentStartDash" => some .commentStartDash
  | "Comment" => some .comment
  | "CommentLessThanSign" => some .commentLessThanSign
  | "CommentLessThanSignBang" => some .commentLessThanSignBang
  | "CommentLessThanSignBangDash" => some .commentLessThanSignBangDash
  | "CommentLessThanSignBangDashDash" => some .commentLessThanSignBangDashDash
  | "CommentEndDash" => some .commentEndDash
  | "CommentEnd" => some .commentEnd
  | "CommentEndBang" => some .commentEndBang
  | "Doctype" => some .doctype
  | "BeforeDoctypeName" => some .beforeDoctypeName
  | "DoctypeName" => some .doctypeName
  | "AfterDoctypeName" => some .afterDoctypeName
  | "AfterDoctypeKeyword(Public)" => some .afterDoctypePublicKeyword
  | "AfterDoctypeKeyword(System)" => some .afterDoctypeSystemKeyword
  | "BeforeDoctypeIdentifier(Public)" => some .beforeDoctypePublicIdentifier
  | "BeforeDoctypeIdentifier(System)" => some .beforeDoctypeSystemIdentifier
  | "DoctypeIdentifierDoubleQuoted(Public)" => some .doctypePublicIdentifierDoubleQuoted
  | "DoctypeIdentifierDoubleQuoted(System)" => some .doctypeSystemIdentifierDoubleQuoted
  | "DoctypeIdentifierSingleQuoted(Public)" => some .doctypePublicIdentifierSingleQuoted
  | "DoctypeIdentifierSingleQuoted(System)" => some .doctypeSystemIdentifierSingleQuoted
  | "AfterDoctypeIdentifier(Public)" => some .afterDoctypePublicIdentifier
  | "AfterDoctypeIdentifier(System)" => some .afterDoctypeSystemIdentifier
  | "BetweenDoctypePublicAndSystemIdentifiers" => some .betweenDoctypePublicAndSystemIdentifiers
  | "BogusDoctype" => some .bogusDoctype
  | "CdataSection" => some .cdataSection
  | "CdataSectionBracket" => some .cdataSectionBracket
  | "CdataSectionEnd" => some .cdataSectionEnd
  | _ => none

def nonStandardStates : List String :=
  ["RawEndTagOpen(ScriptDataEscaped(DoubleEscaped))", "RawEndTagName(ScriptDataEscaped(DoubleEscaped))"]

def parseSwitch : String → Option Switch
  | "P" => some .plaintext
  | "R0" => some .rcdata
  | "R1" => some .rawtext
  | "R2" => some .scriptData
  | "R3" => some .scriptDataEscaped
  | "R4" => some .scriptDataDoubleEscaped
  | "S" => some .data       -- script pause: the tokenizer is left in the data state and simply continues
  | "I" => some .none
  | "C" => some .none
  | _ => none

structure Rules where
  cdata : Bool := false
  rules : List (Bool × Str × Switch) := []   -- (isEndTag, name, switch)

def parseRules (s : String) : Option Rules :=
  let parts := (s.splitOn ";").filter (· ≠ "")
  parts.foldlM (fun (r : Rules) p =>
    match p.splitOn "=" with
    | ["cdata", "0"] => some { r with cdata := false }
    | ["cdata", "1"] => some { r with cdata := true }
    | [name, res] =>
      let isEnd := name.startsWith "/"
      let nm := if isEnd then (name.drop 1).toString else name
      match parseChars? nm, parseSwitch res with
      | some n, some sw => some { r with rules := r.rules ++ [(isEnd, n, sw)] }
      | _, _ => none
    | _ => none) {}

def treeOf (r : Rules) : Tree :=
  { foreign := fun _ => r.cdata
    onTag := fun _ t =>
      match r.rules.find? (fun x => x.1 == (t.kind == .endTag) && x.2.1 == t.name) with
      | some x => x.2.2
      | none => .none }

def getOpt (opts : List (String × String)) (k : String) (d : Bool) : Bool :=
  match opts.find? (·.1 == k) with
  | some (_, v) => v == "1"
  | none => d

def showTokens (toks : List Token) : String :=
  ";".intercalate ((H5V.Model.HtmlTokDriver.canon (toks.map fun t => (t, 0))).map
    H5V.Model.HtmlTokDriver.showTok)

def runCase (fields : List String) : String :=
  match fields with
  | [optsS, stateS, lastS, polS, chunksS, _injS] =>
    let opts := (optsS.splitOn ",").filterMap fun p =>
      match p.splitOn "=" with | [k, v] => some (k, v) | _ => none
    if nonStandardStates.contains stateS then "NO-SUCH-STATE-IN-THE-STANDARD" else
    let st := if stateS == "-" then some St.data else stateOfName stateS
    let last : Option (Option Str) := if lastS == "~" then some none else (parseChars? lastS).map some
    let chunks := (chunksS.splitOn "|").mapM parseChars?
    match st, last, parseRules polS, chunks with
    | some st, some last, some rules, some chunks =>
      let input := chunks.flatten
      -- "one leading U+FEFF BYTE ORDER MARK … is ignored" (html5ever: option discard_bom)
      let input := if getOpt opts "bom" true then
          (match input with | c :: rest => if c = Char.ofNat 0xFEFF then rest else input | [] => input)
        else input
      match tokenize (treeOf rules) st last (normalizeNewlines input) with
      | some toks => showTokens toks
      | none => "OUT-OF-FUEL"
    | _, _, _, _ => "bad-case"
  | _ => "bad-case"

end H5V.Spec.HtmlTokenizerDriver
