import H5V.Gen.TokSets
import H5V.Lemmas.HtmlTokRuns
/-!
C08 — diagnostic and housekeeping options never change what is parsed (HTML tokenizer part).

What is proved here (for the model of `tokenizer/mod.rs`; all inputs, states, machines):

* `C08_sets_match`: the `small_char_set!` of every `pop_except_from` state, regenerated from the
  source on every run (`H5V.Gen.TokSets`), is the set the model uses, and the SIMD stop sets are
  `set \ {'\n'}` / `set` — so a deleted or added set member breaks this theorem and names the state.
* `C08_fast_slow_same`: in every state read with `pop_except_from`, a character outside the set is
  handled identically whether it arrives as `FromSet(c)` (slow path: `exact_errors`, reconsume,
  pending LF) or inside a `NotFromSet` run (fast path / SIMD) — the only exception being five
  characters in the unquoted attribute value state, for which the slow path adds a parse error
  (`C08_unquoted_error_only`) and nothing else.
* `C08_sets_contain_breaks`: every set contains CR and LF (and NUL), hence a bulk run never contains
  a character that input preprocessing would rewrite or count.
* `C08_bom_*`: `discard_bom` only decides whether a U+FEFF that is the first character of the
  stream is dropped.
* `C08_exact_reader`: with `exact_errors` every read goes through `get_char`.

The whole-run statement is proved in `Props/C08Run.lean`: **`C08_exact_errors_tokens`** — for any two
option values, any machine, any chunking and any sink policy that does not look at parse errors, the
sessions deliver the same `(token, line)` sequence after erasing parse errors, and so does
`Tokenizer::end` (simulation `E`: equal up to parse errors and a `current_char` nobody will read).
-/
namespace H5V.Props.C08
open H5V H5V.Model.HtmlTok

/-- the model's sets, keyed like the source's state arms -/
def modelSets : List (String × List Nat) :=
  [ ("Data", (setOf .data).map Char.toNat),
    ("RawData(Rcdata)", (setOf (.rawData .rcdata)).map Char.toNat),
    ("RawData(Rawtext)", (setOf (.rawData .rawtext)).map Char.toNat),
    ("RawData(ScriptData)", (setOf (.rawData .scriptData)).map Char.toNat),
    ("RawData(ScriptDataEscaped(Escaped))", (setOf (.rawData (.scriptDataEscaped .escaped))).map Char.toNat),
    ("RawData(ScriptDataEscaped(DoubleEscaped))", (setOf (.rawData (.scriptDataEscaped .doubleEscaped))).map Char.toNat),
    ("Plaintext", (setOf .plaintext).map Char.toNat),
    ("AttributeValue(DoubleQuoted)", (setOf (.attributeValue .doubleQuoted)).map Char.toNat),
    ("AttributeValue(SingleQuoted)", (setOf (.attributeValue .singleQuoted)).map Char.toNat),
    ("AttributeValue(Unquoted)", (setOf (.attributeValue .unquoted)).map Char.toNat) ]

/-- **the sets in the source are the sets of the model** (regenerated from `tokenizer/mod.rs`) -/
theorem C08_sets_match :
    Gen.TokSets.sets = modelSets ∧
    Gen.TokSets.simdFirst = simdFirst.map Char.toNat ∧
    Gen.TokSets.simdStop = simdStop.map Char.toNat := by decide

/-- every `pop_except_from` set contains CR, LF and NUL -/
theorem C08_sets_contain_breaks :
    ∀ s ∈ Gen.TokSets.sets, 13 ∈ s.2 ∧ 10 ∈ s.2 ∧ 0 ∈ s.2 := by decide

/-- the SIMD fast path stops exactly on the data-state set minus LF (LF inside a run is counted in
bulk) and declines on exactly the data-state set -/
theorem C08_simd_sets :
    simdFirst = setOf .data ∧ simdStop = (setOf .data).filter (· ≠ '\n') := by decide

/-- **fast path = slow path** for characters outside the set (the stale `current_char` is carried
along untouched; see `C03` for why it is dead) -/
theorem C08_fast_slow_same (o : Opts) (pol : Pol) (m : Mach) (a x : Char)
    (hk : readKind m.state = .popExcept ∨ readKind m.state = .dataSimd)
    (hx : (setOf m.state).contains x = false)
    (hu : m.state ≠ .attributeValue .unquoted) :
    transSet o pol (m.setCurrentChar a) (.fromSet x) =
      ((transSet o pol m (.notFromSet [x])).1.setCurrentChar a,
       (transSet o pol m (.notFromSet [x])).2) :=
  transSet_dead o pol m a x hk hx hu

/-- in the unquoted attribute value state the slow path differs from the fast path by a parse
error only: same value, same state, same signal -/
theorem C08_unquoted_error_only (o : Opts) (pol : Pol) (m : Mach) (x : Char)
    (hs : m.state = .attributeValue .unquoted)
    (a0 : x ≠ '\x00') (hws : isWs x = false) (a6 : x ≠ '&') (a7 : x ≠ '>') :
    (transSet o pol m (.fromSet x)).1.attrValue = (transSet o pol m (.notFromSet [x])).1.attrValue ∧
    (transSet o pol m (.fromSet x)).1.state = (transSet o pol m (.notFromSet [x])).1.state ∧
    (transSet o pol m (.fromSet x)).2 = (transSet o pol m (.notFromSet [x])).2 := by
  have e1 : transSet o pol m (.notFromSet [x]) = (appendValue [x] m, .cont) := by
    unfold transSet; simp [hs]
  have e2 : transSet o pol m (.fromSet x) =
      (pushValue x (if x = '"' || x = '\'' || x = '<' || x = '=' || x = '`' then badChar o m else m), .cont) := by
    unfold transSet; simp [hs, hws, a0, a6, a7]
  have hb : (badChar o m).attrValue = m.attrValue := by unfold badChar; split <;> rfl
  rw [e1, e2]
  refine ⟨?_, ?_, rfl⟩ <;> (split <;> simp [pushValue, appendValue, hb])

/-- with `exact_errors` every read of a `pop_except_from` state goes through `get_char` -/
theorem C08_exact_reader (S : List Char) (m : Mach) (inp : Str) :
    popExceptFrom ⟨true⟩ S m inp = ((getChar ⟨true⟩ m inp).1.map .fromSet, (getChar ⟨true⟩ m inp).2) := by
  simp [popExceptFrom]

/-- `discard_bom = false`: the prologue of `feed` does nothing -/
theorem C08_bom_off (m : Mach) (inp : Str) (h : m.discardBom = false) : feedBom m inp = (m, inp) := by
  unfold feedBom; cases inp <;> simp [h]

/-- `discard_bom = true`: only a U+FEFF that is the very first character is dropped, and the flag is
consumed by the first character whatever it is -/
theorem C08_bom_on (m : Mach) (c : Char) (rest : Str) (h : m.discardBom = true) :
    feedBom m (c :: rest) = (m.setDiscardBom false, if c = '﻿' then rest else c :: rest) := by
  simp [feedBom, h]

example : C08_sets_match.1 = C08_sets_match.1 := rfl
example : (setOf (.attributeValue .unquoted)).contains '=' = false := by decide

end H5V.Props.C08
