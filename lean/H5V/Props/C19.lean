import H5V.Model.Meta
import H5V.Spec.MetaExtract
/-!
C19 — encoding indicators; the part proved here is the *extraction*:
`encoding.rs::extract_a_character_encoding_from_a_meta_element` (model `H5V.Model.Meta.extract`,
byte offsets, `?` early returns, slice/subtendril panics as error branches) computes exactly the
WHATWG algorithm (`H5V.Spec.MetaExtract.extract`, the standard's loop) for **every** byte string, and
never panics.  As the code does, the raw label is returned: the standard's final "get an encoding"
label lookup is not performed by html5ever.

NOT proved here (left to the `meta doc` oracle on the real code, and to the tree-builder work
package): "feed() suspends exactly once per `meta` start tag that is inserted as an HTML meta element
with a charset attribute or http-equiv=content-type + extractable content, the element is already in
the tree, and resuming continues as if nothing had happened".
-/
namespace H5V.Props.C19
open H5V.Model.Meta H5V.Spec.MetaExtract

/-! ### bridging the two vocabularies -/

theorem ws_eq (b : UInt8) : isAsciiWhitespace b = isWs b := by
  simp only [isAsciiWhitespace, isWs]
  cases (b == 0x20) <;> cases (b == 0x09) <;> cases (b == 0x0A) <;> cases (b == 0x0C) <;> cases (b == 0x0D) <;> rfl

theorem ws_fun_eq : isAsciiWhitespace = isWs := funext ws_eq

theorem lower_eq : toAsciiLower = toLower := rfl

theorem eqIgnore_eq (cand : List UInt8) : eqIgnoreAsciiCase cand charset = (cand.map toLower == word) := by
  have : charset.map toLower = word := by decide
  simp only [eqIgnoreAsciiCase, lower_eq, this]

theorem startsWith_len {s : List UInt8} (h : startsWithCharset s = true) : 7 ≤ s.length := by
  simp only [startsWithCharset, beq_iff_eq] at h
  have := congrArg List.length h
  simp only [List.length_map, List.length_take, word, List.length_cons, List.length_nil] at this
  omega

theorem findCharset_short {s : List UInt8} (h : s.length < 7) : findCharset s = none := by
  induction s with
  | nil => rfl
  | cons b tl ih =>
    simp only [findCharset]
    split
    · rename_i hs; have := startsWith_len hs; omega
    · apply ih; simp only [List.length_cons] at h; omega

theorem drop_takeWhile_length (p : UInt8 → Bool) (l : List UInt8) :
    l.drop (l.takeWhile p).length = l.dropWhile p := by
  induction l with
  | nil => rfl
  | cons x xs ih =>
    simp only [List.takeWhile, List.dropWhile]
    split <;> simp [ih]

/-- `iter().position(p)` against `take_while(!p)` -/
theorem findIdx_spec (p : UInt8 → Bool) (l : List UInt8) :
    match l.findIdx? p with
    | some i => i < l.length ∧ l.take i = l.takeWhile (fun b => !p b) ∧ (∃ x ∈ l, p x = true)
    | none => l.takeWhile (fun b => !p b) = l ∧ ∀ x ∈ l, p x = false := by
  induction l with
  | nil => simp
  | cons x xs ih =>
    rw [List.findIdx?_cons]
    by_cases hx : p x = true
    · simp [hx, List.takeWhile]
    · have hx' : p x = false := by simpa using hx
      simp only [hx', Bool.false_eq_true, ↓reduceIte]
      cases h : xs.findIdx? p with
      | some i =>
        rw [h] at ih
        obtain ⟨h1, h2, y, hy, hpy⟩ := ih
        simp only [Option.map_some]
        refine ⟨by simp; omega, ?_, y, by simp [hy], hpy⟩
        simp [List.takeWhile, hx', h2]
      | none =>
        rw [h] at ih
        simp only [Option.map_none]
        refine ⟨by simp [List.takeWhile, hx', ih.1], ?_⟩
        intro y hy; simp at hy; rcases hy with rfl | hy
        · exact hx'
        · exact ih.2 y hy

/-! ### step 2: the inner loop -/

theorem findLoop_spec (input : List UInt8) (fuel pos : Nat) (hpos : pos ≤ input.length)
    (hfuel : input.length - pos < fuel) :
    (findCharset (input.drop pos) = none ∧ findLoop input fuel pos = .ok none) ∨
    (∃ p, pos ≤ p ∧ p + 7 ≤ input.length ∧ findLoop input fuel pos = .ok (some p) ∧
      findCharset (input.drop pos) = some (input.drop (p + 7))) := by
  induction fuel generalizing pos with
  | zero => omega
  | succ fuel ih =>
    simp only [findLoop, getRange]
    by_cases h7 : pos + 7 ≤ input.length
    · have hlt : pos < input.length := by omega
      have hcond : pos ≤ pos + 7 ∧ pos + 7 ≤ input.length := ⟨by omega, h7⟩
      simp only [hcond, and_self, ↓reduceIte, Nat.add_sub_cancel_left, eqIgnore_eq]
      have hd : input.drop pos = input[pos] :: input.drop (pos + 1) := List.drop_eq_getElem_cons hlt
      have hsw : (((input.drop pos).take 7).map toLower == word) = startsWithCharset (input.drop pos) := rfl
      rw [hsw]
      by_cases hs : startsWithCharset (input.drop pos) = true
      · right
        refine ⟨pos, Nat.le_refl _, h7, by simp [hs], ?_⟩
        rw [hd, findCharset, ← hd, if_pos hs, List.drop_drop]
      · simp only [hs, Bool.false_eq_true, ↓reduceIte]
        have hfc : findCharset (input.drop pos) = findCharset (input.drop (pos + 1)) := by
          rw [hd, findCharset, ← hd, if_neg hs]
        rw [hfc]
        rcases ih (pos + 1) (by omega) (by omega) with h | ⟨p, h1, h2, h3, h4⟩
        · exact Or.inl h
        · exact Or.inr ⟨p, by omega, h2, h3, h4⟩
    · left
      have : ¬ (pos ≤ pos + 7 ∧ pos + 7 ≤ input.length) := by omega
      simp only [this, ↓reduceIte, and_true]
      apply findCharset_short; simp only [List.length_drop]; omega

/-! ### steps 2–4: the outer loop -/

theorem afterEquals_unfold (s : List UInt8) :
    afterEquals s = match findCharset s with
      | none => none
      | some after =>
        match skipWs after with
        | 0x3D :: rest => some rest
        | next => afterEquals next := by
  rw [afterEquals]
  split <;> rename_i h <;> simp only [h]
  split <;> rename_i h' <;> simp only [h']

theorem afterEquals_none {s : List UInt8} (h : findCharset s = none) : afterEquals s = none := by
  rw [afterEquals_unfold, h]

theorem afterEquals_eq {s after rest : List UInt8} (h : findCharset s = some after)
    (h2 : skipWs after = 0x3D :: rest) : afterEquals s = some rest := by
  rw [afterEquals_unfold, h]; simp only [h2]

theorem afterEquals_nil {s after : List UInt8} (h : findCharset s = some after)
    (h2 : skipWs after = []) : afterEquals s = none := by
  rw [afterEquals_unfold, h]; simp only [h2]
  exact afterEquals_none rfl

theorem afterEquals_other {s after : List UInt8} {b : UInt8} {rest : List UInt8} (h : findCharset s = some after)
    (h2 : skipWs after = b :: rest) (hb : (b == 0x3D) = false) : afterEquals s = afterEquals (b :: rest) := by
  rw [afterEquals_unfold, h]; simp only [h2]
  split
  · rename_i heq; simp only [List.cons.injEq] at heq; simp [heq.1] at hb
  · rfl

theorem outerLoop_spec (input : List UInt8) (fuel pos : Nat) (hpos : pos ≤ input.length)
    (hfuel : input.length - pos < fuel) :
    (afterEquals (input.drop pos) = none ∧ outerLoop input fuel pos = .ok none) ∨
    (∃ e, e < input.length ∧ outerLoop input fuel pos = .ok (some e) ∧
      afterEquals (input.drop pos) = some (input.drop (e + 1))) := by
  induction fuel generalizing pos with
  | zero => omega
  | succ fuel ih =>
    simp only [outerLoop, bind, Except.bind]
    rcases findLoop_spec input (input.length + 1) pos hpos (by omega) with ⟨hn, hf⟩ | ⟨p, hp1, hp2, hf, hc⟩
    · left; simp only [hf]; exact ⟨afterEquals_none hn, trivial⟩
    · simp only [hf, sliceFrom]
      have h1 : ¬ p + 7 > input.length := by omega
      simp only [h1, ↓reduceIte, ws_fun_eq]
      generalize hk : ((input.drop (p + 7)).takeWhile isWs).length = k
      have hskip : skipWs (input.drop (p + 7)) = input.drop (p + 7 + k) := by
        rw [skipWs, ← drop_takeWhile_length, hk, List.drop_drop]
      by_cases hlt : p + 7 + k < input.length
      · have hd : input.drop (p + 7 + k) = input[p + 7 + k] :: input.drop (p + 7 + k + 1) :=
          List.drop_eq_getElem_cons hlt
        rw [List.getElem?_eq_getElem hlt]
        simp only
        by_cases hb : (input[p + 7 + k] == 0x3D) = true
        · right
          refine ⟨p + 7 + k, hlt, by simp [hb], ?_⟩
          have hb' : input[p + 7 + k] = 0x3D := by simpa using hb
          exact afterEquals_eq hc (by rw [hskip, hd, hb'])
        · have hb' : (input[p + 7 + k] == 0x3D) = false := by simpa using hb
          simp only [hb', Bool.false_eq_true, ↓reduceIte]
          have := afterEquals_other hc (by rw [hskip, hd]) hb'
          rw [this, ← hd]
          exact ih (p + 7 + k) (by omega) (by omega)
      · left
        have hge : input.length ≤ p + 7 + k := by omega
        rw [List.getElem?_eq_none hge]
        refine ⟨afterEquals_nil hc (by rw [hskip]; exact List.drop_of_length_le hge), rfl⟩

/-! ### the theorem -/

/-- **C19 (extraction).**  For every byte string the model of `encoding.rs` returns — without taking
any panic branch and without running out of loop fuel — exactly what the WHATWG algorithm for
extracting a character encoding from a meta element returns (as a raw label). -/
theorem C19_extract (s : List UInt8) : H5V.Model.Meta.extract s = .ok (H5V.Spec.MetaExtract.extract s) := by
  unfold H5V.Model.Meta.extract H5V.Spec.MetaExtract.extract
  simp only [bind, Except.bind]
  rcases outerLoop_spec s (s.length + 1) 0 (Nat.zero_le _) (by omega) with ⟨hn, ho⟩ | ⟨e, he, ho, ha⟩
  · simp only [List.drop_zero] at hn
    simp [ho, hn]
  · simp only [List.drop_zero] at ha
    simp only [ho, ha, Option.bind_some, sliceFrom]
    have h1 : ¬ e + 1 > s.length := by omega
    simp only [h1, ↓reduceIte, ws_fun_eq]
    generalize hk : ((s.drop (e + 1)).takeWhile isWs).length = k
    have hskip : skipWs (s.drop (e + 1)) = s.drop (e + 1 + k) := by
      rw [skipWs, ← drop_takeWhile_length, hk, List.drop_drop]
    unfold value
    rw [hskip]
    by_cases hlt : e + 1 + k < s.length
    · have hd : s.drop (e + 1 + k) = s[e + 1 + k] :: s.drop (e + 1 + k + 1) := List.drop_eq_getElem_cons hlt
      rw [List.getElem?_eq_getElem hlt, hd]
      simp only
      generalize s[e + 1 + k] = q at hd ⊢
      by_cases hq : (q == 0x22 || q == 0x27) = true
      · simp only [hq, ↓reduceIte]
        have h2 : ¬ e + 1 + k + 1 > s.length := by omega
        simp only [h2, ↓reduceIte]
        have hspec := findIdx_spec (fun b => b == q) (s.drop (e + 1 + k + 1))
        cases hf : (s.drop (e + 1 + k + 1)).findIdx? (fun b => b == q) with
        | none =>
          rw [hf] at hspec
          have hnot : q ∉ s.drop (e + 1 + k + 1) := by
            intro hm; have := hspec.2 q hm; simp at this
          simp [hnot]
        | some len =>
          rw [hf] at hspec
          obtain ⟨hl, htake, y, hy, hpy⟩ := hspec
          have hin : q ∈ s.drop (e + 1 + k + 1) := by
            have : y = q := by simpa using hpy
            rw [← this]; exact hy
          have hc : (s.drop (e + 1 + k + 1)).contains q = true := by simpa using hin
          simp only [List.length_drop] at hl
          have hb : ¬ (e + 1 + k + 1 > s.length ∨ len > s.length - (e + 1 + k + 1)) := by omega
          simp only [subtendril, hb, ↓reduceIte, hc, htake]
          rfl
      · have hq' : (q == 0x22 || q == 0x27) = false := by simpa using hq
        simp only [hq', Bool.false_eq_true, ↓reduceIte]
        have h2 : ¬ e + 1 + k > s.length := by omega
        simp only [h2, ↓reduceIte]
        have hspec := findIdx_spec (fun b => isWs b || b == 0x3B) (s.drop (e + 1 + k))
        rw [← hd]
        cases hf : (s.drop (e + 1 + k)).findIdx? (fun b => isWs b || b == 0x3B) with
        | none =>
          rw [hf] at hspec
          have hb : ¬ (e + 1 + k > s.length ∨ s.length - (e + 1 + k) > s.length - (e + 1 + k)) := by omega
          simp only [subtendril, hb, ↓reduceIte, hspec.1]
          rw [List.take_of_length_le (by simp)]
        | some len =>
          rw [hf] at hspec
          obtain ⟨hl, htake, _⟩ := hspec
          simp only [List.length_drop] at hl
          have hb : ¬ (e + 1 + k > s.length ∨ len > s.length - (e + 1 + k)) := by omega
          simp only [subtendril, hb, ↓reduceIte, htake]
    · have hge : s.length ≤ e + 1 + k := by omega
      rw [List.getElem?_eq_none hge, List.drop_of_length_le hge]

/-- the code cannot panic in this function (no slice index out of range, no `usize` underflow, no
`subtendril` bounds failure) and both loops terminate -/
theorem C19_extract_no_panic (s : List UInt8) : ∃ r, H5V.Model.Meta.extract s = .ok r :=
  ⟨_, C19_extract s⟩

/-! ### non-vacuity -/

-- `text/html; charset = "utf-8"x`
example : H5V.Spec.MetaExtract.extract
    [0x74, 0x3B, 0x20, 0x43, 0x48, 0x41, 0x52, 0x53, 0x45, 0x54, 0x20, 0x3D, 0x20, 0x22, 0x75, 0x38, 0x22, 0x78]
    = some [0x75, 0x38] := by
  simp [H5V.Spec.MetaExtract.extract, afterEquals_unfold, findCharset, startsWithCharset, toLower, word, skipWs,
    value, isWs, List.dropWhile, List.takeWhile]

end H5V.Props.C19
