import H5V.Lemmas.XmlShapeDoc
/-!
C17 — every tree the XML parser models build is in the class the round-trip theorems are stated for.
Closes the `Partial:` note of C17 ("it is not a theorem that every tree the parser builds is in the class
`preOK` / `isMisc` / `nodesOK` / `treesOK` / `nodesLex`").

Part 0.  FINDING about the class of `C17_roundtrip_fixed` / `C17_roundtrip_tok`: `treesOK`
(`TagOKP.consistent`) EXCLUDES parser-produced trees — an element in a default namespace with an unprefixed
attribute, `<a xmlns="u" k="1"/>` (`C17_witness_class_gap`).  The round trip does hold for them;
`C17_roundtrip_fixedW` / `C17_roundtrip_tokW` restate the two theorems for the class `treesOKW` (weaker
`consistent`, `Lemmas/XmlShapeSer.lean`), which contains `treesOK` and every parser-produced tree.

Part 1 (tree builder).  `C17_parsed_shape`: for EVERY list of tokenizer-shaped tokens (`TokShape`: the name
of a start / empty tag is `process_qname` of a non-empty raw name, attribute names are `process_qname` of
non-empty raw names and pairwise distinct — what `emit_current_tag` / `finish_attribute` deliver —,
character tokens are non-empty) the document the (fixed) tree-builder model builds is either
`pre ++ [root element] ++ post` with `preOK false pre`, `post` comments / PIs, `nodesOK` content and every
tag in `TagOKW` — or has no root element and is a prolog (`preOK false`).  `C17_roundtrip_parsed`: hence
parse → serialize → `lexEv` → parse gives the same document, for every token list, no side condition
(`C17_roundtrip_noroot` for documents without root).  `C17_roundtrip_parsed_source`: the same for the token
lists of `C16_resolve_source_fixed`.

Part 2 (tokenizer).  `C17_tok_always`: for every input every token of the tokenizer model's log satisfies
`tokOK` (`TokA`: `Lemmas/XmlShapeLex*.lean`, `XmlShapeCmt.lean`, an invariant of `step` / `run` / `feed` / `end`
in the style of C15's `CleanP`; plus C15's `CleanP NN`).  `Corner` (decidable, `Lemmas/XmlShapeDoc.lean`):
a start / empty tag with `=` in the prefix of its name or of an attribute name, or with an unsplit attribute
name starting with `:`; a PI whose data starts with a blank.  `C17_tok_lex_or_corner`: every token is
`tokLex` (= `tokOK` and no corner) or a corner.  `C17_parsed_lex`: a log of `tokLex` tokens gives a document
in the class of `C17_roundtrip_tokW`, `nodesLex` included.  `C17_roundtrip_source`: for every input whose log
has no corner token, tokenizer → tree builder → serializer → tokenizer → tree builder reproduces the document
(with or without root element, any chunking and options on both passes).  There is no fourth kind of corner.
-/
namespace H5V.Props.C17
open H5V.Model.XmlTB H5V.Model.XmlSer H5V.Lemmas.XmlTB H5V.Lemmas.XmlSer H5V.Lemmas.XmlSerFixed
open H5V.Lemmas.XmlRT H5V.Lemmas.XmlShape H5V.Spec.XmlNs

/-! ## 0. the class of `C17_roundtrip_fixed`, widened -/

/-- `C17_okEvs_fixed` for the full class of parser-produced tags -/
theorem C17_okEvs_fixedW (doc : List Node) (h : treesOKW doc) :
    okEvs SerCfg.fixed LexCfg.fixed TbCfg.fixed [defaultMap] (serDoc SerCfg.fixed doc) = true :=
  okEvs_fixedW doc h

/-- **`C17_roundtrip_fixed` for the class `treesOKW`** (contains `treesOK`: `treesOKW_of_treesOK`) -/
theorem C17_roundtrip_fixedW (pre post ks : List Node) (n : QName) (as : List Attr)
    (hpre : preOK false pre) (hpost : ∀ x ∈ post, isMisc x = true)
    (hks : nodesOK SerCfg.fixed false ks)
    (htags : treesOKW (pre ++ .elem n as ks :: post)) :
    ∃ s, reparse SerCfg.fixed LexCfg.fixed TbCfg.fixed (pre ++ .elem n as ks :: post) = .ok s ∧
      s.document = pre.map stripId ++ .elem n as ks :: post :=
  C17_roundtrip_partial SerCfg.fixed LexCfg.fixed TbCfg.fixed pre post ks n as hpre hpost hks
    (C17_okEvs_fixedW _ htags)

/-- `C17_roundtrip_tok` for the class `treesOKW` -/
theorem C17_roundtrip_tokW (o : Model.XmlTok.Opts) (bom : Bool)
    (pre post ks : List Node) (n : QName) (as : List Attr)
    (hpre : preOK false pre) (hpost : ∀ x ∈ post, isMisc x = true)
    (hks : nodesOK SerCfg.fixed false ks) (htags : treesOKW (pre ++ .elem n as ks :: post))
    (hlex : nodesLex (pre ++ .elem n as ks :: post))
    (cs : List Str) (hcs : cs.flatten = serText (pre ++ .elem n as ks :: post)) :
    ∃ mf m2 s, C15.feedAll o { discardBom := bom } cs = some mf ∧ Model.XmlTok.finish o mf = .ok m2 ∧
      run TbCfg.fixed State.init (tbTokens m2.out) = .ok s ∧
      s.document = pre.map stripId ++ .elem n as ks :: post := by
  obtain ⟨mf, m2, h1, h2, h3⟩ := C17_tok_events o bom pre post ks n as hpre hpost hks hlex cs hcs
  obtain ⟨s, hs, hd⟩ := C17_roundtrip_fixedW pre post ks n as hpre hpost hks htags
  refine ⟨mf, m2, s, h1, h2, ?_, hd⟩
  rw [h3]; exact hs

/-- `<a xmlns="u" k="1"/>` -/
def docDefaultAttr : List Node := [el none "u" "a" [at' none "" "k" "1"] []]

/-- **finding (class gap)**: the parser models build `docDefaultAttr` from `<a xmlns='u' k='1'/>`, it comes
back unchanged through serializer, tokenizer and tree-builder models — but it is NOT in the class `treesOK`
of `C17_roundtrip_fixed` / `C17_roundtrip_tok` (its root tag is not `TagOKP`: the element name needs a
declaration, has the same prefix — none — as the attribute `k`, and a different namespace).  It is in
`treesOKW`. -/
theorem C17_witness_class_gap :
    parseTok ⟨false⟩ true "<a xmlns='u' k='1'/>".toList = some docDefaultAttr ∧
    reparseTok ⟨false⟩ true docDefaultAttr = some docDefaultAttr ∧
    ¬ treesOK docDefaultAttr ∧ treesOKW docDefaultAttr := by
  refine ⟨checkParse_sound _ _ _ _ (by decide +kernel), checkRT_sound _ _ _ _ (by decide +kernel), ?_, ?_⟩
  · intro h
    have h1 : TagOKP (qn none "u" "a") [at' none "" "k" "1"] := h.1.1
    have := h1.consistent (at' none "" "k" "1").name (by simp) (qn none "u" "a") (by simp) rfl (by decide)
    revert this; decide
  · simp only [docDefaultAttr, treesOKW, treeOKW, el, and_true]
    refine ⟨⟨⟨by decide, by decide⟩, by decide, by decide, by decide⟩, ?_, by decide, by decide, ?_⟩
    · intro a ha
      simp at ha; subst ha
      exact ⟨⟨by decide, by decide⟩, by decide, by decide, by decide, by decide⟩
    · intro x hx y hy hp hny hnx
      simp only [List.map_cons, List.map_nil, List.mem_cons, List.not_mem_nil, or_false] at hx hy
      rcases hx with rfl | rfl <;> rcases hy with rfl | rfl <;> first | rfl | (revert hnx hny; decide)

/-! ## 1. the shape of every parsed document -/

theorem elemsOfL_pre (l : List Node) (h : ∀ x ∈ l, isPre x = true) : elemsOfL l = [] := by
  induction l with
  | nil => rfl
  | cons x xs ih =>
    have hx := h x (by simp)
    have := ih (fun y hy => h y (by simp [hy]))
    cases x <;> simp_all [elemsOfL, elemsOf, isPre]

/-- the shape theorem with a predicate `Q` on the leaves (text, comment, PI, doctype nodes) carried along -/
theorem parsed_shape_Q (Q : Node → Prop) (hQ : TextClosed Q) (toks : List Token) (hts : ∀ t ∈ toks, TokShape t)
    (hq : ∀ t ∈ toks, TokLeafQ Q t) :
    ∃ s, run TbCfg.fixed State.init toks = .ok s ∧ s.createdList = resolve .prolog toks ∧
      ((s.hasRoot = true ∧ ∃ pre n as ks post, s.document = pre ++ .elem n as ks :: post ∧ preOK false pre ∧
          (∀ x ∈ post, isMisc x = true) ∧ nodesOK SerCfg.fixed false ks ∧
          treesOKW (pre ++ .elem n as ks :: post) ∧
          (∀ c ∈ elemsOfL (pre ++ .elem n as ks :: post), c ∈ s.created) ∧
          (∀ x ∈ leavesOfL (pre ++ .elem n as ks :: post), Q x)) ∨
       (s.hasRoot = false ∧ preOK false s.document ∧ ∀ x ∈ s.document, isPre x = true ∧ Q x)) := by
  obtain ⟨s, hrun, hcr⟩ := C16.C16_resolve_fixed toks (by
    intro t ht tg htg
    subst htg
    exact C16.noDupDecl_of_nodup_names _ (hts _ ht).nodup)
  have hsh := run_shape hQ TbCfg.fixed toks State.init (shapeC_init _)
    (fun t ht => (hts t ht).good (hq t ht)) s hrun
  have hok : ∀ c ∈ s.created, TagOKW c.name c.attrs := by
    intro c hc
    apply resolve_ok toks .prolog trivial hts c
    rw [← hcr]; simpa [State.createdList] using hc
  refine ⟨s, hrun, hcr, ?_⟩
  rcases document_shape _ s.created s hsh with
    ⟨hr, pre, n, as, ks, post, hd, hpre, hpost, hks, hn, hel, hq1, hq2, hq3⟩ | h
  · left
    have hpre' := preOK_isPre false pre hpre
    have hpost' : ∀ x ∈ post, isPre x = true := fun x hx => by
      have := hpost x hx; cases x <;> simp_all [isMisc, isPre]
    have e1 := elemsOfL_pre pre hpre'
    have e2 := elemsOfL_pre post hpost'
    have hmem : ∀ c ∈ elemsOfL (pre ++ .elem n as ks :: post), c ∈ s.created := by
      intro c hc
      rw [elemsOfL_append] at hc
      simp only [e1, List.nil_append, elemsOfL, elemsOf, e2, List.append_nil, List.mem_cons] at hc
      rcases hc with rfl | hc
      · exact hn
      · exact hel c hc
    refine ⟨hr, pre, n, as, ks, post, hd, hpre, hpost, hks, ?_, hmem, ?_⟩
    · apply treesOKW_of_elems
      intro c hc
      exact hok c (hmem c hc)
    · intro x hx
      rw [leavesOfL_append, leavesOfL_pre pre hpre'] at hx
      simp only [leavesOfL, leavesOf, leavesOfL_pre post hpost', List.mem_append] at hx
      rcases hx with hx | hx | hx
      · exact hq1 x hx
      · exact hq3 x hx
      · exact hq2 x hx
  · right; exact h

/-- **C17 (shape of parsed documents).**  For every list of tokenizer-shaped tokens the fixed tree-builder
model runs to completion, and the document it has built is
* either `pre ++ [.elem n as ks] ++ post` with `pre` comments / PIs / at most one doctype, `post` comments /
  PIs, `ks` element content without doctype, empty text or adjacent text nodes, and every tag of the tree a
  `TagOKW` tag — every hypothesis of `C17_roundtrip_fixedW`;
* or has no root element (no start / empty tag was seen before an EOF token), and then consists of
  comments, PIs and at most one doctype (`preOK false`). -/
theorem C17_parsed_shape (toks : List Token) (hts : ∀ t ∈ toks, TokShape t) :
    ∃ s, run TbCfg.fixed State.init toks = .ok s ∧
      ((s.hasRoot = true ∧ ∃ pre n as ks post, s.document = pre ++ .elem n as ks :: post ∧ preOK false pre ∧
          (∀ x ∈ post, isMisc x = true) ∧ nodesOK SerCfg.fixed false ks ∧
          treesOKW (pre ++ .elem n as ks :: post)) ∨
       (s.hasRoot = false ∧ preOK false s.document ∧ ∀ x ∈ s.document, isPre x = true)) := by
  obtain ⟨s, hrun, _, h⟩ := parsed_shape_Q (fun _ => True) textClosed_true toks hts (fun t _ => tokLeafQ_true t)
  refine ⟨s, hrun, ?_⟩
  rcases h with ⟨hr, pre, n, as, ks, post, hd, hpre, hpost, hks, ht, _, _⟩ | ⟨h1, h2, h3⟩
  · exact Or.inl ⟨hr, pre, n, as, ks, post, hd, hpre, hpost, hks, ht⟩
  · exact Or.inr ⟨h1, h2, fun x hx => (h3 x hx).1⟩

/-- the token lists of `C16_resolve_source_fixed` — lexed tags through the tokenizer's attribute step
`finishTag TokCfg.fixed`, any other tokens — are tokenizer-shaped as soon as start / empty tags have a
non-empty raw name and character tokens are non-empty -/
theorem tokShape_of_source (raws : List C16.RawToken)
    (hother : ∀ r ∈ raws, ∀ t, r = .other t → (∀ tg, t ≠ .tag tg) ∧ ∀ cs, t = .chars cs → cs ≠ [])
    (hname : ∀ r ∈ raws, ∀ t, r = .tag t → (t.kind = .start ∨ t.kind = .empty) → t.name ≠ []) :
    ∀ t ∈ raws.map (C16.finishToken TokCfg.fixed), TokShape t := by
  intro t ht
  obtain ⟨r, hr, rfl⟩ := List.mem_map.mp ht
  match r, hr with
  | .tag rt, hr => exact finishTag_shape rt (hname _ hr rt rfl)
  | .other t', hr =>
    obtain ⟨h1, h2⟩ := hother _ hr t' rfl
    simp only [C16.finishToken]
    cases t' with
    | tag tg => exact absurd rfl (h1 tg)
    | chars cs => exact h2 cs rfl
    | doctype _ _ _ => trivial
    | comment _ => trivial
    | pi _ _ => trivial
    | nullChar => trivial
    | eof => trivial

/-- a document without a root element (comments, PIs, at most one doctype) comes back, too -/
theorem C17_roundtrip_noroot (scfg : SerCfg) (lcfg : LexCfg) (tcfg : TbCfg) (pre : List Node)
    (hpre : preOK false pre) :
    ∃ s, reparse scfg lcfg tcfg pre = .ok s ∧ s.document = pre.map stripId := by
  have hp := preOK_isPre false pre hpre
  unfold reparse lexAll
  have hsp := serNodes_spells scfg [] pre
  change Spells (serDoc scfg pre) _ at hsp
  generalize serDoc scfg pre = evs at hsp
  obtain ⟨evs1, rfl, hsp1⟩ := spells_pre pre hp [] evs (by simpa using hsp)
  cases hsp1
  obtain ⟨s1, h1, hp1, ho1, hr1, _, hdb1, hda1⟩ := run_pre scfg lcfg tcfg pre State.init [.eof] hpre rfl rfl rfl
  simp only [List.append_nil]
  have e : step tcfg s1 .eof = .ok { s1.err [.eofInStart] with phase := .end_ } := by
    unfold step; simp only [hp1]
  refine ⟨{ s1.err [.eofInStart] with phase := .end_ }, ?_, ?_⟩
  · rw [h1, run_cons, e]; rfl
  · have hb' : (s1.err [Err.eofInStart]).docBefore = (pre.map stripId).reverse := by
      show s1.docBefore = _; rw [hdb1]; simp [State.init]
    have ha' : (s1.err [Err.eofInStart]).docAfter = [] := by
      show s1.docAfter = _; rw [hda1]; rfl
    simp [State.document, hr1, ho1, closeAll, hb', ha']

/-- **C17 (round trip of parsed documents), `lexEv` level**: for EVERY list of tokenizer-shaped tokens,
parse (fixed tree-builder model) → serialize (fixed serializer model) → lex (`lexEv`) → parse reproduces
the document (doctype ids dropped) — no side condition on the tree. -/
theorem C17_roundtrip_parsed (toks : List Token) (hts : ∀ t ∈ toks, TokShape t) :
    ∃ s s2, run TbCfg.fixed State.init toks = .ok s ∧
      reparse SerCfg.fixed LexCfg.fixed TbCfg.fixed s.document = .ok s2 ∧
      s2.document = s.document.map stripId := by
  obtain ⟨s, hrun, h⟩ := C17_parsed_shape toks hts
  rcases h with ⟨_, pre, n, as, ks, post, hd, hpre, hpost, hks, htags⟩ | ⟨_, hpre, _⟩
  · obtain ⟨s2, h1, h2⟩ := C17_roundtrip_fixedW pre post ks n as hpre hpost hks htags
    refine ⟨s, s2, hrun, by rw [hd]; exact h1, ?_⟩
    rw [h2, hd]
    have : post.map stripId = post := by
      rw [← List.map_id post]; simp only [List.map_map]
      apply List.map_congr_left
      intro x hx
      have := hpost x hx
      cases x <;> simp_all [isMisc, stripId]
    simp [this, stripId]
  · obtain ⟨s2, h1, h2⟩ := C17_roundtrip_noroot SerCfg.fixed LexCfg.fixed TbCfg.fixed s.document hpre
    exact ⟨s, s2, hrun, h1, h2⟩

/-- `C17_parsed_shape` / `C17_roundtrip_parsed` for the token lists of `C16_resolve_source_fixed` -/
theorem C17_roundtrip_parsed_source (raws : List C16.RawToken)
    (hother : ∀ r ∈ raws, ∀ t, r = .other t → (∀ tg, t ≠ .tag tg) ∧ ∀ cs, t = .chars cs → cs ≠ [])
    (hname : ∀ r ∈ raws, ∀ t, r = .tag t → (t.kind = .start ∨ t.kind = .empty) → t.name ≠ []) :
    ∃ s s2, run TbCfg.fixed State.init (raws.map (C16.finishToken TokCfg.fixed)) = .ok s ∧
      reparse SerCfg.fixed LexCfg.fixed TbCfg.fixed s.document = .ok s2 ∧
      s2.document = s.document.map stripId :=
  C17_roundtrip_parsed _ (tokShape_of_source raws hother hname)

/-! ## 2. the tokenizer side: which tokens can break the lexical side conditions -/

open H5V.Lemmas.XmlShapeLex (LInv linv_initial feed_linv finish_lex)

theorem feedAll_linv (o : Model.XmlTok.Opts) (cs : List Str) :
    ∀ (m : Model.XmlTok.Mach), Model.XmlTok.TInv m → LInv m →
      ∃ mf, C15.feedAll o m cs = some mf ∧ Model.XmlTok.TInv mf ∧ LInv mf := by
  induction cs with
  | nil => intro m hi hl; exact ⟨m, rfl, hi, hl⟩
  | cons c cs ih =>
    intro m hi hl
    obtain ⟨m1, hf, hi1⟩ := C04X.C04_xml_feed_total o m [] c hi
    obtain ⟨mf, hmf, h1, h2⟩ := ih m1 hi1 (feed_linv o hl [] c m1 [] hf)
    exact ⟨mf, by simp only [C15.feedAll, hf]; exact hmf, h1, h2⟩

/-- **C17 (what every emitted token satisfies).**  For EVERY input — any chunking `cs`, either
`discard_bom`, either `exact_errors` — a fresh XML tokenizer model, fed and ended, runs to completion, and
every token of its log satisfies `tokOK`: the always-true lexical clauses `TokA` (`Lemmas/XmlShapeLex.lean`:
tag names `TagNameLex`, attribute names made of name characters with no `=` after the first, pairwise
distinct attribute names, PI targets non-empty without blanks / `?`, PI data without `?`, doctype names
`DtCh`, non-empty character tokens) and C15's `CleanP NN` (no CR / NUL in names, comments, PIs, doctype
names; no NUL in attribute values and character tokens). -/
theorem C17_tok_always (o : Model.XmlTok.Opts) (bom : Bool) (cs : List Str) :
    ∃ mf m2, C15.feedAll o { discardBom := bom } cs = some mf ∧ Model.XmlTok.finish o mf = .ok m2 ∧
      ∀ t ∈ m2.out, tokOK t := by
  obtain ⟨mf, hf, hi, hl⟩ := feedAll_linv o cs _ (C04X.C04_xml_initial_inv .data bom) (linv_initial bom)
  obtain ⟨m2, hm2, _⟩ := C04X.C04_xml_finish_total o mf hi
  obtain ⟨hc, hx⟩ := finish_lex o hl m2 hm2
  exact ⟨mf, m2, hf, hm2, fun t ht => ⟨hx.1.out t ht, hc.out t ht⟩⟩

/-- the lexical condition on one token under which the tree built from it satisfies `nodesLex`
(`C17_parsed_lex`): the always-true clauses plus "no corner" -/
def tokLex (t : XTok) : Prop := tokOK t ∧ Corner t = false

/-- **C17 (lexical or corner).**  Every token the tokenizer model emits, for every input, satisfies `tokLex`
or is a `Corner` token: a start / empty tag with `=` in the prefix of its name or of an attribute name, or
with an unsplit attribute name starting with `:`; a PI whose data starts with a blank.  These are exactly the
three known round-trip failures (`C17_witness_prefix_eq`, `C17_witness_attr_leading_colon`,
`C17_witness_pi_blank`; `C17_known_corners`) — there is no fourth kind: tag names, attribute names, comments
(`CommentLex`: the comment states never push a `>` where the re-parse would end the comment), PI targets,
doctype names, text and attribute values satisfy their lexical conditions for every input. -/
theorem C17_tok_lex_or_corner (o : Model.XmlTok.Opts) (bom : Bool) (cs : List Str) :
    ∃ mf m2, C15.feedAll o { discardBom := bom } cs = some mf ∧ Model.XmlTok.finish o mf = .ok m2 ∧
      ∀ t ∈ m2.out, tokLex t ∨ Corner t = true := by
  obtain ⟨mf, m2, h1, h2, h3⟩ := C17_tok_always o bom cs
  refine ⟨mf, m2, h1, h2, fun t ht => ?_⟩
  cases hc : Corner t with
  | true => exact Or.inr rfl
  | false => exact Or.inl ⟨h3 t ht, hc⟩

/-- **C17 (parsed documents are in the class of `C17_roundtrip_tok`).**  If every token of a tokenizer log
satisfies `tokLex`, the document the fixed tree-builder model builds from it (`tbTokens`) has the shape of
`C17_parsed_shape` AND satisfies the lexical side conditions `nodesLex`. -/
theorem C17_parsed_lex (out : Model.XmlTok.Out) (h : ∀ t ∈ out, tokLex t) :
    ∃ s, run TbCfg.fixed State.init (tbTokens out) = .ok s ∧
      ((s.hasRoot = true ∧ ∃ pre n as ks post, s.document = pre ++ .elem n as ks :: post ∧ preOK false pre ∧
          (∀ x ∈ post, isMisc x = true) ∧ nodesOK SerCfg.fixed false ks ∧
          treesOKW (pre ++ .elem n as ks :: post) ∧ nodesLex (pre ++ .elem n as ks :: post)) ∨
       (s.hasRoot = false ∧ preOK false s.document ∧ nodesLex s.document)) := by
  have htk := tbTokens_ok out (fun t ht => (h t ht).1) (fun t ht => (h t ht).2)
  obtain ⟨s, hrun, hcr, hd⟩ := parsed_shape_Q LeafLex textClosed_leafLex (tbTokens out)
    (fun t ht => (htk t ht).1) (fun t ht => by
      have := (htk t ht).2
      cases t <;> first | exact this | trivial)
  refine ⟨s, hrun, ?_⟩
  have hel : ∀ c ∈ s.created, ElemLex c.name c.attrs := by
    intro c hc
    apply resolve_lex (tbTokens out) .prolog trivial _ c
    · rw [← hcr]; simpa [State.createdList] using hc
    · intro t ht tg e; subst e; exact (htk _ ht).2
  rcases hd with ⟨hr, pre, n, as, ks, post, hdoc, hpre, hpost, hks, htags, hmem, hleaf⟩ | ⟨h1, h2, h3⟩
  · left
    exact ⟨hr, pre, n, as, ks, post, hdoc, hpre, hpost, hks, htags,
      nodesLex_of_parts _ (fun c hc => hel c (hmem c hc)) hleaf⟩
  · right
    refine ⟨h1, h2, nodesLex_of_parts _ ?_ ?_⟩
    · rw [elemsOfL_pre _ (fun x hx => (h3 x hx).1)]; intro c hc; cases hc
    · rw [leavesOfL_pre _ (fun x hx => (h3 x hx).1)]; exact fun x hx => (h3 x hx).2

/-! ## 2b. documents without a root element through the tokenizer model -/

/-- `tok_events_plain` for any document that does not start with, end in, or contain adjacent / empty text -/
theorem tok_events_plain_gen (o : Model.XmlTok.Opts) (ho : o.exactErrors = false) (bom : Bool)
    (doc : List Node) (hne : doc ≠ []) (hhead : ∀ x, doc.head? = some x → isTextN x = false)
    (hadj : adjT false doc) (hlast : lastT false doc = false) (hlex : nodesLex doc) :
    ∃ m1 m2, Model.XmlTok.feed o { discardBom := bom } [] (serText doc) = .done m1 [] ∧
      Model.XmlTok.finish o m1 = .ok m2 ∧
      tbTokens m2.out = lexAll SerCfg.fixed LexCfg.fixed (serDoc SerCfg.fixed doc) := by
  obtain ⟨hev, hadjE⟩ := serNodes_facts doc [] false [] hlex hadj trivial
  rw [List.append_nil] at hadjE
  have hends : endsInText (serDoc SerCfg.fixed doc) = false := by
    rw [endsInText_eq]; unfold serDoc; rw [serNodes_ends, hlast]
  obtain ⟨t, ht⟩ := render_starts_lt doc [] hne hhead
  have hrun : ∀ m : Model.XmlTok.Mach, Ctl m .data → Clean m →
      ∃ m', Reach o m ('<' :: t) m' [] ∧ Ctl m' .data ∧ Clean m' ∧
        cvOut m'.out = cvOut m.out ++ ((serDoc SerCfg.fixed doc).map evToks).flatten := by
    intro m hc hn
    obtain ⟨m', r, c, cl, ot⟩ := evs_run o ho [] _ m hev
      (fun h => by have h' := hends; unfold serDoc at h'; rw [h'] at h; cases h) hc hn
    rw [List.append_nil] at r
    refine ⟨m', ?_, c, cl, ot⟩
    rw [← ht]; exact r
  obtain ⟨m1, hf, hc1, ho1⟩ := feed_of_reach o ho bom t _ hrun
  obtain ⟨m2, hf2, ho2⟩ := finish_data o ho m1 hc1
  refine ⟨m1, m2, ?_, hf2, ?_⟩
  · unfold serText serDoc; rw [ht]; exact hf
  · unfold tbTokens
    rw [ho2, ho1]
    exact (merge_evToks _ false hadjE).2

/-- `C17_tok_events` for such a document: any chunking, either option -/
theorem tok_events_gen (o : Model.XmlTok.Opts) (bom : Bool)
    (doc : List Node) (hne : doc ≠ []) (hhead : ∀ x, doc.head? = some x → isTextN x = false)
    (hadj : adjT false doc) (hlast : lastT false doc = false) (hlex : nodesLex doc)
    (cs : List Str) (hcs : cs.flatten = serText doc) :
    ∃ mf m2, C15.feedAll o { discardBom := bom } cs = some mf ∧ Model.XmlTok.finish o mf = .ok m2 ∧
      tbTokens m2.out = lexAll SerCfg.fixed LexCfg.fixed (serDoc SerCfg.fixed doc) := by
  obtain ⟨a1, a2, hfa, hfin, htok⟩ := tok_events_plain_gen ⟨false⟩ rfl bom doc hne hhead hadj hlast hlex
  generalize hT : serText doc = text at hcs hfa
  have hne' : text ≠ [] := by
    intro e
    obtain ⟨t, ht⟩ := render_starts_lt doc [] hne hhead
    unfold serText serDoc at hT
    rw [ht] at hT; rw [e] at hT; cases hT
  have hi := C04X.C04_xml_initial_inv .data bom
  obtain ⟨b1, hb1⟩ := feedAll_total ⟨false⟩ cs _ hi
  obtain ⟨fuel, b1', hrun, hsim, _⟩ := C15.C15_feedAll ⟨false⟩ _ cs b1 (C15.good_initial .data bom) rfl hb1
    (by rw [hcs]; exact hne')
  rw [hcs] at hrun
  have hr1 := C15.run_done_runsTo _ _ _ _ _ hrun
  have hr2 : Model.XmlTok.RunsTo ⟨false⟩ (Model.XmlTok.feedBom { discardBom := bom } text).1
      (Model.XmlTok.feedBom { discardBom := bom } text).2 a1 := by
    rcases C15.feed_done _ _ _ _ hfa with ⟨e, _⟩ | ⟨_, h⟩
    · exact absurd e hne'
    · exact h
  have e1 : b1' = a1 := runsTo_det hr1 hr2
  subst e1
  have hfs := C15.C15_finish_sim ⟨false⟩ b1' b1 hsim
  rw [hfin] at hfs
  obtain ⟨b2, hb2, hb2o⟩ : ∃ b2, Model.XmlTok.finish ⟨false⟩ b1 = .ok b2 ∧ b2.out = a2.out := by
    cases hq : Model.XmlTok.finish ⟨false⟩ b1 with
    | error e => rw [hq] at hfs; cases hfs
    | ok b2 => rw [hq] at hfs; simp only [Except.map] at hfs; injection hfs with h; exact ⟨b2, rfl, h.symm⟩
  have hopt := C15.C15_exact_errors_tokens o ⟨false⟩ { discardBom := bom } cs
  obtain ⟨c1, hc1⟩ := feedAll_total o cs _ hi
  obtain ⟨_, hfo⟩ := hopt.2 c1 b1 hc1 hb1
  rw [hb2] at hfo
  obtain ⟨c2, hc2, hc2o⟩ : ∃ c2, Model.XmlTok.finish o c1 = .ok c2 ∧
      Model.XmlTok.noErr c2.out = Model.XmlTok.noErr b2.out := by
    cases hq : Model.XmlTok.finish o c1 with
    | error e => rw [hq] at hfo; cases hfo
    | ok c2 => rw [hq] at hfo; simp only [Except.map] at hfo; injection hfo with h; exact ⟨c2, rfl, h⟩
  refine ⟨c1, c2, hc1, hc2, ?_⟩
  unfold tbTokens at htok ⊢
  rw [← cvOut_noErr, hc2o, cvOut_noErr, hb2o]
  exact htok

theorem feedAll_empties (o : Model.XmlTok.Opts) (m : Model.XmlTok.Mach) (cs : List Str) (h : ∀ c ∈ cs, c = []) :
    C15.feedAll o m cs = some m := by
  induction cs with
  | nil => rfl
  | cons c cs ih =>
    have hc := h c (by simp)
    subst hc
    have : Model.XmlTok.feed o m [] [] = .done m [] := by simp [Model.XmlTok.feed]
    simp only [C15.feedAll, this]
    exact ih (fun x hx => h x (by simp [hx]))

/-- the empty document: no text at all, the tokenizer delivers EOF only -/
theorem tok_events_empty (o : Model.XmlTok.Opts) (bom : Bool) (cs : List Str) (hcs : cs.flatten = []) :
    ∃ mf m2, C15.feedAll o { discardBom := bom } cs = some mf ∧ Model.XmlTok.finish o mf = .ok m2 ∧
      tbTokens m2.out = lexAll SerCfg.fixed LexCfg.fixed (serDoc SerCfg.fixed []) := by
  have hall : ∀ c ∈ cs, c = [] := by
    intro c hc
    have := List.flatten_eq_nil_iff.mp hcs c hc
    exact this
  have hm : ∀ (out : Model.XmlTok.Out), out = [.eof] →
      tbTokens out = lexAll SerCfg.fixed LexCfg.fixed (serDoc SerCfg.fixed []) := by
    intro out e; subst e
    simp [tbTokens, cvOut, cvTok, mergeChars, lexAll, serDoc, serNodes]
  obtain ⟨b⟩ := o
  cases b <;> cases bom <;> exact ⟨_, _, feedAll_empties _ _ cs hall, rfl, hm _ rfl⟩

/-- **C17 (round trip, models only) for a document without root element**: comments, PIs, at most one
doctype, lexically re-readable -/
theorem C17_roundtrip_tok_noroot (o : Model.XmlTok.Opts) (bom : Bool) (pre : List Node)
    (hpre : preOK false pre) (hlex : nodesLex pre) (cs : List Str) (hcs : cs.flatten = serText pre) :
    ∃ mf m2 s, C15.feedAll o { discardBom := bom } cs = some mf ∧ Model.XmlTok.finish o mf = .ok m2 ∧
      run TbCfg.fixed State.init (tbTokens m2.out) = .ok s ∧ s.document = pre.map stripId := by
  obtain ⟨s, hs, hd⟩ := C17_roundtrip_noroot SerCfg.fixed LexCfg.fixed TbCfg.fixed pre hpre
  have hp := preOK_isPre false pre hpre
  have hev : ∃ mf m2, C15.feedAll o { discardBom := bom } cs = some mf ∧ Model.XmlTok.finish o mf = .ok m2 ∧
      tbTokens m2.out = lexAll SerCfg.fixed LexCfg.fixed (serDoc SerCfg.fixed pre) := by
    cases pre with
    | nil => exact tok_events_empty o bom cs (by rw [hcs]; rfl)
    | cons x xs =>
      have hm := misc_facts (x :: xs) hp
      refine tok_events_gen o bom (x :: xs) (by simp) ?_ (hm false).1 (hm false).2 hlex cs hcs
      intro y hy
      simp only [List.head?_cons, Option.some.injEq] at hy; subst hy
      have := hp x (by simp)
      cases x <;> simp_all [isPre, isTextN]
  obtain ⟨mf, m2, h1, h2, h3⟩ := hev
  exact ⟨mf, m2, s, h1, h2, by rw [h3]; exact hs, hd⟩

/-- **C17 (round trip from source text, models only).**  For EVERY input (`cs`: any chunking; `o`, `bom`):
tokenizer model → tree-builder model builds a document `s.document`; if no token of the log is a `Corner`
token, then serializer model → text → tokenizer model (fresh, any options `o'`, `bom'`, any chunking `cs'` of
the text) → tree-builder model reproduces the document (doctype ids dropped).  No hypothesis on the tree:
shape, tags and lexical conditions are theorems (`C17_parsed_lex`); documents without a root element are
covered (`C17_roundtrip_tok_noroot`). -/
theorem C17_roundtrip_source (o : Model.XmlTok.Opts) (bom : Bool) (cs : List Str) :
    ∃ mf m2 s, C15.feedAll o { discardBom := bom } cs = some mf ∧ Model.XmlTok.finish o mf = .ok m2 ∧
      run TbCfg.fixed State.init (tbTokens m2.out) = .ok s ∧
      ((∀ t ∈ m2.out, Corner t = false) →
        ∀ (o' : Model.XmlTok.Opts) (bom' : Bool) (cs' : List Str), cs'.flatten = serText s.document →
          ∃ mf' m2' s', C15.feedAll o' { discardBom := bom' } cs' = some mf' ∧
            Model.XmlTok.finish o' mf' = .ok m2' ∧
            run TbCfg.fixed State.init (tbTokens m2'.out) = .ok s' ∧
            s'.document = s.document.map stripId) := by
  obtain ⟨mf, m2, h1, h2, h3⟩ := C17_tok_always o bom cs
  obtain ⟨s, hrun⟩ := C16.C16_no_panic TbCfg.fixed (tbTokens m2.out)
  refine ⟨mf, m2, s, h1, h2, hrun, ?_⟩
  intro hnc o' bom' cs' hcs'
  obtain ⟨s0, hrun0, hd⟩ := C17_parsed_lex m2.out (fun t ht => ⟨h3 t ht, hnc t ht⟩)
  have : s0 = s := by rw [hrun] at hrun0; injection hrun0 with e; exact e.symm
  subst this
  rcases hd with ⟨_, pre, n, as, ks, post, hdoc, hpre, hpost, hks, htags, hlex⟩ | ⟨_, hpre, hlex⟩
  · rw [hdoc] at hcs'
    obtain ⟨mf', m2', s', g1, g2, g3, g4⟩ :=
      C17_roundtrip_tokW o' bom' pre post ks n as hpre hpost hks htags hlex cs' hcs'
    refine ⟨mf', m2', s', g1, g2, g3, ?_⟩
    rw [g4, hdoc]
    have : post.map stripId = post := by
      rw [← List.map_id post]; simp only [List.map_map]
      apply List.map_congr_left
      intro x hx
      have := hpost x hx
      cases x <;> simp_all [isMisc, stripId]
    simp [this, stripId]
  · exact C17_roundtrip_tok_noroot o' bom' s0.document hpre hlex cs' hcs'

/-! ## 3. evaluated forms, non-vacuity, the known corners -/

/-- tokenizer model (chunks `cs`) → `end` → tree-builder model: the token log, the document, "has a root" -/
def srcParse (o : Model.XmlTok.Opts) (bom : Bool) (cs : List Str) :
    Option (Model.XmlTok.Out × List Node × Bool) :=
  match C15.feedAll o { discardBom := bom } cs with
  | some mf =>
    match Model.XmlTok.finish o mf with
    | .ok m2 =>
      match run TbCfg.fixed State.init (tbTokens m2.out) with
      | .ok s => some (m2.out, s.document, s.hasRoot)
      | .error _ => none
    | .error _ => none
  | none => none

/-- `srcParse` never fails -/
theorem srcParse_total (o : Model.XmlTok.Opts) (bom : Bool) (cs : List Str) :
    ∃ r, srcParse o bom cs = some r := by
  obtain ⟨mf, m2, s, h1, h2, h3, _⟩ := C17_roundtrip_source o bom cs
  exact ⟨(m2.out, s.document, s.hasRoot), by simp only [srcParse, h1, h2, h3]⟩

/-- the evaluated form of `C17_roundtrip_source`: run the parser models on the input; if the log has no
`Corner` token, the document survives serializer → tokenizer → tree builder -/
theorem C17_roundtrip_source_eval (o : Model.XmlTok.Opts) (bom : Bool) (cs : List Str)
    (out : Model.XmlTok.Out) (doc : List Node) (r0 : Bool) (hp : srcParse o bom cs = some (out, doc, r0))
    (hnc : out.all (fun t => !Corner t) = true)
    (o' : Model.XmlTok.Opts) (bom' : Bool) (cs' : List Str) (hcs' : cs'.flatten = serText doc) :
    ∃ out' r, srcParse o' bom' cs' = some (out', doc.map stripId, r) := by
  obtain ⟨mf, m2, s, h1, h2, h3, h4⟩ := C17_roundtrip_source o bom cs
  have e : (out, doc, r0) = (m2.out, s.document, s.hasRoot) := by
    have : srcParse o bom cs = some (m2.out, s.document, s.hasRoot) := by simp only [srcParse, h1, h2, h3]
    rw [hp] at this; injection this
  simp only [Prod.mk.injEq] at e
  obtain ⟨e1, e2, _⟩ := e
  subst e1 e2
  obtain ⟨mf', m2', s', g1, g2, g3, g4⟩ := h4 (by
    intro t ht
    have := List.all_eq_true.mp hnc t ht
    simpa using this) o' bom' cs' hcs'
  exact ⟨m2'.out, s'.hasRoot, by simp only [srcParse, g1, g2, g3, g4]⟩

def srcOK (o : Model.XmlTok.Opts) (bom : Bool) (cs : List Str) : Bool :=
  match srcParse o bom cs with
  | some (out, _, _) => out.all (fun t => !Corner t)
  | none => false

def srcHasCorner (o : Model.XmlTok.Opts) (bom : Bool) (cs : List Str) : Bool :=
  match srcParse o bom cs with
  | some (out, _, _) => out.any Corner
  | none => false

/-- non-vacuity of `C17_roundtrip_source`: inputs (split into chunks at awkward places) whose logs
have no corner token — default namespace with unprefixed attribute (the
class gap), prefixes, CR / NUL / character references, CDATA, comments with `--` and `>` inside, PIs,
doctype, unclosed elements, stray end tags -/
example :
    srcOK ⟨false⟩ true ["<!DOCTYPE R><!--a--b>c--!x-->".toList, "<a xmlns='u' k='1' p:q=\"&amp;&#13;\r\n\">".toList,
      "t<![CDATA[x]]>&lt;\x00<p:b xmlns:p='v'/></c><?pi d?>".toList] = true ∧
    srcOK ⟨true⟩ false ["<a".toList, ":b c".toList, "='1'>x</a:b><!-- - -->".toList] = true := by
  constructor <;> decide +kernel

/-- documents without a root element, and the empty input -/
example :
    srcOK ⟨false⟩ true ["<!--c--><!DOCTYPE x><?p d?> ".toList] = true ∧ srcOK ⟨true⟩ false [] = true ∧
    (match srcParse ⟨false⟩ true ["<!--c--><?p d?> x".toList] with
     | some (_, d, r) => nodesBeq d [.comment ['c'], .pi ['p'] ['d']] && !r
     | none => false) = true := by
  refine ⟨by decide +kernel, by decide +kernel, by decide +kernel⟩

/-- the three known corners are `Corner` tokens -/
theorem C17_known_corners :
    srcHasCorner ⟨false⟩ true ["<r a :b='1'/>".toList] = true ∧
    srcHasCorner ⟨false⟩ true ["<=a:b/>".toList] = true ∧
    srcHasCorner ⟨false⟩ true ["<?t? x?><r/>".toList] = true ∧
    srcHasCorner ⟨false⟩ true ["<r =p:x='1'/>".toList] = true := by
  refine ⟨?_, ?_, ?_, ?_⟩ <;> decide +kernel

/-- `<r =p:x='1'/>` -/
def docAttrPrefixEq : List Node := [el none "" "r" [at' (some "=p") "" "x" "1"] []]

/-- **variant of finding C17-prefix-eq, on an ATTRIBUTE**: in the tag-attribute-name-BEFORE state `=` starts
an attribute name like any other character, so `<r =p:x='1'/>` gives an attribute with the (unbound) prefix
`=p`; the fixed serializer declares it, `xmlns:=p=""`, which is read back as an attribute `xmlns:` with value
`p=""`.  Same `Corner` clause (`=` in a prefix) as the element-name case `C17_witness_prefix_eq`. -/
theorem C17_witness_attr_prefix_eq :
    parseTok ⟨false⟩ true "<r =p:x='1'/>".toList = some docAttrPrefixEq ∧
    serText docAttrPrefixEq = "<r xmlns:=p=\"\" =p:x=\"1\"></r>".toList ∧
    reparseTok ⟨false⟩ true docAttrPrefixEq =
      some [el none "" "r" [at' none "" "xmlns:" "p=\"\"", at' (some "=p") "" "x" "1"] []] ∧
    srcHasCorner ⟨false⟩ true ["<r =p:x='1'/>".toList] = true := by
  refine ⟨checkParse_sound _ _ _ _ (by decide +kernel), by decide +kernel,
    checkRT_sound _ _ _ _ (by decide +kernel), by decide +kernel⟩

/-- non-vacuity of `C17_parsed_shape` / `C17_roundtrip_parsed`: both alternatives occur -/
example : ∃ s, run TbCfg.fixed State.init
      [.comment ['c'], .tag ⟨.start, ⟨none, ['a']⟩, []⟩, .chars ['x'], .chars ['y'], .tag ⟨.empty, ⟨none, ['b']⟩, []⟩,
       .eof] = .ok s ∧
    s.hasRoot = true ∧
    s.document = [.comment ['c'], .elem ⟨none, [], ['a']⟩ [] [.text ['x', 'y'], .elem ⟨none, [], ['b']⟩ [] []]] :=
  ⟨_, rfl, rfl, rfl⟩

example : ∃ s, run TbCfg.fixed State.init [.comment ['c'], .doctype (some ['r']) none none, .eof, .pi ['t'] []] = .ok s ∧
    s.hasRoot = false ∧ s.document = [.comment ['c'], .doctype ['r'] [] [], .pi ['t'] []] := ⟨_, rfl, rfl, rfl⟩

example : ∀ t ∈ [Token.comment ['c'], .tag ⟨.start, ⟨none, ['a']⟩, []⟩, .chars ['x'], .eof], TokShape t := by
  intro t ht
  simp only [List.mem_cons, List.not_mem_nil, or_false] at ht
  rcases ht with rfl | rfl | rfl | rfl
  · trivial
  · exact ⟨fun _ => ⟨['a'], by decide, by simp⟩, by simp, by simp⟩
  · show ['x'] ≠ []; simp
  · trivial

end H5V.Props.C17
