import H5V.Lemmas.HtmlTBAlgoAdoptOuter
import H5V.Lemmas.HtmlTBAlgoInsert
/-!
C02 — HTML tree construction equals the WHATWG tree-construction algorithm: the sub-algorithms of
§13.2.4–13.2.6 that `H5V.Props.C02` does not cover.

The spec side is `H5V.Spec.TreeAlgo2` (pure functions written from the standard's prose, each under
the clause it transcribes).  The model side is `H5V.Model.HtmlTB.Actions` (a statement-by-statement
model of `html5ever/src/tree_builder/mod.rs`).

**Form of the theorems.**  `Tot m s Q` (`H5V.Lemmas.HtmlTBAlgoBase`) is total correctness *relative to
the sink*: run in state `s`, the model computation `m`
* either returns `a` in a state `s'` with `Q a s' calls`, where `calls` is exactly the list of
  `TreeSink` calls made, in order (`s'.traceRev = calls.reverse ++ s.traceRev`), `s'.dom` is the result
  of replaying them on `s.dom`, and element data of `s.dom` are unchanged in `s'.dom`;
* or fails with a panic raised *inside a `TreeSink` call* (RcDom refused the operation).
A panic of the tree builder itself (`unwrap`, index, arithmetic, `expect`) or an exhausted loop fuel is
excluded by every theorem: the proofs show that those branches are not taken.  Whether a sink call can
panic is the business of C05 (the calls satisfy the `TreeSink` contract) and C20.

**Abstraction.**  `absState s supply log : PState Id Tag` is the abstract parser state of the
standard: the stack `absStack s.dom s.openElems` (each handle with the element type the sink reports,
same order as `open_elems`: current node last), the list `absList s.activeFormatting`, the foster
parenting flag, the form element pointer, a supply of node identities and a log.  `edits calls` are the
calls that change the DOM (everything but queries, parse errors, `pop` notifications); `editCall tc e`
is the `TreeSink` call for the entry `e` of the standard's log of DOM operations (`tc x` = the template
contents of `x`; `remove x` is `remove_from_parent`, `moveChildren` is `reparent_children`, an `insert`
at a place is `append` / `append_based_on_parent_node`).  A typical conclusion reads: there are node
identities `ids` (those handed out by `create_element`, all fresh: `≥ s.dom.size`) and a log `L` such that
`Spec.f (absState s (ids ++ rest) log0) = some (absState s' rest (log0 ++ L))` for all `rest`, `log0` —
the standard's algorithm, given exactly these new nodes, produces exactly the abstract state of the
model's final state — and `edits calls = L.map (editCall tc)`: the DOM calls made are exactly the
standard's DOM operations, in order; plus: no other field of the tree builder changed.

Hypotheses.  `ElemsOk s.dom s.openElems`: every stack entry is an element of the sink (= `NamesOk` of
`H5V.Props.C02` for some naming, `C02_abs_of_names`).  `HeadOk s.dom s.openElems`: the stack is not
empty and its first entry is in the special category and not a `table` (it is `html`).  `AFOk`: every
listed formatting element is a node of the sink, its token's tag name is not in the special category,
and if it is on the stack its element type is (HTML, that tag name) — what
`create_formatting_element_for` / reconstruct / the adoption agency establish.

What is proved (all for **all** states satisfying the hypotheses):
* (i) `C02_spec_appropriate_place` — `appropriate_place_for_insertion(override)` = "the appropriate
  place for inserting a node" incl. foster parenting; `C02_spec_foster_resolution`: what RcDom does with
  the foster-parenting insertion point is substeps 5–7 (`Place.resolve`), for a table whose parent is
  not a `template` element and a previous element that is not a `template`;
  `C02_witness_foster_previous_template` — **finding**: if the last table has no parent and the
  previous element is a `template`, html5ever inserts into the `template` element itself, the standard
  (step 3) into its template contents.  Only reachable when a script detaches the table.
* (j) `C02_spec_insert_element` — `insert_element` = "insert a foreign element" (HTML or foreign
  namespace) incl. the form-association condition; `C02_spec_insert_foreign_element` for the
  *onlyAddToElementStack* form (element types that are not form-associated).
* (k) `C02_spec_insert_character`, `C02_spec_insert_comment`, `C02_spec_insert_comment_in`.
* (l) `C02_spec_reconstruct` — reconstruct the active formatting elements; `C02_spec_reconstruct_suffix`: the
  re-created entries are the longest suffix without markers and open elements.
* (g) `C02_spec_noah_push` — `create_formatting_element_for` = Noah's Ark clause (`Spec.TreeAlgo.noahPush`)
  + insert an HTML element + push; (m) `C02_spec_clear_to_last_marker`.
* (o) `C02_spec_adoption_inner_loop` (steps 13.1–13.9), `C02_spec_adoption_round` (steps 4.3–4.19, one
  round of the outer loop, with the DOM edit log), `C02_spec_adoption_agency` (the whole algorithm:
  step 2, the outer loop with its bound 8, the fallback to "any other end tag").
* (n) `C02_spec_any_other_end_tag`; (c') `C02_spec_implied_end_tags_tot`; (p) `C02_spec_clear_stack_back`;
  (q) `C02_spec_close_p`, `C02_spec_close_cell`; `C02_spec_pop_until`; (b') `C02_spec_in_scope_tot`;
  `C02_spec_stop_parsing_pop_all`.

Observations (not defects): the furthest-block search of `adoption_agency` starts at the formatting
element itself (`skip(fmt_elem_stack_index)`), not below it — equal because formatting elements are
never special (`AFOk`); `pop_until` on a stack without the wanted element empties the stack and returns
`len + 1`; `check_body_end` lacks `rb`, `rtc` (parse error only, see `C02_table_body_end_ok_partial`).

Not proved here: parse errors are not compared (C02 does not observe them); the per-insertion-mode rule arms (`rules.rs`).
-/
namespace H5V.Props.C02
open H5V
open H5V.Model.HtmlTB
open H5V.Model.Dom (Id SinkOp Output Dom QualName Attr NodeOrText ElementFlags NodeData)
open H5V.Lemmas.HtmlTBAlgo
open H5V.Lemmas.HtmlTBSpec (NamesOk toName)
open H5V.Spec.TreeAlgo2

/-! ## the abstraction, tied to `NamesOk` of `H5V.Props.C02` -/

/-- if the sink names the stack entries `nm`, the abstract stack is the stack with these names -/
theorem C02_abs_of_names (s : State) (nm : Id → EName) (hn : NamesOk s s.openElems nm) :
    ElemsOk s.dom s.openElems ∧ absStack s.dom s.openElems = s.openElems.map fun h => ⟨h, toName (nm h)⟩ :=
  ⟨ElemsOk.of_namesOk hn, absStack_of_namesOk hn⟩

/-! ## (i) the appropriate place for inserting a node -/

/-- **(i)** `appropriate_place_for_insertion(override_target)` answers the standard's appropriate place
for inserting a node (`ipOf`: `lastChildOf x` ↦ `LastChild(x)`, `inTemplateContentsOf x` ↦
`LastChild(get_template_contents(x))`, `foster t prev` ↦ `TableFosterParenting{t, prev}`); it only
queries the sink. -/
theorem C02_spec_appropriate_place (s : State) (ov : Option Id) (hok : ElemsOk s.dom s.openElems)
    (hov : ∀ t, ov = some t → s.dom.isElement t = true) (place : Place Id)
    (hspec : appropriatePlace (absStack s.dom s.openElems) s.fosterParenting (ov.map (elemOf s.dom)) = some place) :
    Tot (appropriatePlaceForInsertion ov) s (QueryQ s (ipOf (tcOf s.dom) place)) :=
  tot_appropriatePlace s ov hok hov place hspec

/-- the appropriate place is defined on every stack that starts with a non-`table` element -/
theorem C02_spec_appropriate_place_defined {N : Type} (stack : List (Elem N)) (fp : Bool) (ov : Option (Elem N))
    (e0 : Elem N) (hh : stack.head? = some e0) (hnt : e0.name.isHtml "table" = false) :
    ∃ place, appropriatePlace stack fp ov = some place :=
  let ⟨p, h, _⟩ := appropriatePlace_some stack fp ov e0 hh hnt; ⟨p, h⟩

/-- what the DOM says about the parent of a node -/
def parentKindOf (d : Dom) (t : Id) : ParentKind :=
  match d.parentOf t with
  | none => .none
  | some p => if (d.templateContentsOf p).isSome then .templateElement else .other

/-- **(i, substeps 5–7)** the sink call made for the foster-parenting insertion point does what
`Place.resolve` prescribes, whenever that is "before the table in its parent" or "last child of the
previous element" -/
theorem C02_spec_foster_resolution (d : Dom) (t prev : Elem Id) (child : NodeOrText) (ht : t.id < d.size) :
    (Place.resolve (parentKindOf d) (.foster t prev) = .beforeInParent t.id →
      d.apply (.appendBasedOnParentNode t.id prev.id child) = d.apply (.appendBeforeSibling t.id child)) ∧
    (Place.resolve (parentKindOf d) (.foster t prev) = .lastChildOf prev.id →
      d.apply (.appendBasedOnParentNode t.id prev.id child) = d.apply (.append prev.id child)) := by
  have hraw := H5V.Lemmas.Dom.appendBasedOnParentNodeV_eq (b := Dom.beforeSiblingVariant) (d := d) (e := t.id)
    (p := prev.id) (ch := child) rfl ht
  constructor
  · intro h
    have hp : (d.parentOf t.id).isSome = true := by
      cases hpo : d.parentOf t.id with
      | some p => rfl
      | none =>
        exfalso
        simp only [Place.resolve, parentKindOf, hpo] at h
        by_cases hc : prev.name.isHtml "template" = true
        · simp only [hc, if_true] at h; cases h
        · simp only [hc] at h; cases h
    unfold Dom.apply Dom.applyV
    simp only [hraw, hp, if_true]
  · intro h
    have hp : (d.parentOf t.id).isSome = false := by
      cases hpo : d.parentOf t.id with
      | none => rfl
      | some p =>
        exfalso
        simp only [Place.resolve, parentKindOf, hpo] at h
        by_cases hc : (d.templateContentsOf p).isSome = true
        · simp only [hc, if_true] at h; cases h
        · simp only [hc] at h; cases h
    unfold Dom.apply Dom.applyV
    simp only [hraw, hp, Bool.false_eq_true, if_false]

/-! ## (j) insert an HTML / foreign element -/

/-- **(j)** `insert_element(push, ns, tag)` (behind `insert_element_for`, `insert_and_pop_element_for`,
`insert_phantom`, `enter_foreign`, `foreign_start_tag`, the reconstruction and
`create_formatting_element_for`) is "insert a foreign element" with *onlyAddToElementStack* false:
appropriate place, one `create_element`, the form association exactly when the standard prescribes it,
the insertion, the push (`pushIt = false`: the element is popped again at once). -/
theorem C02_spec_insert_element (s : State) (pushIt : Bool) (ns : Str) (tag : Tag) (hok : ElemsOk s.dom s.openElems)
    (hhead : HeadOk s.dom s.openElems) :
    Tot (insertElement pushIt ns tag.name tag.attrs tag.hadDup) s (fun elem s' calls =>
      s' = { s with openElems := if pushIt then s.openElems ++ [elem] else s.openElems,
                    dom := s'.dom, traceRev := s'.traceRev } ∧
      s.dom.size ≤ elem ∧ s'.dom.isElement elem = true ∧ nameOf s'.dom elem = ⟨ns, tag.name⟩ ∧
      ∃ L, (∀ tc, TcOk s.dom tc → edits calls = L.map (editCall tc)) ∧
        ∀ rest log0, Spec.TreeAlgo2.insertForeignElement tagCtx (absState s (elem :: rest) log0) tag ns false
          = some ({ absState s rest (log0 ++ L) with
                      stack := absStack s.dom s.openElems ++ [⟨elem, ⟨ns, tag.name⟩⟩] }, ⟨elem, ⟨ns, tag.name⟩⟩)) :=
  tot_insertElement_spec s pushIt ns tag hok hhead

/-- **(j)** `insert_foreign_element(tag, ns, only_add_to_element_stack)` -/
theorem C02_spec_insert_foreign_element (s : State) (tag : Tag) (ns : Str) (onlyAdd : Bool) (hok : ElemsOk s.dom s.openElems)
    (hhead : HeadOk s.dom s.openElems)
    (hnf : Spec.TreeAlgo.inHtml formAssociatedElements ⟨ns, tag.name⟩ = false) :
    Tot (H5V.Model.HtmlTB.insertForeignElement tag ns onlyAdd) s (fun elem s' calls => ∃ L,
      s' = { s with openElems := s.openElems ++ [elem], dom := s'.dom, traceRev := s'.traceRev } ∧
      s.dom.size ≤ elem ∧ s'.dom.isElement elem = true ∧ nameOf s'.dom elem = ⟨ns, tag.name⟩ ∧
      edits calls = L.map (editCall (tcOf s.dom)) ∧
      ∀ rest log0, Spec.TreeAlgo2.insertForeignElement tagCtx (absState s (elem :: rest) log0) tag ns onlyAdd
        = some ({ absState s rest (log0 ++ L) with
                    stack := absStack s.dom s.openElems ++ [⟨elem, ⟨ns, tag.name⟩⟩] }, ⟨elem, ⟨ns, tag.name⟩⟩)) :=
  tot_insertForeignElement s tag ns onlyAdd hok hhead hnf

/-! ## (k) insert a character, insert a comment -/

theorem C02_spec_insert_character (s : State) (text : Str) (hok : ElemsOk s.dom s.openElems) (hhead : HeadOk s.dom s.openElems) :
    Tot (appendText text) s (fun r s' calls => r = .done ∧ SameTB s s' ∧ ∃ L,
      edits calls = L.map (editCall (tcOf s.dom)) ∧
      ∀ sup log0, insertCharacters (absState s sup log0) text = some (absState s sup (log0 ++ L))) :=
  tot_appendText s text hok hhead

theorem C02_spec_insert_comment (s : State) (text : Str) (hok : ElemsOk s.dom s.openElems) (hhead : HeadOk s.dom s.openElems) :
    Tot (appendComment text) s (fun r s' calls => r = .done ∧ SameTB s s' ∧ ∃ c L, s.dom.size ≤ c ∧
      edits calls = L.map (editCall (tcOf s.dom)) ∧
      ∀ rest log0, insertComment (absState s (c :: rest) log0) text = some (absState s rest (log0 ++ L))) :=
  tot_appendComment s text hok hhead

/-- "insert a comment" with an explicit position: last child of the `Document`, last child of the
first element of the stack -/
theorem C02_spec_insert_comment_in (s : State) (text : Str) :
    Tot (appendCommentToDoc text) s (fun r s' calls => r = .done ∧ SameTB s s' ∧ ∃ c L, s.dom.size ≤ c ∧
      edits calls = L.map (editCall (tcOf s.dom)) ∧
      ∀ rest log0, insertCommentAsLastChildOf (absState s (c :: rest) log0) s.docHandle text
        = some (absState s rest (log0 ++ L))) ∧
    (∀ h0, s.openElems.head? = some h0 →
      Tot (appendCommentToHtml text) s (fun r s' calls => r = .done ∧ SameTB s s' ∧ ∃ c L, s.dom.size ≤ c ∧
        edits calls = L.map (editCall (tcOf s.dom)) ∧
        ∀ rest log0, insertCommentAsLastChildOf (absState s (c :: rest) log0) h0 text
          = some (absState s rest (log0 ++ L)))) :=
  ⟨tot_appendCommentToDoc s text, fun h0 hh => tot_appendCommentToHtml s text h0 hh⟩

/-! ## (l) reconstruct the active formatting elements -/

/-- **(l)** `reconstruct_active_formatting_elements`: the model re-creates exactly the entries the
standard re-creates, in the standard's order, inserts each as an HTML element at the appropriate place
(edit log), replaces the entries, pushes the new elements, and touches nothing else. -/
theorem C02_spec_reconstruct (s : State) (hok : ElemsOk s.dom s.openElems) (hhead : HeadOk s.dom s.openElems) :
    Tot H5V.Model.HtmlTB.reconstructActiveFormattingElements s (fun _ s' calls => ∃ ids L,
      (∀ tc, TcOk s'.dom tc → edits calls = L.map (editCall tc)) ∧
      (∀ rest log0, Spec.TreeAlgo2.reconstructActiveFormattingElements tagCtx (absState s (ids ++ rest) log0)
          = some (absState s' rest (log0 ++ L))) ∧
      SameButStackList s s' ∧ ElemsOk s'.dom s'.openElems ∧ HeadOk s'.dom s'.openElems ∧
      (∀ x ∈ ids, s.dom.size ≤ x)) :=
  tot_reconstruct s hok hhead

/-- the rewinding stops right after the last entry that is a marker or open: none of the entries from
the returned position on (up to the start position) is one -/
theorem C02_spec_reconstruct_rewind {N T : Type} [DecidableEq N] (stack : List (Elem N)) (list : List (Entry N T)) (i : Nat) :
    Spec.TreeAlgo2.reconstructRewind stack list i ≤ i ∧
    ∀ j, Spec.TreeAlgo2.reconstructRewind stack list i ≤ j → j < i → (list[j]?).any (markerOrOpen stack) = false :=
  rewind_spec stack list i

/-- the entries re-created (positions `start … length - 1`, `start` = where the rewinding ends) are exactly
the longest suffix of the list that contains neither a marker nor an open element -/
theorem C02_spec_reconstruct_suffix {N T : Type} [DecidableEq N] (stack : List (Elem N)) (list : List (Entry N T))
    (last : Entry N T) (hl : list.getLast? = some last) (hm : markerOrOpen stack last = false) :
    list.length - Spec.TreeAlgo2.reconstructRewind stack list (list.length - 1) = reconstructSuffixLength stack list :=
  reconstruct_suffix stack list last hl hm

/-! ## (g) push onto the list of active formatting elements, (m) clear up to the last marker -/

/-- **(g)** `create_formatting_element_for(tag)`: the list after the call is
`Spec.TreeAlgo.noahPush` of the list before (Noah's Ark: the earliest of three entries with the same tag
name and attributes after the last marker is removed, then the new entry is added) — with "insert an
HTML element" for the token in between. -/
theorem C02_spec_noah_push (s : State) (tag : Tag) (hok : ElemsOk s.dom s.openElems) (hhead : HeadOk s.dom s.openElems) :
    Tot (createFormattingElementFor tag) s (fun elem s' calls => ∃ af1 L,
      s' = { s with openElems := s.openElems ++ [elem], activeFormatting := af1 ++ [.element elem tag],
                    dom := s'.dom, traceRev := s'.traceRev } ∧
      (af1 ++ [FormatEntry.element elem tag]).map entryOpt
        = Spec.TreeAlgo.noahPush sameEntry (s.activeFormatting.map entryOpt) (elem, tag) ∧
      s.dom.size ≤ elem ∧ s'.dom.isElement elem = true ∧ nameOf s'.dom elem = ⟨nsHtml, tag.name⟩ ∧
      (∀ tc, TcOk s.dom tc → edits calls = L.map (editCall tc)) ∧
      ∀ rest log0, insertHtmlElement tagCtx (absState { s with activeFormatting := af1 } (elem :: rest) log0) tag
        = some ({ absState { s with activeFormatting := af1 } rest (log0 ++ L) with
                    stack := absStack s.dom s.openElems ++ [⟨elem, ⟨nsHtml, tag.name⟩⟩] }, ⟨elem, ⟨nsHtml, tag.name⟩⟩)) :=
  tot_createFormattingElementFor s tag hok hhead

/-- the list part of (g) alone, for every list and tag -/
theorem C02_spec_noah_list (af : List FormatEntry) (tag : Tag) (new : Id) :
    let ms := (afEndToMarker af).filter (fun (x : Nat × Id × Tag) => tag.equivModuloAttrOrder x.2.2)
    (ms.length ≥ 3 → ∃ i h t, ms.getLast? = some (i, h, t) ∧ i < af.length ∧
        ((af.eraseIdx i) ++ [FormatEntry.element new tag]).map entryOpt =
          Spec.TreeAlgo.noahPush sameEntry (af.map entryOpt) (new, tag)) ∧
    (ms.length < 3 → (af ++ [FormatEntry.element new tag]).map entryOpt =
          Spec.TreeAlgo.noahPush sameEntry (af.map entryOpt) (new, tag)) :=
  noah_list_eq af tag new

/-- **(m)** `clear_active_formatting_to_marker` -/
theorem C02_spec_clear_to_last_marker (s : State) :
    Tot clearActiveFormattingToMarker s (fun _ s' calls => calls = [] ∧ ∃ af',
      s' = { s with activeFormatting := af' } ∧ absList af' = clearToLastMarker (absList s.activeFormatting)) :=
  tot_clearActiveFormattingToMarker s

/-! ## (o) the adoption agency algorithm -/

/-- **(o, steps 13.1–13.9)** the inner loop: from any state satisfying the loop invariant (`pfe`: the
position of the formatting element, `idx`: the position of *node*, `n0`: the arena size at the start of
the round) the model's loop ends (no fuel, no panic) having made the standard's decisions and DOM
operations, and re-establishes what steps 14–19 need -/
theorem C02_spec_adoption_inner_loop (fe fb : Id) (n0 pfe idx : Nat) (s : State) (counter : Nat) (lastNode : Id)
    (bm : H5V.Model.HtmlTB.Bookmark) (hinv : InnerInv fe fb n0 pfe idx s bm) :
    Tot (aaInner fe fb idx counter lastNode bm) s (InnerPost fe fb n0 pfe idx counter lastNode bm s) :=
  tot_aaInner fe fb n0 pfe idx s counter lastNode bm hinv

/-- **(o, steps 4.3–4.19)** one round of the outer loop.  `RoundPost` unfolds to: there are fresh `ids` and
a log `L` with `(outerRound tagCtx subject (absState s (ids ++ rest) log0)).map (roundResult subject) =
some (absState s' rest (log0 ++ L), ret)` (`ret` = "return"; `roundResult` carries out the fallback to
"any other end tag"), `edits calls = L.map (editCall tc)`, only stack, list and DOM changed, and the
invariants hold again when the loop goes on. -/
theorem C02_spec_adoption_round (subject : Str) (s : State) (hok : ElemsOk s.dom s.openElems) (hhead : HeadOk s.dom s.openElems)
    (hafok : AFOk s.dom s.openElems s.activeFormatting) :
    Tot (aaOuterStep subject) s (RoundPost subject s) :=
  tot_aaOuterStep subject s hok hhead hafok

/-- **(o)** `adoption_agency(subject)` is the standard's adoption agency algorithm: the shortcut of
step 2, at most 8 rounds of the outer loop, the fallback of step 4.3 to "any other end tag" — same
final stack of open elements, same list of active formatting elements, the same DOM operations in the
same order, nothing else touched. -/
theorem C02_spec_adoption_agency (subject : Str) (s : State) (hok : ElemsOk s.dom s.openElems)
    (hhead : HeadOk s.dom s.openElems) (hafok : AFOk s.dom s.openElems s.activeFormatting) :
    Tot (H5V.Model.HtmlTB.adoptionAgency subject) s (fun _ s' calls => ∃ ids L,
      (∀ tc, TcOk s'.dom tc → edits calls = L.map (editCall tc)) ∧
      (∀ rest log0, adoptionAgencyWithFallback tagCtx subject (absState s (ids ++ rest) log0)
          = some (absState s' rest (log0 ++ L))) ∧
      SameButStackList s s' ∧ ElemsOk s'.dom s'.openElems ∧ (∀ x ∈ ids, s.dom.size ≤ x)) :=
  tot_adoptionAgency subject s hok hhead hafok

/-- html5ever removes the formatting element's entry *after* inserting the new entry behind the
bookmark, the standard (step 18) before; the lists agree -/
theorem C02_spec_adoption_bookmark {N T : Type} [DecidableEq N] (l : List (Entry N T)) (x fe : N) (ne : Entry N T)
    (i : Nat) (hx : x ≠ fe) (hne : ne.node? ≠ some fe) (hi : listPos x l = some i) (hfe : (listPos fe l).isSome) :
    ∃ k, listPos fe (l.insertIdx (i + 1) ne) = some k ∧ k < (l.insertIdx (i + 1) ne).length ∧
      (listPos fe l).bind (fun i0 => insertAfter x ne (l.eraseIdx i0)) = some ((l.insertIdx (i + 1) ne).eraseIdx k) :=
  bookmark_insert_then_remove l x fe ne i hx hne hi hfe

/-! ## (n), (c'), (p), (q): the stack-popping helpers -/

/-- **(n)** `process_end_tag_in_body(tag)` is "any other end tag" (`PopsTo s f s' calls`: only the stack
changed, it is a prefix of the old one, `absStack s.dom s'.openElems = f (absStack s.dom s.openElems)`,
no DOM call) -/
theorem C02_spec_any_other_end_tag (s : State) (hok : ElemsOk s.dom s.openElems) (tag : Tag) :
    Tot (processEndTagInBody tag) s (fun _ s' calls => PopsTo s (Spec.TreeAlgo2.anyOtherEndTag tag.name) s' calls) :=
  tot_processEndTagInBody s hok tag

/-- **(c')** generate implied end tags / except `x` / all implied end tags thoroughly, as triples -/
theorem C02_spec_implied_end_tags_tot (s : State) (hok : ElemsOk s.dom s.openElems) (x : Str) :
    Tot (H5V.Model.HtmlTB.generateImpliedEndTags cursoryImpliedEnd) s
      (fun _ s' calls => PopsTo s (Spec.TreeAlgo2.generateImpliedEndTags none) s' calls) ∧
    Tot (generateImpliedEndExcept x) s
      (fun _ s' calls => PopsTo s (Spec.TreeAlgo2.generateImpliedEndTags (some x)) s' calls) ∧
    Tot (H5V.Model.HtmlTB.generateImpliedEndTags thoroughImpliedEnd) s (fun _ s' calls =>
      StackOnly s s' ∧ s'.openElems <+: s.openElems ∧ edits calls = [] ∧
      namesRev (absStack s.dom s'.openElems)
        = Spec.TreeAlgo.generateAllImpliedEndTagsThoroughly (namesRev (absStack s.dom s.openElems))) :=
  ⟨tot_generateImpliedEndTags_cursory s hok, tot_generateImpliedEndExcept s hok x, tot_generateImpliedEndTags_thorough s hok⟩

/-- **(p)** clear the stack back to a table / table body / table row context -/
theorem C02_spec_clear_stack_back (s : State) (hok : ElemsOk s.dom s.openElems) :
    ((absStack s.dom s.openElems).any (fun e => Spec.TreeAlgo.inHtml Spec.TreeTables.tableContext e.name) = true →
      Tot (popUntilCurrent tableScope) s (fun _ s' calls => PopsTo s clearStackBackToTableContext s' calls)) ∧
    ((absStack s.dom s.openElems).any (fun e => Spec.TreeAlgo.inHtml Spec.TreeTables.tableBodyContext e.name) = true →
      Tot (popUntilCurrent tableBodyContext) s (fun _ s' calls => PopsTo s clearStackBackToTableBodyContext s' calls)) ∧
    ((absStack s.dom s.openElems).any (fun e => Spec.TreeAlgo.inHtml Spec.TreeTables.tableRowContext e.name) = true →
      Tot (popUntilCurrent tableRowContext) s (fun _ s' calls => PopsTo s clearStackBackToTableRowContext s' calls)) :=
  ⟨tot_popUntilCurrent_table s hok, tot_popUntilCurrent_tableBody s hok, tot_popUntilCurrent_tableRow s hok⟩

/-- "pop elements from the stack of open elements until a … element has been popped", with the number
of elements popped (`= 1` iff the current node, if any, was such an element) -/
theorem C02_spec_pop_until (s : State) (hok : ElemsOk s.dom s.openElems) (name : Str) :
    Tot (popUntilNamedS name) s (fun k s' calls =>
      PopsTo s (Spec.TreeAlgo2.popUntilPopped (isNamed name)) s' calls ∧
      k = popCount (isNamed name) (absStack s.dom s.openElems)) :=
  tot_popUntilNamedS s hok name

/-- **(q)** close a p element; close a p element if there is one in button scope -/
theorem C02_spec_close_p (s : State) (hok : ElemsOk s.dom s.openElems) :
    Tot H5V.Model.HtmlTB.closePElement s (fun _ s' calls => PopsTo s Spec.TreeAlgo2.closePElement s' calls) ∧
    Tot closePElementInButtonScope s (fun _ s' calls => PopsTo s (fun st =>
      if Spec.TreeAlgo.hasElementInButtonScope "p".toList (namesRev st) then Spec.TreeAlgo2.closePElement st else st) s' calls) :=
  ⟨tot_closePElement s hok, tot_closePElementInButtonScope s hok⟩

/-- **(q)** close the cell (steps 1–4; step 5, the mode switch, is the caller's) -/
theorem C02_spec_close_cell (s : State) (hok : ElemsOk s.dom s.openElems) (supply : List Id) (log : List (Edit Id Tag)) :
    Tot H5V.Model.HtmlTB.closeTheCell s (fun _ s' calls =>
      s' = { s with openElems := s'.openElems, activeFormatting := s'.activeFormatting, dom := s'.dom, traceRev := s'.traceRev } ∧
      s'.openElems <+: s.openElems ∧ edits calls = [] ∧
      ({ absState s supply log with stack := absStack s.dom s'.openElems, list := absList s'.activeFormatting } : PState Id Tag)
        = Spec.TreeAlgo2.closeTheCell (absState s supply log)) :=
  tot_closeTheCell s hok supply log

/-- **(b')** "has a `name` element in scope / list item / button / table scope" as triples -/
theorem C02_spec_in_scope_tot (s : State) (hok : ElemsOk s.dom s.openElems) (name : Str) :
    Tot (inScopeNamedS defaultScope name) s (QueryQ s (Spec.TreeAlgo.hasElementInScope name (namesRev (absStack s.dom s.openElems)))) ∧
    Tot (inScopeNamedS listItemScope name) s (QueryQ s (Spec.TreeAlgo.hasElementInListItemScope name (namesRev (absStack s.dom s.openElems)))) ∧
    Tot (inScopeNamedS buttonScope name) s (QueryQ s (Spec.TreeAlgo.hasElementInButtonScope name (namesRev (absStack s.dom s.openElems)))) ∧
    Tot (inScopeNamedS tableScope name) s (QueryQ s (Spec.TreeAlgo.hasElementInTableScope name (namesRev (absStack s.dom s.openElems)))) :=
  ⟨tot_inScopeNamedS_default s hok name, tot_inScopeNamedS_listItem s hok name, tot_inScopeNamedS_button s hok name,
   tot_inScopeNamedS_table s hok name⟩

/-- "stop parsing", step "pop all the nodes off the stack of open elements" (`TokenSink::end`) -/
theorem C02_spec_stop_parsing_pop_all (s : State) :
    Tot finishTB s (fun _ s' calls => s' = { s with openElems := [], dom := s'.dom, traceRev := s'.traceRev } ∧
      edits calls = []) :=
  tot_finishTB s

/-! ## non-vacuity: concrete states -/
namespace Ex

def hq (n : String) : QualName := { pfx := none, ns := H5V.Model.HtmlTB.nsHtml, loc := n.toList }
def mkTag (n : String) : Tag := { kind := .startTag, name := n.toList }
def domOf (ops : List SinkOp) : Dom := match Dom.applyAll Dom.new ops with | .ok (d, _) => d | .error _ => Dom.new

/-- `document`(0) > `html`(1) > `body`(2) > `b`(3) > `p`(4) -/
def exDom : Dom := domOf
    [.createElement (hq "html") [] {}, .append 0 (.node 1), .createElement (hq "body") [] {}, .append 1 (.node 2),
     .createElement (hq "b") [] {}, .append 2 (.node 3), .createElement (hq "p") [] {}, .append 3 (.node 4)]

/-- the state after `<b><p>`: stack `html body b p`, list `b` -/
def exState : State :=
  { opts := {}, openElems := [1, 2, 3, 4], activeFormatting := [.element 3 (mkTag "b")], dom := exDom }

/-- the state after `<b>` … `</body-ish pop>`: stack `html body`, list `b` (not open) -/
def exState2 : State := { exState with openElems := [1, 2] }

def stackOf {α : Type} (r : Except String (α × State)) : Option (List Id × List (Option Id)) :=
  match r with
  | .ok (_, s) => some (s.openElems, s.activeFormatting.map fun e => (entryOpt e).map Prod.fst)
  | .error _ => none

theorem exState_elems : ElemsOk exState.dom exState.openElems := by
  intro h hh
  have : h = 1 ∨ h = 2 ∨ h = 3 ∨ h = 4 := by simpa [exState] using hh
  rcases this with rfl | rfl | rfl | rfl <;> decide +kernel

theorem exState_head : HeadOk exState.dom exState.openElems := ⟨1, rfl, by decide +kernel, by decide +kernel⟩

theorem exState_af : AFOk exState.dom exState.openElems exState.activeFormatting := by
  intro h t hm
  have : h = 3 ∧ t = mkTag "b" := by simpa [exState] using hm
  obtain ⟨rfl, rfl⟩ := this
  exact ⟨by decide +kernel, by decide +kernel, fun _ => by decide +kernel⟩

/-- the hypotheses of `C02_spec_adoption_agency` are satisfiable (the instance below is the theorem's
conclusion for `exState`) … -/
example : Tot (H5V.Model.HtmlTB.adoptionAgency "b".toList) exState (fun _ s' calls => ∃ ids L,
      (∀ tc, TcOk s'.dom tc → edits calls = L.map (editCall tc)) ∧
      (∀ rest log0, adoptionAgencyWithFallback tagCtx "b".toList (absState exState (ids ++ rest) log0)
          = some (absState s' rest (log0 ++ L))) ∧
      SameButStackList exState s' ∧ ElemsOk s'.dom s'.openElems ∧ (∀ x ∈ ids, exState.dom.size ≤ x)) :=
  C02_spec_adoption_agency "b".toList exState exState_elems exState_head exState_af
example := C02_spec_reconstruct exState2 (fun h hh => exState_elems h (by
  have : h = 1 ∨ h = 2 := by simpa [exState2, exState] using hh
  rcases this with rfl | rfl <;> simp [exState])) ⟨1, rfl, by decide +kernel, by decide +kernel⟩

/-- … the run does not end in a sink panic (`<b><p></b>`: stack `html body p`, list empty, after two rounds
of the outer loop) … -/
example : stackOf ((H5V.Model.HtmlTB.adoptionAgency "b".toList).run exState) = some ([1, 2, 4], []) := by decide +kernel

/-- … and the standard's algorithm, run on the abstract state with the node supply `5, 6, 7`, creates two
elements (`5`, `6`), logs 5 + 5 DOM operations in the first round (3 in the inner loop do not occur: `p` is
the furthest block and directly below `b`) and ends with the stack `html body p` -/
example : (adoptionAgencyWithFallback tagCtx "b".toList (absState exState [5, 6, 7] [])).map
    (fun st => (st.stack.map (·.id), st.list.length, st.log.length, st.supply)) = some ([1, 2, 4], 0, 5, [6, 7]) := by
  decide +kernel

/-- reconstruct: `b` is listed but not open — it is re-created as node 5 under `body` -/
example : stackOf (H5V.Model.HtmlTB.reconstructActiveFormattingElements.run exState2) = some ([1, 2, 5], [some 5]) := by
  decide +kernel
example : (Spec.TreeAlgo2.reconstructActiveFormattingElements tagCtx (absState exState2 [5, 6] [])).map
    (fun st => (st.stack.map (·.id), st.list, st.log, st.supply))
    = some ([1, 2, 5], [.element 5 (mkTag "b")],
        [.create 5 H5V.Model.HtmlTB.nsHtml (mkTag "b"), .insert (.lastChildOf 2) 5], [6]) := by decide +kernel
/-- nothing to reconstruct when the last entry is open -/
example : stackOf (H5V.Model.HtmlTB.reconstructActiveFormattingElements.run exState) = some ([1, 2, 3, 4], [some 3]) := by
  decide +kernel

/-- Noah's Ark through the model: a fourth `<b>` after three removes the earliest one -/
example : stackOf ((createFormattingElementFor (mkTag "b")).run
    { exState with activeFormatting := [.element 3 (mkTag "b"), .marker, .element 10 (mkTag "b"), .element 11 (mkTag "i"),
                                        .element 12 (mkTag "b"), .element 13 (mkTag "b")] })
    = some ([1, 2, 3, 4, 5], [some 3, none, some 11, some 12, some 13, some 5]) := by decide +kernel

section PlaceExamples
def el (i : Nat) (n : String) : Elem Nat := ⟨i, ⟨H5V.Spec.TreeAlgo.nsHtml, n.toList⟩⟩

/-- foster parenting: text in `<table>` goes before the table (or into the previous element) … -/
example : appropriatePlace [el 1 "html", el 2 "body", el 3 "table"] true none = some (.foster (el 3 "table") (el 2 "body")) := by
  decide +kernel
/-- … unless a `template` is lower in the stack than the last table … -/
example : appropriatePlace [el 1 "html", el 3 "table", el 4 "template", el 5 "tr"] true none
    = some (.inTemplateContentsOf 4) := by decide +kernel
/-- … and not at all when foster parenting is off or the target is no table part -/
example : appropriatePlace [el 1 "html", el 2 "body", el 3 "table"] false none = some (.lastChildOf 3) := by decide +kernel
example : appropriatePlace [el 1 "html", el 2 "table", el 3 "td"] true none = some (.lastChildOf 3) := by decide +kernel
/-- the override target of the adoption agency's step 14 -/
example : appropriatePlace [el 1 "html", el 2 "table", el 3 "b"] true (some (el 2 "table"))
    = some (.foster (el 2 "table") (el 1 "html")) := by decide +kernel
/-- not defined when the table is the topmost entry (no previous element) -/
example : appropriatePlace [el 1 "table"] true none = none := by decide +kernel
example : Place.resolve (fun _ => ParentKind.other) (.foster (el 3 "table") (el 2 "body")) = .beforeInParent 3 ∧
    Place.resolve (fun _ => ParentKind.none) (.foster (el 3 "table") (el 2 "body")) = .lastChildOf 2 ∧
    Place.resolve (fun _ => ParentKind.none) (.foster (el 3 "table") (el 2 "template")) = .inTemplateContentsOf 2 := by
  decide +kernel
end PlaceExamples

/-! ### a finding: foster parenting into a `template` that is the previous element

`document`(0) > `html`(1) > `template`(3, contents 2); a `table`(4) that has **no parent** (a script removed
it) is on the stack below the template.  Foster-parented text: the standard's substeps 6–7 choose
"inside *previous element*" = the template, and step 3 redirects this to the template's **contents**
(node 2).  html5ever passes `TableFosterParenting { element: table, prev_element: template }` to
`append_based_on_parent_node`, and the sink appends to the template **element** (node 3) itself. -/
def fosterDom : Dom := domOf
    [.createElement (hq "html") [] {}, .append 0 (.node 1),
     .createElement (hq "template") [] { template := true }, .append 1 (.node 3),
     .createElement (hq "table") [] {}]

def fosterState : State :=
  { opts := {}, openElems := [1, 3, 4], fosterParenting := true, dom := fosterDom }

/-- the standard: template contents of node 3 -/
theorem C02_witness_foster_previous_template_spec :
    (appropriatePlace (absStack fosterDom [1, 3, 4]) true none).map (Place.resolve (parentKindOf fosterDom))
      = some (.inTemplateContentsOf 3) := by decide +kernel

/-- html5ever + RcDom: the text node (5) becomes a child of the template element 3; its template
contents (2) stay empty -/
theorem C02_witness_foster_previous_template :
    (match (appendText "x".toList).run fosterState with
     | .ok (_, s) => some (s.dom.childrenOf 3, s.dom.childrenOf 2)
     | .error _ => none) = some ([5], []) := by decide +kernel

end Ex

/-! ## axioms -/
#print axioms C02_abs_of_names
#print axioms C02_spec_appropriate_place
#print axioms C02_spec_appropriate_place_defined
#print axioms C02_spec_foster_resolution
#print axioms C02_spec_insert_element
#print axioms C02_spec_insert_foreign_element
#print axioms C02_spec_insert_character
#print axioms C02_spec_insert_comment
#print axioms C02_spec_insert_comment_in
#print axioms C02_spec_reconstruct
#print axioms C02_spec_reconstruct_rewind
#print axioms C02_spec_reconstruct_suffix
#print axioms C02_spec_noah_push
#print axioms C02_spec_noah_list
#print axioms C02_spec_clear_to_last_marker
#print axioms C02_spec_adoption_inner_loop
#print axioms C02_spec_adoption_round
#print axioms C02_spec_adoption_agency
#print axioms C02_spec_adoption_bookmark
#print axioms C02_spec_any_other_end_tag
#print axioms C02_spec_implied_end_tags_tot
#print axioms C02_spec_clear_stack_back
#print axioms C02_spec_pop_until
#print axioms C02_spec_close_p
#print axioms C02_spec_close_cell
#print axioms C02_spec_in_scope_tot
#print axioms C02_spec_stop_parsing_pop_all
#print axioms Ex.C02_witness_foster_previous_template_spec
#print axioms Ex.C02_witness_foster_previous_template

end H5V.Props.C02
