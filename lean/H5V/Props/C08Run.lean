import H5V.Lemmas.HtmlTokOptE
import H5V.Props.C03
import H5V.Props.C08
/-!
C08 — **`exact_errors` never changes what is tokenized** (HTML tokenizer model, whole runs).

For every input, every partition into chunks, every start machine (state, last start tag, BOM flag,
pending registers — anything), and every sink policy that does not look at parse-error tokens
(`PolE`; the tree builder only forwards a `ParseError` token to `sink.parse_error`), the runs with
any two `Opts` values deliver the same `(token, line)` sequence after erasing the parse-error
tokens — during `feed` (all chunks, pauses resumed) and during `Tokenizer::end`.

The invariant is `E a b` (`H5V.Lemmas.HtmlTokOptE`): the two machines are equal except for
* parse-error entries of the token log `out` (`noErr a.out = noErr b.out`), and
* `current_char`, which must agree only while a reconsume is pending (`E_iff`).

Why `current_char` may differ: without `exact_errors`, `pop_except_from` returns a character outside
the state's set as `NotFromSet` without touching `current_char`, while with `exact_errors` every read
goes through `get_char` (`C08_exact_reader`) and overwrites it. `C08_fast_slow_same` /
`C08_unquoted_error_only` (Props/C08.lean) say that the table treats the two read results alike;
here this is threaded through `step` (`C08_step_optE`), `run` (`C08_run_optE`), `feed`
(`C08_feed_optE`), the chunked session (`C08_session_optE`) and `end` (`C08_finish_optE`).
The stale register is read by nobody: `reconsume` is only ever set by a `get_char!` state, right
after `get_char` synchronised it; the non-exact `badChar` message mentions it, but that is a parse
error token.
-/
namespace H5V.Props.C08
open H5V H5V.Model.HtmlTok H5V.Props.C03

/-- the invariant in plain terms: equal token logs up to parse errors, the same character for a
pending reconsume, and all other registers equal -/
theorem E_iff (a b : Mach) :
    E a b ↔
      noErr a.out = noErr b.out ∧ (a.reconsume = true → a.currentChar = b.currentChar) ∧
      ({ a with out := [], currentChar := '\x00' } : Mach) = { b with out := [], currentChar := '\x00' } := by
  constructor
  · rintro ⟨⟨ob, cb, rfl, h⟩, h2⟩
    exact ⟨h, h2, rfl⟩
  · rintro ⟨h1, h2, h3⟩
    refine ⟨⟨b.out, b.currentChar, ?_, h1⟩, h2⟩
    cases a
    cases b
    simp only [Mach.mk.injEq] at h3 ⊢
    obtain ⟨e1, e2, _, e4, e5, e6, e7, e8, e9, e10, e11, e12, e13, e14, e15, e16, e17, e18, e19, _⟩ := h3
    exact ⟨e1.symm, e2.symm, trivial, e4.symm, e5.symm, e6.symm, e7.symm, e8.symm, e9.symm, e10.symm, e11.symm,
      e12.symm, e13.symm, e14.symm, e15.symm, e16.symm, e17.symm, e18.symm, e19.symm, trivial⟩

/-- every sink policy that reads the token history only through its non-error part qualifies -/
theorem PolE.of_noErr (f : Out → Tag → SinkRes) (g : Out → Bool) :
    PolE ⟨fun out tag => f (noErr out) tag, fun out => g (noErr out)⟩ :=
  ⟨fun _ _ _ h => by simp only [h], fun _ _ h => by simp only [h]⟩

theorem polNone_PolE : PolE polNone := ⟨fun _ _ _ _ => rfl, fun _ _ _ => rfl⟩

/-- **one `Tokenizer::step`**: for all pairs of option values, `E`-related machines and the same
unread input give the same kind of result, the same remaining input, `E`-related machines (and
the same panic, if any) -/
theorem C08_step_optE (o1 o2 : Opts) (pol : Pol) (hp : PolE pol) {m1 m2 : Mach} (h : E m1 m2) (inp : Str) :
    RE (step o1 pol m1 inp) (step o2 pol m2 inp) :=
  step_RE o1 o2 pol hp h inp

/-- **`Tokenizer::run`**, for every amount of fuel (the two runs proceed in lockstep) -/
theorem C08_run_optE (o1 o2 : Opts) (pol : Pol) (hp : PolE pol) (fuel : Nat) {m1 m2 : Mach} (h : E m1 m2)
    (inp : Str) : RunE (run o1 pol fuel m1 inp) (run o2 pol fuel m2 inp) :=
  run_RunE o1 o2 pol hp fuel h inp

/-- **`Tokenizer::feed`** (BOM prologue + `run` with the model's own fuel) -/
theorem C08_feed_optE (o1 o2 : Opts) (pol : Pol) (hp : PolE pol) {m1 m2 : Mach} (h : E m1 m2)
    (inp chunk : Str) : RunE (feed o1 pol m1 inp chunk) (feed o2 pol m2 inp chunk) :=
  feed_RunE o1 o2 pol hp h inp chunk

/-- **`Tokenizer::end`**: the same failure, or success with the same tokens up to parse errors -/
theorem C08_finish_optE (o1 o2 : Opts) (pol : Pol) (hp : PolE pol) {m1 m2 : Mach} (h : E m1 m2) :
    (finish o1 pol m1).map (fun m => noErr m.out) = (finish o2 pol m2).map (fun m => noErr m.out) :=
  finish_E o1 o2 pol hp h

/-- relation between the results of two chunk runs / sessions -/
def OptE : Option Mach → Option Mach → Prop
  | some a, some b => E a b
  | none, none => True
  | _, _ => False

/-- the loop of `Tokenizer::run` resumed at once after every pause (`runP` of C03) -/
theorem runP_optE (o1 o2 : Opts) (pol : Pol) (hp : PolE pol) (fuel : Nat) :
    ∀ {m1 m2 : Mach}, E m1 m2 → ∀ inp, OptE (runP o1 pol fuel m1 inp) (runP o2 pol fuel m2 inp) := by
  induction fuel with
  | zero => intro _ _ _ _; exact True.intro
  | succ n ih =>
    intro m1 m2 h inp
    have hs := step_RE o1 o2 pol hp h inp
    unfold runP
    generalize step o1 pol m1 inp = r1 at hs
    generalize step o2 pol m2 inp = r2 at hs
    cases r1 <;> cases r2 <;> first | exact hs.elim | skip
    · obtain ⟨g1, g2⟩ := hs; subst g2; exact ih g1 _
    · obtain ⟨g1, g2⟩ := hs; subst g2
      rename_i x i y
      cases i with
      | nil => exact g1
      | cons c cs => exact True.intro
    · obtain ⟨g1, g2⟩ := hs; subst g2; exact ih g1 _
    · obtain ⟨g1, g2⟩ := hs; subst g2; exact ih g1 _
    · exact True.intro

/-- **the chunked session**: all chunks fed in turn, each run to suspension -/
theorem C08_session_optE (o1 o2 : Opts) (pol : Pol) (hp : PolE pol) (fuel : Nat) (cs : List Str) :
    ∀ {m1 m2 : Mach}, E m1 m2 → OptE (feedAll o1 pol fuel m1 cs) (feedAll o2 pol fuel m2 cs) := by
  induction cs with
  | nil => intro m1 m2 h; exact h
  | cons c cs ih =>
    intro m1 m2 h
    have hr := runP_optE o1 o2 pol hp fuel h c
    unfold feedAll
    generalize runP o1 pol fuel m1 c = r1 at hr
    generalize runP o2 pol fuel m2 c = r2 at hr
    cases r1 <;> cases r2 <;> first | exact hr.elim | skip
    · exact True.intro
    · exact ih hr

/-- **C08 (tokenizer, whole runs): `exact_errors` never changes what is tokenized.**
For every machine `m` (in particular every freshly created tokenizer: any initial state, last start
tag, BOM flag), every sink policy that ignores parse errors, every list of chunks and every fuel:
the sessions under any two option values either both fail, or both succeed — in machines that have
delivered the same `(token, line)` sequence up to parse-error tokens (Script / EncodingIndicator
pauses included) — and then `Tokenizer::end` fails alike or delivers the same rest. -/
theorem C08_exact_errors_tokens (o1 o2 : Opts) (pol : Pol) (hp : PolE pol) (fuel : Nat) (m : Mach)
    (cs : List Str) :
    (feedAll o1 pol fuel m cs = none ↔ feedAll o2 pol fuel m cs = none) ∧
    ∀ a b, feedAll o1 pol fuel m cs = some a → feedAll o2 pol fuel m cs = some b →
      noErr a.out = noErr b.out ∧
      (finish o1 pol a).map (fun x => noErr x.out) = (finish o2 pol b).map (fun x => noErr x.out) := by
  have hs := C08_session_optE o1 o2 pol hp fuel cs (E.refl m)
  generalize feedAll o1 pol fuel m cs = r1 at hs
  generalize feedAll o2 pol fuel m cs = r2 at hs
  cases r1 <;> cases r2 <;> first | exact hs.elim | skip
  · exact ⟨Iff.rfl, fun a b h => by cases h⟩
  · rename_i a b
    refine ⟨⟨fun h => (by cases h), fun h => (by cases h)⟩, ?_⟩
    intro a' b' ha hb
    cases ha
    cases hb
    exact ⟨hs.out, C08_finish_optE o1 o2 pol hp hs⟩

/-- the instance the property is named after: `exact_errors = true` against `exact_errors = false` -/
theorem C08_exact_errors_on_off (pol : Pol) (hp : PolE pol) (fuel : Nat) (m : Mach) (cs : List Str) :
    (feedAll ⟨true⟩ pol fuel m cs = none ↔ feedAll ⟨false⟩ pol fuel m cs = none) ∧
    ∀ a b, feedAll ⟨true⟩ pol fuel m cs = some a → feedAll ⟨false⟩ pol fuel m cs = some b →
      noErr a.out = noErr b.out ∧
      (finish ⟨true⟩ pol a).map (fun x => noErr x.out) = (finish ⟨false⟩ pol b).map (fun x => noErr x.out) :=
  C08_exact_errors_tokens ⟨true⟩ ⟨false⟩ pol hp fuel m cs

/-! ### non-vacuity

`x U+0001 <a b=c"d> &#x80; &am; <!x`, fed in two chunks and ended: with `exact_errors` the session
logs 5 parse errors (the extra "Bad character U+0001" of input preprocessing, and "Bad character"
for the `"` in the unquoted value, which the fast path of the other setting never looks at), without
it 3, with different texts — and the same 8 tokens otherwise; `end` then turns `<!x` into a bogus
comment and EOF under both. -/

def exInput : Str := "x\x01<a b=c\"d>&#x80;&am;<!x".toList

/-- the session (two chunks), then `end`: (log after the chunks, log after `end`) -/
def exSession (o : Opts) : Option (Out × Option Out) :=
  (feedAll o polNone 400 m0 [exInput.take 7, exInput.drop 7]).map
    (fun m => (m.out, ((finish o polNone m).toOption).map (·.out)))

def exErase (r : Option (Out × Option Out)) : Option (Out × Option Out) :=
  r.map (fun p => (noErr p.1, p.2.map noErr))

example :
    -- the two settings really log different things …
    (exSession ⟨true⟩).map (fun p => (p.1.length, (noErr p.1).length)) = some (13, 8) ∧
    (exSession ⟨false⟩).map (fun p => (p.1.length, (noErr p.1).length)) = some (11, 8) ∧
    (exSession ⟨true⟩).map (·.1) ≠ (exSession ⟨false⟩).map (·.1) ∧
    -- … `end` succeeds and adds the bogus comment and EOF …
    ((exSession ⟨false⟩).bind (·.2)).map (fun o => (noErr o).length) = some 10 ∧
    -- … and after erasing parse errors they agree
    exErase (exSession ⟨true⟩) = exErase (exSession ⟨false⟩) := by
  decide +kernel

example : PolE polNone := polNone_PolE

end H5V.Props.C08
