import H5V.Lemmas.HtmlTokOut
/-!
C09 — line numbers reported with tokens match the source (HTML tokenizer).

Proved here, for the model of `tokenizer/mod.rs` (all states, machines, inputs):

* `C09_only_the_reader_counts`: no transition (`transChar`, `transSet`) and no raw `discard_char`
  ever changes `current_line`; tokens emitted by a transition carry the line the reader left.
* `C09_fold_counts_once`: reading one character through input preprocessing bumps the line
  exactly when the delivered character is LF (i.e. the raw character was CR or LF).
* `C09_crlf_counts_once`: after a CR the following LF is swallowed without being counted, also
  when the two are separated by a chunk boundary (`C09_crlf_split`).
* `C09_bav_counts`: the before-attribute-value state (which skips white space with
  `peek`/`discard_char`) consumes CR and LF through `get_char`, i.e. counts them (the defect fixed in
  5c0d014), and never discards a line break raw except the LF of an already counted CRLF.
* chunk independence of all line numbers is part of `C03_chunk_independence`.

End to end (file `Lemmas/HtmlTokLines.lean`), for every option set, sink policy, start state, input
and chunking:

* `C09_step_conserves`: the potential `Phi m inp = m.line + brk m.ignoreLf (stash m ++ inp)` — the
  current line plus the number of line breaks (`brk`: CR, LF, CRLF counted once; `C09_brk_is_lf_count`
  relates it to the standard's newline normalisation) still ahead in the *logically unread* text
  (what `eat` / a character reference in progress hold back, then the queue) — is unchanged by
  every `Tokenizer::step`, whichever of the six reading disciplines the state uses, and the
  invariant `LInv` it needs is preserved (`C09_invariant_initial`: a fresh tokenizer satisfies it).
* `C09_line_after_input`: whenever the tokenizer has taken everything it was fed (every
  suspension, under any chunking), `current_line` = 1 + the number of line breaks of all text fed
  so far. Every token emitted since carries a line between the two suspension values.
* `C09_line_at_any_step` : at every intermediate step, `current_line` + breaks ahead = 1 + breaks of
  the whole text of the run; tokens are stamped with `current_line` (`emit`) and no transition
  changes it (`C09_only_the_reader_counts`), i.e. a token's line is 1 + the breaks consumed when it
  is emitted.

* `C09_tokens_of_a_step`: every token a step delivers is stamped with the line that step ends on
  (whole-table lemma over all transitions, the reader's error tokens and the character-reference
  tokenizer's included), which is `Phi − breaks ahead`: the per-token form of the statement.
* `C09_eof_line`: `Tokenizer::end` never moves the line (what the look-ahead machinery still holds
  at the end of the input contains no line break; EOF transitions do not touch the counter), so
  the tokens flushed at EOF and the EOF token carry 1 + the number of line breaks of the whole input.

Not part of the model: the tree builder forwarding the number through `set_current_line` (the `tb`
engine compares those calls), and the byte-level SIMD popcount (modelled as one bump per LF of a run;
tied by the correspondence, which compares the line of every token).
-/
namespace H5V.Props.C09
open H5V.Model.HtmlTok

/-- the tables never touch `current_line` -/
theorem C09_only_the_reader_counts (o : Opts) (pol : Pol) (m : Mach) :
    (∀ c, (transChar o pol m c).1.line = m.line) ∧ (∀ r, (transSet o pol m r).1.line = m.line) ∧
    (∀ inp, (discardChar m inp).1.line = m.line) := by
  refine ⟨fun c => transChar_line o pol m c, fun r => transSet_line o pol m r, fun inp => ?_⟩
  unfold discardChar; split <;> simp

/-- input preprocessing counts a line exactly when it delivers LF, and it delivers LF exactly for
a raw CR or LF -/
theorem C09_fold_counts_once (o : Opts) (m : Mach) (c : Char) :
    (foldChar o m c).2.line = m.line + (if (foldChar o m c).1 = '\n' then 1 else 0) ∧
    ((foldChar o m c).1 = '\n' ↔ (c = '\r' ∨ c = '\n')) := by
  unfold foldChar
  dsimp only
  by_cases h1 : c = '\r'
  · subst h1
    simp only [↓reduceIte]
    split <;> simp
  · simp only [h1, ↓reduceIte]
    by_cases h2 : c = '\n'
    · subst h2; simp only [↓reduceIte]; split <;> simp
    · simp only [h2, ↓reduceIte]; split <;> simp [h1, h2]

/-- CR LF is one line break: after the CR was read (line + 1, `ignore_lf` set), reading on skips
the LF without counting it and counts only what the next character contributes -/
theorem C09_crlf_counts_once (o : Opts) (m : Mach) (x : Char) (xs : Str) (h : m.ignoreLf = true) :
    preprocess o m '\n' (x :: xs) =
      (some (foldChar o (m.setIgnoreLf false) x).1, (foldChar o (m.setIgnoreLf false) x).2, xs) := by
  unfold preprocess; simp [h]

/-- … also when the chunk ends between CR and LF: the LF is swallowed (not counted), the flag is
cleared, and the read is resumed with the next chunk -/
theorem C09_crlf_split (o : Opts) (m : Mach) (h : m.ignoreLf = true) :
    preprocess o m '\n' [] = (none, m.setIgnoreLf false, []) ∧ (m.setIgnoreLf false).line = m.line := by
  unfold preprocess; simp [h]

/-- the look-ahead prologue of `eat` only ever discards the LF of an already counted CRLF -/
theorem C09_eat_prologue (m : Mach) (inp : Str) :
    (eatSkipLf m inp).1.line = m.line ∧
    ((eatSkipLf m inp).2 = inp ∨ (m.ignoreLf = true ∧ ∃ rest, inp = '\n' :: rest ∧ (eatSkipLf m inp).2 = rest)
      ∨ m.reconsume = true) := by
  unfold eatSkipLf
  split
  · rename_i hil
    cases hpk : peek m inp with
    | none => simp
    | some c =>
      simp only
      split
      · rename_i hc
        subst hc
        unfold discardChar
        cases hr : m.reconsume with
        | true => simp [hr]
        | false =>
          simp only [setIgnoreLf_reconsume, hr, Bool.false_eq_true, ↓reduceIte, setIgnoreLf_line, true_and]
          right; left
          refine ⟨hil, ?_⟩
          cases inp with
          | nil => simp [peek, hr] at hpk
          | cons y ys =>
            simp only [peek, hr, Bool.false_eq_true, ↓reduceIte, List.head?_cons, Option.some.injEq] at hpk
            subst hpk
            exact ⟨ys, rfl, rfl⟩
      · simp
  · simp

/-- before-attribute-value: a peeked CR or LF (not the tail of a counted CRLF) is consumed through
`get_char`, hence counted -/
theorem C09_bav_counts (o : Opts) (pol : Pol) (m : Mach) (inp : Str) (c : Char)
    (hpk : peek m inp = some c) (hil : m.ignoreLf = false) (hc : c = '\n' ∨ c = '\r') :
    stepBav o pol m inp =
      (match getChar o m inp with
       | (none, m, inp) => .suspend m inp
       | (some _, m, inp) => .cont m inp) := by
  unfold stepBav
  simp only [hpk, hil, Bool.false_and, Bool.false_eq_true, ↓reduceIte]
  rcases hc with hc | hc <;> subst hc <;> simp <;>
    (cases hg : getChar o m inp with
     | mk a b => obtain ⟨m1, i1⟩ := b; cases a <;> rfl)

example : (foldChar ⟨false⟩ {} '\r').2.line = 2 ∧ (foldChar ⟨false⟩ {} '\r').1 = '\n' := by decide

/-- **line accounting is exact at every step**: the line counter plus the line breaks still ahead
in the logically unread text never changes, and the invariant is kept -/
theorem C09_step_conserves (o : Opts) (pol : Pol) (m : Mach) (inp : Str) (hi : LInv m) (m' : Mach) (i' : Str)
    (h : (step o pol m inp).pair? = some (m', i')) : LInv m' ∧ Phi m' i' = Phi m inp :=
  step_lines o pol m inp hi m' i' h

/-- **per token**: the tokens a step delivers (the entries by which the log grows: `OutExt`) are all
stamped with the line the step ends on, and that line plus the line breaks still ahead in the
logically unread text is the conserved quantity `Phi` — i.e. each token carries
`Phi − breaks ahead` = (for a run from a fresh tokenizer, `C09_invariant_initial`) one plus the number
of line breaks consumed when it is emitted -/
theorem C09_tokens_of_a_step (o : Opts) (pol : Pol) (m : Mach) (inp : Str) (hi : LInv m) (m' : Mach) (i' : Str)
    (h : (step o pol m inp).pair? = some (m', i')) :
    OutExt m'.line m.out m'.out ∧ m'.line + brk m'.ignoreLf (stash m' ++ i') = Phi m inp ∧ LInv m' := by
  obtain ⟨h1, h2⟩ := step_lines o pol m inp hi m' i' h
  exact ⟨step_extTo o pol m inp m' i' h, h2, h1⟩

example : OutExt 3 [(Token.eof, 1)] [(Token.nullChar, 3), (Token.eof, 3), (Token.eof, 1)] :=
  .cons _ (.cons _ .refl)

/-- a tokenizer as created by `Tokenizer::new` (any start state / last start tag / BOM option)
satisfies the invariant, and its potential is `1 + brk false input` -/
theorem C09_invariant_initial (st : State) (last : Option Str) (bom : Bool) (inp : Str) :
    LInv { state := st, lastStartTag := last, discardBom := bom } ∧
    Phi { state := st, lastStartTag := last, discardBom := bom } inp = 1 + brk false inp := by
  refine ⟨linv_fresh _ rfl rfl rfl, ?_⟩
  unfold Phi
  rw [stash_nil_of rfl (fun _ => rfl)]
  rfl

/-- **at every point of a run** that started on a fresh tokenizer with text `inp`: line + breaks
ahead = 1 + breaks of `inp` (here for the machine a run ends in; by `C09_step_conserves` the same
equation holds after each of its steps) -/
theorem C09_line_at_any_step (o : Opts) (pol : Pol) (st : State) (last : Option Str) (bom : Bool)
    (inp : Str) (m' : Mach)
    (hrun : RunsTo o pol { state := st, lastStartTag := last, discardBom := bom } inp m') :
    LInv m' ∧ Phi m' [] = 1 + brk false inp := by
  obtain ⟨h1, h2⟩ := C09_invariant_initial st last bom inp
  obtain ⟨h3, h4⟩ := runsTo_lines o pol hrun h1
  exact ⟨h3, by rw [h4, h2]⟩

/-- **the line reported after any amount of input, under any chunking**: when the chunks `cs` have
been fed one after the other (each run to suspension, pauses included) the line counter is one plus
the number of line breaks — CR, LF, CRLF once — of their concatenation -/
theorem C09_line_after_input (o : Opts) (pol : Pol) (st : State) (last : Option Str) (bom : Bool)
    (cs : List Str) (mf : Mach) (hne : cs ≠ [])
    (hs : Session o pol { state := st, lastStartTag := last, discardBom := bom } cs mf) :
    mf.line = 1 + brk false cs.flatten := by
  have := session_line o pol hs (linv_fresh _ rfl rfl rfl) ⟨fun _ _ => rfl, fun _ => rfl, fun _ => rfl⟩ rfl hne
  rw [this, stash_nil_of rfl (fun _ => rfl)]
  rfl

/-- **the EOF token's line**: after the chunks `cs` have been fed (any chunking) and `Tokenizer::end`
has run, everything it emitted — the tokens flushed at EOF and the EOF token itself — carries
`current_line` = one plus the number of line breaks of the whole input -/
theorem C09_eof_line (o : Opts) (pol : Pol) (st : State) (last : Option Str) (bom : Bool)
    (cs : List Str) (mf me : Mach) (hne : cs ≠ [])
    (hs : Session o pol { state := st, lastStartTag := last, discardBom := bom } cs mf)
    (hend : finish o pol mf = .ok me) :
    me.line = 1 + brk false cs.flatten := by
  have hi := session_linv o pol hs (linv_fresh _ rfl rfl rfl) ⟨fun _ _ => rfl, fun _ => rfl, fun _ => rfl⟩ rfl
  rw [finish_line o pol mf me hi hend]
  exact C09_line_after_input o pol st last bom cs mf hne hs

/-- … and for an empty input -/
theorem C09_eof_line_empty (o : Opts) (pol : Pol) (st : State) (last : Option Str) (bom : Bool) (me : Mach)
    (hend : finish o pol { state := st, lastStartTag := last, discardBom := bom } = .ok me) : me.line = 1 :=
  finish_line o pol _ me (linv_fresh _ rfl rfl rfl) hend

/-- `brk` counts the LF characters left by the standard's newline normalisation (CRLF → LF,
CR → LF) -/
theorem C09_brk_is_lf_count (s : Str) : brk false s = (normNl false s).count '\n' := brk_eq_count false s

example : brk false "a\r\nb\rc\n\n\r".toList = 5 := by decide
example : normNl false "a\r\nb\rc".toList = "a\nb\nc".toList := by decide

end H5V.Props.C09
