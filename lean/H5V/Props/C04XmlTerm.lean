import H5V.Lemmas.XmlTokTerm
import H5V.Props.C04Xml
/-!
C04 (XML tokenizer part 2) — parsing is total: **no hang**.

`XmlTokenizer::run` is modelled as `run o fuel m inp` (iterate `step` while it answers Continue);
`feed` and `end` call it with `fuelFor m inp = 17·(unread + temp_buf + name_buf + 2) + 16`.
This file proves that the fuel is never exhausted, i.e. the `.outOfFuel` result of the model is
unreachable and the loop of the Rust terminates on every input, from every reachable machine —
which removes the `_partial` of `C04_xml_finish_no_panic_partial`.

* `C04_xml_step_decreases`: every step that answers Continue strictly decreases the measure
  `mu m inp` and keeps the invariant `TInv` (`Safe` + the look-ahead / reconsume discipline `TI` +
  "`name_buf` holds alphanumerics/`;` only, the hex marker is not `&`").
  `mu` = 16 per character unread or stashed (`temp_buf`, `name_buf`, the `#`/`x` of a numeric
  reference) + `tripF` (characters of an alphanumeric/`;` run directly after an `&`: the only text
  read twice, once into `name_buf` and once after `unconsume_name`) + 12 for a pending `reconsume` +
  a state rank ≤ 2, resp. 8 + a rank ≤ 3 inside a character reference.
* `C04_xml_measure_below_fuel`, `C04_xml_run_terminates` / `_fuelFor`, `C04_xml_fuel_irrelevant`,
  `C04_xml_fuelFor_is_enough`.
* `C04_xml_initial_inv`, `C04_xml_feed_terminates`, `C04_xml_feed_keeps_invariant`,
  `C04_xml_session_terminates`: every `feed` on a fresh tokenizer, after any earlier feeds (any
  chunking), ends with `Done`, the queue empty and the invariant re-established: no panic, no hang.
* `C04_xml_suspend_drains`: a step that asks for more input leaves the queue empty — also with
  `at_eof` set (no `Good` / `at_eof = false` hypothesis, unlike `C04_xml_feed_drains`).
* `C04_xml_finish_total`: `end()` completes (`.ok`) from every machine satisfying the invariant, and
  the last token it delivers is EOF.  (The XML tokenizer has no sink feedback, so there is no pause
  hypothesis.)

NOT proved (no model can exhibit them): real stack depth, allocation failure, wall-clock time.
-/
namespace H5V.Props.C04X
open H5V.Model.XmlTok

/-- **1. every Continue step decreases the measure and keeps the invariant** -/
theorem C04_xml_step_decreases (o : Opts) (m : Mach) (inp : Str) (hi : TInv m)
    (m' : Mach) (inp' : Str) (h : step o m inp = .cont m' inp') :
    TInv m' ∧ mu m' inp' < mu m inp :=
  ⟨step_tinv o m inp hi m' inp' (by rw [h]; rfl), step_dec o m inp hi m' inp' h⟩

/-- the invariant survives every step, whatever it answers (Continue, Suspend) -/
theorem C04_xml_step_keeps_invariant (o : Opts) (m : Mach) (inp : Str) (hi : TInv m)
    (m' : Mach) (inp' : Str) (h : step o m inp = .cont m' inp' ∨ step o m inp = .suspend m' inp') : TInv m' := by
  rcases h with h | h <;> exact step_tinv o m inp hi m' inp' (by rw [h]; rfl)

/-- the fuel `feed` / `end` hand to `run` exceeds the measure -/
theorem C04_xml_measure_below_fuel (m : Mach) (inp : Str) : mu m inp < fuelFor m inp :=
  mu_lt_fuelFor m inp

/-- **2. `run` terminates**: with more fuel than the measure it never answers `outOfFuel` -/
theorem C04_xml_run_terminates (o : Opts) (m : Mach) (inp : Str) (hi : TInv m) :
    ∀ fuel, mu m inp < fuel → run o fuel m inp ≠ .outOfFuel :=
  fun fuel hf => run_terminates o fuel m inp hi hf

theorem C04_xml_run_terminates_fuelFor (o : Opts) (m : Mach) (inp : Str) (hi : TInv m) :
    run o (fuelFor m inp) m inp ≠ .outOfFuel :=
  run_terminates o _ m inp hi (mu_lt_fuelFor m inp)

/-- **3. fuel irrelevance** -/
theorem C04_xml_fuel_irrelevant (o : Opts) (n k : Nat) (m : Mach) (inp : Str)
    (h : run o n m inp ≠ .outOfFuel) (hk : n ≤ k) : run o k m inp = run o n m inp :=
  run_fuel_mono o n k m inp h hk

/-- the result of the loop with `fuelFor` is the result with any larger amount of fuel: the model's
fuel is not observable -/
theorem C04_xml_fuelFor_is_enough (o : Opts) (m : Mach) (inp : Str) (hi : TInv m) (k : Nat)
    (hk : fuelFor m inp ≤ k) : run o k m inp = run o (fuelFor m inp) m inp :=
  run_fuel_mono o _ k m inp (C04_xml_run_terminates_fuelFor o m inp hi) hk

/-- **4a. a tokenizer as created by `XmlTokenizer::new`** (any start state / BOM option) satisfies the
invariant -/
theorem C04_xml_initial_inv (st : State) (bom : Bool) : TInv { state := st, discardBom := bom } :=
  tinv_fresh _ rfl rfl rfl

/-- the invariant contains the no-panic invariant of `C04_xml_no_panic` -/
theorem C04_xml_inv_safe {m : Mach} (hi : TInv m) : Safe m := hi.safe

/-- **4b. `feed` terminates** (never `outOfFuel`), and does not panic -/
theorem C04_xml_feed_terminates (o : Opts) (m : Mach) (inp chunk : Str) (hi : TInv m) :
    feed o m inp chunk ≠ .outOfFuel ∧ ∀ e, feed o m inp chunk ≠ .panic e :=
  ⟨feed_terminates o m inp chunk hi, (feed_safe o m inp chunk hi.safe).1⟩

/-- **4c. when `feed` returns (needs more input) the invariant holds and the queue is empty**, so the
next `feed` terminates as well -/
theorem C04_xml_feed_keeps_invariant (o : Opts) (m : Mach) (inp chunk : Str) (hi : TInv m)
    (m' : Mach) (inp' : Str) (h : feed o m inp chunk = .done m' inp') : TInv m' ∧ inp' = [] := by
  refine ⟨feed_tinv o m inp chunk hi m' inp' h, ?_⟩
  unfold feed at h
  dsimp only at h
  split at h
  · simp only [RunRes.done.injEq] at h; exact h.2.symm
  · exact run_done_nil o _ _ _ (feedBom_tinv m _ hi) m' inp' h

/-- `feed` is total: it answers `Done` -/
theorem C04_xml_feed_total (o : Opts) (m : Mach) (inp chunk : Str) (hi : TInv m) :
    ∃ m', feed o m inp chunk = .done m' [] ∧ TInv m' := by
  obtain ⟨h1, h2⟩ := C04_xml_feed_terminates o m inp chunk hi
  cases hf : feed o m inp chunk with
  | done m' i' =>
    obtain ⟨k1, k2⟩ := C04_xml_feed_keeps_invariant o m inp chunk hi m' i' hf
    subst k2
    exact ⟨m', rfl, k1⟩
  | panic e => exact absurd hf (h2 e)
  | outOfFuel => exact absurd hf h1

/-- **4d. any sequence of `feed`s** (any chunking, empty chunks included) from a machine satisfying the
invariant — in particular a fresh tokenizer — runs to completion: every feed answers `Done`, none
panics, none exhausts its fuel; the queue handed back is the one the last feed left (empty unless no
chunk was fed at all) -/
theorem C04_xml_session_terminates (o : Opts) (m : Mach) (inp : Str) (cs : List Str) (hi : TInv m) :
    ∃ m' inp', feedMany o m inp cs = .done m' inp' ∧ TInv m' ∧ (cs ≠ [] → inp' = []) := by
  induction cs generalizing m inp with
  | nil => exact ⟨m, inp, rfl, hi, fun h => absurd rfl h⟩
  | cons c cs ih =>
    obtain ⟨m1, hf, hi1⟩ := C04_xml_feed_total o m inp c hi
    obtain ⟨m', inp', hr, hi', hn⟩ := ih m1 [] hi1
    refine ⟨m', inp', by simp only [feedMany, hf]; exact hr, hi', fun _ => ?_⟩
    cases cs with
    | nil =>
      simp only [feedMany, RunRes.done.injEq] at hr
      exact hr.2.symm
    | cons c' cs' => exact hn (by simp)

theorem C04_xml_fresh_session_terminates (o : Opts) (st : State) (bom : Bool) (cs : List Str) :
    ∃ m' inp', feedMany o { state := st, discardBom := bom } [] cs = .done m' inp' ∧ TInv m' ∧ inp' = [] := by
  obtain ⟨m', inp', h1, h2, h3⟩ := C04_xml_session_terminates o _ [] cs (C04_xml_initial_inv st bom)
  refine ⟨m', inp', h1, h2, ?_⟩
  cases cs with
  | nil => simp only [feedMany, RunRes.done.injEq] at h1; exact h1.2.symm
  | cons c cs => exact h3 (by simp)

/-- a step that asks for more input has emptied the queue, with or without `at_eof` -/
theorem C04_xml_suspend_drains (o : Opts) (m : Mach) (inp : Str) (hi : TInv m) (m' : Mach) (inp' : Str)
    (h : step o m inp = .suspend m' inp') : inp' = [] :=
  step_suspend_nil o m inp hi m' inp' h

/-- **5. `XmlTokenizer::end` is total**: no panic, no hang; it ends by delivering EOF -/
theorem C04_xml_finish_total (o : Opts) (m : Mach) (hi : TInv m) :
    ∃ mf, finish o m = .ok mf ∧ ∃ rest, mf.out = Token.eof :: rest :=
  finish_total o m hi

/-- a whole parse — any chunks, then `end()` — from a fresh tokenizer completes with EOF last -/
theorem C04_xml_parse_total (o : Opts) (st : State) (bom : Bool) (cs : List Str) :
    ∃ m' mf, feedMany o { state := st, discardBom := bom } [] cs = .done m' [] ∧
      finish o m' = .ok mf ∧ ∃ rest, mf.out = Token.eof :: rest := by
  obtain ⟨m', inp', h1, h2, h3⟩ := C04_xml_fresh_session_terminates o st bom cs
  subst h3
  obtain ⟨mf, h4, h5⟩ := C04_xml_finish_total o m' h2
  exact ⟨m', mf, h1, h4, h5⟩

/-! ### non-vacuity -/

/-- the hypotheses of `C04_xml_step_decreases` are satisfiable with a genuine Continue step:
a fresh tokenizer reading `&` of `&a` starts a character reference … -/
example : step ⟨false⟩ {} ['&', 'a'] =
    .cont { charRef := some { addnlAllowed := none }, currentChar := '&' } ['a'] := by rfl

/-- … and the measure drops from 33 to 28 -/
example : mu ({} : Mach) ['&', 'a'] = 33 ∧
    mu ({ charRef := some { addnlAllowed := none }, currentChar := '&' } : Mach) ['a'] = 28 := by
  constructor <;> decide

example : (∃ m' i', step ⟨false⟩ {} ['&', 'a'] = .cont m' i' ∧ TInv m' ∧ mu m' i' < mu {} ['&', 'a']) :=
  ⟨_, _, rfl, C04_xml_step_decreases ⟨false⟩ {} ['&', 'a'] (C04_xml_initial_inv .data true) _ _ rfl⟩

/-- the text `&am;x` makes the round trip through `name_buf` (no entity `am;`) and the run still
ends, suspended with the queue drained -/
example : ∃ m', run ⟨false⟩ (fuelFor {} ['&', 'a', 'm', ';', 'x']) {} ['&', 'a', 'm', ';', 'x'] = .done m' [] :=
  ⟨_, rfl⟩

/-- `end()` on the fresh tokenizer is `.ok` -/
example : ∃ mf, finish ⟨false⟩ {} = .ok mf :=
  let ⟨mf, h, _⟩ := C04_xml_finish_total ⟨false⟩ {} (C04_xml_initial_inv .data true)
  ⟨mf, h⟩

/-- a machine suspended inside the markup-declaration look-ahead with `<![CD` stashed satisfies the
invariant; `end()` flushes the stash as a bogus comment and delivers EOF -/
def mStash : Mach := { state := .markupDecl, tempBuf := ['[', 'C', 'D'] }

theorem mStash_inv : TInv mStash :=
  ⟨Safe.of_none rfl,
   ⟨fun _ h => by simp [mStash] at h, fun h => by simp [mStash, isEatState] at h, fun _ => rfl,
    fun h => by simp [mStash] at h, fun cr h => by simp [mStash] at h⟩⟩

example : (match finish ⟨false⟩ mStash with | .ok m => m.out.head? | .error _ => none) = some Token.eof := by
  rfl

end H5V.Props.C04X
