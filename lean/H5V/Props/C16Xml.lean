import H5V.Lemmas.XmlTBHBridge
import H5V.Props.C05Xml
import H5V.Props.C16
/-!
# C16 for the handle-level XML tree builder: the bridge between the two models

C16 (namespaces resolve by lexical scope, `H5V.Props.C16`) is proved for the *tree-valued* model
`H5V.Model.XmlTB`.  The model tied to the Rust by a literal sink-call trace (`xmltb<TAB>trace`
correspondence, C05/C18) is the *handle-level* model `H5V.Model.XmlTBH`.  This file proves that the two
agree on everything C16 speaks about:

* `BSim s h` — the simulation relation (same phase, same namespace stack, same `doctype_seen`; the stacks
  of open elements correspond: same length and the `i`-th handle is an element node of the arena carrying
  the qualified name and the attribute list of the `i`-th frame; the `create_element` calls recorded in
  the trace — name, attributes and `ElementFlags`, oldest first — are `s.createdList`).  `bsim_iff` spells
  it out.
* `bsim_step` — one input (`tokenizer::Token` or `ParseError`): if the tree-valued `step` and the
  handle-level `process_token` both return normally, `BSim` is re-established.  **No further hypothesis**
  (neither `XmlInv`, nor C16's `Inv`, nor `TagOk`): the simulation is a partial-correctness fact.
  `bsim_step_total` adds the invariants (`XmlInv` of C05Xml, `Inv` of C16, `XmlInputOk`) and concludes
  that both steps *do* return normally, `BSim` and both invariants hold again.
  `C16_xml_reach_bsim`: every reachable state of the handle-level builder (`C05.XmlReach`) is `BSim`-related
  to a state of the tree-valued model that satisfies `Inv`.
* `C16_xml_trace_created` — whole runs (`new`, the inputs, `end()`), for both configurations and every
  input list satisfying the hypothesis of `C05_xml_contract`: the `create_element` calls of the trace carry
  exactly `(XmlTB.run cfg State.init toks).createdList` — names, attributes (`traceCreated`) and the flags
  computed from them (`traceCreateCalls`).
* `C16_xml_trace_resolve` (`TbCfg.fixed` = /repo now, hypothesis of `C16_resolve_fixed`),
  `C16_xml_trace_resolve_pinned` (`TbCfg.code`, hypothesis of `C16_resolve_partial`),
  `C16_xml_trace_resolve_source` (tags as lexed, attribute step of the fixed tokenizer; the only
  hypothesis is `C16_resolve_source_fixed`'s — `TagOk` is *derived* from the tokenizer's duplicate test):
  the names and attributes the real-code-tied model passes to `create_element` are those of the
  lexical-scope resolver `Spec.XmlNs.resolve`.

The obstacle named by the author of `XmlTBH` — the exact effect of `close_tag` on `open_elems` — is
`Lemmas.XmlTBHBridge.sim_closeTag` / `sim_popUntil` / `sim_pop`: the two `pop_until` loops (different fuel)
are run against each other, entry by entry.
-/
namespace H5V.Props.C16
open H5V.Model.Dom (Id SinkOp Output Dom QualName Attr ElementFlags NodeData)
open H5V.Model.XmlTB (QName Created Token Tag TbCfg TokCfg RAttr RName TagKind)
open H5V.Model.XmlTBH (Input PResult processToken processTokens parseAll newTB toQual toAttr elementFlags)
open H5V.Lemmas.XmlTBHBridge (CrOp createOps crop stepInput tokensOf IsElem Match frames)
open H5V.Props.C05 (XmlInv XmlInputOk XmlReach)
open H5V.Spec.XmlNs (resolve)
open H5V.Lemmas.XmlNs (NoDupDecl)

/-! ## 1. the simulation relation -/

/-- **the simulation** between a state of the tree-valued model and a state of the handle-level model
(defined in `Lemmas/XmlTBHBridge.lean`; spelled out by `bsim_iff`) -/
abbrev BSim (s : H5V.Model.XmlTB.State) (h : H5V.Model.XmlTBH.State) : Prop :=
  H5V.Lemmas.XmlTBHBridge.BSim s h

/-- what `create_element` is given for an element of the tree-valued model's `created` list: the converted
name and attributes, and the flags (`template`, `mathml_annotation_xml_integration_point`) computed from them -/
def callOf (c : Created) : CrOp := crop c.name c.attrs

/-- the `create_element` calls of a trace, **oldest first**: name, attributes, flags -/
def traceCreateCalls (tr : List (SinkOp × Output)) : List CrOp := (createOps tr).reverse

def ofQual (q : QualName) : QName := ⟨q.pfx, q.ns, q.loc⟩
def ofAttr (a : Attr) : H5V.Model.XmlTB.Attr := ⟨ofQual a.name, a.value⟩

/-- the `(name, attrs)` of the `create_element` calls of a trace, oldest first, in the vocabulary of the
tree-valued model -/
def traceCreated (tr : List (SinkOp × Output)) : List Created :=
  (traceCreateCalls tr).map (fun c => ⟨ofQual c.1, c.2.1.map ofAttr⟩)

theorem ofQual_toQual (q : QName) : ofQual (toQual q) = q := rfl
theorem ofAttr_toAttr (a : H5V.Model.XmlTB.Attr) : ofAttr (toAttr a) = a := rfl

theorem traceCreated_of_calls {tr : List (SinkOp × Output)} {cs : List Created}
    (h : traceCreateCalls tr = cs.map callOf) : traceCreated tr = cs := by
  unfold traceCreated
  rw [h, List.map_map]
  have : ∀ l : List Created, l.map ((fun c : CrOp => (⟨ofQual c.1, c.2.1.map ofAttr⟩ : Created)) ∘ callOf) = l := by
    intro l
    induction l with
    | nil => rfl
    | cons c rest ih =>
      rw [List.map_cons, ih]
      congr 1
      show (⟨ofQual (toQual c.name), (c.attrs.map toAttr).map ofAttr⟩ : Created) = c
      rw [List.map_map]
      have : ∀ as : List H5V.Model.XmlTB.Attr, as.map (ofAttr ∘ toAttr) = as := by
        intro as
        induction as with
        | nil => rfl
        | cons a r ih => rw [List.map_cons, ih]; rfl
      rw [this]
      rfl
  exact this cs

theorem match_iff {d : Dom} : ∀ (fs : List (QName × List H5V.Model.XmlTB.Attr)) (xs : List Id),
    Match d fs xs ↔ fs.length = xs.length ∧
      ∀ (i : Nat) (f : QName × List H5V.Model.XmlTB.Attr) (x : Id),
        fs[i]? = some f → xs[i]? = some x → IsElem d f.1 f.2 x
  | [], [] => by simp [Match]
  | [], _ :: _ => by simp [Match]
  | _ :: _, [] => by simp [Match]
  | f :: fs, x :: xs => by
    have ih := match_iff (d := d) fs xs
    simp only [Match, List.length_cons, Nat.add_right_cancel_iff]
    rw [ih]
    constructor
    · rintro ⟨h1, h2, h3⟩
      refine ⟨h2, ?_⟩
      intro i
      cases i with
      | zero =>
        intro f' x' hf hx
        simp only [List.getElem?_cons_zero, Option.some.injEq] at hf hx
        subst hf; subst hx
        exact h1
      | succ i =>
        intro f' x' hf hx
        simp only [List.getElem?_cons_succ] at hf hx
        exact h3 i f' x' hf hx
    · rintro ⟨h2, h3⟩
      refine ⟨h3 0 f x rfl rfl, h2, ?_⟩
      intro i f' x' hf hx
      exact h3 (i + 1) f' x' (by simpa using hf) (by simpa using hx)

/-- **`BSim`, spelled out.** -/
theorem bsim_iff (s : H5V.Model.XmlTB.State) (h : H5V.Model.XmlTBH.State) :
    BSim s h ↔
      s.phase = h.phase ∧ s.nsStack = h.nsStack ∧ s.doctypeSeen = h.doctypeSeen ∧
      s.opened.length = h.opened.length ∧
      (∀ (i : Nat) (f : H5V.Model.XmlTB.Frame) (x : Id), s.opened[i]? = some f → h.opened[i]? = some x →
        ∃ tc ip, h.dom.dataOf x = some (.element (toQual f.name) (f.attrs.map toAttr) tc ip)) ∧
      traceCreateCalls h.traceRev = s.createdList.map callOf ∧
      traceCreated h.traceRev = s.createdList := by
  have hcr : createOps h.traceRev = s.created.map (fun c => crop c.name c.attrs) ↔
      traceCreateCalls h.traceRev = s.createdList.map callOf := by
    unfold traceCreateCalls H5V.Model.XmlTB.State.createdList
    rw [List.map_reverse, List.reverse_inj]
    exact Iff.rfl
  have hm : Match h.dom (frames s) h.opened ↔ s.opened.length = h.opened.length ∧
      (∀ (i : Nat) (f : H5V.Model.XmlTB.Frame) (x : Id), s.opened[i]? = some f → h.opened[i]? = some x →
        ∃ tc ip, h.dom.dataOf x = some (.element (toQual f.name) (f.attrs.map toAttr) tc ip)) := by
    rw [match_iff]
    unfold frames
    rw [List.length_map]
    constructor
    · rintro ⟨h1, h2⟩
      refine ⟨h1, fun i f x hf hx => h2 i (f.name, f.attrs) x ?_ hx⟩
      rw [List.getElem?_map, hf]; rfl
    · rintro ⟨h1, h2⟩
      refine ⟨h1, fun i f x hf hx => ?_⟩
      rw [List.getElem?_map] at hf
      cases hg : s.opened[i]? with
      | none => rw [hg] at hf; cases hf
      | some g =>
        rw [hg] at hf
        cases hf
        exact h2 i g x hg hx
  constructor
  · intro hb
    exact ⟨hb.phase, hb.ns, hb.dts, (hm.mp hb.opened).1, (hm.mp hb.opened).2, hcr.mp hb.created,
      traceCreated_of_calls (hcr.mp hb.created)⟩
  · rintro ⟨h1, h2, h3, h4, h5, h6, _⟩
    exact ⟨h1, h2, h3, hm.mpr ⟨h4, h5⟩, hcr.mpr h6⟩

/-- the two initial states are related once `XmlTreeBuilder::new` has run -/
theorem bsim_new {h : H5V.Model.XmlTBH.State} (e : newTB.run H5V.Model.XmlTBH.State.init = .ok ((), h)) :
    BSim H5V.Model.XmlTB.State.init h :=
  H5V.Lemmas.XmlTBHBridge.bsim_newTB () h e

/-! ## 2. one step -/

/-- **the simulation step.**  For every configuration and every input — a `tokenizer::Token`, seen by the
tree-valued model as `XmlTB.step`, or a tokenizer `ParseError`, which leaves the tree-valued state
unchanged (`stepInput`) — : if both models return normally, the final states are related again. -/
theorem bsim_step (cfg : TbCfg) {s s' : H5V.Model.XmlTB.State} {h h' : H5V.Model.XmlTBH.State} {r : PResult}
    (inp : Input) (hb : BSim s h) (e : stepInput cfg s inp = .ok s')
    (eh : (processToken cfg inp).run h = .ok (r, h')) : BSim s' h' :=
  H5V.Lemmas.XmlTBHBridge.bsim_processToken_pc cfg hb inp e r h' eh

/-- … for a token -/
theorem bsim_step_token (cfg : TbCfg) {s s' : H5V.Model.XmlTB.State} {h h' : H5V.Model.XmlTBH.State}
    {r : PResult} (tok : Token) (hb : BSim s h) (e : H5V.Model.XmlTB.step cfg s tok = .ok s')
    (eh : (processToken cfg (.token tok)).run h = .ok (r, h')) : BSim s' h' :=
  bsim_step cfg (.token tok) hb e eh

/-- … for a tokenizer parse error: the tree-valued state is unchanged -/
theorem bsim_step_parseError (cfg : TbCfg) {s : H5V.Model.XmlTB.State} {h h' : H5V.Model.XmlTBH.State}
    {r : PResult} (msg : List Char) (hb : BSim s h)
    (eh : (processToken cfg (.parseError msg)).run h = .ok (r, h')) : BSim s h' :=
  bsim_step cfg (.parseError msg) hb rfl eh

theorem stepInput_inv (cfg : TbCfg) (s : H5V.Model.XmlTB.State) (inp : Input) (hi : Inv s) :
    ∃ s', stepInput cfg s inp = .ok s' ∧ Inv s' := by
  cases inp with
  | token t => exact step_inv cfg s t hi
  | parseError _ => exact ⟨s, rfl, hi⟩

/-- **the simulation step with the invariants**: from related states satisfying `XmlInv` (C05Xml) and
`Inv` (C16), on an input satisfying `XmlInputOk`, both models return normally, the final states are
related and satisfy the invariants again -/
theorem bsim_step_total (cfg : TbCfg) {s : H5V.Model.XmlTB.State} {h : H5V.Model.XmlTBH.State} (inp : Input)
    (hb : BSim s h) (hx : XmlInv h) (hi : Inv s) (hok : XmlInputOk cfg inp) :
    ∃ s' r h', stepInput cfg s inp = .ok s' ∧ (processToken cfg inp).run h = .ok (r, h') ∧
      BSim s' h' ∧ XmlInv h' ∧ Inv s' := by
  obtain ⟨s', e, hi'⟩ := stepInput_inv cfg s inp hi
  obtain ⟨r, h', eh, hx'⟩ := H5V.Props.C05.C05_xml_process_token cfg hx inp hok
  exact ⟨s', r, h', e, eh, bsim_step cfg inp hb e eh, hx', hi'⟩

/-- every state the handle-level builder can be in between two calls is related to a state of the
tree-valued model (which satisfies C16's invariant) -/
theorem C16_xml_reach_bsim {cfg : TbCfg} {h : H5V.Model.XmlTBH.State} (hr : XmlReach cfg h) :
    ∃ s, BSim s h ∧ Inv s := by
  induction hr with
  | new e => exact ⟨_, bsim_new e, inv_init⟩
  | @token h0 h1 inp r _ hok e ih =>
    obtain ⟨s, hb, hi⟩ := ih
    obtain ⟨s', es, hi'⟩ := stepInput_inv cfg s inp hi
    exact ⟨s', bsim_step cfg inp hb es e, hi'⟩

/-! ## 3. whole runs -/

theorem tokensOf_map_token (toks : List Token) : tokensOf (toks.map Input.token) = toks := by
  induction toks with
  | nil => rfl
  | cons t rest ih => rw [List.map_cons]; show t :: tokensOf _ = _; rw [ih]

theorem calls_of_createOps {tr : List (SinkOp × Output)} {cr : List Created}
    (h : createOps tr = cr.map (fun c => crop c.name c.attrs)) :
    traceCreateCalls tr = cr.reverse.map callOf := by
  unfold traceCreateCalls
  rw [h, List.map_reverse]
  rfl

/-- **C16, bridge (whole runs).**  For both configurations and every list of inputs (tokens and tokenizer
parse errors) satisfying the hypothesis of `C05_xml_contract`: `XmlTreeBuilder::new`, `process_token` for
every input and `end()` return normally, the tree-valued model runs the tokens among the inputs without
panic, and the `create_element` calls recorded in the trace — in call order — carry exactly the created
list of the tree-valued run: converted names and attributes with the flags computed from them
(`traceCreateCalls`), i.e. read back in the tree-valued vocabulary, `createdList` itself (`traceCreated`). -/
theorem C16_xml_trace_created (cfg : TbCfg) (toks : List Input) (hok : ∀ t ∈ toks, XmlInputOk cfg t) :
    ∃ h' s', (parseAll cfg toks).run H5V.Model.XmlTBH.State.init = .ok ((), h') ∧
      H5V.Model.XmlTB.run cfg H5V.Model.XmlTB.State.init (tokensOf toks) = .ok s' ∧
      traceCreateCalls h'.traceRev = s'.createdList.map callOf ∧
      traceCreated h'.traceRev = s'.createdList := by
  obtain ⟨h', eh, _, _⟩ := H5V.Props.C05.C05_xml_contract cfg toks hok
  obtain ⟨s', es⟩ := C16_no_panic cfg (tokensOf toks)
  have hc := H5V.Lemmas.XmlTBHBridge.bsim_parseAll_pc cfg toks es () h' eh
  have hcalls := calls_of_createOps hc
  exact ⟨h', s', eh, es, hcalls, traceCreated_of_calls hcalls⟩

/-- the same for a list of tokens (no tokenizer parse errors among the inputs) -/
theorem C16_xml_trace_created_tokens (cfg : TbCfg) (toks : List Token)
    (hok : ∀ t ∈ toks, XmlInputOk cfg (.token t)) :
    ∃ h' s', (parseAll cfg (toks.map Input.token)).run H5V.Model.XmlTBH.State.init = .ok ((), h') ∧
      H5V.Model.XmlTB.run cfg H5V.Model.XmlTB.State.init toks = .ok s' ∧
      traceCreateCalls h'.traceRev = s'.createdList.map callOf ∧
      traceCreated h'.traceRev = s'.createdList := by
  have hok' : ∀ t ∈ toks.map Input.token, XmlInputOk cfg t := by
    intro t ht
    obtain ⟨t0, h0, rfl⟩ := List.mem_map.mp ht
    exact hok t0 h0
  have := C16_xml_trace_created cfg (toks.map Input.token) hok'
  rwa [tokensOf_map_token] at this

/-- the run of the handle-level model is deterministic: whatever final state a normal run has, its
`create_element` calls are those of the tree-valued run -/
theorem C16_xml_trace_created_of_run (cfg : TbCfg) (toks : List Input)
    {h' : H5V.Model.XmlTBH.State} {s' : H5V.Model.XmlTB.State}
    (eh : (parseAll cfg toks).run H5V.Model.XmlTBH.State.init = .ok ((), h'))
    (es : H5V.Model.XmlTB.run cfg H5V.Model.XmlTB.State.init (tokensOf toks) = .ok s') :
    traceCreateCalls h'.traceRev = s'.createdList.map callOf ∧ traceCreated h'.traceRev = s'.createdList := by
  have hcalls := calls_of_createOps (H5V.Lemmas.XmlTBHBridge.bsim_parseAll_pc cfg toks es () h' eh)
  exact ⟨hcalls, traceCreated_of_calls hcalls⟩

/-- **C16 for the real-code-tied model, current code** (`TbCfg.fixed` = `TbCfg.current`; hypotheses: that
of `C05_xml_contract` and that of `C16_resolve_fixed` — no tag declares a prefix twice): the names and
attributes passed to `create_element`, in call order, are those of the lexical-scope resolver. -/
theorem C16_xml_trace_resolve (toks : List Input) (hok : ∀ t ∈ toks, XmlInputOk TbCfg.fixed t)
    (hnd : ∀ t ∈ tokensOf toks, ∀ tg, t = .tag tg → NoDupDecl tg.attrs) :
    ∃ h', (parseAll TbCfg.fixed toks).run H5V.Model.XmlTBH.State.init = .ok ((), h') ∧
      traceCreated h'.traceRev = resolve .prolog (tokensOf toks) := by
  obtain ⟨h', s', eh, es, _, hc⟩ := C16_xml_trace_created TbCfg.fixed toks hok
  obtain ⟨s, es', hr⟩ := C16_resolve_fixed (tokensOf toks) hnd
  rw [es] at es'
  cases es'
  exact ⟨h', eh, hc.trans hr⟩

/-- the same for the pinned tree (`TbCfg.code`; hypothesis of `C16_resolve_partial`: no attribute
`p:xmlns`, no prefix declared twice) -/
theorem C16_xml_trace_resolve_pinned (toks : List Input) (hok : ∀ t ∈ toks, XmlInputOk TbCfg.code t)
    (hok2 : ∀ t ∈ tokensOf toks, TokOK TbCfg.code t) :
    ∃ h', (parseAll TbCfg.code toks).run H5V.Model.XmlTBH.State.init = .ok ((), h') ∧
      traceCreated h'.traceRev = resolve .prolog (tokensOf toks) := by
  obtain ⟨h', s', eh, es, _, hc⟩ := C16_xml_trace_created TbCfg.code toks hok
  obtain ⟨s, es', hr⟩ := C16_resolve_partial (tokensOf toks) hok2
  rw [es] at es'
  cases es'
  exact ⟨h', eh, hc.trans hr⟩

/-! ### source level: the attribute step of the (fixed) tokenizer delivers `TagOk` -/

theorem unprefLocs_nodup_of_names (p : RAttr → Bool) : ∀ (l : List RAttr), (l.map (·.name)).Nodup →
    (H5V.Lemmas.XmlTBH.unprefLocs (l.filter p)).Nodup := by
  intro l
  induction l with
  | nil => intro _; simp [H5V.Lemmas.XmlTBH.unprefLocs]
  | cons a rest ih =>
    intro h
    rw [List.map_cons, List.nodup_cons] at h
    have ihr := ih h.2
    by_cases hp : p a = true
    · rw [List.filter_cons_of_pos hp]
      by_cases hn : a.name.pfx.isNone = true
      · have hU : H5V.Lemmas.XmlTBH.unprefLocs (a :: rest.filter p) =
            a.name.loc :: H5V.Lemmas.XmlTBH.unprefLocs (rest.filter p) := by
          simp [H5V.Lemmas.XmlTBH.unprefLocs, hn]
        rw [hU, List.nodup_cons]
        refine ⟨?_, ihr⟩
        intro hm
        unfold H5V.Lemmas.XmlTBH.unprefLocs at hm
        obtain ⟨b, hb, hbl⟩ := List.mem_map.mp hm
        obtain ⟨hb1, hb2⟩ := List.mem_filter.mp hb
        have hbr : b ∈ rest := (List.mem_filter.mp hb1).1
        apply h.1
        refine List.mem_map.mpr ⟨b, hbr, ?_⟩
        cases hbn : b.name with
        | mk bp bl =>
          cases han : a.name with
          | mk ap al =>
            rw [hbn] at hb2 hbl
            rw [han] at hn
            simp only [Option.isNone_iff_eq_none] at hb2 hn
            simp only at hbl
            rw [han] at hbl
            simp only at hbl
            subst hb2; subst hn; subst hbl
            rfl
      · have hU : H5V.Lemmas.XmlTBH.unprefLocs (a :: rest.filter p) =
            H5V.Lemmas.XmlTBH.unprefLocs (rest.filter p) := by
          simp [H5V.Lemmas.XmlTBH.unprefLocs, hn]
        rw [hU]
        exact ihr
    · rw [List.filter_cons_of_neg hp]
      exact ihr

/-- a tag finished by the fixed tokenizer satisfies the tree builder's assumption `TagOk` -/
theorem tagOk_finishTag_fixed (cfg : TbCfg) (t : H5V.Model.XmlTB.RawTag) :
    H5V.Lemmas.XmlTBH.TagOk cfg (H5V.Model.XmlTB.finishTag TokCfg.fixed t) :=
  unprefLocs_nodup_of_names _ _ (C16_tok_no_dup_qname_fixed t.attrs)

/-- **C16 for the real-code-tied model, from the lexed tags** (fixed tokenizer attribute step, fixed tree
builder = /repo now): for every sequence of lexed tags and other tokens — the only hypothesis is that of
`C16_resolve_source_fixed` (an `other` token is not a tag) — the handle-level builder runs to the end
without panic and passes to `create_element`, in call order, exactly the names and attributes of the
lexical-scope resolver. -/
theorem C16_xml_trace_resolve_source (raws : List RawToken)
    (hother : ∀ r ∈ raws, ∀ t, r = .other t → ∀ tg, t ≠ .tag tg) :
    ∃ h', (parseAll TbCfg.fixed ((raws.map (finishToken TokCfg.fixed)).map Input.token)).run
        H5V.Model.XmlTBH.State.init = .ok ((), h') ∧
      traceCreated h'.traceRev = resolve .prolog (raws.map (finishToken TokCfg.fixed)) := by
  have hok : ∀ t ∈ raws.map (finishToken TokCfg.fixed), XmlInputOk TbCfg.fixed (.token t) := by
    intro t ht
    obtain ⟨r, hr, rfl⟩ := List.mem_map.mp ht
    cases r with
    | tag rt => exact tagOk_finishTag_fixed TbCfg.fixed rt
    | other t' =>
      show H5V.Lemmas.XmlTBH.TokOk TbCfg.fixed t'
      cases t' with
      | tag tg => exact absurd rfl (hother _ hr _ rfl tg)
      | _ => trivial
  obtain ⟨h', s', eh, es, _, hc⟩ := C16_xml_trace_created_tokens TbCfg.fixed _ hok
  obtain ⟨s, es', hr⟩ := C16_resolve_source_fixed raws hother
  rw [es] at es'
  cases es'
  exact ⟨h', eh, hc.trans hr⟩

/-! ## 4. non-vacuity -/

section Examples
open H5V.Props.C05 (xtg xat xrn)

/-- `<r xmlns="urn:d" xmlns:p="urn:p" a="0"><p:a p:x="1" y="2"><p:b xmlns:p="urn:q" p:y="3">t<c xmlns=""/>`,
a tokenizer `ParseError`, `</r>` (a stray end tag for the current node `p:b`: pops `p:b`, `p:a` and `r`),
a comment, EOF: nested prefixed elements, a default-namespace declaration (and its un-declaration), a
rebinding of `p`, prefixed and unprefixed attributes, a multi-pop end tag -/
def bridgeEx1 : List Input := [
  xtg .start none "r" [xat none "xmlns" "urn:d", xat (some "xmlns") "p" "urn:p", xat none "a" "0"],
  xtg .start (some "p") "a" [xat (some "p") "x" "1", xat none "y" "2"],
  xtg .start (some "p") "b" [xat (some "xmlns") "p" "urn:q", xat (some "p") "y" "3"],
  .token (.chars "t".toList),
  xtg .empty none "c" [xat none "xmlns" ""],
  .parseError "tokenizer error".toList,
  xtg .end_ none "r" [],
  .token (.comment "c".toList),
  .token .eof]

/-- an empty-tag root `<p:r xmlns:p="urn:p" p:k="v"/>` followed by a stray start tag -/
def bridgeEx2 : List Input := [
  xtg .empty (some "p") "r" [xat (some "xmlns") "p" "urn:p", xat (some "p") "k" "v"],
  xtg .start none "x" [],
  .token .eof]

/-- the `(name, attrs)` of the `create_element` calls of a whole handle-level run (`none`: panic) -/
def bridgeRunCreated (cfg : TbCfg) (toks : List Input) : Option (List Created) :=
  match (parseAll cfg toks).run H5V.Model.XmlTBH.State.init with
  | .ok (_, h) => some (traceCreated h.traceRev)
  | .error _ => none

/-- the created list of the tree-valued run -/
def bridgeTreeCreated (cfg : TbCfg) (toks : List Input) : Option (List Created) :=
  match H5V.Model.XmlTB.run cfg H5V.Model.XmlTB.State.init (tokensOf toks) with
  | .ok s => some s.createdList
  | .error _ => none

def q (p : Option String) (ns l : String) : QName := ⟨p.map String.toList, ns.toList, l.toList⟩
def qa (p : Option String) (ns l v : String) : H5V.Model.XmlTB.Attr := ⟨q p ns l, v.toList⟩

instance (l : List RAttr) : Decidable (NoDupDecl l) := by unfold NoDupDecl; infer_instance

theorem noDup_of_all {toks : List Token}
    (h : (toks.all fun t => match t with | .tag tg => decide (NoDupDecl tg.attrs) | _ => true) = true) :
    ∀ t ∈ toks, ∀ tg, t = .tag tg → NoDupDecl tg.attrs := by
  intro t ht tg e
  subst e
  have := List.all_eq_true.mp h _ ht
  simpa using this

theorem bridgeEx1_ok : ∀ t ∈ bridgeEx1, XmlInputOk TbCfg.fixed t := by decide +kernel
theorem bridgeEx2_ok : ∀ t ∈ bridgeEx2, XmlInputOk TbCfg.fixed t := by decide +kernel

/-- the theorems apply to the examples (hypotheses satisfiable) … -/
example : ∃ h', (parseAll TbCfg.fixed bridgeEx1).run H5V.Model.XmlTBH.State.init = .ok ((), h') ∧
    traceCreated h'.traceRev = resolve .prolog (tokensOf bridgeEx1) :=
  C16_xml_trace_resolve bridgeEx1 bridgeEx1_ok (noDup_of_all (by decide +kernel))

example : ∃ h', (parseAll TbCfg.fixed bridgeEx2).run H5V.Model.XmlTBH.State.init = .ok ((), h') ∧
    traceCreated h'.traceRev = resolve .prolog (tokensOf bridgeEx2) :=
  C16_xml_trace_resolve bridgeEx2 bridgeEx2_ok (noDup_of_all (by decide +kernel))

/-- … and, checked by evaluation independently of the theorems: the handle-level trace, the tree-valued
run and the resolver deliver the same four elements — `r` in the default namespace `urn:d`; `p:a` in
`urn:p` with `p:x` bound to `urn:p` and the unprefixed `y` in no namespace; `p:b` under the rebinding
`p ↦ urn:q`; `c` with the default namespace un-declared -/
example : bridgeRunCreated TbCfg.fixed bridgeEx1 = some [
    ⟨q none "urn:d" "r", [qa none "" "a" "0"]⟩,
    ⟨q (some "p") "urn:p" "a", [qa (some "p") "urn:p" "x" "1", qa none "" "y" "2"]⟩,
    ⟨q (some "p") "urn:q" "b", [qa (some "p") "urn:q" "y" "3"]⟩,
    ⟨q none "" "c", []⟩] := by decide +kernel

example : bridgeRunCreated TbCfg.fixed bridgeEx1 = bridgeTreeCreated TbCfg.fixed bridgeEx1 := by decide +kernel
example : bridgeRunCreated TbCfg.fixed bridgeEx1 = some (resolve .prolog (tokensOf bridgeEx1)) := by decide +kernel
example : bridgeRunCreated TbCfg.code bridgeEx1 = bridgeTreeCreated TbCfg.code bridgeEx1 := by decide +kernel

/-- the stray `</r>` pops all three open elements: the run ends in the End phase with nothing open, in
both models -/
example : (match (processTokens TbCfg.fixed bridgeEx1).run
      ((newTB.run H5V.Model.XmlTBH.State.init).toOption.map (·.2) |>.getD {}) with
    | .ok (_, h) => some (h.opened.length, h.phase)
    | .error _ => none) = some (0, .end_) := by decide +kernel

example : (match H5V.Model.XmlTB.run TbCfg.fixed H5V.Model.XmlTB.State.init (tokensOf bridgeEx1) with
    | .ok s => some (s.opened.length, s.phase)
    | .error _ => none) = some (0, .end_) := by decide +kernel

/-- the empty-tag root: one `create_element`, `p:r` in `urn:p` with `p:k`; the stray `<x>` in the End
phase creates nothing -/
example : bridgeRunCreated TbCfg.fixed bridgeEx2 =
    some [⟨q (some "p") "urn:p" "r", [qa (some "p") "urn:p" "k" "v"]⟩] := by decide +kernel
example : bridgeRunCreated TbCfg.fixed bridgeEx2 = bridgeTreeCreated TbCfg.fixed bridgeEx2 := by decide +kernel
example : bridgeRunCreated TbCfg.fixed bridgeEx2 = some (resolve .prolog (tokensOf bridgeEx2)) := by decide +kernel

/-- the flags travel too: `<template xmlns="http://www.w3.org/1999/xhtml"/>` as root is created with
`template := true` -/
example : ((match (parseAll TbCfg.fixed [xtg .empty none "template" [xat none "xmlns" "http://www.w3.org/1999/xhtml"]]).run
      H5V.Model.XmlTBH.State.init with
    | .ok (_, h) => some ((traceCreateCalls h.traceRev).map (fun (c : CrOp) => c.2.2.template))
    | .error _ => none)) = some [true] := by decide +kernel

end Examples

end H5V.Props.C16

#print axioms H5V.Props.C16.bsim_iff
#print axioms H5V.Props.C16.bsim_new
#print axioms H5V.Props.C16.bsim_step
#print axioms H5V.Props.C16.bsim_step_token
#print axioms H5V.Props.C16.bsim_step_parseError
#print axioms H5V.Props.C16.bsim_step_total
#print axioms H5V.Props.C16.C16_xml_reach_bsim
#print axioms H5V.Props.C16.C16_xml_trace_created
#print axioms H5V.Props.C16.C16_xml_trace_created_tokens
#print axioms H5V.Props.C16.C16_xml_trace_created_of_run
#print axioms H5V.Props.C16.C16_xml_trace_resolve
#print axioms H5V.Props.C16.C16_xml_trace_resolve_pinned
#print axioms H5V.Props.C16.C16_xml_trace_resolve_source
#print axioms H5V.Props.C16.tagOk_finishTag_fixed
