import H5V.Lemmas.HtmlTBFuelAll
import H5V.Props.C05TB
/-!
# C04 for the HTML tree builder model, part 2: the fuel of `process_to_completion` suffices

`H5V.Props.C04TB` shows that no `panicAt` site of the tree-builder model is reachable, with two
context-dependent failures left open; one of them was the model's own fuel for `process_to_completion`
(`ptcFuel s tok = 16·(|tok| + 1) + 4·(|open_elems| + |template_modes|) + 64`, an artefact of modelling the
Rust `loop` by a bounded recursion).  Here: **that fuel always suffices** (`Allow.fuel := False`).

The proof (`H5V.Lemmas.TBFuel`) is by a measure on (builder state, insertion mode, token) that strictly
decreases along every `Reprocess` edge of the 21 rules (`allDec`) — `4·(HTML table elements on the stack) +
4·(template modes) + rank(mode, token class)`, for character tokens `2·rank + [not yet split]` — and a count of
the remaining iterations `mu` that `process_to_completion` decreases in each iteration
(`sat_processToCompletion2`), with `mu s tok [] ≤ ptcFuel s tok`.

With `C05TB` the only failures left for a document parse with a protocol-abiding, `TagsOk` token source are
the two `encoding.rs` messages of the `<meta>` prescan and a failure of the mirror op
`maybe_clone_an_option_into_selectedcontent` called within its contract (`C04_tb_total_full'`).
-/
namespace H5V.Props.C04TB2
open H5V.Model.HtmlTB
open H5V.Model.Dom (Id QualName Attr NodeOrText SinkOp Output ElementFlags QuirksMode Dom NodeData Node)
open H5V.Lemmas.TBSafe
open H5V.Lemmas.TBFuel
open H5V.Props.C04TB (allSpec parseRest parseDocument parseFragment docStart fragInit parseDocument_run
  C04_tb_inv_new sat_iff respectsB respects_of_respectsB st et ch errOf)

/-- only the Text-mode `unreachable!` tolerated (arbitrary token sequences), the fuel not -/
@[reducible] def allowText : Allow := ⟨True, False⟩
/-- neither context-dependent failure tolerated (token sequences that keep the tokenizer protocol) -/
@[reducible] def allowNone : Allow := ⟨False, False⟩

/-- the failures left for arbitrary token sequences: a sink failure of a tree-mutating op, the Text-mode
`unreachable!`, the `<meta>` prescan messages -/
abbrev BenignText (e : String) : Prop := @Benign allowText e
/-- the failures left for protocol-abiding token sequences: a sink failure of a tree-mutating op, the
`<meta>` prescan messages -/
abbrev BenignStrict (e : String) : Prop := @Benign allowNone e

variable {al : Allow}

/-- the tokens and `end`, without the fuel allowance -/
theorem sat_parseRest2 (toks : List (TokToken × Nat)) {s : State} (ht : TI s)
    (hresp : al.text ∨ Respects s toks) : Sat (parseRest toks) s (fun _ _ => True) := by
  unfold parseRest
  refine (sat_processTokens2 allSpec allDec toks [] s ht hresp).bind ?_
  intro r s2 _
  refine sat_finishTB.bind ?_
  intro _ s3 _
  exact sat_pure trivial

/-- **`process_to_completion` never runs out of fuel**: from a state satisfying the invariant, with the fuel
`process_token` gives it, a token that keeps the protocol -/
theorem C04_tb_ptc_fuel (s : State) (t : Token) (ht : TI s) (hpos : isCharsTok t = true → 1 ≤ tokenCharLen t)
    (hprot : s.mode = .text → textTok t = true) (e : String)
    (h : (processToCompletion (ptcFuel s t) t []).run s = .error e) : BenignStrict e := by
  have hs : @Sat allowNone _ (processToCompletion (ptcFuel s t) t []) s (fun _ s' => TI s') :=
    @sat_processToCompletion2 allowNone (@allSpec allowNone) allDec _ t [] s ht
      ⟨fun _ => rfl, hpos, fun _ h => by cases h⟩ (fun hm => Or.inr (hprot hm)) (mu_le_ptcFuel s t)
  exact ((@sat_iff allowNone _ _ _ _).mp hs).2 e h

/-- **C04 (tree builder), documents, without the fuel allowance**: arbitrary token sequences -/
theorem C04_tb_no_panic' (opts : Opts) (toks : List (TokToken × Nat)) (e : String)
    (h : (parseDocument toks).run (State.init opts) = .error e) : BenignText e := by
  rw [parseDocument_run] at h
  exact ((@sat_iff allowText _ _ _ _).mp
    (@sat_parseRest2 allowText toks _ (C04_tb_inv_new opts) (Or.inl trivial))).2 e h

/-- … token sequences that keep the tokenizer protocol -/
theorem C04_tb_no_panic_protocol' (opts : Opts) (toks : List (TokToken × Nat))
    (hresp : Respects (docStart opts) toks) (e : String)
    (h : (parseDocument toks).run (State.init opts) = .error e) : BenignStrict e := by
  rw [parseDocument_run] at h
  exact ((@sat_iff allowNone _ _ _ _).mp
    (@sat_parseRest2 allowNone toks _ (C04_tb_inv_new opts) (Or.inr hresp))).2 e h

/-- fragments -/
theorem C04_tb_no_panic_fragment' (opts : Opts) (d : Dom) (ctx : Id) (form : Option Id)
    (toks : List (TokToken × Nat)) (hctx : IsEl d ctx)
    (hform : ∀ f, form = some f → IsEl d f ∧ nm d f = formName) (e : String)
    (h : (parseFragment ctx form toks).run (fragInit opts d) = .error e) : BenignText e := by
  have hs : @Sat allowText _ (parseFragment ctx form toks) (fragInit opts d) (fun _ _ => True) := by
    unfold parseFragment
    refine (@sat_newForFragment allowText _ _ _ (fresh_init_dom opts d) hctx hform).bind ?_
    intro _ s1 ht1
    exact @sat_parseRest2 allowText toks _ ht1 (Or.inl trivial)
  exact ((@sat_iff allowText _ _ _ _).mp hs).2 e h

theorem C04_tb_no_panic_protocol_fragment' (opts : Opts) (d : Dom) (ctx : Id) (form : Option Id)
    (toks : List (TokToken × Nat)) (hctx : IsEl d ctx)
    (hform : ∀ f, form = some f → IsEl d f ∧ nm d f = formName)
    (hresp : ∀ s1, (newForFragment ctx form).run (fragInit opts d) = .ok ((), s1) → Respects s1 toks)
    (e : String) (h : (parseFragment ctx form toks).run (fragInit opts d) = .error e) : BenignStrict e := by
  have hs : @Sat allowNone _ (parseFragment ctx form toks) (fragInit opts d) (fun _ _ => True) := by
    unfold parseFragment
    refine (sat_with_run (@sat_newForFragment allowNone _ _ _ (fresh_init_dom opts d) hctx hform)).bind ?_
    rintro u s1 ⟨ht1, hrun⟩
    exact @sat_parseRest2 allowNone toks _ ht1 (Or.inr (hresp s1 hrun))
  exact ((@sat_iff allowNone _ _ _ _).mp hs).2 e h

/-- a failure that is tolerated without the fuel allowance is not the fuel message -/
theorem benign_ne_ptcFuel (hna : ¬ al.fuel) {e : String} (h : Benign e) : e ≠ ptcFuelMsg := by
  intro he
  rcases benign_eq_cases (t := ptcFuelMsg) (by decide) (by decide) (by decide) h he with ⟨_, h2⟩ | ⟨h1, _⟩
  · exact hna h2
  · exact absurd h1 (by decide)

/-- **headline**: with a token source that keeps the tokenizer protocol, a document parse of the model ends
in none of: the fuel of `process_to_completion`, the Text-mode `unreachable!`, the listed panic / helper-fuel
/ model messages -/
theorem C04_tb_total_protocol' (opts : Opts) (toks : List (TokToken × Nat))
    (hresp : Respects (docStart opts) toks) :
    ∀ e ∈ ptcFuelMsg :: textProtoMsg :: (tbPanicMessages ++ tbFuelMessages ++ tbModelMessages),
      (parseDocument toks).run (State.init opts) ≠ .error e := by
  intro e he h
  have hb := C04_tb_no_panic_protocol' opts toks hresp e h
  rcases List.mem_cons.mp he with he | he
  · exact @benign_ne_ptcFuel allowNone (fun h => h) e hb he
  rcases List.mem_cons.mp he with he | he
  · exact @benign_ne_textProto allowNone (fun h => h) e hb he
  · have hl := @benign_not_listed allowNone e hb
    rcases List.mem_append.mp he with he | he
    · rcases List.mem_append.mp he with he | he
      · exact hl.1 he
      · exact hl.2.1 he
    · exact hl.2.2 he

/-- for arbitrary token sequences the fuel message is excluded as well -/
theorem C04_tb_total' (opts : Opts) (toks : List (TokToken × Nat)) :
    ∀ e ∈ ptcFuelMsg :: (tbPanicMessages ++ tbFuelMessages ++ tbModelMessages),
      (parseDocument toks).run (State.init opts) ≠ .error e := by
  intro e he h
  have hb := C04_tb_no_panic' opts toks e h
  rcases List.mem_cons.mp he with he | he
  · exact @benign_ne_ptcFuel allowText (fun h => h) e hb he
  · have hl := @benign_not_listed allowText e hb
    rcases List.mem_append.mp he with he | he
    · rcases List.mem_append.mp he with he | he
      · exact hl.1 he
      · exact hl.2.1 he
    · exact hl.2.2 he

/-- **C04 + C05 together, without the fuel**: a document parse with a protocol-abiding `TagsOk` token source
fails only with one of the two `<meta>`-prescan messages or by a failure of the mirror op called within its
contract -/
theorem C04_tb_total_full' (opts : Opts) (toks : List (TokToken × Nat))
    (hresp : Respects (docStart opts) toks) (htags : H5V.Props.C05TB.TagsOk toks) (e : String)
    (h : (parseDocument toks).run (State.init opts) = .error e) :
    ("meta-extract@encoding.rs: ".toList.isPrefixOf e.toList = true) ∨
    e = "subtendril-utf8@encoding.rs: subtendril is not valid UTF-8" ∨
    ∃ (d : Dom) (o : Id) (y : String), d.apply (.maybeCloneAnOptionIntoSelectedcontent o) = .error y ∧
      e = errClass y ++ "@sink: " ++ y := by
  rcases H5V.Props.C05TB.C04_tb_total_full opts toks hresp htags e h with h1 | h1 | h1 | h1
  · exact absurd h1 (@benign_ne_ptcFuel allowNone (fun h => h) e (C04_tb_no_panic_protocol' opts toks hresp e h))
  · exact Or.inl h1
  · exact Or.inr (Or.inl h1)
  · exact Or.inr (Or.inr h1)

/-! ### non-vacuity -/

/-- the measure of a concrete state -/
example : mu (docStart {}) (.tag { kind := .startTag, name := "td".toList }) [] ≤
    ptcFuel (docStart {}) (.tag { kind := .startTag, name := "td".toList }) := mu_le_ptcFuel _ _

/-- the rank table: a `<td>` in the Initial mode travels Initial → BeforeHtml → BeforeHead → InHead →
AfterHead → InBody -/
example : rank .initial (cls (.tag { kind := .startTag, name := "td".toList })) = 5 := by decide

/-- a deep `Reprocess` chain: `<caption>` inside a table cell goes InCell → InRow → InTableBody → InTable and
is handled there; the run succeeds -/
example : errOf ((parseDocument [st "table", st "tr", st "td", ch "x", st "caption", ch "y", (.eof, 1)]).run
    (State.init {})) = none := by decide +kernel

/-- EOF inside nested templates (one `Reprocess` per template) -/
example : errOf ((parseDocument [st "template", st "template", st "table", st "template", ch "x", (.eof, 1)]).run
    (State.init {})) = none := by decide +kernel

end H5V.Props.C04TB2

#print axioms H5V.Lemmas.TBFuel.allDec
#print axioms H5V.Lemmas.TBFuel.sat_processToCompletion2
#print axioms H5V.Lemmas.TBFuel.mu_le_ptcFuel
#print axioms H5V.Props.C04TB2.C04_tb_ptc_fuel
#print axioms H5V.Props.C04TB2.C04_tb_no_panic'
#print axioms H5V.Props.C04TB2.C04_tb_no_panic_protocol'
#print axioms H5V.Props.C04TB2.C04_tb_no_panic_fragment'
#print axioms H5V.Props.C04TB2.C04_tb_no_panic_protocol_fragment'
#print axioms H5V.Props.C04TB2.C04_tb_total_protocol'
#print axioms H5V.Props.C04TB2.C04_tb_total'
#print axioms H5V.Props.C04TB2.C04_tb_total_full'
