import H5V.Lemmas.HtmlTokCharRefCases
import H5V.Lemmas.HtmlTokCharRefStable
import H5V.Props.C03
/-!
C14 (run level) — every character reference resolves to its WHATWG value.

`H5V.Spec.CharRef.specCharRef inAttr s atEof` transcribes §13.2.5.72–80 of the HTML standard as a
function of the text `s` after the `&`: the characters delivered, how many characters of `s` belong
to the reference, whether a parse error is reported (or `needMore`: the text received so far does
not decide yet). The theorems below are about the model `H5V.Model.HtmlTok` of html5ever's
character-reference tokenizer (`char_ref/mod.rs`, tied to the Rust by the `tok` correspondence), for
**every** text, both contexts (data / RCDATA, attribute values), both `exact_errors` settings:

* `C14_run_none`, `C14_run_named`, `C14_run_numeric`, combined `C14_run_resolves`: started right
  after `&` (`Fresh`), the sub-tokenizer run on a text `s` that decides the outcome reaches "no
  reference pending" with exactly the standard's characters delivered (appended to the attribute
  value, or one character token each), exactly `s.drop consumed` left in the input — un-consumed
  text is given back in order —, parse-error tokens iff the standard reports a parse error, and
  nothing else changed (`deliver`).
* `C14_eof_resolves`: a text that does not decide (`needMore`) leaves the sub-tokenizer `Stuck`
  with the input used up; `Tokenizer::end` (`finish` → `crEof`) then resolves it as the standard
  does at EOF.
* `C14_spec_total_at_eof`: with `atEof = true` the standard always decides; so the two theorems
  cover every text — `C14_every_reference` is that combination for a complete stream.
* `C14_spec_decision_final`, `C14_spec_consumed_le`: two facts about the specification itself — an
  outcome `resolved …` obtained on the text received so far is the outcome for every extension of
  that text and for the complete stream (`needMore` is only ever a postponement), and the reference
  never reaches beyond the text.
* `C14_crRun`, `C14_run_in_tokenizer`: the same as statements about the fuel-indexed iteration
  `crRun` of `stepCharRef` and about `Tokenizer::run` (`run`).
* `C14_amp_starts_reference`, `C14_amp_resolves`: from the `&` itself, read by the main loop in the
  data / RCDATA / attribute-value states: `ignore_lf` is `false` afterwards, the line counter and
  everything else untouched.
* `C14_run_chunked`: by C03 the same holds however the text is cut into chunks.
-/
namespace H5V.Props.C14
open H5V H5V.Model.HtmlTok

/-! ### vocabulary -/

/-- right after `start_consuming_character_reference` (`consumeCharRef`) in a state where a
reference may start: the fresh sub-tokenizer, no reconsume pending -/
structure Fresh (m : Mach) (inAttr : Bool) : Prop where
  cr : m.charRef = some { inAttr := inAttr }
  nr : m.reconsume = false
  st : StartState inAttr m.state

/-- `consumeCharRef` from data / RCDATA / an attribute-value state yields a `Fresh` machine -/
theorem C14_fresh_of_consume (m : Mach) (hcr : m.charRef = none) (hr : m.reconsume = false)
    (hs : m.state = .data ∨ m.state = .rawData .rcdata ∨ ∃ q, m.state = .attributeValue q) :
    (consumeCharRef m).2 = .cont ∧
    Fresh (consumeCharRef m).1 (isAttrValueState m.state) := by
  have e : consumeCharRef m =
      ({ m with charRef := some { inAttr := isAttrValueState m.state } }, .cont) := by
    unfold consumeCharRef; rw [hcr]
  rw [e]
  refine ⟨rfl, rfl, hr, ?_⟩
  rcases hs with h | h | ⟨q, h⟩
  · exact Or.inl ⟨by simp [h, isAttrValueState], Or.inl h⟩
  · exact Or.inl ⟨by simp [h, isAttrValueState], Or.inr h⟩
  · exact Or.inr ⟨by simp [h, isAttrValueState], q, h⟩

/-- the reference after `&` in the text `s` resolves: after `k ≤ |s| + 3` steps of the
sub-tokenizer no reference is pending, the machine is `deliver inAttr m errs lf chars` — `m` with
the parse-error tokens `errs` reported and `chars` delivered, nothing else changed — and the input
is `s.drop n`; `errs` is non-empty iff `err`; `ignore_lf` is untouched or cleared -/
def Resolves (o : Opts) (inAttr : Bool) (m : Mach) (s chars : Str) (n : Nat) (err : Bool) : Prop :=
  ∃ errs lf k, Steps o m s (deliver inAttr m errs lf chars) (s.drop n) k ∧ k ≤ s.length + 3 ∧
    ErrsOk m errs err ∧ (lf = m.ignoreLf ∨ lf = false)

theorem resolves_of_from {o : Opts} {b : Bool} {m : Mach} (hf : Fresh m b) {s chars : Str} {n : Nat} {err : Bool}
    (h : ResolvesFrom o b m { inAttr := b } s chars n err) : Resolves o b m s chars n err := by
  unfold ResolvesFrom at h
  rw [setCR_self hf.cr] at h
  exact h

/-! ### the run-level theorems -/

/-- **neither a name nor a number.** After `&`, a character that is neither an ASCII alphanumeric
nor `#`: nothing is consumed, the `&` is literal text, no parse error. -/
theorem C14_run_none (o : Opts) (inAttr : Bool) (m : Mach) (hf : Fresh m inAttr) (c : Char) (rest : Str)
    (hc : isAsciiAlnum c = false) (hh : c ≠ '#') :
    Spec.CharRef.specCharRef inAttr (c :: rest) false = .resolved ['&'] 0 false ∧
    Resolves o inAttr m (c :: rest) ['&'] 0 false := by
  constructor
  · simp [Spec.CharRef.specCharRef, isAlnum_eq, hc, hh, Spec.CharRef.literal]
  · exact resolves_of_from hf (run_none o inAttr hf.nr hf.st c rest hc hh)

/-- **named references.** After `&`, a text starting with an ASCII alphanumeric that decides the
outcome: the model resolves it exactly as §13.2.5.73–74 (`specNamed`): longest identifier of the
WHATWG table, legacy attribute exception, missing-semicolon error, ambiguous ampersand. -/
theorem C14_run_named (o : Opts) (inAttr : Bool) (m : Mach) (hf : Fresh m inAttr) (c : Char) (rest : Str)
    (hc : isAsciiAlnum c = true) (chars : Str) (n : Nat) (err : Bool)
    (hspec : Spec.CharRef.specNamed inAttr (c :: rest) false = .resolved chars n err) :
    Resolves o inAttr m (c :: rest) chars n err :=
  resolves_of_from hf (run_named o inAttr hf.nr hf.st c rest hc chars n err hspec)

/-- **numeric references.** After `&#`, a text that decides the outcome: the model resolves it
exactly as §13.2.5.75–80 (`specNumeric`): optional `x`/`X`, the digits, the optional `;`, the
end-state mapping (0, > 0x10FFFF, surrogates ⇒ U+FFFD; noncharacters and controls kept with an
error; the C1 table). -/
theorem C14_run_numeric (o : Opts) (inAttr : Bool) (m : Mach) (hf : Fresh m inAttr) (t : Str)
    (chars : Str) (n : Nat) (err : Bool)
    (hspec : Spec.CharRef.specNumeric t false = .resolved chars n err) :
    Resolves o inAttr m ('#' :: t) chars n err :=
  resolves_of_from hf (run_numeric o inAttr hf.nr hf.st t chars n err hspec)

/-- **C14, run level: every character reference resolves to its WHATWG value.** For every context
`inAttr`, every machine `m` right after the `&` (`Fresh`), every text `s` for which the standard
decides (`specCharRef inAttr s false = resolved chars n err`): the model delivers exactly `chars`,
leaves exactly `s.drop n` in the input, reports a parse error iff `err`, changes nothing else. -/
theorem C14_run_resolves (o : Opts) (inAttr : Bool) (m : Mach) (hf : Fresh m inAttr) (s chars : Str)
    (n : Nat) (err : Bool)
    (hspec : Spec.CharRef.specCharRef inAttr s false = .resolved chars n err) :
    Resolves o inAttr m s chars n err :=
  resolves_of_from hf (run_resolves o inAttr hf.nr hf.st s chars n err hspec)

/-! ### iteration with fuel, and inside `Tokenizer::run` -/

inductive CRRunRes
  | resolved (m : Mach) (inp : Str)
  | stuck (m : Mach) (inp : Str)
  | other
deriving Repr

/-- iterate `stepCharRef` while a reference is pending -/
def crRun (o : Opts) : Nat → Mach → Str → CRRunRes
  | 0, _, _ => .other
  | fuel + 1, m, inp =>
    match m.charRef with
    | none => .resolved m inp
    | some cr =>
      match stepCharRef o m inp cr with
      | .cont m' inp' => crRun o fuel m' inp'
      | .suspend m' inp' => .stuck m' inp'
      | _ => .other

theorem crRun_of_steps (o : Opts) {m : Mach} {inp : Str} {m' : Mach} {inp' : Str} {k : Nat}
    (h : Steps o m inp m' inp' k) (f : Nat) : crRun o (k + f) m inp = crRun o f m' inp' := by
  induction h with
  | refl => simp
  | @step _ _ _ _ _ _ _ k' hc hs _ ih =>
    have : k' + 1 + f = (k' + f) + 1 := by omega
    rw [this]
    simp only [crRun, hc, hs]
    exact ih

theorem crRun_resolved (o : Opts) {m : Mach} {inp : Str} {m' : Mach} {inp' : Str} {k : Nat}
    (h : Steps o m inp m' inp' k) (hn : m'.charRef = none) (fuel : Nat) (hf : k < fuel) :
    crRun o fuel m inp = .resolved m' inp' := by
  obtain ⟨f, rfl⟩ : ∃ f, fuel = k + (f + 1) := ⟨fuel - k - 1, by omega⟩
  rw [crRun_of_steps o h]
  simp [crRun, hn]

theorem crRun_stuck (o : Opts) {m : Mach} {inp : Str} {M : Mach} {cr : CharRefSt} {k : Nat}
    (h : Steps o m inp (M.setCharRef (some cr)) [] k) (hr : M.reconsume = false) (fuel : Nat) (hf : k < fuel) :
    crRun o fuel m inp = .stuck (M.setCharRef (some cr)) [] := by
  obtain ⟨f, rfl⟩ : ∃ f, fuel = k + (f + 1) := ⟨fuel - k - 1, by omega⟩
  rw [crRun_of_steps o h]
  simp [crRun, stepCharRef_stuck hr]

/-- `C14_run_resolves` for the fuel-indexed iteration: any fuel above `|s| + 3` reaches
"resolved" with the standard's outcome -/
theorem C14_crRun (o : Opts) (inAttr : Bool) (m : Mach) (hf : Fresh m inAttr) (s chars : Str)
    (n : Nat) (err : Bool)
    (hspec : Spec.CharRef.specCharRef inAttr s false = .resolved chars n err) :
    ∃ errs lf, ErrsOk m errs err ∧ (lf = m.ignoreLf ∨ lf = false) ∧
      ∀ fuel, s.length + 4 ≤ fuel →
        crRun o fuel m s = .resolved (deliver inAttr m errs lf chars) (s.drop n) := by
  obtain ⟨errs, lf, k, hs, hk, he, hl⟩ := C14_run_resolves o inAttr m hf s chars n err hspec
  exact ⟨errs, lf, he, hl, fun fuel hfu =>
    crRun_resolved o hs (deliver_charRef _ _ _ _ _) fuel (by omega)⟩

theorem run_of_steps (o : Opts) (pol : Pol) {m : Mach} {inp : Str} {m' : Mach} {inp' : Str} {k : Nat}
    (h : Steps o m inp m' inp' k) (f : Nat) : run o pol (k + f) m inp = run o pol f m' inp' := by
  induction h with
  | refl => simp
  | @step _ _ _ _ _ _ _ k' hc hs _ ih =>
    have : k' + 1 + f = (k' + f) + 1 := by omega
    rw [this]
    simp only [run, step_kind_charRef o pol _ _ _ hc, hs]
    exact ih

/-- `C14_run_resolves` inside `Tokenizer::run`: the first `k ≤ |s| + 3` iterations of the main
loop are the resolution; the loop then continues from the resolved machine on `s.drop n` -/
theorem C14_run_in_tokenizer (o : Opts) (pol : Pol) (inAttr : Bool) (m : Mach) (hf : Fresh m inAttr)
    (s chars : Str) (n : Nat) (err : Bool)
    (hspec : Spec.CharRef.specCharRef inAttr s false = .resolved chars n err) :
    ∃ errs lf k, k ≤ s.length + 3 ∧ ErrsOk m errs err ∧ (lf = m.ignoreLf ∨ lf = false) ∧
      ∀ f, run o pol (k + f) m s = run o pol f (deliver inAttr m errs lf chars) (s.drop n) := by
  obtain ⟨errs, lf, k, hs, hk, he, hl⟩ := C14_run_resolves o inAttr m hf s chars n err hspec
  exact ⟨errs, lf, k, hk, he, hl, run_of_steps o pol hs⟩

/-! ### from the `&` itself -/

theorem badCharClass_amp : badCharClass '&' = false := by decide

set_option linter.unusedSimpArgs false in
/-- reading a `&` in the data / RCDATA / an attribute-value state (no reference pending, nothing to
reconsume) starts a reference: one step of the main loop leads to a `Fresh` machine that differs
from `m` only in the sub-tokenizer register, `current_char` and a cleared `ignore_lf` -/
theorem C14_amp_starts_reference (o : Opts) (pol : Pol) (m : Mach) (rest : Str)
    (hcr : m.charRef = none) (hr : m.reconsume = false)
    (hs : m.state = .data ∨ m.state = .rawData .rcdata ∨ ∃ q, m.state = .attributeValue q) :
    ∃ m', step o pol m ('&' :: rest) = .cont m' rest ∧ Fresh m' (isAttrValueState m.state) ∧
      m'.ignoreLf = false ∧ m'.out = m.out ∧ m'.attrValue = m.attrValue ∧ m'.line = m.line := by
  obtain ⟨ex⟩ := o
  rcases hs with h | h | ⟨q, h⟩
  · cases hlf : m.ignoreLf <;> cases ex <;>
      simp [step, hcr, h, readKind, readData, popExceptFrom, getChar, preprocess, foldChar, hr, hlf, simdFirst,
        setOf, transSet, consumeCharRef, ofSig, badCharClass_amp, Mach.setIgnoreLf, Mach.setCurrentChar,
        isAttrValueState, Mach.setReconsume] <;>
      exact ⟨rfl, rfl, Or.inl ⟨rfl, Or.inl rfl⟩⟩
  · cases hlf : m.ignoreLf <;> cases ex <;>
      simp [step, hcr, h, readKind, readData, popExceptFrom, getChar, preprocess, foldChar, hr, hlf, simdFirst,
        setOf, transSet, consumeCharRef, ofSig, badCharClass_amp, Mach.setIgnoreLf, Mach.setCurrentChar,
        isAttrValueState, Mach.setReconsume] <;>
      exact ⟨rfl, rfl, Or.inl ⟨rfl, Or.inr rfl⟩⟩
  · cases q <;> cases hlf : m.ignoreLf <;> cases ex <;>
      simp [step, hcr, h, readKind, readData, popExceptFrom, getChar, preprocess, foldChar, hr, hlf, simdFirst,
        setOf, transSet, consumeCharRef, ofSig, badCharClass_amp, Mach.setIgnoreLf, Mach.setCurrentChar,
        isAttrValueState, Mach.setReconsume, isWs] <;>
      exact ⟨rfl, rfl, Or.inr ⟨rfl, _, rfl⟩⟩

/-- **C14 end to end inside `Tokenizer::run`.** The main loop in the data / RCDATA / an
attribute-value state, no reference pending, on the input `&` + `s` where `s` decides the outcome:
after `k + 1 ≤ |s| + 4` iterations it continues on `s.drop n` from the machine `m1` (= `m` with the
`&` read) with the standard's characters delivered and a parse error reported iff the standard
reports one; `ignore_lf` is `false`, the line counter untouched. -/
theorem C14_amp_resolves (o : Opts) (pol : Pol) (m : Mach) (s chars : Str) (n : Nat) (err : Bool)
    (hcr : m.charRef = none) (hr : m.reconsume = false)
    (hs : m.state = .data ∨ m.state = .rawData .rcdata ∨ ∃ q, m.state = .attributeValue q)
    (hspec : Spec.CharRef.specCharRef (isAttrValueState m.state) s false = .resolved chars n err) :
    ∃ m1 errs k, step o pol m ('&' :: s) = .cont m1 s ∧
      m1.out = m.out ∧ m1.attrValue = m.attrValue ∧ m1.line = m.line ∧ m1.ignoreLf = false ∧
      k ≤ s.length + 3 ∧ ErrsOk m1 errs err ∧
      ∀ f, run o pol (k + f + 1) m ('&' :: s) =
        run o pol f (deliver (isAttrValueState m.state) m1 errs false chars) (s.drop n) := by
  obtain ⟨m1, hstep, hf, hlf, h1, h2, h3⟩ := C14_amp_starts_reference o pol m s hcr hr hs
  obtain ⟨errs, lf, k, hk, he, hl, hrun⟩ := C14_run_in_tokenizer o pol _ m1 hf s chars n err hspec
  have hlf' : lf = false := by rcases hl with h | h <;> simp [h, hlf]
  subst hlf'
  refine ⟨m1, errs, k, hstep, h1, h2, h3, hlf, hk, he, fun f => ?_⟩
  rw [← hrun f]
  simp only [run, hstep]

/-! ### end of input -/

/-- with `atEof = true` the standard always decides -/
theorem C14_spec_total_at_eof (inAttr : Bool) (s : Str) :
    ∃ chars n err, Spec.CharRef.specCharRef inAttr s true = .resolved chars n err := by
  cases s with
  | nil => exact ⟨_, _, _, rfl⟩
  | cons c t =>
    simp only [Spec.CharRef.specCharRef]
    unfold Spec.CharRef.specNamed Spec.CharRef.specAmbiguous Spec.CharRef.specNumeric Spec.CharRef.specDigits
    dsimp only
    simp only [Bool.not_true, Bool.false_and, Bool.and_false, Bool.false_eq_true, ↓reduceIte]
    repeat' split
    all_goals exact ⟨_, _, _, rfl⟩

/-- the part of `Tokenizer::end` after a pending reference has been flushed: set `at_eof`, run to
`Done`, then the `eof_step` loop -/
def finishTail (o : Opts) (pol : Pol) (m : Mach) (inp : Str) : Except String Mach :=
  let m := m.setAtEof true
  match run o pol (fuelFor m inp) m inp with
  | .done m inp =>
    if !inp.isEmpty then .error "assertion failed: input.is_empty()" else
    eofLoop o 8 m
  | .script _ _ | .indicator _ _ =>
    .error "assertion failed: matches!(self.run(&input), TokenizerResult::Done)"
  | .panic e => .error e
  | .outOfFuel => .error "run out of fuel"

theorem finish_of_crEof (o : Opts) (pol : Pol) (m : Mach) (cr : CharRefSt) (mE : Mach) (i chars : Str)
    (mD : Mach) (hcr : m.charRef = some cr) (he : crEof o m [] cr = .ok (mE, i, chars))
    (hp : processCharRef (mE.setCharRef none) chars = (mD, .cont)) :
    finish o pol m = finishTail o pol mD i := by
  unfold finish finishTail
  simp only [hcr, he, hp]
  rfl

/-- **C14 at end of input.** A text `s` after `&` that does not decide (`needMore`) — `&amp`,
`&#`, `&#x41`, `&noti`, `&zz` with nothing after it — is used up with the sub-tokenizer `Stuck`
(machine `m1`, `k ≤ |s| + 3` steps); `Tokenizer::end` on `m1` then resolves the reference as the
standard does when the text ends there (`specCharRef inAttr s true`): it continues as
`finishTail` from `m` with the standard's characters delivered and `s.drop n` (the un-consumed
text, in order) as its input, a parse error reported iff the standard reports one. -/
theorem C14_eof_resolves (o : Opts) (pol : Pol) (inAttr : Bool) (m : Mach) (hf : Fresh m inAttr) (s : Str)
    (hspec : Spec.CharRef.specCharRef inAttr s false = .needMore) :
    ∃ chars n err, Spec.CharRef.specCharRef inAttr s true = .resolved chars n err ∧
    ∃ errs lf k m1, Steps o m s m1 [] k ∧ k ≤ s.length + 3 ∧
      (∀ fuel, k < fuel → crRun o fuel m s = .stuck m1 []) ∧
      ErrsOk m errs err ∧ (lf = m.ignoreLf ∨ lf = false) ∧
      finish o pol m1 = finishTail o pol (deliver inAttr m errs lf chars) (s.drop n) := by
  obtain ⟨chars, n, err, hs, crm, k, errs, lf, cx, chars', hst, hk, heof, hch, he, hl⟩ :=
    eof_resolves o inAttr hf.nr s hspec
  refine ⟨chars, n, err, hs, errs, lf, k, m.setCharRef (some crm), ?_, hk, ?_, he, hl, ?_⟩
  · rw [setCR_self hf.cr] at hst; exact hst
  · intro fuel hfu
    rw [setCR_self hf.cr] at hst
    exact crRun_stuck o hst hf.nr fuel hfu
  · apply finish_of_crEof o pol _ crm _ _ chars' _ rfl heof
    rw [pend_setCR, process_deliver_eof inAttr m errs lf chars' hf.st, hch]

/-- **a decision of the standard is final**: `resolved …` on the text received so far is the
outcome on every extension, whether or not the stream ends there -/
theorem C14_spec_decision_final (inAttr : Bool) (s e : Str) (atEof : Bool) (chars : Str) (n : Nat) (err : Bool)
    (h : Spec.CharRef.specCharRef inAttr s false = .resolved chars n err) :
    Spec.CharRef.specCharRef inAttr (s ++ e) atEof = .resolved chars n err :=
  spec_stable inAttr s e atEof chars n err h

/-- the reference never reaches beyond the text -/
theorem C14_spec_consumed_le (inAttr : Bool) (s : Str) (atEof : Bool) (chars : Str) (n : Nat) (err : Bool)
    (h : Spec.CharRef.specCharRef inAttr s atEof = .resolved chars n err) : n ≤ s.length :=
  spec_consumed_le inAttr s atEof chars n err h

/-- **C14 for a complete stream.** `w` is everything that follows the `&` up to the end of the
stream; the standard resolves the reference to `(chars, n, err) = specCharRef inAttr w true`. The
model does the same: either during the run on `w` (`Resolves`), or — when the text alone does not
decide — in `Tokenizer::end` on the stuck machine `m1`. -/
theorem C14_every_reference (o : Opts) (pol : Pol) (inAttr : Bool) (m : Mach) (hf : Fresh m inAttr) (w : Str) :
    ∃ chars n err, Spec.CharRef.specCharRef inAttr w true = .resolved chars n err ∧
      (Resolves o inAttr m w chars n err ∨
       ∃ errs lf k m1, Steps o m w m1 [] k ∧ (∀ fuel, k < fuel → crRun o fuel m w = .stuck m1 []) ∧
         ErrsOk m errs err ∧ (lf = m.ignoreLf ∨ lf = false) ∧
         finish o pol m1 = finishTail o pol (deliver inAttr m errs lf chars) (w.drop n)) := by
  cases h : Spec.CharRef.specCharRef inAttr w false with
  | resolved chars n err =>
    exact ⟨chars, n, err, spec_false_true inAttr w chars n err h,
      Or.inl (C14_run_resolves o inAttr m hf w chars n err h)⟩
  | needMore =>
    obtain ⟨chars, n, err, hs, errs, lf, k, m1, h1, _, h3, h4, h5, h6⟩ := C14_eof_resolves o pol inAttr m hf w h
    exact ⟨chars, n, err, hs, Or.inr ⟨errs, lf, k, m1, h1, h3, h4, h5, h6⟩⟩

/-! ### chunking (C03) -/

theorem runP_of_steps (o : Opts) (pol : Pol) {m : Mach} {inp : Str} {m' : Mach} {inp' : Str} {k : Nat}
    (h : Steps o m inp m' inp' k) (f : Nat) :
    C03.runP o pol (k + f) m inp = C03.runP o pol f m' inp' := by
  induction h with
  | refl => simp
  | @step _ _ _ _ _ _ _ k' hc hs _ ih =>
    have : k' + 1 + f = (k' + f) + 1 := by omega
    rw [this]
    simp only [C03.runP, step_kind_charRef o pol _ _ _ hc, hs]
    exact ih

theorem runP_mono (o : Opts) (pol : Pol) (f : Nat) : ∀ (m : Mach) (inp : Str) (x : Mach) (d : Nat),
    C03.runP o pol f m inp = some x → C03.runP o pol (f + d) m inp = some x := by
  induction f with
  | zero => intro m inp x d h; simp [C03.runP] at h
  | succ f ih =>
    intro m inp x d h
    have : f + 1 + d = (f + d) + 1 := by omega
    rw [this]
    unfold C03.runP at h ⊢
    cases hs : step o pol m inp with
    | cont m1 i1 => rw [hs] at h; simp only; exact ih _ _ _ _ h
    | script m1 i1 => rw [hs] at h; simp only; exact ih _ _ _ _ h
    | indicator m1 i1 => rw [hs] at h; simp only; exact ih _ _ _ _ h
    | suspend m1 i1 =>
      rw [hs] at h
      cases i1 with
      | nil => exact h
      | cons y ys => simp at h
    | panic e => rw [hs] at h; simp at h

/-- **C14 under chunking.** The text after the `&` may arrive in any number of pieces (`chunks`,
empty and one-character pieces included): if feeding them one after the other runs each to
suspension and ends in `mf`, then the one-piece run on their concatenation `s` delivers the same
`(token, line)` sequence (`mf'.out = mf.out`, machines equal up to a dead `current_char`) — and
that one-piece run starts by resolving the reference exactly as the standard prescribes for `s`
and continues from the resolved machine on `s.drop n`. -/
theorem C14_run_chunked (o : Opts) (pol : Pol) (inAttr : Bool) (m : Mach) (hf : Fresh m inAttr)
    (hg : Good m) (hat : m.atEof = false) (chunks : List Str) (hne : chunks ≠ []) (fuel : Nat) (mf : Mach)
    (hfeed : C03.feedAll o pol fuel m chunks = some mf)
    (chars : Str) (n : Nat) (err : Bool)
    (hspec : Spec.CharRef.specCharRef inAttr chunks.flatten false = .resolved chars n err) :
    ∃ mf' errs lf fuel', ErrsOk m errs err ∧ (lf = m.ignoreLf ∨ lf = false) ∧
      C03.runP o pol fuel' (deliver inAttr m errs lf chars) (chunks.flatten.drop n) = some mf' ∧
      mf'.out = mf.out ∧ Sim mf' mf := by
  obtain ⟨mf', f0, hrun, hout, hsim⟩ := C03.C03_chunk_independence o pol fuel m chunks mf hg hat hne hfeed
  obtain ⟨errs, lf, k, hs, _, he, hl⟩ := C14_run_resolves o inAttr m hf chunks.flatten chars n err hspec
  refine ⟨mf', errs, lf, f0, he, hl, ?_, hout, hsim⟩
  have h1 := runP_mono o pol f0 m chunks.flatten mf' k hrun
  rw [Nat.add_comm, runP_of_steps o pol hs] at h1
  exact h1

/-! ### non-vacuity: the five examples through the spec and through the model -/
namespace Ex

def polNone : Pol := { onTag := fun _ _ => .continue_, cdataOk := fun _ => false }

/-- fresh machine in the data state right after `&` -/
def mData : Mach := (consumeCharRef {}).1
/-- fresh machine in the double-quoted attribute value state right after `&` -/
def mAttr : Mach := (consumeCharRef { state := .attributeValue .doubleQuoted }).1

theorem fresh_data : Fresh mData false :=
  (C14_fresh_of_consume {} rfl rfl (Or.inl rfl)).2
theorem fresh_attr : Fresh mAttr true :=
  (C14_fresh_of_consume { state := .attributeValue .doubleQuoted } rfl rfl (Or.inr (Or.inr ⟨_, rfl⟩))).2

/-- what a `crRun` left: delivered tokens (oldest first, line numbers dropped), the attribute value
register, the input left -/
def view (r : CRRunRes) : Option (List Token × Str × Str) :=
  match r with
  | .resolved m inp => some (m.out.reverse.map (·.1), m.attrValue, inp)
  | _ => none

def err (s : String) : Token := .error s.toList

-- `&notit;` ⇒ `¬it;` (longest match `not`, missing semicolon)
example : Spec.CharRef.specCharRef false "notit;".toList false = .resolved ['¬'] 3 true := by decide +kernel
example : view (crRun ⟨false⟩ 20 mData "notit;".toList) =
    some ([err "Character reference does not end with semicolon", .chars ['¬']], [], "it;".toList) := by
  decide +kernel

-- `&amp=` in an attribute value ⇒ literal text, no error
example : Spec.CharRef.specCharRef true "amp=".toList false = .resolved ['&'] 0 false := by decide +kernel
example : view (crRun ⟨false⟩ 20 mAttr "amp=".toList) = some ([], ['&'], "amp=".toList) := by decide +kernel
-- … while in data it is `&` + `=` with an error
example : Spec.CharRef.specCharRef false "amp=".toList false = .resolved ['&'] 3 true := by decide +kernel

-- `&#x80;` ⇒ € (C1 table), with an error
example : Spec.CharRef.specCharRef false "#x80;".toList false = .resolved ['€'] 5 true := by decide +kernel
example : view (crRun ⟨false⟩ 20 mData "#x80;".toList) =
    some ([err "Invalid numeric character reference", .chars ['€']], [], []) := by decide +kernel

-- `&#4294967297;` (2^32 + 1) ⇒ U+FFFD: the u32 register wraps to 1, the latch remembers
example : Spec.CharRef.specCharRef false "#4294967297;".toList false = .resolved ['�'] 12 true := by
  decide +kernel
example : view (crRun ⟨false⟩ 20 mData "#4294967297;".toList) =
    some ([err "Invalid numeric character reference", .chars ['�']], [], []) := by decide +kernel

-- `&zz;` ⇒ literal `&zz;` + error (ambiguous ampersand followed by `;`)
example : Spec.CharRef.specCharRef false "zz;".toList false = .resolved ['&'] 0 true := by decide +kernel
example : view (crRun ⟨false⟩ 20 mData "zz;".toList) =
    some ([err "Invalid character reference", .chars ['&']], [], "zz;".toList) := by decide +kernel

-- end of input: `&amp`, `&#`, `&noti`
example : Spec.CharRef.specCharRef false "amp".toList false = .needMore ∧
    Spec.CharRef.specCharRef false "amp".toList true = .resolved ['&'] 3 true := by decide +kernel
example : Spec.CharRef.specCharRef false "#".toList false = .needMore ∧
    Spec.CharRef.specCharRef false "#".toList true = .resolved ['&'] 0 true := by decide +kernel
example : Spec.CharRef.specCharRef false "noti".toList false = .needMore ∧
    Spec.CharRef.specCharRef false "noti".toList true = .resolved ['¬'] 3 true := by decide +kernel

/-- the whole tokenizer on `x&noti` then `Tokenizer::end`: `x`, error, `¬`, `i`, EOF -/
example : (match C03.runP ⟨false⟩ polNone 50 { discardBom := false } "x&noti".toList with
           | some m1 => (match finish ⟨false⟩ polNone m1 with
                         | .ok m2 => some (m2.out.reverse.map (fun (p : Token × Nat) => p.1))
                         | .error _ => none)
           | none => none) =
    some [.chars ['x'], err "Character reference does not end with semicolon", .chars ['¬'], .chars ['i'], .eof] := by
  decide +kernel

/-- the theorem instantiated: `&notit;` in data -/
example : Resolves ⟨false⟩ false mData "notit;".toList ['¬'] 3 true :=
  C14_run_resolves ⟨false⟩ false mData fresh_data _ _ _ _ (by decide +kernel)

end Ex

end H5V.Props.C14

#print axioms H5V.Props.C14.C14_run_none
#print axioms H5V.Props.C14.C14_run_named
#print axioms H5V.Props.C14.C14_run_numeric
#print axioms H5V.Props.C14.C14_run_resolves
#print axioms H5V.Props.C14.C14_crRun
#print axioms H5V.Props.C14.C14_run_in_tokenizer
#print axioms H5V.Props.C14.C14_spec_total_at_eof
#print axioms H5V.Props.C14.C14_eof_resolves
#print axioms H5V.Props.C14.C14_run_chunked
#print axioms H5V.Props.C14.C14_fresh_of_consume
#print axioms H5V.Props.C14.C14_amp_starts_reference
#print axioms H5V.Props.C14.C14_amp_resolves
#print axioms H5V.Props.C14.C14_spec_decision_final
#print axioms H5V.Props.C14.C14_spec_consumed_le
#print axioms H5V.Props.C14.C14_every_reference
