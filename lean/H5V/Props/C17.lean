import H5V.Model.XmlTB
import H5V.Model.XmlSer
import H5V.Lemmas.XmlTB
import H5V.Lemmas.XmlSer
import H5V.Lemmas.XmlSerFixed
/-!
C17 — XML serializer output re-parses to the same namespaced tree.
-/
namespace H5V.Props.C17
open H5V.Model.XmlTB H5V.Model.XmlSer H5V.Lemmas.XmlTB H5V.Lemmas.XmlSer H5V.Lemmas.XmlSerFixed

/-! ## 1. escaping is reversible -/

/-- decoding the references undoes `write_to_buf_escaped`, text and attribute mode, every string -/
theorem C17_unescape_escape (cfg : SerCfg) (attrMode : Bool) (s : Str) :
    unescape (escape cfg attrMode s) = s := unescape_escape cfg attrMode s

/-- escaped character data contains no `<`, an escaped attribute value no `"`: the lexer cannot
leave the text / the quoted value early -/
theorem C17_escape_delimiters (cfg : SerCfg) (s : Str) :
    '<' ∉ escape cfg false s ∧ '"' ∉ escape cfg true s := by
  constructor
  · intro h; obtain ⟨c, _, hc⟩ := mem_escape cfg false '<' s h; exact escapeChar_text_no_lt cfg c hc
  · intro h; obtain ⟨c, _, hc⟩ := mem_escape cfg true '"' s h; exact escapeChar_attr_no_quote cfg c hc

/-- text comes back unchanged through newline normalisation + reference decoding — `_partial`:
provided it contains no U+000D (or the serializer escapes it, `SerCfg.escapeCR`).
Full statement: for every `s`; false on the pinned tree: `C17_witness_cr`. -/
theorem C17_text_roundtrip_partial (cfg : SerCfg) (s : Str) (h : '\r' ∉ s ∨ cfg.escapeCR = true) :
    lexText (escape cfg false s) = s := lexText_escape cfg s h

/-- attribute values come back unchanged — as long as the tokenizer does not normalise CR inside
attribute values (pinned tree, DESIGN item 12), else under the same proviso as text -/
theorem C17_attr_roundtrip_partial (cfg : SerCfg) (lcfg : LexCfg) (s : Str)
    (h : lcfg.attrCRNormalised = false ∨ '\r' ∉ s ∨ cfg.escapeCR = true) :
    lexAttrValue lcfg (escape cfg true s) = s := by
  unfold lexAttrValue
  rcases h with h | h
  · simp [h, unescape_escape]
  · split
    · rw [normalize_noCR _ (escape_noCR cfg true s h), unescape_escape]
    · exact unescape_escape cfg true s

/-- witness of item 15c: a text node `"\r"` (reachable through `&#13;`) is written raw and read back
as `"\n"`; with `escapeCR` it survives -/
theorem C17_witness_cr :
    lexText (escape SerCfg.code false ['\r']) = ['\n'] ∧
    lexText (escape SerCfg.fixed false ['\r']) = ['\r'] := by
  constructor <;> decide

/-! ## 2. the round trip on a parsed document -/

/-- what may stand before the root element -/
def isPre : Node → Bool
  | .comment _ | .pi _ _ | .doctype _ _ _ => true
  | _ => false

/-- what may stand after the root element -/
def isMisc : Node → Bool
  | .comment _ | .pi _ _ => true
  | _ => false

/-- doctype ids are outside the serializer API -/
def stripId : Node → Node
  | .doctype n _ _ => .doctype n [] []
  | x => x

/-- the event of a comment / PI / doctype -/
def evOfMisc : Node → Ev
  | .comment s => .comment s
  | .pi t d => .pi t d
  | .doctype n _ _ => .doctype n
  | .text s => .text s
  | .elem n _ _ => .endTag n   -- not used

theorem spells_pre (pre : List Node) (hpre : ∀ x ∈ pre, isPre x = true) (ns : List Node)
    (evs : List Ev) (h : Spells evs (pre ++ ns)) :
    ∃ evs', evs = pre.map evOfMisc ++ evs' ∧ Spells evs' ns := by
  induction pre generalizing evs with
  | nil => exact ⟨evs, rfl, h⟩
  | cons x rest ih =>
    have hx := hpre x (by simp)
    have hr : ∀ y ∈ rest, isPre y = true := fun y hy => hpre y (by simp [hy])
    match x, hx, h with
    | .comment s, _, .comment h' =>
      obtain ⟨e, he, hs⟩ := ih hr _ h'; exact ⟨e, by simp [evOfMisc, he], hs⟩
    | .pi t d, _, .pi h' =>
      obtain ⟨e, he, hs⟩ := ih hr _ h'; exact ⟨e, by simp [evOfMisc, he], hs⟩
    | .doctype n p sy, _, .doctype h' =>
      obtain ⟨e, he, hs⟩ := ih hr _ h'; exact ⟨e, by simp [evOfMisc, he], hs⟩

theorem okEvs_pre (scfg : SerCfg) (lcfg : LexCfg) (tcfg : TbCfg) (pst : List NsMap) (pre : List Node)
    (hpre : ∀ x ∈ pre, isPre x = true) (rest : List Ev) :
    okEvs scfg lcfg tcfg pst (pre.map evOfMisc ++ rest) = okEvs scfg lcfg tcfg pst rest := by
  induction pre with
  | nil => rfl
  | cons x xs ih =>
    have hx := hpre x (by simp)
    have hr : ∀ y ∈ xs, isPre y = true := fun y hy => hpre y (by simp [hy])
    match x, hx with
    | .comment s, _ => simpa [evOfMisc, okEvs] using ih hr
    | .pi t d, _ => simpa [evOfMisc, okEvs] using ih hr
    | .doctype n p sy, _ => simpa [evOfMisc, okEvs] using ih hr

theorem optStr_doctype (n : Str) : optStr (if n = [] then none else some n) = n := by
  unfold optStr; split <;> simp_all

/-- what the parser can leave before the root element: comments, PIs and at most one doctype
(`seen` = a doctype has already been appended; /repo commit b61995b) -/
def preOK : Bool → List Node → Prop
  | _, [] => True
  | seen, .doctype _ _ _ :: rest => seen = false ∧ preOK true rest
  | seen, .comment _ :: rest => preOK seen rest
  | seen, .pi _ _ :: rest => preOK seen rest
  | _, .text _ :: _ => False
  | _, .elem _ _ _ :: _ => False

theorem preOK_isPre (seen : Bool) (pre : List Node) (h : preOK seen pre) : ∀ x ∈ pre, isPre x = true := by
  induction pre generalizing seen with
  | nil => intro x hx; cases hx
  | cons y rest ih =>
    intro x hx
    match y, h with
    | .doctype _ _ _, h =>
      rcases List.mem_cons.mp hx with rfl | hx
      · rfl
      · exact ih true h.2 x hx
    | .comment _, h =>
      rcases List.mem_cons.mp hx with rfl | hx
      · rfl
      · exact ih seen h x hx
    | .pi _ _, h =>
      rcases List.mem_cons.mp hx with rfl | hx
      · rfl
      · exact ih seen h x hx

/-- Start phase: comments, PIs and the doctype before the root go to the document, ids dropped -/
theorem run_pre (scfg : SerCfg) (lcfg : LexCfg) (tcfg : TbCfg) (pre : List Node)
    (s : State) (more : List Token) (hpre : preOK s.doctypeSeen pre)
    (hp : s.phase = .start) (ho : s.opened = []) (hr : s.root = none) :
    ∃ s', run tcfg s ((pre.map evOfMisc).filterMap (lexEv scfg lcfg) ++ more) = run tcfg s' more ∧
      s'.phase = .start ∧ s'.opened = [] ∧ s'.root = none ∧ s'.nsStack = s.nsStack ∧
      s'.docBefore = (pre.map stripId).reverse ++ s.docBefore ∧ s'.docAfter = s.docAfter := by
  induction pre generalizing s with
  | nil => exact ⟨s, rfl, hp, ho, hr, rfl, by simp, rfl⟩
  | cons x xs ih =>
    have hroot : s.hasRoot = false := by simp [State.hasRoot, ho, hr]
    match x, hpre with
    | .comment c, hpre =>
      obtain ⟨s', h', a, b, c', d, e, f⟩ := ih (s.appendDoc (.comment c)) (by simpa [State.appendDoc, hroot, preOK] using hpre)
        (by simp [State.appendDoc, hroot, hp]) (by simp [State.appendDoc, hroot, ho]) (by simp [State.appendDoc, hroot, hr])
      refine ⟨s', ?_, a, b, c', by simpa [State.appendDoc, hroot] using d, ?_, by simpa [State.appendDoc, hroot] using f⟩
      · simp only [List.map_cons, evOfMisc, List.filterMap_cons, lexEv, List.cons_append]
        rw [run_cons]; unfold step; simp only [hp, Except.bind]; exact h'
      · rw [e]; simp [State.appendDoc, hroot, stripId]
    | .pi t d, hpre =>
      obtain ⟨s', h', a, b, c', d', e, f⟩ := ih (s.appendDoc (.pi t d)) (by simpa [State.appendDoc, hroot, preOK] using hpre)
        (by simp [State.appendDoc, hroot, hp]) (by simp [State.appendDoc, hroot, ho]) (by simp [State.appendDoc, hroot, hr])
      refine ⟨s', ?_, a, b, c', by simpa [State.appendDoc, hroot] using d', ?_, by simpa [State.appendDoc, hroot] using f⟩
      · simp only [List.map_cons, evOfMisc, List.filterMap_cons, lexEv, List.cons_append]
        rw [run_cons]; unfold step; simp only [hp, Except.bind]; exact h'
      · rw [e]; simp [State.appendDoc, hroot, stripId]
    | .doctype n p sy, hpre =>
      obtain ⟨hseen, hrest⟩ := hpre
      obtain ⟨s', h', a, b, c', d', e, f⟩ := ih (({ s with doctypeSeen := true } : State).appendDoc (.doctype n [] []))
        (by simpa [State.appendDoc, State.hasRoot, ho, hr] using hrest)
        (by simp [State.appendDoc, State.hasRoot, ho, hr, hp]) (by simp [State.appendDoc, State.hasRoot, ho, hr])
        (by simp [State.appendDoc, State.hasRoot, ho, hr])
      refine ⟨s', ?_, a, b, c', by simpa [State.appendDoc, State.hasRoot, ho, hr] using d', ?_,
        by simpa [State.appendDoc, State.hasRoot, ho, hr] using f⟩
      · simp only [List.map_cons, evOfMisc, List.filterMap_cons, lexEv, List.cons_append]
        rw [run_cons]; unfold step; simp only [hp, hseen, Bool.false_eq_true, ↓reduceIte, Except.bind, optStr_doctype]
        have : optStr none = [] := rfl
        simp only [this]; rw [hp] at h'; exact h'
      · rw [e]; simp [State.appendDoc, State.hasRoot, ho, hr, stripId]

/-- End phase: comments and PIs after the root go to the document -/
theorem run_post (scfg : SerCfg) (lcfg : LexCfg) (tcfg : TbCfg) (post : List Node)
    (hpost : ∀ x ∈ post, isMisc x = true) (s : State) (more : List Token)
    (hp : s.phase = .end_) (hr : s.root.isSome = true) :
    ∃ s', run tcfg s ((post.map evOfMisc).filterMap (lexEv scfg lcfg) ++ more) = run tcfg s' more ∧
      s'.phase = .end_ ∧ s'.root = s.root ∧ s'.opened = s.opened ∧
      s'.docBefore = s.docBefore ∧ s'.docAfter = post.reverse ++ s.docAfter := by
  induction post generalizing s with
  | nil => exact ⟨s, rfl, hp, rfl, rfl, rfl, by simp⟩
  | cons x xs ih =>
    have hx := hpost x (by simp)
    have hrs : ∀ y ∈ xs, isMisc y = true := fun y hy => hpost y (by simp [hy])
    have hroot : s.hasRoot = true := by simp [State.hasRoot, hr]
    match x, hx with
    | .comment c, _ =>
      obtain ⟨s', h', a, b, c', d, e⟩ := ih hrs (s.appendDoc (.comment c)) (by simp [State.appendDoc, hroot, hp])
        (by simp [State.appendDoc, hroot, hr])
      refine ⟨s', ?_, a, by simpa [State.appendDoc, hroot] using b, by simpa [State.appendDoc, hroot] using c',
        by simpa [State.appendDoc, hroot] using d, ?_⟩
      · simp only [List.map_cons, evOfMisc, List.filterMap_cons, lexEv, List.cons_append]
        rw [run_cons]; unfold step; simp only [hp, Except.bind]; exact h'
      · rw [e]; simp [State.appendDoc, hroot]
    | .pi t d, _ =>
      obtain ⟨s', h', a, b, c', d', e⟩ := ih hrs (s.appendDoc (.pi t d)) (by simp [State.appendDoc, hroot, hp])
        (by simp [State.appendDoc, hroot, hr])
      refine ⟨s', ?_, a, by simpa [State.appendDoc, hroot] using b, by simpa [State.appendDoc, hroot] using c',
        by simpa [State.appendDoc, hroot] using d', ?_⟩
      · simp only [List.map_cons, evOfMisc, List.filterMap_cons, lexEv, List.cons_append]
        rw [run_cons]; unfold step; simp only [hp, Except.bind]; exact h'
      · rw [e]; simp [State.appendDoc, hroot]

theorem step_start_root (cfg : TbCfg) (s : State) (nm : RName) (as : List RAttr)
    (hp : s.phase = .start) (ho : s.opened = []) :
    ∃ s', step cfg s (.tag ⟨.start, nm, as⟩) = .ok s' ∧ s'.phase = .main ∧
      s'.opened = [⟨(processNamespaces cfg s.nsStack ⟨.start, nm, as⟩).name,
                    (processNamespaces cfg s.nsStack ⟨.start, nm, as⟩).attrs, []⟩] ∧
      s'.nsStack = (processNamespaces cfg s.nsStack ⟨.start, nm, as⟩).map :: s.nsStack ∧ SameDoc s s' := by
  unfold step
  simp only [hp]
  refine ⟨_, rfl, rfl, by simp [ho], by simp [applyNs_nsStack, pushesMap], ?_⟩
  unfold applyNs; simp only []; split <;> exact ⟨rfl, rfl, rfl⟩

theorem step_main_end_root (cfg : TbCfg) (s : State) (g : Frame) (nm : RName)
    (hp : s.phase = .main) (hs : s.opened = [g])
    (hnm : (processNamespaces cfg s.nsStack ⟨.end_, nm, []⟩).name = g.name) :
    ∃ s', step cfg s (.tag ⟨.end_, nm, []⟩) = .ok s' ∧ s'.phase = .end_ ∧ s'.opened = [] ∧
      s'.root = some g.close ∧ s'.docBefore = s.docBefore ∧ s'.docAfter = s.docAfter := by
  unfold step
  simp only [hp]
  have ho : (applyNs cfg s ⟨.end_, nm, []⟩).1.opened = [g] := by simp [hs]
  rw [closeTag_root _ _ g ho (by simpa using hnm.symm)]
  simp only [Except.map, setEndIfEmpty, List.isEmpty_nil, ↓reduceIte]
  refine ⟨_, rfl, rfl, rfl, rfl, ?_, ?_⟩
  · unfold applyNs; simp only []; split <;> rfl
  · unfold applyNs; simp only []; split <;> rfl

/-- **C17 (round trip)**, `_partial`.  A document as the parser builds it — comments / PIs / at most
one doctype (`preOK`), then the root element, then comments / PIs; element content without doctypes, empty text
or adjacent text nodes, no U+000D in text (`nodesOK`) — is serialized to an event stream; that stream,
lexed (`lexEv`: names split at the colon, references decoded, CR/LF normalised, declarations and
attributes through the tokenizer's duplicate-attribute step) and fed to the tree-builder model, yields
a document with exactly the same children: element and attribute prefixes, namespace URIs and local
names, attribute order and values, text, comments, PIs, nesting (doctype ids dropped) —

PROVIDED every start tag of the output resolves, in the scope of the xmlns declarations written so
far, to the element's own name and attribute list (`okEvs`, a decidable check on the output).

Full statement (the property): no `okEvs` hypothesis, no CR proviso.  It is false on the pinned
tree — `C17_witness_attr_prefix` (15a), `C17_witness_default_undeclared` (15b), `C17_witness_cr`
(15c), `C17_witness_sibling_leak` (15d), `C17_witness_item14` — because the serializer does not write
the declarations `okEvs` asks for.  For the serializer with the fixes (`SerCfg.fixed`, what /repo
does now) `okEvs` is a theorem (`C17_okEvs_fixed`), giving `C17_roundtrip_fixed` without side
condition. -/
theorem C17_roundtrip_partial (scfg : SerCfg) (lcfg : LexCfg) (tcfg : TbCfg)
    (pre post ks : List Node) (n : QName) (as : List Attr)
    (hpre' : preOK false pre) (hpost : ∀ x ∈ post, isMisc x = true)
    (hks : nodesOK scfg false ks)
    (hok : okEvs scfg lcfg tcfg [defaultMap] (serDoc scfg (pre ++ .elem n as ks :: post)) = true) :
    ∃ s, reparse scfg lcfg tcfg (pre ++ .elem n as ks :: post) = .ok s ∧
      s.document = pre.map stripId ++ .elem n as ks :: post := by
  have hpre := preOK_isPre false pre hpre'
  unfold reparse lexAll
  have hsp := serNodes_spells scfg [] (pre ++ .elem n as ks :: post)
  change Spells (serDoc scfg (pre ++ .elem n as ks :: post)) _ at hsp
  generalize serDoc scfg (pre ++ .elem n as ks :: post) = evs at hsp hok
  obtain ⟨evs1, rfl, hsp1⟩ := spells_pre pre hpre _ evs hsp
  rw [okEvs_pre scfg lcfg tcfg _ pre hpre] at hok
  cases hsp1 with
  | @elem _ decls _ kevs _ pevs _ hk hp' =>
    obtain ⟨pevs', rfl, hnil⟩ := spells_pre post (fun x hx => by
      have := hpost x hx; cases x <;> simp_all [isMisc, isPre]) [] pevs (by simpa using hp')
    cases hnil
    simp only [okEvs, Bool.and_eq_true, beq_iff_eq] at hok
    obtain ⟨⟨hbn, hba⟩, hok2⟩ := hok
    rw [okEvs_append scfg lcfg tcfg hk, Bool.and_eq_true] at hok2
    -- prolog
    obtain ⟨s1, h1, hp1, ho1, hr1, hns1, hdb1, hda1⟩ := run_pre scfg lcfg tcfg pre State.init
      ((Ev.startTag n decls as :: (kevs ++ Ev.endTag n :: (post.map evOfMisc ++ []))).filterMap (lexEv scfg lcfg) ++ [.eof])
      hpre' rfl rfl rfl
    -- root start tag
    obtain ⟨s2, h2, hp2, ho2, hns2, hd2⟩ := step_start_root tcfg s1 (splitQName (rawName n))
      (tagOf scfg lcfg n decls as).attrs hp1 ho1
    rw [← tagOf_kind, hns1] at ho2 hns2
    have hinit : State.init.nsStack = [defaultMap] := rfl
    rw [hinit] at ho2 hns2
    rw [hbn, hba] at ho2
    -- content
    obtain ⟨s3, h3, hp3, ho3, hns3, hd3⟩ := run_spells scfg lcfg tcfg hk s2 ⟨n, as, []⟩ []
      (.tag ⟨.end_, splitQName (rawName n), []⟩ :: ((post.map evOfMisc).filterMap (lexEv scfg lcfg) ++ [.eof]))
      hp2 ho2 (by rw [hns2]; exact hok2.1) (by simpa [prevText] using hks)
    -- root end tag
    have hname : (processNamespaces tcfg s3.nsStack ⟨.end_, splitQName (rawName n), []⟩).name = n := by
      rw [hns3, hns2, endTag_name]
      have := processNamespaces_name tcfg [defaultMap] (tagOf scfg lcfg n decls as)
      exact this.symm.trans hbn
    obtain ⟨s4, h4, hp4, ho4, hr4, hdb4, hda4⟩ := step_main_end_root tcfg s3 _ (splitQName (rawName n)) hp3 ho3
      (by rw [hname])
    -- epilog
    obtain ⟨s5, h5, hp5, hr5, ho5, hdb5, hda5⟩ := run_post scfg lcfg tcfg post hpost s4 [.eof] hp4 (by simp [hr4])
    refine ⟨s5, ?_, ?_⟩
    · simp only [List.append_nil, List.filterMap_append, List.filterMap_cons, lexEv, List.cons_append,
        List.append_assoc] at h1 ⊢
      rw [h1, run_cons]
      have : (Token.tag (finishTag lcfg.tok ⟨.start, rawName n,
          decls.map (fun d => ⟨declName d.1, lexAttrValue lcfg (declValue scfg d.2)⟩) ++
          as.map (fun a => ⟨rawName a.name, lexAttrValue lcfg (escape scfg true a.value)⟩)⟩)) =
          .tag ⟨.start, splitQName (rawName n), (tagOf scfg lcfg n decls as).attrs⟩ := rfl
      rw [this, h2]
      simp only [Except.bind]
      rw [h3, run_cons, h4]
      simp only [Except.bind]
      rw [h5, run_cons]
      unfold step
      simp only [hp5, Except.bind]
      rfl
    · unfold State.document
      rw [hr5, hr4, hdb5, hdb4, hd3.docBefore, hd2.docBefore, hdb1, hda5, hda4, hd3.docAfter, hd2.docAfter, hda1]
      simp [State.init, Frame.close]

/-! ## 3. witnesses: where the pinned serializer breaks the round trip -/

def qn (p : Option String) (ns l : String) : QName := ⟨p.map String.toList, ns.toList, l.toList⟩
def el (p : Option String) (ns l : String) (as : List Attr) (ks : List Node) : Node := .elem (qn p ns l) as ks
def at' (p : Option String) (ns l v : String) : Attr := ⟨qn p ns l, v.toList⟩

/-- `<a xmlns:p="u" p:x="1"/>` -/
def docAttrPrefix : List Node := [el none "" "a" [at' (some "p") "u" "x" "1"] []]
/-- `<a xmlns="u"><b xmlns=""/></a>` -/
def docDefaultUndecl : List Node := [el none "u" "a" [] [el none "" "b" [] []]]
/-- `<r><p:a xmlns:p="u"/><p:b xmlns:p="u"/></r>` -/
def docSiblingLeak : List Node := [el none "" "r" [] [el (some "p") "u" "a" [] [], el (some "p") "u" "b" [] []]]
/-- `<p:a p="1" xmlns:p="u"/>` -/
def docItem14 : List Node := [el (some "p") "u" "a" [at' none "" "p" "1"] []]
/-- `<a xmlns='x"y'/>` -/
def docUriQuote : List Node := [el none "x\"y" "a" [] []]

/-- witness 15a: the attribute's prefix is never declared — the re-parsed attribute is in no
namespace; the side condition `okEvs` is false -/
theorem C17_witness_attr_prefix :
    (∃ s, reparse SerCfg.code LexCfg.code TbCfg.code docAttrPrefix = .ok s ∧
      s.document = [el none "" "a" [at' (some "p") "" "x" "1"] []]) ∧
    render SerCfg.code (serDoc SerCfg.code docAttrPrefix) = "<a p:x=\"1\"></a>".toList ∧
    okEvs SerCfg.code LexCfg.code TbCfg.code [defaultMap] (serDoc SerCfg.code docAttrPrefix) = false :=
  ⟨⟨_, rfl, rfl⟩, by decide, by decide⟩

/-- witness 15b: `xmlns=""` is never written — the child lands in the parent's default namespace -/
theorem C17_witness_default_undeclared :
    (∃ s, reparse SerCfg.code LexCfg.code TbCfg.code docDefaultUndecl = .ok s ∧
      s.document = [el none "u" "a" [] [el none "u" "b" [] []]]) ∧
    render SerCfg.code (serDoc SerCfg.code docDefaultUndecl) = "<a xmlns=\"u\"><b></b></a>".toList ∧
    okEvs SerCfg.code LexCfg.code TbCfg.code [defaultMap] (serDoc SerCfg.code docDefaultUndecl) = false :=
  ⟨⟨_, rfl, rfl⟩, by decide, by decide⟩

/-- witness 15d: `end_elem` registers `p ↦ u` in the parent's map after popping the element's own, so
the following sibling gets no declaration and loses its namespace -/
theorem C17_witness_sibling_leak :
    (∃ s, reparse SerCfg.code LexCfg.code TbCfg.code docSiblingLeak = .ok s ∧
      s.document = [el none "" "r" [] [el (some "p") "u" "a" [] [], el (some "p") "" "b" [] []]]) ∧
    render SerCfg.code (serDoc SerCfg.code docSiblingLeak) =
      "<r><p:a xmlns:p=\"u\"></p:a><p:b></p:b></r>".toList ∧
    okEvs SerCfg.code LexCfg.code TbCfg.code [defaultMap] (serDoc SerCfg.code docSiblingLeak) = false :=
  ⟨⟨_, rfl, rfl⟩, by decide, by decide⟩

/-- witness (item 14 through the serializer): the declaration `xmlns:p` is written before the
attribute `p`, whose raw name equals the declaration's local part — the tokenizer drops it -/
theorem C17_witness_item14 :
    (∃ s, reparse SerCfg.code LexCfg.code TbCfg.code docItem14 = .ok s ∧
      s.document = [el (some "p") "u" "a" [] []]) ∧
    render SerCfg.code (serDoc SerCfg.code docItem14) = "<p:a xmlns:p=\"u\" p=\"1\"></p:a>".toList ∧
    okEvs SerCfg.code LexCfg.code TbCfg.code [defaultMap] (serDoc SerCfg.code docItem14) = false :=
  ⟨⟨_, rfl, rfl⟩, by decide, by decide⟩

/-- witness 15e: a namespace URI is written without escaping; a quote in it ends the attribute value -/
theorem C17_witness_uri_unescaped :
    render SerCfg.code (serDoc SerCfg.code docUriQuote) = "<a xmlns=\"x\"y\"></a>".toList ∧
    render SerCfg.fixed (serDoc SerCfg.fixed docUriQuote) = "<a xmlns=\"x&quot;y\"></a>".toList := by
  constructor <;> decide

/-- with every proposed fix switched on the five witness documents pass `okEvs` and come back
unchanged (the general statement for `SerCfg.fixed` is not proved) -/
theorem C17_fixed_examples :
    (∀ doc ∈ [docAttrPrefix, docDefaultUndecl, docSiblingLeak, docItem14, docUriQuote],
      okEvs SerCfg.fixed LexCfg.fixed TbCfg.fixed [defaultMap] (serDoc SerCfg.fixed doc) = true) ∧
    (∃ s, reparse SerCfg.fixed LexCfg.fixed TbCfg.fixed docAttrPrefix = .ok s ∧ s.document = docAttrPrefix) ∧
    (∃ s, reparse SerCfg.fixed LexCfg.fixed TbCfg.fixed docDefaultUndecl = .ok s ∧ s.document = docDefaultUndecl) ∧
    (∃ s, reparse SerCfg.fixed LexCfg.fixed TbCfg.fixed docSiblingLeak = .ok s ∧ s.document = docSiblingLeak) ∧
    (∃ s, reparse SerCfg.fixed LexCfg.fixed TbCfg.fixed docItem14 = .ok s ∧ s.document = docItem14) ∧
    (∃ s, reparse SerCfg.fixed LexCfg.fixed TbCfg.fixed docUriQuote = .ok s ∧ s.document = docUriQuote) :=
  ⟨by decide, ⟨_, rfl, rfl⟩, ⟨_, rfl, rfl⟩, ⟨_, rfl, rfl⟩, ⟨_, rfl, rfl⟩, ⟨_, rfl, rfl⟩⟩

/-- non-vacuity of `C17_roundtrip_partial` on the pinned tree: element-prefix namespaces, shadowing,
un-declared prefix, text / comment / PI content, escaping — `okEvs` holds and the theorem applies -/
def docGood : List Node :=
  [.doctype "r".toList "pub".toList [], .comment "c".toList,
   el (some "p") "u" "r" [at' none "" "k" "a<b&\"c\""]
     [.text "x<y&z".toList,
      el (some "p") "v" "s" [at' (some "p") "v" "w" "1"] [el (some "q") "" "t" [] [], .pi "pi".toList "d".toList],
      .comment " - ".toList],
   .pi "end".toList []]

example : okEvs SerCfg.code LexCfg.code TbCfg.code [defaultMap] (serDoc SerCfg.code docGood) = true := by
  decide

example : ∃ s, reparse SerCfg.code LexCfg.code TbCfg.code docGood = .ok s ∧
    s.document = docGood.map stripId := ⟨_, rfl, rfl⟩

/-! ## 4. the serializer with the fixes (what /repo does now): no side condition on the output -/

/-- **C17 (declarations)**: for every tree all of whose tags are parser-produced (`treesOK`: names that
re-split to themselves, `xml`/`xmlns` prefixes with their fixed URIs, the xmlns URI nowhere else, no
declaration attributes, unprefixed attributes in no namespace, distinct attribute names and expanded
names, one namespace per prefix within a tag) the fixed serializer writes declarations such that every
start tag — lexed, through the tokenizer's attribute step and `process_namespaces` — resolves to the
element's own name and attribute list. -/
theorem C17_okEvs_fixed (doc : List Node) (h : treesOK doc) :
    okEvs SerCfg.fixed LexCfg.fixed TbCfg.fixed [defaultMap] (serDoc SerCfg.fixed doc) = true :=
  okEvs_fixed doc h

/-- **C17 (round trip) for the fixed serializer, tokenizer step and tree builder**: every parsed-shape
document with parser-produced tags comes back unchanged (doctype ids dropped) — element and attribute
prefixes, namespace URIs, local names, attribute order and values, text (U+000D included), comments,
PIs, nesting.  No `okEvs` hypothesis, no CR proviso.  What remains assumed is `lexEv`, the
tokenization of the serializer's output (see `H5V.Model.XmlSer`). -/
theorem C17_roundtrip_fixed (pre post ks : List Node) (n : QName) (as : List Attr)
    (hpre : preOK false pre) (hpost : ∀ x ∈ post, isMisc x = true)
    (hks : nodesOK SerCfg.fixed false ks)
    (htags : treesOK (pre ++ .elem n as ks :: post)) :
    ∃ s, reparse SerCfg.fixed LexCfg.fixed TbCfg.fixed (pre ++ .elem n as ks :: post) = .ok s ∧
      s.document = pre.map stripId ++ .elem n as ks :: post :=
  C17_roundtrip_partial SerCfg.fixed LexCfg.fixed TbCfg.fixed pre post ks n as hpre hpost hks
    (C17_okEvs_fixed _ htags)

-- non-vacuity of `C17_roundtrip_fixed`: `<a xmlns:p="u" p:x="1"><p:b/>x&#13;y</a><!--c-->`, the 15a / 15c witness
example : ∃ s, reparse SerCfg.fixed LexCfg.fixed TbCfg.fixed
      ([] ++ .elem (qn none "" "a") [at' (some "p") "u" "x" "1"]
        [el (some "p") "u" "b" [] [], .text ['x', '\r', 'y']] :: [.comment ['c']]) = .ok s ∧
    s.document = [].map stripId ++ .elem (qn none "" "a") [at' (some "p") "u" "x" "1"]
        [el (some "p") "u" "b" [] [], .text ['x', '\r', 'y']] :: [.comment ['c']] := by
  apply C17_roundtrip_fixed
  · trivial
  · intro x hx; simp at hx; subst hx; rfl
  · simp [nodesOK, nodeOK, el, SerCfg.fixed]
  · simp only [List.nil_append, treesOK, treeOK, el, and_true]
    refine ⟨⟨⟨⟨by decide, by decide⟩, by decide, by decide, by decide⟩, ?_, by decide, by decide, by decide⟩,
      ⟨⟨⟨by decide, by decide⟩, by decide, by decide, by decide⟩, by simp, by decide, by decide, by decide⟩⟩
    intro a ha
    simp at ha; subst ha
    exact ⟨⟨by decide, by decide⟩, by decide, by decide, by decide, by decide⟩

end H5V.Props.C17
