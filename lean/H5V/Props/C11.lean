import H5V.Lemmas.TendrilPool
/-!
C11 — tendrils behave as independent owned strings under every operation.

`Spec.step` is the independent model: a pool of optional byte strings (`Vec<u8>` / `String`),
every operation acting on its own slot only, checked operations failing exactly when the request
is out of bounds or the result would not be valid for the format (`F.validate`).

`C11_step_refines`: for every heap and pool satisfying the invariant `StWF` and holding valid
contents, every operation of the model of `tendril.rs` yields a state that again satisfies the
invariant and whose abstraction is what `Spec.step` yields — in particular no other slot
changes (`C11_independent`) — and it never reaches undefined behaviour.  The only deviation
admitted is a panic of the model where the spec has a result (the crate's `OFLOW` guard, reachable
only with ≥ 2 GiB of data); a panicking operation leaves the state unchanged.
`C11_run_refines` lifts this to all histories by induction.

The format enters through `Laws F` (no fix-up on concatenation, validity closed under append, the
prefix / suffix / subsequence checks exact on parts of valid strings, characters cut at valid
places).  `laws_bytes`, `laws_ascii`, `laws_latin1` (below) and `laws_utf8`
(`H5V/Lemmas/TendrilUtf8.lean`, which relates the futf-based prefix / suffix checks of `fmt.rs` to
Unicode Table 3-7 and derives `C11_utf8_valid`: a UTF-8 tendril always holds valid UTF-8)
discharge them; WTF-8 (the only format with a fix-up) has its own refinement theorems over `LawsFx`
in `Props/C11Wtf8.lean` (`C11_step_refines_wtf8`, `C11_run_refines_wtf8`, `C11_wtf8_valid`).  `C11_no_spurious_panic`: below 2^30 bytes the model panics only where
the specification does.
-/
namespace H5V.Props.C11
open H5V.Model.Tendril H5V.Lemmas.Tendril

abbrev APool := List (Option (List UInt8))

/-! ## the specification: an independent pool of owned byte strings -/

namespace Spec

def popFront (F : Format) (a : List UInt8) (n : Nat) : Option SubErr × List UInt8 :=
  if n = 0 then (none, a)
  else if n > a.length then (some .outOfBounds, a)
  else if F.validate (a.drop n) then (none, a.drop n)
  else (some .validationFailed, a)

def popBack (F : Format) (a : List UInt8) (n : Nat) : Option SubErr × List UInt8 :=
  if n = 0 then (none, a)
  else if n > a.length then (some .outOfBounds, a)
  else if F.validate (a.take (a.length - n)) then (none, a.take (a.length - n))
  else (some .validationFailed, a)

def sub (F : Format) (a : List UInt8) (off len : Nat) : SubErr ⊕ List UInt8 :=
  if off > a.length ∨ len > a.length - off then .inl .outOfBounds
  else if F.validate ((a.drop off).take len) then .inr ((a.drop off).take len)
  else .inl .validationFailed

/-- first character (as the format's `char_indices` sees it) and the rest -/
def popChar (F : Format) (a : List UInt8) : Option Nat × List UInt8 :=
  match F.charIndices a with
  | some [(_, c)] => (some c, [])
  | some ((_, c) :: (n, _) :: _) => (some c, if n = 0 then [] else a.drop n)
  | _ => (none, [])

/-- maximal run of characters of the class of the first one: (run, class, rest) -/
def popRun (F : Format) (classOf : Nat → Nat) (a : List UInt8) : Option (List UInt8 × Nat) × List UInt8 :=
  match F.charIndices a with
  | some ((_, first) :: rest) =>
    match rest.find? (fun p => classOf p.2 != classOf first) with
    | some (idx, _) => (some (a.take idx, classOf first), a.drop idx)
    | none => (some (a, classOf first), [])
  | _ => (none, a)

def step (F : Format) (p : APool) : Op → APool × Out
  | .new i => if i < p.length then (p.set i (some []), .ok) else (p, .badop)
  | .fromBytes i bs =>
    if i < p.length then (if F.validate bs then (p.set i (some bs), .ok) else (p, .err)) else (p, .badop)
  | .pushBytes i bs => match p[i]? with
    | some (some a) => if F.validate bs then (p.set i (some (a ++ bs)), .ok) else (p, .err)
    | _ => (p, .badop)
  | .pushChar i c => match p[i]? with
    | some (some a) => (match F.encodeChar c with
      | some bs => (p.set i (some (a ++ bs)), .ok)
      | none => (p, .err))
    | _ => (p, .badop)
  | .pushTendril i j => match p[i]?, p[j]? with
    | some (some a), some (some b) => if i = j then (p, .badop) else (p.set i (some (a ++ b)), .ok)
    | _, _ => (p, .badop)
  | .tryPopFront i n => match p[i]? with
    | some (some a) => (p.set i (some (popFront F a n).2), outOfErr (popFront F a n).1)
    | _ => (p, .badop)
  | .tryPopBack i n => match p[i]? with
    | some (some a) => (p.set i (some (popBack F a n).2), outOfErr (popBack F a n).1)
    | _ => (p, .badop)
  | .popFront i n => match p[i]? with
    | some (some a) => (match (popFront F a n).1 with
      | none => (p.set i (some (popFront F a n).2), .ok)
      | some _ => (p, .panic))
    | _ => (p, .badop)
  | .popBack i n => match p[i]? with
    | some (some a) => (match (popBack F a n).1 with
      | none => (p.set i (some (popBack F a n).2), .ok)
      | some _ => (p, .panic))
    | _ => (p, .badop)
  | .trySubtendril i j off len => match p[i]? with
    | some (some a) => if j < p.length then (match sub F a off len with
      | .inl e => (p, outOfErr (some e))
      | .inr s => (p.set j (some s), .ok)) else (p, .badop)
    | _ => (p, .badop)
  | .subtendril i j off len => match p[i]? with
    | some (some a) => if j < p.length then (match sub F a off len with
      | .inl _ => (p, .panic)
      | .inr s => (p.set j (some s), .ok)) else (p, .badop)
    | _ => (p, .badop)
  | .clone i j => match p[i]? with
    | some (some a) => if j < p.length then (p.set j (some a), .ok) else (p, .badop)
    | _ => (p, .badop)
  | .clear i => match p[i]? with
    | some (some _) => (p.set i (some []), .ok)
    | _ => (p, .badop)
  | .drop i => match p[i]? with
    | some (some _) => (p.set i none, .ok)
    | _ => (p, .badop)
  | .popFrontChar i => match p[i]? with
    | some (some a) => if (F.charIndices []).isSome then
        (p.set i (some (popChar F a).2), .ch (popChar F a).1) else (p, .badop)
    | _ => (p, .badop)
  | .popFrontCharRun i j k => match p[i]? with
    | some (some a) => if (F.charIndices []).isSome ∧ j < p.length ∧ i ≠ j then
        (match (popRun F (classifier k) a).1 with
          | none => (p.set i (some (popRun F (classifier k) a).2), .run none)
          | some (r, cls) => ((p.set i (some (popRun F (classifier k) a).2)).set j (some r), .run (some cls)))
        else (p, .badop)
    | _ => (p, .badop)
  | .sendRoundTrip i => match p[i]? with
    | some (some _) => (p, .ok)
    | _ => (p, .badop)
  | .reserve i _ => match p[i]? with
    | some (some _) => (p, .ok)
    | _ => (p, .badop)
  | .withCapacity i _ => if i < p.length then (p.set i (some []), .ok) else (p, .badop)
  | .setByte i k v => match p[i]? with
    | some (some a) => if k < a.length then (p.set i (some (a.set k v)), .ok) else (p, .panic)
    | _ => (p, .badop)

def run (F : Format) (p : APool) (ops : List Op) : APool := ops.foldl (fun p op => (step F p op).1) p

end Spec

/-! ## what the theorems need from a format -/

structure Laws (F : Format) : Prop where
  noFixup : ∀ a b, F.fixup a b = {}
  valid_nil : F.validate [] = true
  valid_append : ∀ a b, F.validate a = true → F.validate b = true → F.validate (a ++ b) = true
  suffix_exact : ∀ a b, F.validate (a ++ b) = true → F.validateSuffix b = F.validate b
  prefix_exact : ∀ a b, F.validate (a ++ b) = true → F.validatePrefix a = F.validate a
  subseq_exact : ∀ a b c, F.validate (a ++ (b ++ c)) = true → F.validateSubseq b = F.validate b
  encode_valid : ∀ c bs, F.encodeChar c = some bs → F.validate bs = true
  chars_total : (F.charIndices []).isSome → ∀ a, F.validate a = true → (F.charIndices a).isSome
  chars_cut : ∀ a cs, F.validate a = true → F.charIndices a = some cs →
    ∀ p ∈ cs, p.1 ≤ a.length ∧ F.validate (a.take p.1) = true ∧ F.validate (a.drop p.1) = true

theorem Laws.fixupOK {F : Format} (L : Laws F) : FixupOK F := by
  intro a b; rw [L.noFixup]; exact ⟨Nat.zero_le _, Nat.zero_le _⟩

theorem Laws.pushSpec {F : Format} (L : Laws F) (a b : List UInt8) : pushSpec F a b = a ++ b := by
  simp [Lemmas.Tendril.pushSpec, L.noFixup]

/-- every slot holds bytes valid for the format -/
def AValid (F : Format) (p : APool) : Prop := ∀ (i : Nat) (a : List UInt8), p[i]? = some (some a) → F.validate a = true

/-! ## helper lemmas for the step theorem -/

/-- result `ok` with `Q`, or a panic under the condition `P`; never undefined behaviour -/
def SatX {α : Type} (P : Prop) (x : M α) (Q : α → Prop) : Prop :=
  match x with
  | .ok a => Q a
  | .error (.panic _) => P
  | .error (.ub _) => False

theorem SatX.of_T {α} {P : Prop} {x : M α} {Q : α → Prop} (h : SatT x Q) : SatX P x Q := by
  obtain ⟨a, rfl, hq⟩ := h; exact hq

theorem SatX.of_sat {α} {x : M α} {Q : α → Prop} (h : Sat x Q) : SatX True x Q := by
  cases x with
  | ok a => exact h
  | error e => cases e with
    | panic s => trivial
    | ub s => exact h.elim

theorem SatX.bindT {α β} {P : Prop} {x : M α} {f : α → M β} {P' : α → Prop} {Q : β → Prop}
    (hx : SatT x P') (hf : ∀ a, P' a → SatX P (f a) Q) : SatX P (x >>= f) Q := by
  obtain ⟨a, rfl, hp⟩ := hx
  exact hf a hp

theorem SatX.ok {α} {P : Prop} {a : α} {Q : α → Prop} (h : Q a) : SatX P (.ok a : M α) Q := h

theorem abs_lookup {st : St} {i : Nat} {t : T} (hp : st.pool[i]? = some (some t)) :
    (absPool st)[i]? = some (some (abs st.heap t)) := by
  rw [absPool_getElem?, hp]; rfl

theorem abs_lookup_none {st : St} {i : Nat} (hp : st.pool[i]? = some none) :
    (absPool st)[i]? = some none := by
  rw [absPool_getElem?, hp]; rfl

theorem abs_lookup_oob {st : St} {i : Nat} (hp : st.pool[i]? = none) : (absPool st)[i]? = none := by
  rw [absPool_getElem?, hp]; rfl

theorem focusWF {st : St} {i : Nat} {t : T} (hwf : StWF st) (hp : st.pool[i]? = some (some t)) :
    WF st.heap (t :: others st.pool i) := hwf.perm (focus hp)

theorem lt_of_lookup {st : St} {i : Nat} {o : Option T} (hp : st.pool[i]? = some o) :
    i < st.pool.length := (List.getElem?_eq_some_iff.mp hp).1

theorem set_same {α} {l : List α} {i : Nat} {x : α} (h : l[i]? = some x) : l.set i x = l := by
  apply List.ext_getElem?
  intro j
  by_cases hj : j = i
  · subst hj; rw [List.getElem?_set_self (List.getElem?_eq_some_iff.mp h).1, h]
  · rw [List.getElem?_set_ne (Ne.symm hj)]

theorem split3 (a : List UInt8) (off len : Nat) :
    a = a.take off ++ ((a.drop off).take len ++ (a.drop off).drop len) := by
  rw [List.take_append_drop, List.take_append_drop]

/-- state after a two-slot operation: slot `i` updated to `t1`, the new value `s` to be stored -/
theorem extraWF {st : St} {i : Nat} {t t1 s : T} {h1 : Heap} (hp : st.pool[i]? = some (some t))
    (w1 : WF h1 (t1 :: s :: others st.pool i)) :
    WF (St.mk h1 (st.pool.set i (some t1))).heap (s :: liveTs (St.mk h1 (st.pool.set i (some t1))).pool) := by
  have hlt := lt_of_lookup hp
  exact w1.perm ((List.Perm.swap ..).trans (List.Perm.cons s (liveTs_set_some t1 hlt).symm))

theorem AValid.get {F : Format} {st : St} {i : Nat} {t : T} (hv : AValid F (absPool st))
    (hp : st.pool[i]? = some (some t)) : F.validate (abs st.heap t) = true :=
  hv i _ (abs_lookup hp)

theorem popFront_eq {F : Format} (L : Laws F) {a : List UInt8} (ha : F.validate a = true) (n : Nat) :
    (if n = 0 then ((none : Option SubErr), a)
     else if n > a.length then (some .outOfBounds, a)
     else if F.validateSuffix (a.drop n) then (none, a.drop n)
     else (some .validationFailed, a)) = Spec.popFront F a n := by
  unfold Spec.popFront
  rw [L.suffix_exact (a.take n) (a.drop n) (by rw [List.take_append_drop]; exact ha)]

theorem popBack_eq {F : Format} (L : Laws F) {a : List UInt8} (ha : F.validate a = true) (n : Nat) :
    (if n = 0 then ((none : Option SubErr), a)
     else if n > a.length then (some .outOfBounds, a)
     else if F.validatePrefix (a.take (a.length - n)) then (none, a.take (a.length - n))
     else (some .validationFailed, a)) = Spec.popBack F a n := by
  unfold Spec.popBack
  rw [L.prefix_exact (a.take (a.length - n)) (a.drop (a.length - n))
    (by rw [List.take_append_drop]; exact ha)]


theorem sub_eq_inl {F : Format} (L : Laws F) {a : List UInt8} (ha : F.validate a = true) {off len : Nat}
    {e : SubErr}
    (he : e = (if off > a.length ∨ len > a.length - off then SubErr.outOfBounds else .validationFailed))
    (hn : ¬ (off > a.length ∨ len > a.length - off) → F.validateSubseq ((a.drop off).take len) = false) :
    Spec.sub F a off len = .inl e := by
  unfold Spec.sub
  by_cases hc : off > a.length ∨ len > a.length - off
  · rw [if_pos hc]; rw [if_pos hc] at he; rw [he]
  · rw [if_neg hc]; rw [if_neg hc] at he
    have := L.subseq_exact (a.take off) ((a.drop off).take len) ((a.drop off).drop len)
      (by rw [← split3]; exact ha)
    rw [← this, hn hc, he]; rfl

theorem sub_eq_inr {F : Format} (L : Laws F) {a : List UInt8} (ha : F.validate a = true) {off len : Nat}
    (hc : ¬ (off > a.length ∨ len > a.length - off))
    (hv : F.validateSubseq ((a.drop off).take len) = true) :
    Spec.sub F a off len = .inr ((a.drop off).take len) := by
  unfold Spec.sub
  rw [if_neg hc]
  have := L.subseq_exact (a.take off) ((a.drop off).take len) ((a.drop off).drop len)
    (by rw [← split3]; exact ha)
  rw [← this, hv]; rfl

theorem popChar_eq {F : Format} {a : List UInt8} {c : Option Nat} {r : List UInt8}
    (h : some (c, r) = popFrontCharSpec F a) : Spec.popChar F a = (c, r) := by
  unfold popFrontCharSpec at h
  unfold Spec.popChar
  cases hc : F.charIndices a with
  | none => rw [hc] at h; cases h
  | some cs =>
    rw [hc] at h
    match cs, h with
    | [], h => cases h; rfl
    | [(_, c)], h => cases h; rfl
    | (_, c) :: (n, _) :: _, h => cases h; rfl

theorem popRun_eq {F : Format} {cl : Nat → Nat} {a : List UInt8} {x : Option (List UInt8 × Nat)}
    {r : List UInt8} (h : some (x, r) = popFrontCharRunSpec F cl a) : Spec.popRun F cl a = (x, r) := by
  unfold popFrontCharRunSpec at h
  unfold Spec.popRun
  cases hc : F.charIndices a with
  | none => rw [hc] at h; cases h
  | some cs =>
    rw [hc] at h
    match cs, h with
    | [], h => cases h; rfl
    | (_, first) :: rest, h =>
      simp only [] at h ⊢
      cases hf : rest.find? (fun p => cl p.2 != cl first) with
      | none => rw [hf] at h; cases h; rfl
      | some p => obtain ⟨idx, c2⟩ := p; rw [hf] at h; cases h; rfl

/-- when the model may panic: the documented `unwrap` panics exactly where the specification has
them; `True` marks the operations that can reach the crate's `OFLOW` guard -/
def mayPanic (F : Format) (p : APool) : Op → Prop
  | .popFront i n => (Spec.step F p (.popFront i n)).2 = .panic
  | .popBack i n => (Spec.step F p (.popBack i n)).2 = .panic
  | .subtendril i j o l => (Spec.step F p (.subtendril i j o l)).2 = .panic
  | .new _ | .tryPopFront .. | .tryPopBack .. | .trySubtendril .. | .clone .. | .clear _ | .drop _
  | .popFrontChar _ | .popFrontCharRun .. => False
  | _ => True

/-! ## every operation refines the specification -/

theorem stepM_spec (F : Format) (L : Laws F) (st : St) (op : Op) (hwf : StWF st)
    (hv : AValid F (absPool st)) :
    match stepM F st op with
    | none => Spec.step F (absPool st) op = (absPool st, .badop)
    | some m => SatX (mayPanic F (absPool st) op) m
        (fun r => StWF r.1 ∧ (absPool r.1, r.2) = Spec.step F (absPool st) op) := by
  cases op with
  | new i =>
    by_cases hi : i < st.pool.length
    · simp only [stepM, Spec.step, absPool_length, hi, ↓reduceIte]
      apply SatX.bindT (store_spec hi (hwf.cons_inline (by simp)))
      rintro st' ⟨w, ha⟩
      exact SatX.ok ⟨w, by simp only [ha, abs]⟩
    · simp only [stepM, Spec.step, absPool_length, hi, ↓reduceIte]
  | fromBytes i bs =>
    by_cases hi : i < st.pool.length
    · simp only [stepM, Spec.step, absPool_length, hi, ↓reduceIte]
      apply SatX.of_sat
      by_cases hb : F.validate bs = true
      · simp only [hb, ↓reduceIte]
        apply (fromBytesUnchecked_spec bs hwf).bind
        rintro ⟨h1, t1⟩ ⟨w1, hab, hat⟩
        simp only at w1 hab hat
        apply (store_spec (st := ⟨h1, st.pool⟩) hi w1).sat.bind
        rintro st' ⟨w, ha⟩
        refine Sat.ok ⟨w, ?_⟩
        simp only [ha, hat]
        rw [absPool_heap (st := st) hab]
      · simp only [hb, ↓reduceIte, Bool.false_eq_true]
        exact Sat.ok ⟨hwf, rfl⟩
    · simp only [stepM, Spec.step, absPool_length, hi, ↓reduceIte]
  | pushBytes i bs =>
    cases hp : st.pool[i]? with
    | none => simp only [stepM, Spec.step, hp, abs_lookup_oob hp]
    | some o => cases o with
      | none => simp only [stepM, Spec.step, hp, abs_lookup_none hp]
      | some t =>
        simp only [stepM, Spec.step, hp, abs_lookup hp]
        have wt := focusWF hwf hp
        apply SatX.of_sat
        by_cases hb : F.validate bs = true
        · simp only [hb, ↓reduceIte]
          apply (pushBytesUnchecked_spec L.fixupOK bs wt).bind
          rintro ⟨h1, t1⟩ ⟨w1, hab, hat⟩
          obtain ⟨a, b⟩ := slot_update hp w1 hab
          exact Sat.ok ⟨a, by simp only [b, hat, L.pushSpec]⟩
        · simp only [hb, ↓reduceIte, Bool.false_eq_true]
          exact Sat.ok ⟨hwf, rfl⟩
  | pushChar i c =>
    cases hp : st.pool[i]? with
    | none => simp only [stepM, Spec.step, hp, abs_lookup_oob hp]
    | some o => cases o with
      | none => simp only [stepM, Spec.step, hp, abs_lookup_none hp]
      | some t =>
        simp only [stepM, Spec.step, hp, abs_lookup hp]
        have wt := focusWF hwf hp
        apply SatX.of_sat
        cases he : F.encodeChar c with
        | none => exact Sat.ok ⟨hwf, rfl⟩
        | some bs =>
          simp only []
          apply (pushBytesUnchecked_spec L.fixupOK bs wt).bind
          rintro ⟨h1, t1⟩ ⟨w1, hab, hat⟩
          obtain ⟨a, b⟩ := slot_update hp w1 hab
          exact Sat.ok ⟨a, by simp only [b, hat, L.pushSpec]⟩
  | pushTendril i j =>
    cases hp : st.pool[i]? with
    | none => simp only [stepM, Spec.step, hp, abs_lookup_oob hp]
    | some o => cases o with
      | none => simp only [stepM, Spec.step, hp, abs_lookup_none hp]
      | some t =>
        cases hq : st.pool[j]? with
        | none => simp only [stepM, Spec.step, hp, hq, abs_lookup hp, abs_lookup_oob hq]
        | some o2 => cases o2 with
          | none => simp only [stepM, Spec.step, hp, hq, abs_lookup hp, abs_lookup_none hq]
          | some o =>
            simp only [stepM, Spec.step, hp, hq, abs_lookup hp, abs_lookup hq]
            by_cases hij : i = j
            · simp only [hij, ↓reduceIte]
            · simp only [hij, ↓reduceIte]
              have wt := focusWF hwf hp
              apply SatX.of_sat
              apply (pushTendril_spec L.fixupOK wt (others_mem (Ne.symm hij) hq)).bind
              rintro ⟨h1, t1⟩ ⟨w1, hab, hat⟩
              obtain ⟨a, b⟩ := slot_update hp w1 hab
              refine Sat.ok ⟨a, ?_⟩
              rcases hat with hat | hat <;> simp only [b, hat, L.pushSpec]
  | tryPopFront i n =>
    cases hp : st.pool[i]? with
    | none => simp only [stepM, Spec.step, hp, abs_lookup_oob hp]
    | some o => cases o with
      | none => simp only [stepM, Spec.step, hp, abs_lookup_none hp]
      | some t =>
        simp only [stepM, Spec.step, hp, abs_lookup hp]
        have wt := focusWF hwf hp
        apply SatX.bindT (tryPopFront_spec F n wt)
        rintro ⟨h1, t1, e⟩ ⟨w1, hab, heq⟩
        rw [popFront_eq L (hv.get hp)] at heq
        obtain ⟨a, b⟩ := slot_update hp w1 hab
        refine SatX.ok ⟨a, ?_⟩
        simp only [b, ← heq]
  | tryPopBack i n =>
    cases hp : st.pool[i]? with
    | none => simp only [stepM, Spec.step, hp, abs_lookup_oob hp]
    | some o => cases o with
      | none => simp only [stepM, Spec.step, hp, abs_lookup_none hp]
      | some t =>
        simp only [stepM, Spec.step, hp, abs_lookup hp]
        have wt := focusWF hwf hp
        apply SatX.bindT (tryPopBack_spec F n wt)
        rintro ⟨h1, t1, e⟩ ⟨w1, hab, heq⟩
        rw [popBack_eq L (hv.get hp)] at heq
        obtain ⟨a, b⟩ := slot_update hp w1 hab
        refine SatX.ok ⟨a, ?_⟩
        simp only [b, ← heq]
  | popFront i n =>
    cases hp : st.pool[i]? with
    | none => simp only [stepM, Spec.step, hp, abs_lookup_oob hp]
    | some o => cases o with
      | none => simp only [stepM, Spec.step, hp, abs_lookup_none hp]
      | some t =>
        simp only [stepM, mayPanic, Spec.step, hp, abs_lookup hp]
        have wt := focusWF hwf hp
        apply SatX.bindT (tryPopFront_spec F n wt)
        rintro ⟨h1, t1, e⟩ ⟨w1, hab, heq⟩
        rw [popFront_eq L (hv.get hp)] at heq
        obtain ⟨a, b⟩ := slot_update hp w1 hab
        have he1 : (Spec.popFront F (abs st.heap t) n).1 = e := (congrArg Prod.fst heq).symm
        have he2 : (Spec.popFront F (abs st.heap t) n).2 = abs h1 t1 := (congrArg Prod.snd heq).symm
        cases e with
        | none => simp only [he1, he2]; exact SatX.ok ⟨a, by simp only [b]⟩
        | some e' => simp only [he1]; exact trivial
  | popBack i n =>
    cases hp : st.pool[i]? with
    | none => simp only [stepM, Spec.step, hp, abs_lookup_oob hp]
    | some o => cases o with
      | none => simp only [stepM, Spec.step, hp, abs_lookup_none hp]
      | some t =>
        simp only [stepM, mayPanic, Spec.step, hp, abs_lookup hp]
        have wt := focusWF hwf hp
        apply SatX.bindT (tryPopBack_spec F n wt)
        rintro ⟨h1, t1, e⟩ ⟨w1, hab, heq⟩
        rw [popBack_eq L (hv.get hp)] at heq
        obtain ⟨a, b⟩ := slot_update hp w1 hab
        have he1 : (Spec.popBack F (abs st.heap t) n).1 = e := (congrArg Prod.fst heq).symm
        have he2 : (Spec.popBack F (abs st.heap t) n).2 = abs h1 t1 := (congrArg Prod.snd heq).symm
        cases e with
        | none => simp only [he1, he2]; exact SatX.ok ⟨a, by simp only [b]⟩
        | some e' => simp only [he1]; exact trivial
  | trySubtendril i j off len =>
    cases hp : st.pool[i]? with
    | none => simp only [stepM, Spec.step, hp, abs_lookup_oob hp]
    | some o => cases o with
      | none => simp only [stepM, Spec.step, hp, abs_lookup_none hp]
      | some t =>
        by_cases hj : j < st.pool.length
        · simp only [stepM, Spec.step, hp, abs_lookup hp, absPool_length, hj, ↓reduceIte]
          have wt := focusWF hwf hp
          apply SatX.bindT (trySubtendril_spec F off len wt)
          rintro ⟨h1, t1, r⟩ ⟨hab, hat, hr⟩
          simp only at hab hat
          have hp1 : absPool ⟨h1, st.pool.set i (some t1)⟩ = absPool st := by
            rw [absPool_set (some t1) hab]; simp only [Option.map, hat]; exact set_same (abs_lookup hp)
          cases r with
          | inl e =>
            obtain ⟨w1, he, hn⟩ := hr
            rw [sub_eq_inl L (hv.get hp) he hn]
            exact SatX.ok ⟨(slot_update hp w1 hab).1, by simp only [hp1]⟩
          | inr s =>
            obtain ⟨w1, hc, hvs, has⟩ := hr
            rw [sub_eq_inr L (hv.get hp) hc hvs]
            simp only []
            apply SatX.bindT (store_spec (by simpa using hj) (extraWF hp w1))
            rintro st2 ⟨w2, ha2⟩
            exact SatX.ok ⟨w2, by simp only [ha2, hp1, has]⟩
        · simp only [stepM, Spec.step, hp, abs_lookup hp, absPool_length, hj, ↓reduceIte]
  | subtendril i j off len =>
    cases hp : st.pool[i]? with
    | none => simp only [stepM, Spec.step, hp, abs_lookup_oob hp]
    | some o => cases o with
      | none => simp only [stepM, Spec.step, hp, abs_lookup_none hp]
      | some t =>
        by_cases hj : j < st.pool.length
        · simp only [stepM, mayPanic, Spec.step, hp, abs_lookup hp, absPool_length, hj, ↓reduceIte]
          have wt := focusWF hwf hp
          apply SatX.bindT (trySubtendril_spec F off len wt)
          rintro ⟨h1, t1, r⟩ ⟨hab, hat, hr⟩
          simp only at hab hat
          have hp1 : absPool ⟨h1, st.pool.set i (some t1)⟩ = absPool st := by
            rw [absPool_set (some t1) hab]; simp only [Option.map, hat]; exact set_same (abs_lookup hp)
          cases r with
          | inl e =>
            obtain ⟨w1, he, hn⟩ := hr
            rw [sub_eq_inl L (hv.get hp) he hn]
            exact rfl
          | inr s =>
            obtain ⟨w1, hc, hvs, has⟩ := hr
            rw [sub_eq_inr L (hv.get hp) hc hvs]
            simp only []
            apply SatX.bindT (store_spec (by simpa using hj) (extraWF hp w1))
            rintro st2 ⟨w2, ha2⟩
            exact SatX.ok ⟨w2, by simp only [ha2, hp1, has]⟩
        · simp only [stepM, Spec.step, hp, abs_lookup hp, absPool_length, hj, ↓reduceIte]
  | clone i j =>
    cases hp : st.pool[i]? with
    | none => simp only [stepM, Spec.step, hp, abs_lookup_oob hp]
    | some o => cases o with
      | none => simp only [stepM, Spec.step, hp, abs_lookup_none hp]
      | some t =>
        by_cases hj : j < st.pool.length
        · simp only [stepM, Spec.step, hp, abs_lookup hp, absPool_length, hj, ↓reduceIte]
          have wt := focusWF hwf hp
          apply SatX.bindT (cloneT_spec wt)
          rintro ⟨h1, t1, c⟩ ⟨w1, hab, hat, hac⟩
          simp only at w1 hab hat hac
          have hp1 : absPool ⟨h1, st.pool.set i (some t1)⟩ = absPool st := by
            rw [absPool_set (some t1) (fun u _ => hab u)]; simp only [Option.map, hat]
            exact set_same (abs_lookup hp)
          apply SatX.bindT (store_spec (by simpa using hj) (extraWF hp w1))
          rintro st2 ⟨w2, ha2⟩
          exact SatX.ok ⟨w2, by simp only [ha2, hp1, hac]⟩
        · simp only [stepM, Spec.step, hp, abs_lookup hp, absPool_length, hj, ↓reduceIte]
  | clear i =>
    cases hp : st.pool[i]? with
    | none => simp only [stepM, Spec.step, hp, abs_lookup_oob hp]
    | some o => cases o with
      | none => simp only [stepM, Spec.step, hp, abs_lookup_none hp]
      | some t =>
        simp only [stepM, Spec.step, hp, abs_lookup hp]
        have wt := focusWF hwf hp
        apply SatX.bindT (clearT_spec wt)
        rintro ⟨h1, t1⟩ ⟨w1, hab, hat⟩
        obtain ⟨a, b⟩ := slot_update hp w1 hab
        exact SatX.ok ⟨a, by simp only [b, hat]⟩
  | drop i =>
    cases hp : st.pool[i]? with
    | none => simp only [stepM, Spec.step, hp, abs_lookup_oob hp]
    | some o => cases o with
      | none => simp only [stepM, Spec.step, hp, abs_lookup_none hp]
      | some t =>
        simp only [stepM, Spec.step, hp, abs_lookup hp]
        have wt := focusWF hwf hp
        apply SatX.bindT (dropT_spec wt)
        rintro h1 ⟨w1, hab⟩
        refine SatX.ok ⟨?_, ?_⟩
        · show WF h1 (liveTs (st.pool.set i none))
          rw [liveTs_set_none (lt_of_lookup hp)]; exact w1
        · rw [absPool_set none (fun u _ => hab u)]; rfl
  | popFrontChar i =>
    cases hp : st.pool[i]? with
    | none => simp only [stepM, Spec.step, hp, abs_lookup_oob hp]
    | some o => cases o with
      | none => simp only [stepM, Spec.step, hp, abs_lookup_none hp]
      | some t =>
        by_cases hc : (F.charIndices []).isSome = true
        · simp only [stepM, Spec.step, hp, abs_lookup hp, hc, ↓reduceIte]
          have wt := focusWF hwf hp
          have hva := hv.get hp
          obtain ⟨cs, hcs⟩ := Option.isSome_iff_exists.mp (L.chars_total hc _ hva)
          have hb : ∀ p ∈ cs, p.1 ≤ (abs st.heap t).length := fun p hp' => (L.chars_cut _ cs hva hcs p hp').1
          apply SatX.bindT (popFrontChar_spec F wt hcs hb)
          rintro ⟨h1, t1, c⟩ ⟨w1, hab, heq⟩
          obtain ⟨a, b⟩ := slot_update hp w1 hab
          have := popChar_eq heq
          refine SatX.ok ⟨a, ?_⟩
          simp only [b, this]
        · simp only [stepM, Spec.step, hp, abs_lookup hp, hc, ↓reduceIte, Bool.false_eq_true]
  | popFrontCharRun i j k =>
    cases hp : st.pool[i]? with
    | none => simp only [stepM, Spec.step, hp, abs_lookup_oob hp]
    | some o => cases o with
      | none => simp only [stepM, Spec.step, hp, abs_lookup_none hp]
      | some t =>
        by_cases hc : (F.charIndices []).isSome = true ∧ j < st.pool.length ∧ i ≠ j
        · have hc' := hc
          obtain ⟨hc1, hc2, hc3⟩ := hc'
          simp only [stepM, Spec.step, hp, abs_lookup hp, absPool_length, hc1, hc2, hc3, ne_eq,
            not_false_eq_true, and_self, ↓reduceIte]
          have wt := focusWF hwf hp
          have hva := hv.get hp
          obtain ⟨cs, hcs⟩ := Option.isSome_iff_exists.mp (L.chars_total hc.1 _ hva)
          have hb : ∀ p ∈ cs, p.1 ≤ (abs st.heap t).length := fun p hp' => (L.chars_cut _ cs hva hcs p hp').1
          apply SatX.bindT (popFrontCharRun_spec F (classifier k) wt hcs hb)
          rintro ⟨h1, t1, r⟩ ⟨hab, hr⟩
          simp only at hab
          cases r with
          | none =>
            obtain ⟨w1, heq⟩ := hr
            obtain ⟨a, b⟩ := slot_update hp w1 hab
            have := popRun_eq heq
            refine SatX.ok ⟨a, ?_⟩
            simp only [b, this]
          | some sc =>
            obtain ⟨s, cls⟩ := sc
            obtain ⟨w1, heq⟩ := hr
            have := popRun_eq heq
            simp only [this]
            apply SatX.bindT (store_spec (by simpa using hc.2.1) (extraWF hp w1))
            rintro st2 ⟨w2, ha2⟩
            refine SatX.ok ⟨w2, ?_⟩
            simp only [ha2]
            rw [absPool_set (some t1) hab]
            rfl
        · simp only [stepM, Spec.step, hp, abs_lookup hp, absPool_length, hc, ↓reduceIte]
  | sendRoundTrip i =>
    cases hp : st.pool[i]? with
    | none => simp only [stepM, Spec.step, hp, abs_lookup_oob hp]
    | some o => cases o with
      | none => simp only [stepM, Spec.step, hp, abs_lookup_none hp]
      | some t =>
        simp only [stepM, Spec.step, hp, abs_lookup hp]
        have wt := focusWF hwf hp
        apply SatX.of_sat
        apply (makeOwned_spec wt).bind
        rintro ⟨h1, t1⟩ ⟨w1, hab, hat, _⟩
        obtain ⟨a, b⟩ := slot_update hp w1 hab
        refine Sat.ok ⟨a, ?_⟩
        simp only [b, hat]; rw [set_same (abs_lookup hp)]
  | reserve i n =>
    cases hp : st.pool[i]? with
    | none => simp only [stepM, Spec.step, hp, abs_lookup_oob hp]
    | some o => cases o with
      | none => simp only [stepM, Spec.step, hp, abs_lookup_none hp]
      | some t =>
        simp only [stepM, Spec.step, hp, abs_lookup hp]
        have wt := focusWF hwf hp
        apply SatX.of_sat
        apply (reserveT_spec n wt).bind
        rintro ⟨h1, t1⟩ ⟨w1, hab, hat⟩
        obtain ⟨a, b⟩ := slot_update hp w1 hab
        refine Sat.ok ⟨a, ?_⟩
        simp only [b, hat]; rw [set_same (abs_lookup hp)]
  | withCapacity i n =>
    by_cases hi : i < st.pool.length
    · simp only [stepM, Spec.step, absPool_length, hi, ↓reduceIte]
      apply SatX.of_sat
      apply (withCapacity_spec n hwf).bind
      rintro ⟨h1, t1⟩ ⟨w1, hab, hat⟩
      simp only at w1 hab hat
      apply (store_spec (st := ⟨h1, st.pool⟩) hi w1).sat.bind
      rintro st' ⟨w, ha⟩
      refine Sat.ok ⟨w, ?_⟩
      simp only [ha, hat]
      rw [absPool_heap (st := st) hab]
    · simp only [stepM, Spec.step, absPool_length, hi, ↓reduceIte]
  | setByte i k v =>
    cases hp : st.pool[i]? with
    | none => simp only [stepM, Spec.step, hp, abs_lookup_oob hp]
    | some o => cases o with
      | none => simp only [stepM, Spec.step, hp, abs_lookup_none hp]
      | some t =>
        simp only [stepM, Spec.step, hp, abs_lookup hp]
        have wt := focusWF hwf hp
        have hlen := abs_length (wt.twf t (List.mem_cons_self ..))
        apply SatX.of_sat
        apply (derefMut_spec wt).bind
        rintro ⟨h1, t1⟩ ⟨w1, hab, hat, hl1, hns⟩
        simp only at w1 hab hat hl1 hns
        obtain ⟨a, b⟩ := slot_update hp w1 hab
        rw [hlen, ← hl1]
        by_cases hk : k < t1.len32
        · simp only [hk, ↓reduceIte]
          apply (storeByte_spec k v w1 hns hk).sat.bind
          rintro ⟨h2, t2⟩ ⟨w2, hab2, hat2⟩
          simp only at w2 hab2 hat2
          have hp1 : (St.mk h1 (st.pool.set i (some t1))).pool[i]? = some (some t1) := by
            simp [lt_of_lookup hp]
          have w2' : WF h2 (t2 :: others (St.mk h1 (st.pool.set i (some t1))).pool i) := by
            simp only [others_set]; exact w2
          have hab2' : ∀ u ∈ others (St.mk h1 (st.pool.set i (some t1))).pool i,
              abs h2 u = abs (St.mk h1 (st.pool.set i (some t1))).heap u := by
            simp only [others_set]; exact hab2
          obtain ⟨a2, b2⟩ := slot_update hp1 w2' hab2'
          refine Sat.ok ⟨a2, ?_⟩
          simp only [List.set_set] at b2 ⊢
          simp only [b2, b, List.set_set, hat2, hat]
        · simp only [hk, ↓reduceIte]
          refine Sat.ok ⟨a, ?_⟩
          simp only [b, hat]; rw [set_same (abs_lookup hp)]

/-! ## the main theorems -/

theorem outOfErr_ne_ub (e : Option SubErr) (s : String) : outOfErr e ≠ .ub s := by
  cases e with
  | none => simp [outOfErr]
  | some e => cases e <;> simp [outOfErr]

/-- the specification has no notion of undefined behaviour -/
theorem Spec.step_ne_ub (F : Format) (p : APool) (op : Op) (s : String) : (Spec.step F p op).2 ≠ .ub s := by
  cases op <;> simp only [Spec.step] <;> (repeat' split) <;>
    first
    | exact outOfErr_ne_ub _ _
    | (intro h; cases h)

/-- **Refinement, one step.**  From any well-formed state with valid contents, one operation of the
model leaves a well-formed state, never reaches undefined behaviour, and either acts on the
abstract pool exactly as the owned-string specification does, or panics — leaving the state
unchanged — under the condition `mayPanic` (`False` for the checked and non-allocating
operations, "the specification panics too" for the `unwrap` variants, `True` for operations that
can hit the `OFLOW` guard). -/
theorem C11_step_refines (F : Format) (L : Laws F) (st : St) (op : Op) (hwf : StWF st)
    (hv : AValid F (absPool st)) :
    StWF (step F st op).1 ∧ (∀ s, (step F st op).2 ≠ .ub s) ∧
    ((absPool (step F st op).1, (step F st op).2) = Spec.step F (absPool st) op ∨
      ((step F st op).2 = .panic ∧ (step F st op).1 = st ∧ mayPanic F (absPool st) op)) := by
  have h := stepM_spec F L st op hwf hv
  unfold step
  cases hm : stepM F st op with
  | none =>
    rw [hm] at h
    exact ⟨hwf, by simp, Or.inl h.symm⟩
  | some m =>
    rw [hm] at h
    cases m with
    | ok r =>
      refine ⟨h.1, ?_, Or.inl h.2⟩
      intro s
      have := Spec.step_ne_ub F (absPool st) op s
      rw [← h.2] at this
      exact this
    | error e =>
      cases e with
      | panic s => exact ⟨hwf, by simp, Or.inr ⟨rfl, rfl, h⟩⟩
      | ub s => exact h.elim

/-! ### contents stay valid for the format -/

theorem AValid.set {F : Format} {p : APool} {i : Nat} {x : List UInt8} (hv : AValid F p)
    (hx : F.validate x = true) : AValid F (p.set i (some x)) := by
  intro j a hj
  by_cases hji : j = i
  · subst hji
    by_cases hlt : j < p.length
    · rw [List.getElem?_set_self hlt] at hj; cases hj; exact hx
    · rw [List.getElem?_eq_none (by simpa using hlt)] at hj; cases hj
  · rw [List.getElem?_set_ne (Ne.symm hji)] at hj; exact hv j a hj

theorem AValid.set_none {F : Format} {p : APool} {i : Nat} (hv : AValid F p) : AValid F (p.set i none) := by
  intro j a hj
  by_cases hji : j = i
  · subst hji
    by_cases hlt : j < p.length
    · rw [List.getElem?_set_self hlt] at hj; cases hj
    · rw [List.getElem?_eq_none (by simpa using hlt)] at hj; cases hj
  · rw [List.getElem?_set_ne (Ne.symm hji)] at hj; exact hv j a hj

theorem Spec.popFront_valid {F : Format} {a : List UInt8} (ha : F.validate a = true) (n : Nat) :
    F.validate (Spec.popFront F a n).2 = true := by
  unfold Spec.popFront
  split
  · exact ha
  · split
    · exact ha
    · split
      · assumption
      · exact ha

theorem Spec.popBack_valid {F : Format} {a : List UInt8} (ha : F.validate a = true) (n : Nat) :
    F.validate (Spec.popBack F a n).2 = true := by
  unfold Spec.popBack
  split
  · exact ha
  · split
    · exact ha
    · split
      · assumption
      · exact ha

theorem Spec.sub_valid {F : Format} {a s : List UInt8} {off len : Nat} (h : Spec.sub F a off len = .inr s) :
    F.validate s = true := by
  unfold Spec.sub at h
  split at h
  · cases h
  · split at h
    · cases h; assumption
    · cases h

theorem Spec.popChar_valid {F : Format} (L : Laws F) {a : List UInt8} (ha : F.validate a = true) :
    F.validate (Spec.popChar F a).2 = true := by
  unfold Spec.popChar
  cases hc : F.charIndices a with
  | none => exact L.valid_nil
  | some cs =>
    match cs, hc with
    | [], _ => exact L.valid_nil
    | [(_, c)], _ => exact L.valid_nil
    | (i, c) :: (n, c2) :: more, hc =>
      simp only []
      split
      · exact L.valid_nil
      · exact (L.chars_cut a _ ha hc (n, c2) (by simp)).2.2

theorem Spec.popRun_valid {F : Format} (L : Laws F) (cl : Nat → Nat) {a : List UInt8}
    (ha : F.validate a = true) :
    F.validate (Spec.popRun F cl a).2 = true ∧
      ∀ r c, (Spec.popRun F cl a).1 = some (r, c) → F.validate r = true := by
  unfold Spec.popRun
  cases hc : F.charIndices a with
  | none => exact ⟨ha, by intro r c h; cases h⟩
  | some cs =>
    match cs, hc with
    | [], _ => exact ⟨ha, by intro r c h; cases h⟩
    | (i, first) :: more, hc =>
      simp only []
      cases hf : more.find? (fun p => cl p.2 != cl first) with
      | none => exact ⟨L.valid_nil, by intro r c h; cases h; exact ha⟩
      | some p =>
        obtain ⟨idx, c2⟩ := p
        have hmem : (idx, c2) ∈ (i, first) :: more := List.mem_cons_of_mem _ (List.mem_of_find?_eq_some hf)
        have := L.chars_cut a _ ha hc (idx, c2) hmem
        exact ⟨this.2.2, by intro r c h; cases h; exact this.2.1⟩

/-- **Format validity.**  The specification keeps every slot valid for the format: pushes are
validated, pops and slices are taken only where the result is valid.  (A `DerefMut` byte store is
only offered for formats whose every byte string is valid — `Bytes`.) -/
theorem C11_format_valid (F : Format) (L : Laws F) (p : APool) (op : Op) (hv : AValid F p)
    (hset : ∀ i k v, op = .setByte i k v → ∀ l, F.validate l = true) :
    AValid F (Spec.step F p op).1 := by
  have hget : ∀ {i a}, p[i]? = some (some a) → F.validate a = true := fun h => hv _ _ h
  cases op with
  | new i => simp only [Spec.step]; split; exact hv.set L.valid_nil; exact hv
  | fromBytes i bs =>
    simp only [Spec.step]; split
    · split
      · exact hv.set (by assumption)
      · exact hv
    · exact hv
  | pushBytes i bs =>
    simp only [Spec.step]; split
    · rename_i a ha
      split
      · exact hv.set (L.valid_append _ _ (hget ha) (by assumption))
      · exact hv
    · exact hv
  | pushChar i c =>
    simp only [Spec.step]; split
    · rename_i a ha
      split
      · rename_i bs hb
        exact hv.set (L.valid_append _ _ (hget ha) (L.encode_valid c bs hb))
      · exact hv
    · exact hv
  | pushTendril i j =>
    simp only [Spec.step]; split
    · rename_i a b ha hb
      split
      · exact hv
      · exact hv.set (L.valid_append _ _ (hget ha) (hget hb))
    · exact hv
  | tryPopFront i n =>
    simp only [Spec.step]; split
    · rename_i a ha; exact hv.set (Spec.popFront_valid (hget ha) n)
    · exact hv
  | tryPopBack i n =>
    simp only [Spec.step]; split
    · rename_i a ha; exact hv.set (Spec.popBack_valid (hget ha) n)
    · exact hv
  | popFront i n =>
    simp only [Spec.step]; split
    · rename_i a ha
      split
      · exact hv.set (Spec.popFront_valid (hget ha) n)
      · exact hv
    · exact hv
  | popBack i n =>
    simp only [Spec.step]; split
    · rename_i a ha
      split
      · exact hv.set (Spec.popBack_valid (hget ha) n)
      · exact hv
    · exact hv
  | trySubtendril i j off len =>
    simp only [Spec.step]; split
    · split
      · split
        · exact hv
        · rename_i s hs; exact hv.set (Spec.sub_valid hs)
      · exact hv
    · exact hv
  | subtendril i j off len =>
    simp only [Spec.step]; split
    · split
      · split
        · exact hv
        · rename_i s hs; exact hv.set (Spec.sub_valid hs)
      · exact hv
    · exact hv
  | clone i j =>
    simp only [Spec.step]; split
    · rename_i a ha
      split
      · exact hv.set (hget ha)
      · exact hv
    · exact hv
  | clear i => simp only [Spec.step]; split; exact hv.set L.valid_nil; exact hv
  | drop i => simp only [Spec.step]; split; exact hv.set_none; exact hv
  | popFrontChar i =>
    simp only [Spec.step]; split
    · rename_i a ha
      split
      · exact hv.set (Spec.popChar_valid L (hget ha))
      · exact hv
    · exact hv
  | popFrontCharRun i j k =>
    simp only [Spec.step]; split
    · rename_i a ha
      have := Spec.popRun_valid L (classifier k) (hget ha)
      split
      · split
        · exact hv.set this.1
        · rename_i r cls hr
          exact (hv.set this.1).set (this.2 r cls hr)
      · exact hv
    · exact hv
  | sendRoundTrip i => simp only [Spec.step]; split <;> exact hv
  | reserve i n => simp only [Spec.step]; split <;> exact hv
  | withCapacity i n => simp only [Spec.step]; split; exact hv.set L.valid_nil; exact hv
  | setByte i k v =>
    simp only [Spec.step]; split
    · split
      · exact hv.set (hset i k v rfl _)
      · exact hv
    · exact hv

/-! ### all histories -/

/-- no `DerefMut` byte stores unless every byte string is valid for the format -/
def StoresOK (F : Format) (ops : List Op) : Prop :=
  ∀ op ∈ ops, ∀ i k v, op = .setByte i k v → ∀ l, F.validate l = true

/-- **Refinement, all histories** (induction over the history).  After any history from a
well-formed state with valid contents the state is well-formed, the contents are valid for the
format, and the abstract pool is what the owned-string specification computes for the same history
with the operations deleted on which the model panicked without the specification panicking
(`OFLOW`; those leave the model state unchanged). -/
theorem C11_run_refines (F : Format) (L : Laws F) (ops : List Op) (st : St) (hwf : StWF st)
    (hv : AValid F (absPool st)) (hs : StoresOK F ops) :
    StWF (run F st ops) ∧ AValid F (absPool (run F st ops)) ∧
    ∃ ops', ops'.Sublist ops ∧ absPool (run F st ops) = Spec.run F (absPool st) ops' := by
  induction ops generalizing st with
  | nil => exact ⟨hwf, hv, [], List.Sublist.slnil, rfl⟩
  | cons op ops ih =>
    have hs' : StoresOK F ops := fun o ho => hs o (List.mem_cons_of_mem _ ho)
    obtain ⟨w1, _, h1⟩ := C11_step_refines F L st op hwf hv
    simp only [run, List.foldl_cons]
    rcases h1 with h1 | ⟨_, h1, _⟩
    · have hv1 : AValid F (absPool (step F st op).1) := by
        have := C11_format_valid F L (absPool st) op hv (hs op (List.mem_cons_self ..))
        rw [← h1] at this; exact this
      obtain ⟨w2, hv2, ops', hsub, he⟩ := ih (step F st op).1 w1 hv1 hs'
      refine ⟨w2, hv2, op :: ops', hsub.cons₂ op, ?_⟩
      simp only [run] at he
      rw [he]
      simp only [Spec.run, List.foldl_cons, ← h1]
    · rw [h1]
      obtain ⟨w2, hv2, ops', hsub, he⟩ := ih st hwf hv hs'
      exact ⟨w2, hv2, ops', hsub.cons op, he⟩

theorem liveTs_replicate (n : Nat) : liveTs (List.replicate n none) = [] := by
  induction n with
  | zero => rfl
  | succ n ih => simp [List.replicate_succ, liveTs, ih]

/-- **Reachable states.**  Every state reachable from the empty pool is well-formed and holds
valid contents. -/
theorem C11_reachable_wf (F : Format) (L : Laws F) (slots : Nat) (ops : List Op) (hs : StoresOK F ops) :
    StWF (run F (St.init slots) ops) ∧ AValid F (absPool (run F (St.init slots) ops)) := by
  have hwf : StWF (St.init slots) := by
    show WF Heap.empty (liveTs (List.replicate slots none))
    rw [liveTs_replicate]; exact WF.empty
  have hv : AValid F (absPool (St.init slots)) := by
    intro i a hi
    simp [absPool, St.init, List.getElem?_replicate] at hi
  obtain ⟨a, b, _⟩ := C11_run_refines F L ops (St.init slots) hwf hv hs
  exact ⟨a, b⟩

/-! ### independence -/

/-- the slots an operation may change -/
def targets : Op → List Nat
  | .new i | .fromBytes i _ | .pushBytes i _ | .pushChar i _ | .pushTendril i _ | .popFront i _
  | .popBack i _ | .tryPopFront i _ | .tryPopBack i _ | .clear i | .drop i | .popFrontChar i
  | .sendRoundTrip i | .reserve i _ | .withCapacity i _ | .setByte i _ _ => [i]
  | .subtendril _ j _ _ | .trySubtendril _ j _ _ | .clone _ j => [j]
  | .popFrontCharRun i j _ => [i, j]

theorem Spec.step_frame (F : Format) (p : APool) (op : Op) (m : Nat) (hm : m ∉ targets op) :
    (Spec.step F p op).1[m]? = p[m]? := by
  cases op <;> simp only [targets, List.mem_cons, List.mem_nil_iff, or_false, not_or] at hm <;>
    simp only [Spec.step] <;> (repeat' split) <;>
    first
    | rfl
    | (rw [List.getElem?_set_ne (Ne.symm hm)])
    | (rw [List.getElem?_set_ne (Ne.symm hm.2), List.getElem?_set_ne (Ne.symm hm.1)])
    | (rw [List.getElem?_set_ne (Ne.symm hm.1)])

/-- **Independence.**  An operation changes at most its target slot(s): every other tendril of the
pool denotes exactly the same bytes afterwards, however the buffers are shared. -/
theorem C11_independent (F : Format) (L : Laws F) (st : St) (op : Op) (hwf : StWF st)
    (hv : AValid F (absPool st)) (m : Nat) (hm : m ∉ targets op) :
    (absPool (step F st op).1)[m]? = (absPool st)[m]? := by
  obtain ⟨_, _, h⟩ := C11_step_refines F L st op hwf hv
  rcases h with h | ⟨_, h, _⟩
  · have := Spec.step_frame F (absPool st) op m hm
    rw [← h] at this; exact this
  · rw [h]

/-! ### checked operations fail exactly when the specification says so -/

/-- when the bounds / validity check of `try_pop_front` on a string `a` answers what -/
theorem Spec.popFront_cases (F : Format) (a : List UInt8) (n : Nat) :
    ((Spec.popFront F a n).1 = some .outOfBounds ↔ n ≠ 0 ∧ n > a.length) ∧
    ((Spec.popFront F a n).1 = some .validationFailed ↔
      n ≠ 0 ∧ n ≤ a.length ∧ F.validate (a.drop n) = false) ∧
    ((Spec.popFront F a n).1 = none ↔ n = 0 ∨ (n ≤ a.length ∧ F.validate (a.drop n) = true)) ∧
    ((Spec.popFront F a n).2 = if (Spec.popFront F a n).1 = none then a.drop n else a) := by
  unfold Spec.popFront
  by_cases h0 : n = 0
  · subst h0; simp
  · by_cases h1 : n > a.length
    · simp [h0, h1]; omega
    · cases h2 : F.validate (a.drop n) <;> simp [h0, h1, h2] <;> omega

theorem Spec.popBack_cases (F : Format) (a : List UInt8) (n : Nat) :
    ((Spec.popBack F a n).1 = some .outOfBounds ↔ n ≠ 0 ∧ n > a.length) ∧
    ((Spec.popBack F a n).1 = some .validationFailed ↔
      n ≠ 0 ∧ n ≤ a.length ∧ F.validate (a.take (a.length - n)) = false) ∧
    ((Spec.popBack F a n).1 = none ↔
      n = 0 ∨ (n ≤ a.length ∧ F.validate (a.take (a.length - n)) = true)) ∧
    ((Spec.popBack F a n).2 = if (Spec.popBack F a n).1 = none then a.take (a.length - n) else a) := by
  unfold Spec.popBack
  by_cases h0 : n = 0
  · subst h0; simp
  · by_cases h1 : n > a.length
    · simp [h0, h1]; omega
    · cases h2 : F.validate (a.take (a.length - n)) <;> simp [h0, h1, h2] <;> omega

/-- **`try_pop_front`** never panics and answers exactly as the bounds / validity analysis of the
owned string: `Err(OutOfBounds)` iff `n` exceeds the length, `Err(ValidationFailed)` iff the
remainder would not be valid for the format, otherwise the first `n` bytes are gone; on `Err` the
tendril is unchanged. -/
theorem C11_checked_pop_front (F : Format) (L : Laws F) (st : St) (i n : Nat) (t : T) (hwf : StWF st)
    (hv : AValid F (absPool st)) (hp : st.pool[i]? = some (some t)) :
    (step F st (.tryPopFront i n)).2 = outOfErr (Spec.popFront F (abs st.heap t) n).1 ∧
    (absPool (step F st (.tryPopFront i n)).1)[i]? = some (some (Spec.popFront F (abs st.heap t) n).2) := by
  obtain ⟨_, _, h⟩ := C11_step_refines F L st (.tryPopFront i n) hwf hv
  rcases h with h | ⟨_, _, h⟩
  · simp only [Spec.step, abs_lookup hp] at h
    have h1 := congrArg Prod.fst h
    have h2 := congrArg Prod.snd h
    simp only at h1 h2
    refine ⟨h2, ?_⟩
    rw [h1, List.getElem?_set_self (by rw [absPool_length]; exact lt_of_lookup hp)]
  · exact h.elim

/-- **`try_pop_back`**, likewise. -/
theorem C11_checked_pop_back (F : Format) (L : Laws F) (st : St) (i n : Nat) (t : T) (hwf : StWF st)
    (hv : AValid F (absPool st)) (hp : st.pool[i]? = some (some t)) :
    (step F st (.tryPopBack i n)).2 = outOfErr (Spec.popBack F (abs st.heap t) n).1 ∧
    (absPool (step F st (.tryPopBack i n)).1)[i]? = some (some (Spec.popBack F (abs st.heap t) n).2) := by
  obtain ⟨_, _, h⟩ := C11_step_refines F L st (.tryPopBack i n) hwf hv
  rcases h with h | ⟨_, _, h⟩
  · simp only [Spec.step, abs_lookup hp] at h
    have h1 := congrArg Prod.fst h
    have h2 := congrArg Prod.snd h
    simp only at h1 h2
    refine ⟨h2, ?_⟩
    rw [h1, List.getElem?_set_self (by rw [absPool_length]; exact lt_of_lookup hp)]
  · exact h.elim

/-- **`try_subtendril`** never panics; `Err(OutOfBounds)` iff the range does not fit,
`Err(ValidationFailed)` iff the slice is not valid for the format, otherwise slot `j` receives
exactly the slice; the source keeps its bytes. -/
theorem C11_checked_subtendril (F : Format) (L : Laws F) (st : St) (i j off len : Nat) (t : T)
    (hwf : StWF st) (hv : AValid F (absPool st)) (hp : st.pool[i]? = some (some t))
    (hj : j < st.pool.length) :
    match Spec.sub F (abs st.heap t) off len with
    | .inl e => (step F st (.trySubtendril i j off len)).2 = outOfErr (some e) ∧
        absPool (step F st (.trySubtendril i j off len)).1 = absPool st
    | .inr s => (step F st (.trySubtendril i j off len)).2 = .ok ∧
        absPool (step F st (.trySubtendril i j off len)).1 = (absPool st).set j (some s) := by
  obtain ⟨_, _, h⟩ := C11_step_refines F L st (.trySubtendril i j off len) hwf hv
  rcases h with h | ⟨_, _, h⟩
  · simp only [Spec.step, abs_lookup hp, absPool_length, hj, ↓reduceIte] at h
    cases hs : Spec.sub F (abs st.heap t) off len with
    | inl e => rw [hs] at h; simp only at h; exact ⟨congrArg Prod.snd h, congrArg Prod.fst h⟩
    | inr s => rw [hs] at h; simp only at h; exact ⟨congrArg Prod.snd h, congrArg Prod.fst h⟩
  · exact h.elim

theorem Spec.sub_cases (F : Format) (a : List UInt8) (off len : Nat) :
    (Spec.sub F a off len = .inl .outOfBounds ↔ off > a.length ∨ len > a.length - off) ∧
    (Spec.sub F a off len = .inl .validationFailed ↔
      ¬ (off > a.length ∨ len > a.length - off) ∧ F.validate ((a.drop off).take len) = false) ∧
    (∀ s, Spec.sub F a off len = .inr s ↔
      ¬ (off > a.length ∨ len > a.length - off) ∧ F.validate ((a.drop off).take len) = true ∧
        s = (a.drop off).take len) := by
  unfold Spec.sub
  by_cases h1 : off > a.length ∨ len > a.length - off
  · simp [h1]
  · cases h2 : F.validate ((a.drop off).take len) <;> simp [h1, h2]
    intro s; exact eq_comm

/-- **checked push.**  `try_push_bytes` answers `Err` iff the bytes are not valid for the format;
then nothing changes; otherwise (short of the `OFLOW` panic) the tendril is the concatenation. -/
theorem C11_push_checked (F : Format) (L : Laws F) (st : St) (i : Nat) (bs : List UInt8) (t : T)
    (hwf : StWF st) (hv : AValid F (absPool st)) (hp : st.pool[i]? = some (some t)) :
    (F.validate bs = false →
      (step F st (.pushBytes i bs)).2 = .err ∧ absPool (step F st (.pushBytes i bs)).1 = absPool st) ∧
    (F.validate bs = true →
      ((step F st (.pushBytes i bs)).2 = .ok ∧
        absPool (step F st (.pushBytes i bs)).1 = (absPool st).set i (some (abs st.heap t ++ bs))) ∨
      ((step F st (.pushBytes i bs)).2 = .panic ∧ (step F st (.pushBytes i bs)).1 = st)) := by
  obtain ⟨_, _, h⟩ := C11_step_refines F L st (.pushBytes i bs) hwf hv
  constructor
  · intro hb
    rcases h with h | ⟨h1, h2, _⟩
    · simp only [Spec.step, abs_lookup hp, hb, Bool.false_eq_true, ↓reduceIte] at h
      exact ⟨congrArg Prod.snd h, congrArg Prod.fst h⟩
    · -- a panic is impossible: invalid bytes are rejected before anything is touched
      exfalso
      unfold step at h1
      simp only [stepM, hp, hb, Bool.false_eq_true, ↓reduceIte] at h1
      cases h1
  · intro hb
    rcases h with h | ⟨h1, h2, _⟩
    · simp only [Spec.step, abs_lookup hp, hb, ↓reduceIte] at h
      exact Or.inl ⟨congrArg Prod.snd h, congrArg Prod.fst h⟩
    · exact Or.inr ⟨h1, h2⟩

/-- **No undefined behaviour.**  No operation on a reachable state is a wild / dangling / out of
bounds access in the model (every raw access of `tendril.rs` is a checked primitive there). -/
theorem C11_no_ub (F : Format) (L : Laws F) (slots : Nat) (ops : List Op) (hs : StoresOK F ops) (op : Op)
    (s : String) : (step F (run F (St.init slots) ops) op).2 ≠ .ub s := by
  obtain ⟨hwf, hv⟩ := C11_reachable_wf F L slots ops hs
  exact (C11_step_refines F L _ op hwf hv).2.1 s

/-! ## the formats -/

theorem laws_bytes : Laws Format.bytes where
  noFixup _ _ := rfl
  valid_nil := rfl
  valid_append _ _ _ _ := rfl
  suffix_exact _ _ _ := rfl
  prefix_exact _ _ _ := rfl
  subseq_exact _ _ _ _ := rfl
  encode_valid _ _ _ := rfl
  chars_total h := by simp [Format.bytes] at h
  chars_cut _ _ _ h := by simp [Format.bytes] at h

theorem mem_singleByteIndices {l : List UInt8} {p : Nat × Nat} (h : p ∈ singleByteIndices l) :
    p.1 < l.length := by
  unfold singleByteIndices at h
  have := (List.of_mem_zip h).1
  simpa using this

theorem laws_latin1 : Laws Format.latin1 where
  noFixup _ _ := rfl
  valid_nil := rfl
  valid_append _ _ _ _ := rfl
  suffix_exact _ _ _ := rfl
  prefix_exact _ _ _ := rfl
  subseq_exact _ _ _ _ := rfl
  encode_valid _ _ _ := rfl
  chars_total _ _ _ := rfl
  chars_cut a cs _ h p hp := by
    simp only [Format.latin1, Option.some.injEq] at h
    subst h
    exact ⟨Nat.le_of_lt (mem_singleByteIndices hp), rfl, rfl⟩

theorem ascii_valid_append (a b : List UInt8) :
    Format.ascii.validate (a ++ b) = (Format.ascii.validate a && Format.ascii.validate b) := by
  simp [Format.ascii, List.all_append]

theorem laws_ascii : Laws Format.ascii where
  noFixup _ _ := rfl
  valid_nil := rfl
  valid_append a b ha hb := by rw [ascii_valid_append, ha, hb]; rfl
  suffix_exact a b h := by
    rw [ascii_valid_append, Bool.and_eq_true] at h
    rw [h.2]; rfl
  prefix_exact a b h := by
    rw [ascii_valid_append, Bool.and_eq_true] at h
    rw [h.1]; rfl
  subseq_exact a b c h := by
    rw [ascii_valid_append, ascii_valid_append, Bool.and_eq_true, Bool.and_eq_true] at h
    rw [h.2.1]; rfl
  encode_valid c bs h := by
    simp only [Format.ascii] at h
    split at h
    · cases h
    · cases h
      simp only [Format.ascii, List.all_cons, List.all_nil, Bool.and_true, decide_eq_true_eq]
      rename_i hc
      have : c < 256 := by omega
      simp [UInt8.toNat_ofNat, Nat.mod_eq_of_lt this]
      omega
  chars_total _ _ _ := rfl
  chars_cut a cs hv h p hp := by
    simp only [Format.ascii, Option.some.injEq] at h
    subst h
    have := ascii_valid_append (a.take p.1) (a.drop p.1)
    rw [List.take_append_drop, hv] at this
    have := (Bool.and_eq_true _ _).mp this.symm
    exact ⟨Nat.le_of_lt (mem_singleByteIndices hp), this.1, this.2⟩

/-! ### the model only panics where the specification does, below 2 GiB -/

/-- length of the tendril in slot `i` (0 for an empty slot) -/
def slotLen (st : St) (i : Nat) : Nat :=
  match st.pool[i]? with
  | some (some t) => t.len32
  | _ => 0

/-- the sizes an operation involves stay below 2^30 (so sums stay below 2^31) -/
def Small (F : Format) (st : St) : Op → Prop
  | .fromBytes _ bs => bs.length ≤ 1073741824
  | .pushBytes i bs => bs.length ≤ 1073741824 ∧ slotLen st i ≤ 1073741824
  | .pushChar i c => (∀ bs, F.encodeChar c = some bs → bs.length ≤ 1073741824) ∧ slotLen st i ≤ 1073741824
  | .pushTendril i j => slotLen st i ≤ 1073741824 ∧ slotLen st j ≤ 1073741824
  | .sendRoundTrip i => slotLen st i ≤ 1073741824
  | .setByte i _ _ => slotLen st i ≤ 1073741824
  | .reserve i n => slotLen st i ≤ 1073741824 ∧ n ≤ 1073741824
  | .withCapacity _ n => n ≤ 1073741824
  | _ => True

theorem slotLen_eq {st : St} {i : Nat} {t : T} (hp : st.pool[i]? = some (some t)) : slotLen st i = t.len32 := by
  simp [slotLen, hp]

theorem np_store {st : St} {j : Nat} {s : T} (hj : j < st.pool.length)
    (w : WF st.heap (s :: liveTs st.pool)) : NP (store st j s) :=
  NP.of_satT (store_spec hj w)

/-- the operations that can reach an `OFLOW` guard or a length assert -/
def oflowOp : Op → Bool
  | .fromBytes .. | .pushBytes .. | .pushChar .. | .pushTendril .. | .sendRoundTrip _ | .reserve ..
  | .withCapacity .. | .setByte .. => true
  | _ => false

/-- … do not panic while the sizes are small -/
theorem stepM_np (F : Format) (L : Laws F) (st : St) (op : Op) (hwf : StWF st) (hs : Small F st op)
    (hop : oflowOp op = true) :
    match stepM F st op with
    | none => True
    | some m => NP m := by
  cases op with
  | new i => simp [oflowOp] at hop
  | tryPopFront i n => simp [oflowOp] at hop
  | tryPopBack i n => simp [oflowOp] at hop
  | trySubtendril i j o l => simp [oflowOp] at hop
  | clone i j => simp [oflowOp] at hop
  | clear i => simp [oflowOp] at hop
  | drop i => simp [oflowOp] at hop
  | popFrontChar i => simp [oflowOp] at hop
  | popFrontCharRun i j k => simp [oflowOp] at hop
  | popFront i n => simp [oflowOp] at hop
  | popBack i n => simp [oflowOp] at hop
  | subtendril i j o l => simp [oflowOp] at hop
  | fromBytes i bs =>
    by_cases hi : i < st.pool.length
    · simp only [stepM, hi, ↓reduceIte]
      split
      · apply NP.bind (np_fromBytesUnchecked bs (by simp only [Small] at hs; omega))
        rintro ⟨h1, t1⟩ he
        obtain ⟨w1, _, _⟩ := (fromBytesUnchecked_spec bs hwf).of_ok he
        apply NP.bind (np_store (st := ⟨h1, st.pool⟩) hi w1)
        intro st' _; exact NP.ok
      · exact NP.ok
    · simp only [stepM, hi, ↓reduceIte]
  | pushBytes i bs =>
    cases hp : st.pool[i]? with
    | none => simp only [stepM, hp]
    | some o => cases o with
      | none => simp only [stepM, hp]
      | some t =>
        simp only [stepM, hp]
        simp only [Small, slotLen_eq hp] at hs
        split
        · apply NP.bind (np_pushBytesUnchecked L.noFixup bs (focusWF hwf hp) (by omega))
          intro r _; exact NP.ok
        · exact NP.ok
  | pushChar i c =>
    cases hp : st.pool[i]? with
    | none => simp only [stepM, hp]
    | some o => cases o with
      | none => simp only [stepM, hp]
      | some t =>
        simp only [stepM, hp]
        simp only [Small, slotLen_eq hp] at hs
        cases he : F.encodeChar c with
        | none => exact NP.ok
        | some bs =>
          simp only []
          have := hs.1 bs he
          apply NP.bind (np_pushBytesUnchecked L.noFixup bs (focusWF hwf hp) (by omega))
          intro r _; exact NP.ok
  | pushTendril i j =>
    cases hp : st.pool[i]? with
    | none => simp only [stepM, hp]
    | some o => cases o with
      | none => simp only [stepM, hp]
      | some t =>
        cases hq : st.pool[j]? with
        | none => simp only [stepM, hp, hq]
        | some o2 => cases o2 with
          | none => simp only [stepM, hp, hq]
          | some o =>
            simp only [stepM, hp, hq]
            simp only [Small, slotLen_eq hp, slotLen_eq hq] at hs
            by_cases hij : i = j
            · simp only [hij, ↓reduceIte]
            · simp only [hij, ↓reduceIte]
              apply NP.bind (np_pushTendril L.noFixup (focusWF hwf hp) (others_mem (Ne.symm hij) hq) (by omega))
              intro r _; exact NP.ok
  | sendRoundTrip i =>
    cases hp : st.pool[i]? with
    | none => simp only [stepM, hp]
    | some o => cases o with
      | none => simp only [stepM, hp]
      | some t =>
        simp only [stepM, hp]
        simp only [Small, slotLen_eq hp] at hs
        apply NP.bind (np_makeOwned (focusWF hwf hp) (by omega))
        intro r _; exact NP.ok
  | reserve i n =>
    cases hp : st.pool[i]? with
    | none => simp only [stepM, hp]
    | some o => cases o with
      | none => simp only [stepM, hp]
      | some t =>
        simp only [stepM, hp]
        simp only [Small, slotLen_eq hp] at hs
        apply NP.bind (np_reserveT n (focusWF hwf hp) (by omega))
        intro r _; exact NP.ok
  | withCapacity i n =>
    by_cases hi : i < st.pool.length
    · simp only [stepM, hi, ↓reduceIte]
      simp only [Small] at hs
      apply NP.bind (np_withCapacity n hwf (by omega))
      rintro ⟨h1, t1⟩ he
      obtain ⟨w1, _, _⟩ := (withCapacity_spec n hwf).of_ok he
      apply NP.bind (np_store (st := ⟨h1, st.pool⟩) hi w1)
      intro st' _; exact NP.ok
    · simp only [stepM, hi, ↓reduceIte]
  | setByte i k v =>
    cases hp : st.pool[i]? with
    | none => simp only [stepM, hp]
    | some o => cases o with
      | none => simp only [stepM, hp]
      | some t =>
        simp only [stepM, hp]
        simp only [Small, slotLen_eq hp] at hs
        have wt := focusWF hwf hp
        apply NP.bind (np_derefMut wt (by omega))
        rintro ⟨h1, t1⟩ he
        obtain ⟨w1, _, _, _, hns⟩ := (derefMut_spec wt).of_ok he
        simp only at w1 hns
        by_cases hk : k < t1.len32
        · simp only [hk, ↓reduceIte]
          apply NP.bind (NP.of_satT (storeByte_spec k v w1 hns hk))
          intro r _; exact NP.ok
        · simp only [hk, ↓reduceIte]; exact NP.ok

theorem outOfErr_ne_panic (e : Option SubErr) : outOfErr e ≠ .panic := by
  cases e with
  | none => simp [outOfErr]
  | some e => cases e <;> simp [outOfErr]

/-- where the specification panics it changes nothing -/
theorem Spec.step_panic_state (F : Format) (p : APool) (op : Op) (h : (Spec.step F p op).2 = .panic) :
    Spec.step F p op = (p, .panic) := by
  cases op <;> simp only [Spec.step] at h ⊢ <;> (repeat' split at h) <;>
    first
    | (exfalso; exact outOfErr_ne_panic _ h)
    | rfl
    | (cases h; simp_all)
    | (cases h)
    | (simp at h)
    | (simp_all)

/-- **No spurious panic.**  While the tendrils and the operands involved are below 2^30 bytes, the
model panics only where the owned-string specification panics (the `unwrap` of `pop_front`,
`pop_back`, `subtendril` on an error, an out-of-range index store) — so below that size every
operation refines the specification exactly. -/
theorem C11_no_spurious_panic (F : Format) (L : Laws F) (st : St) (op : Op) (hwf : StWF st)
    (hv : AValid F (absPool st)) (hs : Small F st op) :
    (absPool (step F st op).1, (step F st op).2) = Spec.step F (absPool st) op := by
  have h := stepM_spec F L st op hwf hv
  have hn := stepM_np F L st op hwf hs
  unfold step
  cases hm : stepM F st op with
  | none => rw [hm] at h; exact h.symm
  | some m =>
    rw [hm] at h hn
    cases m with
    | ok r => exact h.2
    | error e =>
      cases e with
      | ub s => exact h.elim
      | panic s =>
        -- `h : mayPanic …`
        have h' : mayPanic F (absPool st) op := h
        simp only []
        by_cases ho : oflowOp op = true
        · exact ((hn ho) s rfl).elim
        · cases op <;> simp only [oflowOp, mayPanic, not_true_eq_false] at ho h' <;>
            first
            | exact h'.elim
            | exact (Spec.step_panic_state F _ _ h').symm

/-- **Witness of the early size limit** (why `C11_no_spurious_panic` has a size hypothesis): growing a
full 2^31-byte buffer by one byte hits `checked_next_power_of_two().expect(OFLOW)` in
`Buf32::grow`, although the documented limit of a tendril is 4 GB and an owned string would
accept the push.  Confirmed on the real code (`from_slice` of 2^31 bytes, `push_slice(b"x")`
panics; with 2^31 − 1 or 2^31 + 1 initial bytes it does not, because no growth is needed). -/
theorem C11_witness_oflow_2gib :
    buf32Grow Heap.empty 0 2147483648 2147483649 = .error (.panic "OFLOW: checked_next_power_of_two") ∧
    (∃ r, buf32Grow ⟨[⟨[], 2147483632, 0, 1, true⟩], []⟩ 0 2147483632 2147483648 = .ok r) := by
  constructor
  · rfl
  · exact ⟨_, rfl⟩

/-- **WTF-8 validation rejects stray continuation bytes** (after the fix 218f57f in `fmt.rs`, which
the model follows: `codept.rewind != 0 → false`).  The inputs that witnessed the defect are
rejected now. -/
theorem C11_wtf8_validate_rejects_stray :
    Format.wtf8.validate [0xC2, 0x80, 0x80] = false ∧
    Format.wtf8.validate [0xC2, 0x80, 0x80, 0xFF] = false ∧
    Format.wtf8.validate [0xE2, 0x82, 0xAC, 0x80, 0xFF, 0xFF] = false ∧
    Format.wtf8.validate [0xC2, 0x80, 0xED, 0xA0, 0x80, 0xE2, 0x82, 0xAC] = true := by decide

/-- **Defect witness, pinned tree.**  `WTF8::validate` as it was before commit 218f57f
(`wtf8ValidatePinned`) accepted byte strings that are not WTF-8: after a complete 2- or 3-byte
character a stray continuation byte made `futf::classify` answer with the *previous* character
(found by its backward scan), the loop advanced by that character's length and skipped whatever
followed.  `C2 80 80` was accepted although it is not even generalized UTF-8 (no surrogate
involved, `validUtf8` rejects it), and so was `C2 80 80 FF`, although `FF` is no UTF-8 byte at all.
Found by the C11 check (case `tendril wtf8 N from 0 c2 80 80`, now in the regression corpus). -/
theorem C11_witness_wtf8_validate_pinned :
    wtf8ValidatePinned [0xC2, 0x80, 0x80] = true ∧ validUtf8 [0xC2, 0x80, 0x80] = false ∧
    wtf8ValidatePinned [0xC2, 0x80, 0x80, 0xFF] = true ∧ byteK 0xFF = none ∧
    wtf8ValidatePinned [0xE2, 0x82, 0xAC, 0x80, 0xFF, 0xFF] = true := by decide

/-! ## non-vacuity -/

theorem init_wf (slots : Nat) : StWF (St.init slots) := by
  show WF Heap.empty (liveTs (List.replicate slots none))
  rw [liveTs_replicate]; exact WF.empty

private def b20 : List UInt8 := [1,2,3,4,5,6,7,8,9,10,11,12,13,14,15,16,17,18,19,20]

/-- two adjacent views of one buffer are merged by `push_tendril` without copying -/
example : (run Format.bytes (St.init 4)
    [.fromBytes 0 b20, .trySubtendril 0 1 0 10, .trySubtendril 0 2 10 10, .pushTendril 1 2]).pool
    = [some (.shared 0 0 20), some (.shared 0 0 20), some (.shared 0 10 10), none] := by decide

/-- copy on write: pushing onto a clone leaves the original alone; popping 15 of 20 bytes makes it inline -/
example : absPool (run Format.bytes (St.init 4)
    [.fromBytes 0 b20, .clone 0 1, .pushBytes 1 [0xff], .tryPopFront 0 15])
    = [some [16, 17, 18, 19, 20], some (b20 ++ [0xff]), none, none] := by decide

/-- checked operations on the UTF-8 string "aé" (61 c3 a9) -/
example : (step Format.utf8 (run Format.utf8 (St.init 4) [.fromBytes 0 [0x61, 0xc3, 0xa9]])
    (.tryPopFront 0 2)).2 = .inv := by decide
example : (step Format.utf8 (run Format.utf8 (St.init 4) [.fromBytes 0 [0x61, 0xc3, 0xa9]])
    (.tryPopFront 0 4)).2 = .oob := by decide
example : (step Format.utf8 (run Format.utf8 (St.init 4) [.fromBytes 0 [0x61, 0xc3, 0xa9]])
    (.tryPopBack 0 1)).2 = .inv := by decide
example : (step Format.utf8 (run Format.utf8 (St.init 4) [.fromBytes 0 [0x61, 0xc3, 0xa9]])
    (.pushBytes 0 [0xa9])).2 = .err := by decide
example : (step Format.utf8 (run Format.utf8 (St.init 4) [.fromBytes 0 [0x61, 0xc3, 0xa9]])
    (.popFront 0 2)).2 = .panic := by decide
example : (step Format.utf8 (run Format.utf8 (St.init 4) [.fromBytes 0 [0x61, 0xc3, 0xa9]])
    (.popFrontChar 0)).2 = .ch (some 0x61) := by decide

end H5V.Props.C11
