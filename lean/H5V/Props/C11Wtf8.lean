import H5V.Lemmas.TendrilWtf8RefineSpec
import H5V.Lemmas.TendrilWtf8RefineStep
import H5V.Lemmas.TendrilWtf8RefineNP
/-!
C11 for WTF-8 tendrils — the one format whose concatenation has a fix-up, and which
`H5V/Props/C11.lean` therefore left outside the refinement theorem (`Laws F` demands `F.fixup = {}`).

**Specification** (`H5V/Lemmas/TendrilWtf8RefineSpec.lean`, written from the WTF-8 document, nothing of
the tendril model in it): `Spec.encCp` (generalized UTF-8 of a code point, surrogates included),
`Spec.decCps` (its inverse), `Spec.WfWtf8` (the encoding of a code point sequence without a
lead–trail surrogate pair), `Spec.concatWtf8` (decode both operands, replace a lead at the end of the
left one and a trail at the start of the right one by the supplementary code point, re-encode).
`Spec.wtf8Doc` packages this as a specification-level format (every check is `Spec.wfWtf8`), and
`Spec.stepWtf8` is the owned-string specification `Spec.step` of C11 over it, with the three push
operations concatenating with `Spec.concatWtf8`.

**Theorems.**
* `lawsFx_wtf8 : LawsFx Format.wtf8 Spec.concatWtf8` — the generalised format laws
  (`H5V/Lemmas/TendrilWtf8RefineStep.lean`): what `push_bytes_without_validating` builds from
  `WTF8::fixup` *is* `Spec.concatWtf8` on well-formed operands (so the model's fix-up agrees with
  the WTF-8 document on every pair of well-formed operands — no finding), `WTF8::validate` is
  `WfWtf8`, well-formedness is closed under the concatenation, the prefix / suffix / subsequence
  checks are exact on parts of well-formed strings, and no fix-up is due between adjacent
  well-formed parts of a well-formed string.
* `C11_step_refines_wtf8`, `C11_run_refines_wtf8`: every operation of the tendril model on WTF-8
  tendrils — whatever the representation (inline, owned, shared, sub-tendril: the theorem is about
  every state satisfying the invariant) — refines `Spec.stepWtf8`, keeps the invariant, never reaches
  undefined behaviour; for all histories.
* `C11_independent_wtf8`: no other slot changes.  `C11_wtf8_valid`: every slot (and every buffer) of
  a reachable state holds well-formed WTF-8.  `C11_no_ub_wtf8`, `C11_push_checked_wtf8`.

The state invariant is `StWF st ∧ AWf (absPool st) ∧ BufWf st.heap`; `BufWf` (every buffer holds
well-formed WTF-8) is what makes the zero-copy merge of adjacent views in `push_tendril` — which never
asks `WTF8::fixup` — agree with the specification.

* `C11_no_spurious_panic_wtf8`: below 2^30 bytes the model panics only where the specification does
  (the fix-up inserts four bytes for the six it drops, `fixupSmall_wtf8`).
-/
namespace H5V.Props.C11
open H5V.Model.Tendril H5V.Lemmas.Tendril

namespace Spec

/-- WTF-8 as a specification-level format: all checks are the well-formedness check of the WTF-8
document; no `CharFormat` (as in `fmt.rs`) -/
def wtf8Doc : Format where
  name := "wtf8 (document)"
  validate := wfWtf8
  validatePrefix := wfWtf8
  validateSuffix := wfWtf8
  validateSubseq := wfWtf8
  fixup _ _ := {}
  charIndices _ := none
  encodeChar _ := none

/-- **the specification for WTF-8 tendrils**: a pool of owned WTF-8 strings; checked operations fail
exactly when the request is out of bounds or the result would not be well-formed WTF-8; pushes
concatenate as the WTF-8 document prescribes -/
def stepWtf8 (p : APool) (op : Op) : APool × Out := stepFx wtf8Doc concatWtf8 p op

def runWtf8 (p : APool) (ops : List Op) : APool := runFx wtf8Doc concatWtf8 p ops

end Spec

open Spec

/-- every slot holds well-formed WTF-8 -/
def AWf (p : APool) : Prop := ∀ (i : Nat) (a : List UInt8), p[i]? = some (some a) → WfWtf8 a

/-- every buffer holds well-formed WTF-8 -/
def BufWf (h : Heap) : Prop := ∀ (id : Nat) (b : Buf), h.bufs[id]? = some b → WfWtf8 b.data

/-- no `DerefMut` byte stores (`tendril.rs` offers them for `Bytes` only) -/
def NoStores (ops : List Op) : Prop := ∀ op ∈ ops, ∀ i k v, op ≠ .setByte i k v

/-! ## the model's WTF-8 functions against the document -/

/-- `WTF8::validate` (with the fix 218f57f) is the well-formedness check of the document -/
theorem wtf8_validate_eq : Format.wtf8.validate = wfWtf8 := by
  funext l
  have h1 := wtf8Validate_iff_wf l
  have h2 := wfWtf8_iff l
  show wtf8Validate l = wfWtf8 l
  cases ha : wtf8Validate l <;> cases hb : wfWtf8 l <;> simp_all

theorem avalid_iff (p : APool) : AValid Format.wtf8 p ↔ AWf p := by
  constructor
  · intro h i a hi; exact (wtf8Validate_iff_wf a).mp (h i a hi)
  · intro h i a hi; exact (wtf8Validate_iff_wf a).mpr (h i a hi)

theorem dv_iff (h : Heap) : DV Format.wtf8 h ↔ BufWf h := by
  constructor
  · intro d i b hb; exact (wtf8Validate_iff_wf _).mp (d i b hb)
  · intro d i b hb; exact (wtf8Validate_iff_wf _).mpr (d i b hb)

/-- **WTF-8 satisfies the format laws with fix-up**, the concatenation being that of the WTF-8
document. -/
theorem lawsFx_wtf8 : LawsFx Format.wtf8 concatWtf8 where
  fixupOK := Wtf8.wtf8_fixup_ok
  push_eq := wtf8_push_eq
  valid_nil := Wtf8.wtf8_valid_nil
  valid_cat := wtf8_concat_valid
  seam := wtf8_seam
  suffix_exact := Wtf8.wtf8_suffix_exact
  prefix_exact := Wtf8.wtf8_prefix_exact
  subseq_exact := Wtf8.wtf8_subseq_exact
  encode_valid c bs h := by simp [Format.wtf8] at h
  chars_total h := by simp [Format.wtf8] at h
  chars_cut _ _ _ h := by simp [Format.wtf8] at h

/-- **The model's fix-up agrees with the WTF-8 document** on every pair of well-formed operands:
removing `drop_left` bytes from the left operand and `drop_right` bytes from the right one and
inserting `insert_bytes`, as `WTF8::fixup` dictates and `push_bytes_without_validating` executes,
yields `Spec.concatWtf8`. -/
theorem C11_wtf8_fixup_agrees (a b : List UInt8) (ha : WfWtf8 a) (hb : WfWtf8 b) :
    a.take (a.length - (wtf8Fixup a b).dropLeft) ++ (wtf8Fixup a b).insert ++ b.drop (wtf8Fixup a b).dropRight
      = concatWtf8 a b :=
  wtf8_push_eq a b ((wtf8Validate_iff_wf a).mpr ha) ((wtf8Validate_iff_wf b).mpr hb)

/-! ## the specification does not depend on which of the two validity checks it is stated with -/

theorem stepFx_congr {F G : Format} (cat : List UInt8 → List UInt8 → List UInt8)
    (hV : F.validate = G.validate) (hE : F.encodeChar = G.encodeChar) (hC : F.charIndices = G.charIndices)
    (p : APool) (op : Op) : Spec.stepFx F cat p op = Spec.stepFx G cat p op := by
  cases op <;>
    simp only [Spec.stepFx, Spec.step, Spec.popFront, Spec.popBack, Spec.sub, Spec.popChar, Spec.popRun,
      hV, hE, hC]

theorem step_congr {F G : Format}
    (hV : F.validate = G.validate) (hE : F.encodeChar = G.encodeChar) (hC : F.charIndices = G.charIndices)
    (p : APool) (op : Op) : Spec.step F p op = Spec.step G p op := by
  rw [← Spec.stepFx_append, ← Spec.stepFx_append]; exact stepFx_congr _ hV hE hC p op

theorem stepFx_wtf8 (p : APool) (op : Op) : Spec.stepFx Format.wtf8 concatWtf8 p op = stepWtf8 p op :=
  stepFx_congr (F := Format.wtf8) (G := wtf8Doc) concatWtf8 wtf8_validate_eq rfl rfl p op

theorem mayPanic_wtf8 (p : APool) (op : Op) : mayPanic Format.wtf8 p op ↔ mayPanic wtf8Doc p op := by
  cases op <;> simp only [mayPanic, step_congr (F := Format.wtf8) (G := wtf8Doc) wtf8_validate_eq rfl rfl]

theorem runFx_wtf8 (p : APool) (ops : List Op) : Spec.runFx Format.wtf8 concatWtf8 p ops = runWtf8 p ops := by
  induction ops generalizing p with
  | nil => rfl
  | cons op ops ih =>
    simp only [Spec.runFx, runWtf8, List.foldl_cons] at ih ⊢
    rw [stepFx_wtf8]; exact ih _

theorem storesOK_of_noStores {ops : List Op} (h : NoStores ops) : StoresOK Format.wtf8 ops := by
  intro op ho i k v e; exact absurd e (h op ho i k v)

/-! ## the refinement theorems for WTF-8 -/

/-- **Refinement, one step, WTF-8.**  From any well-formed state whose slots and buffers hold
well-formed WTF-8, one operation of the model leaves a well-formed state, never reaches undefined
behaviour, and either acts on the abstract pool exactly as the owned-WTF-8-string specification
`Spec.stepWtf8` does (pushes concatenating as the WTF-8 document prescribes), or panics — leaving
the state unchanged — under the condition `mayPanic` (`False` for the checked and non-allocating
operations, "the specification panics too" for the `unwrap` variants, `True` for operations that can
hit the `OFLOW` guard). -/
theorem C11_step_refines_wtf8 (st : St) (op : Op) (hwf : StWF st) (hv : AWf (absPool st))
    (hd : BufWf st.heap) :
    StWF (step Format.wtf8 st op).1 ∧ (∀ s, (step Format.wtf8 st op).2 ≠ .ub s) ∧
    ((absPool (step Format.wtf8 st op).1, (step Format.wtf8 st op).2) = stepWtf8 (absPool st) op ∨
      ((step Format.wtf8 st op).2 = .panic ∧ (step Format.wtf8 st op).1 = st ∧
        mayPanic wtf8Doc (absPool st) op)) := by
  obtain ⟨a, b, c⟩ := C11_step_refines_fx Format.wtf8 concatWtf8 lawsFx_wtf8 st op hwf
    ((avalid_iff _).mpr hv) ((dv_iff _).mpr hd)
  refine ⟨a, b, ?_⟩
  rcases c with c | ⟨c1, c2, c3⟩
  · exact Or.inl (by rw [c, stepFx_wtf8])
  · exact Or.inr ⟨c1, c2, (mayPanic_wtf8 _ _).mp c3⟩

/-- the specification keeps every slot well-formed WTF-8 -/
theorem C11_spec_valid_wtf8 (p : APool) (op : Op) (hv : AWf p) (hns : ∀ i k v, op ≠ .setByte i k v) :
    AWf (stepWtf8 p op).1 := by
  rw [← stepFx_wtf8, ← avalid_iff]
  exact C11_format_valid_fx Format.wtf8 concatWtf8 lawsFx_wtf8 p op ((avalid_iff _).mpr hv)
    (fun i k v e => absurd e (hns i k v))

/-- **The invariant is kept, one step**: slots and buffers hold well-formed WTF-8 afterwards. -/
theorem C11_step_valid_wtf8 (st : St) (op : Op) (hwf : StWF st) (hv : AWf (absPool st))
    (hd : BufWf st.heap) (hns : ∀ i k v, op ≠ .setByte i k v) :
    AWf (absPool (step Format.wtf8 st op).1) ∧ BufWf (step Format.wtf8 st op).1.heap := by
  constructor
  · obtain ⟨_, _, c⟩ := C11_step_refines_wtf8 st op hwf hv hd
    rcases c with c | ⟨_, c, _⟩
    · have := C11_spec_valid_wtf8 (absPool st) op hv hns
      rw [← c] at this; exact this
    · rw [c]; exact hv
  · rw [← dv_iff]
    exact C11_step_bufvalid_fx Format.wtf8 concatWtf8 lawsFx_wtf8 st op hwf ((avalid_iff _).mpr hv)
      ((dv_iff _).mpr hd) (fun i k v e => absurd e (hns i k v))

/-- **Refinement, all histories, WTF-8.**  After any history (without `DerefMut` byte stores, which
`tendril.rs` offers for `Bytes` only) from a state satisfying the invariant, the state satisfies the
invariant again and the abstract pool is what the owned-WTF-8-string specification computes for the
same history with the operations deleted on which the model panicked without the specification
panicking (`OFLOW`; those leave the model state unchanged). -/
theorem C11_run_refines_wtf8 (ops : List Op) (st : St) (hwf : StWF st) (hv : AWf (absPool st))
    (hd : BufWf st.heap) (hs : NoStores ops) :
    StWF (run Format.wtf8 st ops) ∧ AWf (absPool (run Format.wtf8 st ops)) ∧
    BufWf (run Format.wtf8 st ops).heap ∧
    ∃ ops', ops'.Sublist ops ∧ absPool (run Format.wtf8 st ops) = runWtf8 (absPool st) ops' := by
  obtain ⟨a, b, c, ops', h1, h2⟩ := C11_run_refines_fx Format.wtf8 concatWtf8 lawsFx_wtf8 ops st hwf
    ((avalid_iff _).mpr hv) ((dv_iff _).mpr hd) (storesOK_of_noStores hs)
  exact ⟨a, (avalid_iff _).mp b, (dv_iff _).mp c, ops', h1, by rw [h2, runFx_wtf8]⟩

/-- **A WTF-8 tendril always holds well-formed WTF-8**: in every state reachable from the empty pool
the state is well-formed and every slot — and every buffer — holds well-formed WTF-8 in the sense
of the WTF-8 document. -/
theorem C11_wtf8_valid (slots : Nat) (ops : List Op) (hs : NoStores ops) :
    StWF (run Format.wtf8 (St.init slots) ops) ∧ AWf (absPool (run Format.wtf8 (St.init slots) ops)) ∧
      BufWf (run Format.wtf8 (St.init slots) ops).heap := by
  obtain ⟨a, b, c⟩ := C11_reachable_wf_fx Format.wtf8 concatWtf8 lawsFx_wtf8 slots ops (storesOK_of_noStores hs)
  exact ⟨a, (avalid_iff _).mp b, (dv_iff _).mp c⟩

/-- **Independence, WTF-8.**  An operation changes at most its target slot(s): every other tendril of
the pool denotes exactly the same bytes afterwards, however the buffers are shared — also when a
push rewrites the last three bytes of its target for the surrogate fix-up. -/
theorem C11_independent_wtf8 (st : St) (op : Op) (hwf : StWF st) (hv : AWf (absPool st))
    (hd : BufWf st.heap) (m : Nat) (hm : m ∉ targets op) :
    (absPool (step Format.wtf8 st op).1)[m]? = (absPool st)[m]? :=
  C11_independent_fx Format.wtf8 concatWtf8 lawsFx_wtf8 st op hwf ((avalid_iff _).mpr hv)
    ((dv_iff _).mpr hd) m hm

/-- **No undefined behaviour, WTF-8**, on any reachable state. -/
theorem C11_no_ub_wtf8 (slots : Nat) (ops : List Op) (hs : NoStores ops) (op : Op) (s : String) :
    (step Format.wtf8 (run Format.wtf8 (St.init slots) ops) op).2 ≠ .ub s :=
  C11_no_ub_fx Format.wtf8 concatWtf8 lawsFx_wtf8 slots ops (storesOK_of_noStores hs) op s

/-- **checked push, WTF-8**: `try_push_bytes` answers `Err` iff the bytes are not well-formed WTF-8, and
then nothing changes; otherwise (short of the `OFLOW` panic) the tendril is the WTF-8 concatenation. -/
theorem C11_push_checked_wtf8 (st : St) (i : Nat) (bs : List UInt8) (t : T) (hwf : StWF st)
    (hv : AWf (absPool st)) (hd : BufWf st.heap) (hp : st.pool[i]? = some (some t)) :
    (¬ WfWtf8 bs →
      (step Format.wtf8 st (.pushBytes i bs)).2 = .err ∧
        absPool (step Format.wtf8 st (.pushBytes i bs)).1 = absPool st) ∧
    (WfWtf8 bs →
      ((step Format.wtf8 st (.pushBytes i bs)).2 = .ok ∧
        absPool (step Format.wtf8 st (.pushBytes i bs)).1
          = (absPool st).set i (some (concatWtf8 (abs st.heap t) bs))) ∨
      ((step Format.wtf8 st (.pushBytes i bs)).2 = .panic ∧ (step Format.wtf8 st (.pushBytes i bs)).1 = st)) := by
  obtain ⟨a, b⟩ := C11_push_checked_fx Format.wtf8 concatWtf8 lawsFx_wtf8 st i bs t hwf
    ((avalid_iff _).mpr hv) ((dv_iff _).mpr hd) hp
  constructor
  · intro h; apply a
    cases hb : Format.wtf8.validate bs with
    | false => rfl
    | true => exact absurd ((wtf8Validate_iff_wf bs).mp hb) h
  · intro h; exact b ((wtf8Validate_iff_wf bs).mpr h)

theorem encodeUtf8_length {n : Nat} {bs : List UInt8} (h : encodeUtf8 n = some bs) : bs.length ≤ 4 := by
  unfold encodeUtf8 at h
  repeat' split at h
  all_goals first
    | (cases h; simp)
    | cases h

/-- the WTF-8 fix-up inserts at most four bytes, and only when it drops six -/
theorem fixupSmall_wtf8 : FixupSmall Format.wtf8 := by
  intro a b
  show (wtf8Fixup a b).insert.length ≤ (wtf8Fixup a b).dropLeft + (wtf8Fixup a b).dropRight
  unfold wtf8Fixup
  split
  · split
    · simp only []
      split
      · rename_i bs he
        have := encodeUtf8_length he
        simp only []; omega
      · simp
    · simp
  · simp

/-- **No spurious panic, WTF-8.**  While the tendrils and the operands involved are below 2^30 bytes,
the model panics only where the owned-WTF-8-string specification panics (the `unwrap` of `pop_front`,
`pop_back`, `subtendril` on an error) — below that size every operation refines the specification
exactly. -/
theorem C11_no_spurious_panic_wtf8 (st : St) (op : Op) (hwf : StWF st) (hv : AWf (absPool st))
    (hd : BufWf st.heap) (hs : Small Format.wtf8 st op) :
    (absPool (step Format.wtf8 st op).1, (step Format.wtf8 st op).2) = stepWtf8 (absPool st) op := by
  rw [← stepFx_wtf8]
  exact C11_no_spurious_panic_fx Format.wtf8 concatWtf8 lawsFx_wtf8 fixupSmall_wtf8 st op hwf
    ((avalid_iff _).mpr hv) ((dv_iff _).mpr hd) hs

/-- the generalisation is conservative: for a format without fix-up the theorems over `LawsFx` are
those of `C11.lean` (`Spec.stepFx` with `++` is `Spec.step`) -/
theorem C11_step_refines_of_laws (F : Format) (L : Laws F) (st : St) (op : Op) (hwf : StWF st)
    (hv : AValid F (absPool st)) (hd : DV F st.heap) :
    (absPool (step F st op).1, (step F st op).2) = Spec.step F (absPool st) op ∨
      ((step F st op).2 = .panic ∧ (step F st op).1 = st ∧ mayPanic F (absPool st) op) := by
  have := (C11_step_refines_fx F _ L.toLawsFx st op hwf hv hd).2.2
  rwa [Spec.stepFx_append] at this

/-! ## non-vacuity -/

/-- the specification on the example of the WTF-8 document's motivation: U+D83D ++ U+DCA9 = U+1F4A9 -/
example : concatWtf8 [0xED, 0xA0, 0xBD] [0xED, 0xB2, 0xA9] = [0xF0, 0x9F, 0x92, 0xA9] := by decide
example : decCps [0xED, 0xA0, 0xBD] = some [0xD83D] ∧ decCps [0xED, 0xB2, 0xA9] = some [0xDCA9] ∧
    joinCps [0xD83D] [0xDCA9] = [0x1F4A9] ∧ encCps [0x1F4A9] = [0xF0, 0x9F, 0x92, 0xA9] := by decide
/-- no fix-up: lead surrogate followed by ASCII, trail followed by lead -/
example : concatWtf8 [0xED, 0xA0, 0xBD] [0x41] = [0xED, 0xA0, 0xBD, 0x41] := by decide
example : concatWtf8 [0xED, 0xB2, 0xA9] [0xED, 0xA0, 0xBD] = [0xED, 0xB2, 0xA9, 0xED, 0xA0, 0xBD] := by decide
/-- a surrogate pair spelled as two three-byte sequences is not well-formed; its halves are -/
example : wfWtf8 [0xED, 0xA0, 0xBD, 0xED, 0xB2, 0xA9] = false ∧ wfWtf8 [0xED, 0xA0, 0xBD] = true ∧
    wfWtf8 [0xED, 0xB2, 0xA9] = true ∧ wfWtf8 [0xF0, 0x9F, 0x92, 0xA9] = true ∧
    wfWtf8 [0xC0, 0x80] = false ∧ wfWtf8 [0xF4, 0x90, 0x80, 0x80] = false ∧ wfWtf8 [0xE0, 0x80, 0x80] = false := by
  decide

/-- the model, inline tendrils: `push_tendril` of `ED B2 A9` onto `ED A0 BD` gives `F0 9F 92 A9` -/
example : absPool (run Format.wtf8 (St.init 2)
    [.fromBytes 0 [0xED, 0xA0, 0xBD], .fromBytes 1 [0xED, 0xB2, 0xA9], .pushTendril 0 1])
    = [some [0xF0, 0x9F, 0x92, 0xA9], some [0xED, 0xB2, 0xA9]] := by decide

/-- the model, `try_push_bytes` on an inline tendril -/
example : absPool (run Format.wtf8 (St.init 1)
    [.fromBytes 0 [0xED, 0xA0, 0xBD], .pushBytes 0 [0xED, 0xB2, 0xA9]])
    = [some [0xF0, 0x9F, 0x92, 0xA9]] := by decide

private def lhs11 : List UInt8 := [0x61, 0x62, 0x63, 0x64, 0x65, 0x66, 0x67, 0x68, 0xED, 0xA0, 0xBD]
private def rhs11 : List UInt8 := [0xED, 0xB2, 0xA9, 0x31, 0x32, 0x33, 0x34, 0x35, 0x36, 0x37, 0x38]

/-- the model, heap tendrils (11 bytes each, owned buffers): the last three bytes of the left operand
and the first three of the right one become the four bytes of U+1F4A9; the right operand keeps its
bytes -/
example : (run Format.wtf8 (St.init 2) [.fromBytes 0 lhs11, .fromBytes 1 rhs11]).pool
    = [some (.owned 0 11 16), some (.owned 1 11 16)] := by decide
example : absPool (run Format.wtf8 (St.init 2) [.fromBytes 0 lhs11, .fromBytes 1 rhs11, .pushTendril 0 1])
    = [some ([0x61, 0x62, 0x63, 0x64, 0x65, 0x66, 0x67, 0x68] ++ [0xF0, 0x9F, 0x92, 0xA9] ++
        [0x31, 0x32, 0x33, 0x34, 0x35, 0x36, 0x37, 0x38]), some rhs11] := by decide

/-- the model, shared buffers: the left operand is a clone (shared buffer); the push copies, the
other owner of the buffer keeps `lhs11` -/
example : absPool (run Format.wtf8 (St.init 3)
    [.fromBytes 0 lhs11, .clone 0 2, .fromBytes 1 rhs11, .pushTendril 0 1])
    = [some ([0x61, 0x62, 0x63, 0x64, 0x65, 0x66, 0x67, 0x68] ++ [0xF0, 0x9F, 0x92, 0xA9] ++
        [0x31, 0x32, 0x33, 0x34, 0x35, 0x36, 0x37, 0x38]), some rhs11, some lhs11] := by decide

/-- NO fix-up: a lead surrogate followed by ASCII (inline and heap) -/
example : absPool (run Format.wtf8 (St.init 2)
    [.fromBytes 0 [0xED, 0xA0, 0xBD], .fromBytes 1 [0x41], .pushTendril 0 1])
    = [some [0xED, 0xA0, 0xBD, 0x41], some [0x41]] := by decide
example : absPool (run Format.wtf8 (St.init 2)
    [.fromBytes 0 lhs11, .fromBytes 1 [0x41, 0x42], .pushTendril 0 1])
    = [some (lhs11 ++ [0x41, 0x42]), some [0x41, 0x42]] := by decide

private def mid20 : List UInt8 :=
  [0x61, 0x62, 0x63, 0x64, 0x65, 0x66, 0x67, 0xED, 0xA0, 0xBD, 0x41, 0x42, 0x43, 0x44, 0x45, 0x46, 0x47,
   0x48, 0x49, 0x4A]

/-- the zero-copy merge of two adjacent views of one buffer (which skips `WTF8::fixup`): the left view
ends with a lead surrogate, what follows in the buffer cannot be a trail surrogate -/
example : (run Format.wtf8 (St.init 3)
    [.fromBytes 0 mid20, .trySubtendril 0 1 0 10, .trySubtendril 0 2 10 10, .pushTendril 1 2]).pool
    = [some (.shared 0 0 20), some (.shared 0 0 20), some (.shared 0 10 10)] := by decide

/-- a checked slice that would cut the surrogate in two is refused; one that isolates it is fine -/
example : (step Format.wtf8 (run Format.wtf8 (St.init 2) [.fromBytes 0 mid20]) (.trySubtendril 0 1 0 9)).2
    = .inv := by decide
example : absPool (step Format.wtf8 (run Format.wtf8 (St.init 2) [.fromBytes 0 mid20])
    (.trySubtendril 0 1 7 3)).1 = [some mid20, some [0xED, 0xA0, 0xBD]] := by decide
/-- a pushed slice that is not well-formed WTF-8 (a surrogate pair in two three-byte sequences) is
rejected -/
example : (step Format.wtf8 (run Format.wtf8 (St.init 1) [.fromBytes 0 [0x41]])
    (.pushBytes 0 [0xED, 0xA0, 0xBD, 0xED, 0xB2, 0xA9])).2 = .err := by decide

/-! ## axioms -/

#print axioms lawsFx_wtf8
#print axioms wtf8Validate_iff_wf
#print axioms C11_wtf8_fixup_agrees
#print axioms C11_step_refines_wtf8
#print axioms C11_step_valid_wtf8
#print axioms C11_spec_valid_wtf8
#print axioms C11_run_refines_wtf8
#print axioms C11_wtf8_valid
#print axioms C11_independent_wtf8
#print axioms C11_no_ub_wtf8
#print axioms C11_push_checked_wtf8
#print axioms C11_no_spurious_panic_wtf8
#print axioms C11_step_refines_of_laws
#print axioms C11_step_refines_fx
#print axioms C11_step_bufvalid_fx
#print axioms C11_format_valid_fx
#print axioms C11_run_refines_fx
#print axioms C11_independent_fx
#print axioms Spec.decCps_iff
#print axioms Spec.wfWtf8_iff

end H5V.Props.C11
