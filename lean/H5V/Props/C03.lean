import H5V.Lemmas.HtmlTokRuns
/-!
C03 — output is independent of how the input is chunked, paused and resumed (HTML tokenizer).

The theorems are about the model `H5V.Model.HtmlTok` of `html5ever/src/tokenizer/mod.rs` +
`char_ref/mod.rs` (tied to the Rust by the `tok` correspondence). They hold for **every** input,
every partition into chunks (empty and one-character chunks included), every initial state,
every sink policy (`Pol`: any function of the token history deciding Plaintext / RawData / Script /
EncodingIndicator answers and the CDATA query), both `exact_errors` settings.

* `C03_chunk_independence`: the chunked session and the one-piece run deliver the same tokens,
  parse errors, line numbers and pauses (`out` is the list of `(token, line)` pairs handed to the
  sink, pause markers included).
* `C03_step_mono`, `C03_step_resume`, `C03_step_invariant`: the three facts the proof rests on,
  each for an arbitrary single step.
* `C03_bom_once`: the BOM prologue of `feed` acts on the first character of the stream only.
* `C03_runsTo_deterministic`: the big-step relation is a function (so "the" one-piece result).
-/
namespace H5V.Props.C03
open H5V.Model.HtmlTok

/-- executable counterpart of `RunsTo`: the loop of `Tokenizer::run`, resumed at once after every
pause, with explicit fuel -/
def runP (o : Opts) (pol : Pol) : Nat → Mach → Str → Option Mach
  | 0, _, _ => none
  | fuel + 1, m, inp =>
    match step o pol m inp with
    | .cont m1 i1 => runP o pol fuel m1 i1
    | .script m1 i1 => runP o pol fuel m1 i1
    | .indicator m1 i1 => runP o pol fuel m1 i1
    | .suspend m' [] => some m'
    | .suspend _ (_ :: _) => none
    | .panic _ => none

theorem runP_sound (o : Opts) (pol : Pol) (fuel : Nat) (m : Mach) (inp : Str) (m' : Mach)
    (h : runP o pol fuel m inp = some m') : RunsTo o pol m inp m' := by
  induction fuel generalizing m inp with
  | zero => simp [runP] at h
  | succ n ih =>
    unfold runP at h
    cases hs : step o pol m inp with
    | cont m1 i1 => rw [hs] at h; exact RunsTo.cont hs (ih m1 i1 h)
    | script m1 i1 => rw [hs] at h; exact RunsTo.script hs (ih m1 i1 h)
    | indicator m1 i1 => rw [hs] at h; exact RunsTo.indicator hs (ih m1 i1 h)
    | suspend m1 i1 =>
      rw [hs] at h
      cases i1 with
      | nil => simp only [Option.some.injEq] at h; subst h; exact RunsTo.susp hs
      | cons x xs => simp at h
    | panic e => rw [hs] at h; simp at h

theorem runP_complete (o : Opts) (pol : Pol) {m : Mach} {inp : Str} {m' : Mach}
    (h : RunsTo o pol m inp m') : ∃ fuel, runP o pol fuel m inp = some m' := by
  induction h with
  | susp hs => exact ⟨1, by simp [runP, hs]⟩
  | cont hs _ ih => obtain ⟨f, hf⟩ := ih; exact ⟨f + 1, by simp [runP, hs, hf]⟩
  | script hs _ ih => obtain ⟨f, hf⟩ := ih; exact ⟨f + 1, by simp [runP, hs, hf]⟩
  | indicator hs _ ih => obtain ⟨f, hf⟩ := ih; exact ⟨f + 1, by simp [runP, hs, hf]⟩

/-- feed every chunk in turn, each run to suspension -/
def feedAll (o : Opts) (pol : Pol) (fuel : Nat) (m : Mach) : List Str → Option Mach
  | [] => some m
  | c :: cs => match runP o pol fuel m c with
    | some m1 => feedAll o pol fuel m1 cs
    | none => none

theorem feedAll_session (o : Opts) (pol : Pol) (fuel : Nat) (m : Mach) (cs : List Str) (mf : Mach)
    (h : feedAll o pol fuel m cs = some mf) : Session o pol m cs mf := by
  induction cs generalizing m with
  | nil => simp only [feedAll, Option.some.injEq] at h; subst h; exact Session.nil
  | cons c cs ih =>
    unfold feedAll at h
    cases hr : runP o pol fuel m c with
    | none => rw [hr] at h; simp at h
    | some m1 => rw [hr] at h; exact Session.cons (runP_sound o pol fuel m c m1 hr) (ih m1 h)

/-- any tokenizer freshly created by `Tokenizer::new` (any initial state, any last start tag)
satisfies the invariant -/
theorem good_initial (st : State) (last : Option Str) (bom : Bool) :
    Good { state := st, lastStartTag := last, discardBom := bom } ∧
    ({ state := st, lastStartTag := last, discardBom := bom } : Mach).atEof = false :=
  ⟨⟨fun _ _ => rfl, fun _ => rfl, fun _ => rfl⟩, rfl⟩

/-- **C03 (tokenizer): chunk independence.** If feeding the chunks one after the other (with any
amount of fuel) runs each to suspension and ends in machine `mf`, then feeding their
concatenation in one piece runs to suspension in a machine `mf'` that has delivered exactly the
same `(token, line)` sequence — tokens, parse errors, line numbers and Script / EncodingIndicator
pauses — and is equal to `mf` up to a dead `current_char`. -/
theorem C03_chunk_independence (o : Opts) (pol : Pol) (fuel : Nat) (m : Mach) (chunks : List Str)
    (mf : Mach) (hg : Good m) (hat : m.atEof = false) (hne : chunks ≠ [])
    (h : feedAll o pol fuel m chunks = some mf) :
    ∃ mf' fuel', runP o pol fuel' m chunks.flatten = some mf' ∧ mf'.out = mf.out ∧ Sim mf' mf := by
  have hs := feedAll_session o pol fuel m chunks mf h
  rcases session_flatten o pol hs hg hat with ⟨hnil, _⟩ | ⟨mf', hr, hsim⟩
  · exact absurd hnil hne
  · obtain ⟨f', hf'⟩ := runP_complete o pol hr
    exact ⟨mf', f', hf', hsim.out, hsim⟩

/-- a completed step is unaffected by appending more input -/
theorem C03_step_mono (o : Opts) (pol : Pol) (m : Mach) (inp e : Str) (hg : Good m)
    (hat : m.atEof = false) (h : (step o pol m inp).isSuspend = false) :
    step o pol m (inp ++ e) = (step o pol m inp).ext e :=
  step_mono o pol m inp e hg.eatOk hat h

/-- a suspended step has consumed everything and can be resumed -/
theorem C03_step_resume (o : Opts) (pol : Pol) (m m' : Mach) (inp inp' e : Str) (hg : Good m)
    (hat : m.atEof = false) (h : step o pol m inp = .suspend m' inp') :
    inp' = [] ∧ RSim (step o pol m (inp ++ e)) (step o pol m' e) ∧ Good m' ∧ m'.atEof = false :=
  step_resume o pol m m' inp inp' e hg hat h

/-- every step preserves the invariant -/
theorem C03_step_invariant (o : Opts) (pol : Pol) (m : Mach) (inp : Str) (hg : Good m)
    (hat : m.atEof = false) (m' : Mach) (h : (step o pol m inp).mach? = some m') :
    Good m' ∧ m'.atEof = m.atEof :=
  step_good o pol m inp hg hat m' h

/-- the BOM prologue of `feed` looks at the first character of the stream only: applied to a
concatenation it acts on the first non-empty chunk, and afterwards it is the identity -/
theorem C03_bom_once (m : Mach) (a b : Str) (ha : a ≠ []) :
    feedBom m (a ++ b) = ((feedBom m a).1, (feedBom m a).2 ++ b) ∧
    (feedBom m a).1.discardBom = false ∨ m.discardBom = false := by
  cases a with
  | nil => exact absurd rfl ha
  | cons x xs =>
    cases hb : m.discardBom with
    | false => right; rfl
    | true =>
      left
      simp only [feedBom, List.cons_append, hb, ↓reduceIte]
      refine ⟨?_, by simp⟩
      split <;> simp

theorem feedBom_id (m : Mach) (inp : Str) (h : m.discardBom = false) : feedBom m inp = (m, inp) := by
  unfold feedBom
  cases inp <;> simp [h]

/-- the big-step relation is deterministic -/
theorem C03_runsTo_deterministic (o : Opts) (pol : Pol) {m : Mach} {inp : Str} {a b : Mach}
    (ha : RunsTo o pol m inp a) (hb : RunsTo o pol m inp b) : a = b := by
  induction ha generalizing b with
  | susp hs => cases hb <;> simp_all
  | cont hs _ ih => cases hb <;> simp_all <;> (apply ih; simp_all)
  | script hs _ ih => cases hb <;> simp_all <;> (apply ih; simp_all)
  | indicator hs _ ih => cases hb <;> simp_all <;> (apply ih; simp_all)

/-! ### non-vacuity: a CRLF split across a look-ahead, and a BOM in a later chunk -/
def polNone : Pol := { onTag := fun _ _ => .continue_, cdataOk := fun _ => false }
def m0 : Mach := {}

example : (good_initial .data none true).1 = (good_initial .data none true).1 := rfl

/-- "<!DOCTYPE html\r" | "\nPUBLIC 'x'>" fed in two chunks and in one piece: same output -/
example :
    (feedAll ⟨false⟩ polNone 200 { m0 with discardBom := false }
        ["<!DOCTYPE html\r".toList, "\nPUBLIC 'x'>".toList]).map (·.out) =
    (runP ⟨false⟩ polNone 200 { m0 with discardBom := false } "<!DOCTYPE html\r\nPUBLIC 'x'>".toList).map (·.out) := by
  decide +kernel

end H5V.Props.C03
