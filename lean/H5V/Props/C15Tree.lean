import H5V.Lemmas.XmlTBSplit
import H5V.Props.C16
/-!
C15 lifted to the **tree**: the model of xml5ever's tree builder (`H5V.Model.XmlTB`) is insensitive
to how a run of characters is cut into character tokens.

The tokenizer-level theorems (`Props/C15.lean`, `C15Run.lean`) compare token streams *after merging
adjacent character tokens* — the real tokenizer emits character runs whose boundaries follow the
chunk and buffer boundaries.  This file closes the gap to the final tree.

* `SimS s t` (`Lemmas/XmlTBSplit.lean`): every field of the builder state — phase, document
  children before/after the root, the root, the open elements with their children, the namespace
  stack, the trace of created elements, `doctype_seen` — is equal; the parse-error logs are equal
  after collapsing adjacent repetitions (`dedupAdj`).  The *number* of "Unexpected element in
  start/end phase" reports legitimately depends on the cut: non-whitespace text outside the root
  element is reported once per character token (`C15_tree_error_count_depends_on_cut`); nothing else
  does.
* `C15_tb_char_split` — `chars (a ++ b)` against `chars a, chars b`, all three phases (before the
  root: whitespace ignored, other text reported and dropped; inside: RcDom's text merge; after the
  root: as before it), **no** non-emptiness hypothesis.
* `C15_tb_sim_step` — congruence: any token delivered to `SimS` states.
* `Resplit`, `C15_tree_resplit_run`, `C15_tree_resplit`, `C15_tree_obs` — the congruence closure of
  the cut; two `Resplit`-related token lists fail alike or end in `SimS` states; same document,
  same created elements, same phase, same collapsed error log.
* `mergeChars`, `C15_resplit_of_merge_eq`, `C15_tree_merge_obs` — the criterion the tokenizer
  correspondence uses: equal after merging adjacent character tokens ⇒ same observable result.
-/
namespace H5V.Props.C15
open H5V.Model.XmlTB H5V.Lemmas.XmlTBSplit

/-! ## the step-level statements -/

/-- what `SimS` fixes -/
theorem C15_tb_sim_fields {s t : State} (h : SimS s t) :
    s.phase = t.phase ∧ s.docBefore = t.docBefore ∧ s.docAfter = t.docAfter ∧ s.root = t.root ∧
    s.opened = t.opened ∧ s.nsStack = t.nsStack ∧ s.created = t.created ∧ s.doctypeSeen = t.doctypeSeen ∧
    dedupAdj s.errors = dedupAdj t.errors := by
  obtain ⟨h1, h2⟩ := h
  cases s; cases t
  simp only [strip, State.mk.injEq] at h1
  obtain ⟨a, b, c, d, e, f, g, _, i⟩ := h1
  exact ⟨a, b, c, d, e, f, g, i, h2⟩

theorem C15_tb_sim_equiv : (∀ s, SimS s s) ∧ (∀ s t, SimS s t → SimS t s) ∧
    (∀ s t u, SimS s t → SimS t u → SimS s u) :=
  ⟨SimS.refl, fun _ _ h => h.symm, fun _ _ _ h h' => h.trans h'⟩

/-- **main lemma**: one character token against its two halves, from the same state, every phase -/
theorem C15_tb_char_split (cfg : TbCfg) (s : State) (a b : Str) :
    RelR (step cfg s (.chars (a ++ b))) ((step cfg s (.chars a)).bind (fun s' => step cfg s' (.chars b))) :=
  step_split cfg s a b

/-- **congruence**: every token, delivered to `SimS` states, fails alike or leads to `SimS` states -/
theorem C15_tb_sim_step (cfg : TbCfg) (tok : Token) {s t : State} (h : SimS s t) :
    RelR (step cfg s tok) (step cfg t tok) := step_sim cfg tok h

/-- the parse-error log is write-only (`step` never reads it) -/
theorem C15_tb_errors_write_only (cfg : TbCfg) (tok : Token) (s : State) :
    step cfg s tok = (step cfg (strip s) tok).map (addErr s.errors) := step_wr cfg tok s

/-! ## token lists -/

/-- the congruence closure of "replace `chars (a ++ b)` by `chars a, chars b`" -/
inductive Resplit : List Token → List Token → Prop
  | refl (ts : List Token) : Resplit ts ts
  | split (a b : Str) : Resplit [.chars (a ++ b)] [.chars a, .chars b]
  | symm {x y : List Token} : Resplit x y → Resplit y x
  | trans {x y z : List Token} : Resplit x y → Resplit y z → Resplit x z
  | append {x y x' y' : List Token} : Resplit x y → Resplit x' y' → Resplit (x ++ x') (y ++ y')

theorem run_append (cfg : TbCfg) : ∀ (l1 l2 : List Token) (s : State),
    run cfg s (l1 ++ l2) = (run cfg s l1).bind (fun s' => run cfg s' l2)
  | [], l2, s => rfl
  | t :: rest, l2, s => by
    simp only [List.cons_append, run]
    cases step cfg s t with
    | error e => rfl
    | ok s' => exact run_append cfg rest l2 s'

/-- the two token lists drive the tree builder alike -/
def RunAlike (cfg : TbCfg) (ts ts' : List Token) : Prop :=
  ∀ s t, SimS s t → RelR (run cfg s ts) (run cfg t ts')

theorem runAlike_refl (cfg : TbCfg) : ∀ ts, RunAlike cfg ts ts
  | [] => fun _ _ h => h
  | tok :: rest => by
    intro s t h
    have h1 := step_sim cfg tok h
    simp only [run]
    cases hs : step cfg s tok <;> cases ht : step cfg t tok <;> rw [hs, ht] at h1 <;> simp only [RelR] at h1
    · exact h1
    · exact runAlike_refl cfg rest _ _ h1

theorem relR_bind {x y : Except String State} (h : RelR x y) {f g : State → Except String State}
    (hfg : ∀ s t, SimS s t → RelR (f s) (g t)) : RelR (x.bind f) (y.bind g) := by
  cases x <;> cases y <;> simp only [RelR] at h
  · exact h
  · exact hfg _ _ h

/-- **`Resplit`-related token lists drive the tree builder alike**, from any pair of `SimS` states -/
theorem C15_tree_resplit_run (cfg : TbCfg) {ts1 ts2 : List Token} (h : Resplit ts1 ts2) :
    RunAlike cfg ts1 ts2 := by
  induction h with
  | refl ts => exact runAlike_refl cfg ts
  | split a b =>
    intro s t hst
    have h1 := step_split cfg s a b
    have h2 : RelR ((step cfg s (.chars a)).bind (fun s' => step cfg s' (.chars b)))
        ((step cfg t (.chars a)).bind (fun s' => step cfg s' (.chars b))) :=
      relR_bind (step_sim cfg _ hst) (fun _ _ h => step_sim cfg _ h)
    have e1 : run cfg s [.chars (a ++ b)] = step cfg s (.chars (a ++ b)) := by
      simp only [run]; cases step cfg s (.chars (a ++ b)) <;> rfl
    have e2 : run cfg t [.chars a, .chars b] =
        (step cfg t (.chars a)).bind (fun s' => step cfg s' (.chars b)) := by
      simp only [run]
      cases step cfg t (.chars a) with
      | error e => rfl
      | ok u => simp only [Except.bind]; cases step cfg u (.chars b) <;> rfl
    rw [e1, e2]
    exact h1.trans h2
  | symm _ ih => exact fun s t hst => (ih t s hst.symm).symm
  | trans _ _ ih1 ih2 => exact fun s t hst => (ih1 s t hst).trans (ih2 t t (SimS.refl t))
  | append _ _ ih1 ih2 =>
    intro s t hst
    rw [run_append, run_append]
    exact relR_bind (ih1 s t hst) ih2

/-- **C15, tree level.**  Two token lists that differ only in how character runs are cut give, from
the initial state, the same outcome: the same panic site, or final states that agree in every field
except the repetition count of adjacent equal parse errors -/
theorem C15_tree_resplit (cfg : TbCfg) {ts1 ts2 : List Token} (h : Resplit ts1 ts2) :
    RelR (run cfg State.init ts1) (run cfg State.init ts2) :=
  C15_tree_resplit_run cfg h _ _ (SimS.refl _)

/-- the observable result of a run: the document (children of the document node: what was appended
before the root, the root element with everything below it, what was appended after it), the trace
of `create_element` calls, the final phase, and the parse-error log with adjacent repetitions
collapsed (oldest first) -/
def Obs (r : Except String State) : Except String (List Node × List Created × Phase × List Err) :=
  r.map (fun s => (s.document, s.createdList, s.phase, (dedupAdj s.errors).reverse))

theorem obs_of_relR {x y : Except String State} (h : RelR x y) : Obs x = Obs y := by
  cases x <;> cases y <;> simp only [RelR] at h
  · rw [h]
  · obtain ⟨_, b, c, d, e, _, g, _, i⟩ := C15_tb_sim_fields h
    simp only [Obs, Except.map, State.document, State.createdList]
    rw [b, c, d, e, g, i, (C15_tb_sim_fields h).1]

/-- **same tree**: the cut of the character runs is not observable -/
theorem C15_tree_obs (cfg : TbCfg) {ts1 ts2 : List Token} (h : Resplit ts1 ts2) :
    Obs (run cfg State.init ts1) = Obs (run cfg State.init ts2) :=
  obs_of_relR (C15_tree_resplit cfg h)

/-- … and, since the run never fails (`C16_no_panic`), both runs succeed with the same document -/
theorem C15_tree_same_document (cfg : TbCfg) {ts1 ts2 : List Token} (h : Resplit ts1 ts2) :
    ∃ s t, run cfg State.init ts1 = .ok s ∧ run cfg State.init ts2 = .ok t ∧ s.document = t.document ∧
      s.createdList = t.createdList ∧ s.phase = t.phase := by
  obtain ⟨s, hs⟩ := H5V.Props.C16.C16_no_panic cfg ts1
  obtain ⟨t, ht⟩ := H5V.Props.C16.C16_no_panic cfg ts2
  have hr := C15_tree_resplit cfg h
  rw [hs, ht] at hr
  obtain ⟨a, b, c, d, e, _, g, _, _⟩ := C15_tb_sim_fields hr
  exact ⟨s, t, hs, ht, by simp only [State.document]; rw [b, c, d, e], by simp only [State.createdList]; rw [g], a⟩

/-! ## the criterion of the tokenizer correspondence: equal after merging adjacent character tokens -/

/-- merge adjacent character tokens -/
def mergeChars : List Token → List Token
  | [] => []
  | .chars x :: rest =>
    match mergeChars rest with
    | .chars y :: r => .chars (x ++ y) :: r
    | r => .chars x :: r
  | t :: rest => t :: mergeChars rest

theorem mergeChars_cons_chars (x : Str) (rest : List Token) :
    mergeChars (.chars x :: rest) =
      match mergeChars rest with
      | .chars y :: r => .chars (x ++ y) :: r
      | r => .chars x :: r := by
  rw [mergeChars]

/-- every token list is a re-cut of its merged form -/
theorem resplit_mergeChars : ∀ (ts : List Token), Resplit ts (mergeChars ts)
  | [] => Resplit.refl _
  | t :: rest => by
    have ih := resplit_mergeChars rest
    have hcons : ∀ t', Resplit (t' :: rest) (t' :: mergeChars rest) := fun t' =>
      Resplit.append (x := [t']) (y := [t']) (Resplit.refl _) ih
    cases t with
    | chars x =>
      rw [mergeChars_cons_chars]
      cases hm : mergeChars rest with
      | nil => rw [hm] at hcons; exact hcons _
      | cons t2 r =>
        cases t2 with
        | chars y =>
          rw [hm] at hcons
          refine (hcons (.chars x)).trans ?_
          exact Resplit.append (x := [.chars x, .chars y]) (y := [.chars (x ++ y)]) (x' := r) (y' := r)
            (Resplit.split x y).symm (Resplit.refl r)
        | tag _ => rw [hm] at hcons; exact hcons _
        | doctype _ _ _ => rw [hm] at hcons; exact hcons _
        | comment _ => rw [hm] at hcons; exact hcons _
        | pi _ _ => rw [hm] at hcons; exact hcons _
        | nullChar => rw [hm] at hcons; exact hcons _
        | eof => rw [hm] at hcons; exact hcons _
    | tag _ => simpa [mergeChars] using hcons _
    | doctype _ _ _ => simpa [mergeChars] using hcons _
    | comment _ => simpa [mergeChars] using hcons _
    | pi _ _ => simpa [mergeChars] using hcons _
    | nullChar => simpa [mergeChars] using hcons _
    | eof => simpa [mergeChars] using hcons _

/-- two streams that are equal after merging adjacent character tokens are re-cuts of each other
(no hypothesis on empty character tokens is needed here) -/
theorem C15_resplit_of_merge_eq {ts1 ts2 : List Token} (h : mergeChars ts1 = mergeChars ts2) :
    Resplit ts1 ts2 :=
  (resplit_mergeChars ts1).trans (h ▸ (resplit_mergeChars ts2).symm)

/-- **C15, tree level, in the form the tokenizer correspondence uses it**: token streams that are
equal after merging adjacent character tokens give the same observable result -/
theorem C15_tree_merge_obs (cfg : TbCfg) {ts1 ts2 : List Token} (h : mergeChars ts1 = mergeChars ts2) :
    Obs (run cfg State.init ts1) = Obs (run cfg State.init ts2) :=
  C15_tree_obs cfg (C15_resplit_of_merge_eq h)

/-! ## non-vacuity -/

def rn (s : String) : RName := ⟨none, s.toList⟩

/-- `<r>` + "a b" + `</r>`, the text cut in the middle -/
def exWhole : List Token :=
  [.tag ⟨.start, rn "r", []⟩, .chars "a b".toList, .tag ⟨.end_, rn "r", []⟩, .eof]
def exCut : List Token :=
  [.tag ⟨.start, rn "r", []⟩, .chars "a".toList, .chars " b".toList, .tag ⟨.end_, rn "r", []⟩, .eof]

example : mergeChars exCut = mergeChars exWhole := by decide

example : Obs (run TbCfg.current State.init exCut) = Obs (run TbCfg.current State.init exWhole) :=
  C15_tree_merge_obs _ (by decide)

/-- the common document has one text node `a b` under `r` -/
example : (match run TbCfg.current State.init exCut with
    | .ok s => s.document.length
    | .error _ => 0) = 1 := by decide

/-- **why the error log is compared after collapsing repetitions**: non-whitespace text before the
root element is reported once per character token -/
theorem C15_tree_error_count_depends_on_cut :
    (match run TbCfg.current State.init [.chars "ab".toList], run TbCfg.current State.init [.chars "a".toList, .chars "b".toList] with
     | .ok s, .ok t => (s.errors, t.errors)
     | _, _ => ([], [])) = ([.unexpStart], [.unexpStart, .unexpStart]) := by decide

end H5V.Props.C15
