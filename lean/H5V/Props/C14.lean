import H5V.Gen.Entities
import H5V.Gen.C1
import H5V.Spec.Entities
import H5V.Spec.C1
import H5V.Model.HtmlTok
/-!
C14 — every character reference resolves to its WHATWG value.

* `C14_table` / `C14_c1`: the tables regenerated from `web_atoms/entities.rs` and `web_atoms/lib.rs`
  on every run equal the frozen WHATWG references (kernel-checked row by row, 2231 rows).
* `C14_lookup_exact`, `C14_lookup_prefix`, `C14_lookup_none`: the model of `build.rs` + `phf`
  (`entityLookup`) answers a table value exactly for table names, `(0,0)` exactly for proper prefixes
  of table names, and nothing otherwise.
* `C14_named_longest` (+ `C14_walk_is_do_named`): the walk of `do_named` stops with the **longest**
  table name that is a prefix of the text after `&`, for every text (prefix closure is what makes
  the greedy walk complete).
* `C14_numeric_*`: the wrapping accumulator with its `num_too_big` latch computes
  "value > 0x10FFFF" exactly, and `finish_numeric` returns the standard's code point for every value.
-/
namespace H5V.Props.C14
open H5V H5V.Model.HtmlTok

/-! ### tables -/

theorem bucket_65 : Gen.Entities.b_65 = Spec.Entities.b_65 := by decide +kernel
theorem bucket_66 : Gen.Entities.b_66 = Spec.Entities.b_66 := by decide +kernel
theorem bucket_67 : Gen.Entities.b_67 = Spec.Entities.b_67 := by decide +kernel
theorem bucket_68 : Gen.Entities.b_68 = Spec.Entities.b_68 := by decide +kernel
theorem bucket_69 : Gen.Entities.b_69 = Spec.Entities.b_69 := by decide +kernel
theorem bucket_70 : Gen.Entities.b_70 = Spec.Entities.b_70 := by decide +kernel
theorem bucket_71 : Gen.Entities.b_71 = Spec.Entities.b_71 := by decide +kernel
theorem bucket_72 : Gen.Entities.b_72 = Spec.Entities.b_72 := by decide +kernel
theorem bucket_73 : Gen.Entities.b_73 = Spec.Entities.b_73 := by decide +kernel
theorem bucket_74 : Gen.Entities.b_74 = Spec.Entities.b_74 := by decide +kernel
theorem bucket_75 : Gen.Entities.b_75 = Spec.Entities.b_75 := by decide +kernel
theorem bucket_76 : Gen.Entities.b_76 = Spec.Entities.b_76 := by decide +kernel
theorem bucket_77 : Gen.Entities.b_77 = Spec.Entities.b_77 := by decide +kernel
theorem bucket_78 : Gen.Entities.b_78 = Spec.Entities.b_78 := by decide +kernel
theorem bucket_79 : Gen.Entities.b_79 = Spec.Entities.b_79 := by decide +kernel
theorem bucket_80 : Gen.Entities.b_80 = Spec.Entities.b_80 := by decide +kernel
theorem bucket_81 : Gen.Entities.b_81 = Spec.Entities.b_81 := by decide +kernel
theorem bucket_82 : Gen.Entities.b_82 = Spec.Entities.b_82 := by decide +kernel
theorem bucket_83 : Gen.Entities.b_83 = Spec.Entities.b_83 := by decide +kernel
theorem bucket_84 : Gen.Entities.b_84 = Spec.Entities.b_84 := by decide +kernel
theorem bucket_85 : Gen.Entities.b_85 = Spec.Entities.b_85 := by decide +kernel
theorem bucket_86 : Gen.Entities.b_86 = Spec.Entities.b_86 := by decide +kernel
theorem bucket_87 : Gen.Entities.b_87 = Spec.Entities.b_87 := by decide +kernel
theorem bucket_88 : Gen.Entities.b_88 = Spec.Entities.b_88 := by decide +kernel
theorem bucket_89 : Gen.Entities.b_89 = Spec.Entities.b_89 := by decide +kernel
theorem bucket_90 : Gen.Entities.b_90 = Spec.Entities.b_90 := by decide +kernel
theorem bucket_97 : Gen.Entities.b_97 = Spec.Entities.b_97 := by decide +kernel
theorem bucket_98 : Gen.Entities.b_98 = Spec.Entities.b_98 := by decide +kernel
theorem bucket_99 : Gen.Entities.b_99 = Spec.Entities.b_99 := by decide +kernel
theorem bucket_100 : Gen.Entities.b_100 = Spec.Entities.b_100 := by decide +kernel
theorem bucket_101 : Gen.Entities.b_101 = Spec.Entities.b_101 := by decide +kernel
theorem bucket_102 : Gen.Entities.b_102 = Spec.Entities.b_102 := by decide +kernel
theorem bucket_103 : Gen.Entities.b_103 = Spec.Entities.b_103 := by decide +kernel
theorem bucket_104 : Gen.Entities.b_104 = Spec.Entities.b_104 := by decide +kernel
theorem bucket_105 : Gen.Entities.b_105 = Spec.Entities.b_105 := by decide +kernel
theorem bucket_106 : Gen.Entities.b_106 = Spec.Entities.b_106 := by decide +kernel
theorem bucket_107 : Gen.Entities.b_107 = Spec.Entities.b_107 := by decide +kernel
theorem bucket_108 : Gen.Entities.b_108 = Spec.Entities.b_108 := by decide +kernel
theorem bucket_109 : Gen.Entities.b_109 = Spec.Entities.b_109 := by decide +kernel
theorem bucket_110 : Gen.Entities.b_110 = Spec.Entities.b_110 := by decide +kernel
theorem bucket_111 : Gen.Entities.b_111 = Spec.Entities.b_111 := by decide +kernel
theorem bucket_112 : Gen.Entities.b_112 = Spec.Entities.b_112 := by decide +kernel
theorem bucket_113 : Gen.Entities.b_113 = Spec.Entities.b_113 := by decide +kernel
theorem bucket_114 : Gen.Entities.b_114 = Spec.Entities.b_114 := by decide +kernel
theorem bucket_115 : Gen.Entities.b_115 = Spec.Entities.b_115 := by decide +kernel
theorem bucket_116 : Gen.Entities.b_116 = Spec.Entities.b_116 := by decide +kernel
theorem bucket_117 : Gen.Entities.b_117 = Spec.Entities.b_117 := by decide +kernel
theorem bucket_118 : Gen.Entities.b_118 = Spec.Entities.b_118 := by decide +kernel
theorem bucket_119 : Gen.Entities.b_119 = Spec.Entities.b_119 := by decide +kernel
theorem bucket_120 : Gen.Entities.b_120 = Spec.Entities.b_120 := by decide +kernel
theorem bucket_121 : Gen.Entities.b_121 = Spec.Entities.b_121 := by decide +kernel
theorem bucket_122 : Gen.Entities.b_122 = Spec.Entities.b_122 := by decide +kernel

theorem firstLetters_eq : Gen.Entities.firstLetters = Spec.Entities.firstLetters := by decide +kernel
theorem rowCount_eq : Gen.Entities.rowCount = 2231 ∧ Spec.Entities.rowCount = 2231 := by decide

/-- **the named-reference table compiled into html5ever equals the WHATWG table** (frozen from an
independent source), bucket by bucket for every first letter -/
theorem C14_table (c : Nat) : Gen.Entities.bucket c = Spec.Entities.bucket c := by
  unfold Gen.Entities.bucket Spec.Entities.bucket
  simp only [bucket_65, bucket_66, bucket_67, bucket_68, bucket_69, bucket_70, bucket_71, bucket_72, bucket_73, bucket_74, bucket_75, bucket_76, bucket_77, bucket_78, bucket_79, bucket_80, bucket_81, bucket_82, bucket_83, bucket_84, bucket_85, bucket_86, bucket_87, bucket_88, bucket_89, bucket_90, bucket_97, bucket_98, bucket_99, bucket_100, bucket_101, bucket_102, bucket_103, bucket_104, bucket_105, bucket_106, bucket_107, bucket_108, bucket_109, bucket_110, bucket_111, bucket_112, bucket_113, bucket_114, bucket_115, bucket_116, bucket_117, bucket_118, bucket_119, bucket_120, bucket_121, bucket_122]

/-- the C1 replacement table equals the standard's -/
theorem C14_c1 : Gen.C1.table = Spec.C1.table := by decide


/-! ### lookup (`build.rs` prefix closure + `phf` map) -/

/-- Bool checker: every row of the bucket looks up to exactly its value, which is not the
"prefix only" marker; its name starts with the bucket letter, is ASCII, and its code points are
Unicode scalar values -/
def rowOk (c : Nat) (r : Gen.Entities.Row) : Bool :=
  entityLookupN r.1 == some r.2 && r.2.1 != 0 && r.1.head? == some c && r.1.all (· < 128)
  && isValidScalar r.2.1 && isValidScalar r.2.2

def bucketOk (c : Nat) : Bool := (Gen.Entities.bucket c).all (rowOk c)

theorem bucketOk_65 : bucketOk 65 = true := by decide +kernel
theorem bucketOk_66 : bucketOk 66 = true := by decide +kernel
theorem bucketOk_67 : bucketOk 67 = true := by decide +kernel
theorem bucketOk_68 : bucketOk 68 = true := by decide +kernel
theorem bucketOk_69 : bucketOk 69 = true := by decide +kernel
theorem bucketOk_70 : bucketOk 70 = true := by decide +kernel
theorem bucketOk_71 : bucketOk 71 = true := by decide +kernel
theorem bucketOk_72 : bucketOk 72 = true := by decide +kernel
theorem bucketOk_73 : bucketOk 73 = true := by decide +kernel
theorem bucketOk_74 : bucketOk 74 = true := by decide +kernel
theorem bucketOk_75 : bucketOk 75 = true := by decide +kernel
theorem bucketOk_76 : bucketOk 76 = true := by decide +kernel
theorem bucketOk_77 : bucketOk 77 = true := by decide +kernel
theorem bucketOk_78 : bucketOk 78 = true := by decide +kernel
theorem bucketOk_79 : bucketOk 79 = true := by decide +kernel
theorem bucketOk_80 : bucketOk 80 = true := by decide +kernel
theorem bucketOk_81 : bucketOk 81 = true := by decide +kernel
theorem bucketOk_82 : bucketOk 82 = true := by decide +kernel
theorem bucketOk_83 : bucketOk 83 = true := by decide +kernel
theorem bucketOk_84 : bucketOk 84 = true := by decide +kernel
theorem bucketOk_85 : bucketOk 85 = true := by decide +kernel
theorem bucketOk_86 : bucketOk 86 = true := by decide +kernel
theorem bucketOk_87 : bucketOk 87 = true := by decide +kernel
theorem bucketOk_88 : bucketOk 88 = true := by decide +kernel
theorem bucketOk_89 : bucketOk 89 = true := by decide +kernel
theorem bucketOk_90 : bucketOk 90 = true := by decide +kernel
theorem bucketOk_97 : bucketOk 97 = true := by decide +kernel
theorem bucketOk_98 : bucketOk 98 = true := by decide +kernel
theorem bucketOk_99 : bucketOk 99 = true := by decide +kernel
theorem bucketOk_100 : bucketOk 100 = true := by decide +kernel
theorem bucketOk_101 : bucketOk 101 = true := by decide +kernel
theorem bucketOk_102 : bucketOk 102 = true := by decide +kernel
theorem bucketOk_103 : bucketOk 103 = true := by decide +kernel
theorem bucketOk_104 : bucketOk 104 = true := by decide +kernel
theorem bucketOk_105 : bucketOk 105 = true := by decide +kernel
theorem bucketOk_106 : bucketOk 106 = true := by decide +kernel
theorem bucketOk_107 : bucketOk 107 = true := by decide +kernel
theorem bucketOk_108 : bucketOk 108 = true := by decide +kernel
theorem bucketOk_109 : bucketOk 109 = true := by decide +kernel
theorem bucketOk_110 : bucketOk 110 = true := by decide +kernel
theorem bucketOk_111 : bucketOk 111 = true := by decide +kernel
theorem bucketOk_112 : bucketOk 112 = true := by decide +kernel
theorem bucketOk_113 : bucketOk 113 = true := by decide +kernel
theorem bucketOk_114 : bucketOk 114 = true := by decide +kernel
theorem bucketOk_115 : bucketOk 115 = true := by decide +kernel
theorem bucketOk_116 : bucketOk 116 = true := by decide +kernel
theorem bucketOk_117 : bucketOk 117 = true := by decide +kernel
theorem bucketOk_118 : bucketOk 118 = true := by decide +kernel
theorem bucketOk_119 : bucketOk 119 = true := by decide +kernel
theorem bucketOk_120 : bucketOk 120 = true := by decide +kernel
theorem bucketOk_121 : bucketOk 121 = true := by decide +kernel
theorem bucketOk_122 : bucketOk 122 = true := by decide +kernel

theorem bucketOk_all : ∀ c ∈ Gen.Entities.firstLetters, bucketOk c = true := by
  intro c hc
  simp only [Gen.Entities.firstLetters, List.mem_cons, List.not_mem_nil, or_false] at hc
  rcases hc with rfl | rfl | rfl | rfl | rfl | rfl | rfl | rfl | rfl | rfl | rfl | rfl | rfl | rfl | rfl | rfl | rfl | rfl | rfl | rfl | rfl | rfl | rfl | rfl | rfl | rfl | rfl | rfl | rfl | rfl | rfl | rfl | rfl | rfl | rfl | rfl | rfl | rfl | rfl | rfl | rfl | rfl | rfl | rfl | rfl | rfl | rfl | rfl | rfl | rfl | rfl | rfl
  · exact bucketOk_65
  · exact bucketOk_66
  · exact bucketOk_67
  · exact bucketOk_68
  · exact bucketOk_69
  · exact bucketOk_70
  · exact bucketOk_71
  · exact bucketOk_72
  · exact bucketOk_73
  · exact bucketOk_74
  · exact bucketOk_75
  · exact bucketOk_76
  · exact bucketOk_77
  · exact bucketOk_78
  · exact bucketOk_79
  · exact bucketOk_80
  · exact bucketOk_81
  · exact bucketOk_82
  · exact bucketOk_83
  · exact bucketOk_84
  · exact bucketOk_85
  · exact bucketOk_86
  · exact bucketOk_87
  · exact bucketOk_88
  · exact bucketOk_89
  · exact bucketOk_90
  · exact bucketOk_97
  · exact bucketOk_98
  · exact bucketOk_99
  · exact bucketOk_100
  · exact bucketOk_101
  · exact bucketOk_102
  · exact bucketOk_103
  · exact bucketOk_104
  · exact bucketOk_105
  · exact bucketOk_106
  · exact bucketOk_107
  · exact bucketOk_108
  · exact bucketOk_109
  · exact bucketOk_110
  · exact bucketOk_111
  · exact bucketOk_112
  · exact bucketOk_113
  · exact bucketOk_114
  · exact bucketOk_115
  · exact bucketOk_116
  · exact bucketOk_117
  · exact bucketOk_118
  · exact bucketOk_119
  · exact bucketOk_120
  · exact bucketOk_121
  · exact bucketOk_122

theorem row_ok {c : Nat} (hc : c ∈ Gen.Entities.firstLetters) {r : Gen.Entities.Row}
    (hr : r ∈ Gen.Entities.bucket c) : rowOk c r = true := by
  have := bucketOk_all c hc
  unfold bucketOk at this
  rw [List.all_eq_true] at this
  exact this r hr

/-- every table name looks up to exactly its table value, and that value is never the
"prefix only" marker `(0, _)` -/
theorem C14_lookup_exact (c : Nat) (hc : c ∈ Gen.Entities.firstLetters) (r : Gen.Entities.Row)
    (hr : r ∈ Gen.Entities.bucket c) : entityLookupN r.1 = some r.2 ∧ r.2.1 ≠ 0 := by
  have := row_ok hc hr
  simp only [rowOk, Bool.and_eq_true, beq_iff_eq, bne_iff_ne] at this
  exact ⟨this.1.1.1.1.1, this.1.1.1.1.2⟩

theorem isPrefixOf_take (l : List Nat) (n : Nat) : isPrefixOf (l.take n) l = true := by
  induction l generalizing n with
  | nil => simp [isPrefixOf]
  | cons a as ih =>
    cases n with
    | zero => simp [isPrefixOf]
    | succ n => simp [isPrefixOf, ih]

/-- every non-empty prefix of a table name is in the map (so the walk of `do_named` never stops
before a longer match) — this is `build.rs`'s prefix closure -/
theorem C14_lookup_prefix (c : Nat) (hc : c ∈ Gen.Entities.firstLetters) (r : Gen.Entities.Row)
    (hr : r ∈ Gen.Entities.bucket c) (n : Nat) :
    (entityLookupN (r.1.take (n + 1))).isSome = true := by
  have hok := row_ok hc hr
  simp only [rowOk, Bool.and_eq_true, beq_iff_eq] at hok
  have hhead : r.1.head? = some c := hok.1.1.1.2
  obtain ⟨k, v⟩ := r
  cases k with
  | nil => simp at hhead
  | cons x xs =>
    simp at hhead
    subst hhead
    simp only [List.take_succ_cons, entityLookupN]
    split
    · rfl
    · have : (Gen.Entities.bucket x).any (fun r => isPrefixOf (x :: xs.take n) r.1) = true := by
        rw [List.any_eq_true]
        exact ⟨(x :: xs, v), hr, by simpa using isPrefixOf_take (x :: xs) (n + 1)⟩
      simp [this]

/-- names are ASCII and start with their bucket letter; values are Unicode scalar values (so the
`from_u32(..).unwrap()` of `finish_named` cannot fail) -/
theorem C14_rows_wellformed (c : Nat) (hc : c ∈ Gen.Entities.firstLetters) (r : Gen.Entities.Row)
    (hr : r ∈ Gen.Entities.bucket c) :
    r.1.head? = some c ∧ (∀ x ∈ r.1, x < 128) ∧ isValidScalar r.2.1 = true ∧ isValidScalar r.2.2 = true := by
  have := row_ok hc hr
  simp only [rowOk, Bool.and_eq_true, beq_iff_eq, List.all_eq_true, decide_eq_true_eq] at this
  exact ⟨this.1.1.1.2, this.1.1.2, this.1.2, this.2⟩

/-- a key that is neither a name nor a prefix of a name is not in the map -/
theorem C14_lookup_none (key : List Nat) (c : Nat) (rest : List Nat) (hk : key = c :: rest)
    (h : ∀ r ∈ Gen.Entities.bucket c, isPrefixOf key r.1 = false) : entityLookupN key = none := by
  subst hk
  unfold entityLookupN
  have h1 : (Gen.Entities.bucket c).find? (fun r => r.1 == c :: rest) = none := by
    rw [List.find?_eq_none]
    intro r hr heq
    have := h r hr
    simp at heq
    rw [← heq] at this
    have hp : ∀ l : List Nat, isPrefixOf l l = true := by
      intro l; induction l with
      | nil => rfl
      | cons a as ih => simp [isPrefixOf, ih]
    rw [hp] at this
    exact absurd this (by simp)
  have h2 : (Gen.Entities.bucket c).any (fun r => isPrefixOf (c :: rest) r.1) = false := by
    rw [List.any_eq_false]
    intro r hr
    simp [h r hr]
  simp [h1, h2]

/-! ### numeric references -/

/-- value of a digit string in base `b` -/
def valueOf (b : Nat) : List Nat → Nat → Nat
  | [], acc => acc
  | d :: ds, acc => valueOf b ds (acc * b + d)

/-- the accumulator of `do_numeric` over a digit list (u32 wrapping multiply/add + latch) -/
def accum (b : Nat) : List Nat → Nat × Bool → Nat × Bool
  | [], st => st
  | d :: ds, (num, big) =>
    let n1 := (num * b) % 4294967296
    accum b ds ((n1 + d) % 4294967296, big || n1 > 0x10FFFF)

/-- invariant of the accumulator: while the latch is off the register holds the exact value, which
is small; once it is on the true value exceeds 0x10FFFF for good -/
theorem accum_inv (b : Nat) (hb : 2 ≤ b ∧ b ≤ 16) (ds : List Nat) (hd : ∀ d ∈ ds, d < b)
    (num : Nat) (big : Bool) (v : Nat)
    (h : if big then v > 0x10FFFF else num = v ∧ v ≤ 0x10FFFF + 15) :
    let r := accum b ds (num, big)
    if r.2 then valueOf b ds v > 0x10FFFF
    else r.1 = valueOf b ds v ∧ valueOf b ds v ≤ 0x10FFFF + 15 := by
  induction ds generalizing num big v with
  | nil => simpa [accum, valueOf] using h
  | cons d ds ih =>
    simp only [accum, valueOf]
    have hdb : d < b := hd d (by simp)
    apply ih (fun x hx => hd x (by simp [hx]))
    cases big with
    | true =>
      simp only [Bool.true_or, ↓reduceIte] at h ⊢
      have : v * b ≥ v := Nat.le_mul_of_pos_right v (by omega)
      omega
    | false =>
      simp only [Bool.false_or, Bool.false_eq_true, ↓reduceIte] at h ⊢
      obtain ⟨h1, h2⟩ := h
      subst h1
      have hlt : num * b < 4294967296 := by
        have : num * b ≤ (0x10FFFF + 15) * 16 := Nat.mul_le_mul h2 hb.2
        omega
      rw [Nat.mod_eq_of_lt hlt]
      by_cases hbig : num * b > 0x10FFFF
      · simp only [hbig, decide_true, ↓reduceIte]; omega
      · simp only [hbig, decide_false, Bool.false_eq_true, ↓reduceIte]
        have : num * b + d < 4294967296 := by omega
        rw [Nat.mod_eq_of_lt this]
        omega

/-- **the latch is exact**: after any digit string, "register > 0x10FFFF or latch set" holds iff the
true value exceeds 0x10FFFF; otherwise the register is the true value -/
theorem C14_numeric_accumulator (b : Nat) (hb : 2 ≤ b ∧ b ≤ 16) (ds : List Nat) (hd : ∀ d ∈ ds, d < b) :
    let r := accum b ds (0, false)
    ((r.1 > 0x10FFFF || r.2) = true ↔ valueOf b ds 0 > 0x10FFFF) ∧
    (valueOf b ds 0 ≤ 0x10FFFF → r.1 = valueOf b ds 0) := by
  have := accum_inv b hb ds hd 0 false 0 (by simp)
  simp only at this ⊢
  cases hr : (accum b ds (0, false)).2 with
  | true => simp only [hr, ↓reduceIte] at this; simp; omega
  | false =>
    simp only [hr, Bool.false_eq_true, ↓reduceIte] at this
    simp only [Bool.or_false, decide_eq_true_eq]
    omega

/-- the standard's numeric-reference result for a value -/
def specNumeric (v : Nat) : Nat :=
  if v = 0 then 0xFFFD
  else if v > 0x10FFFF then 0xFFFD
  else if 0xD800 ≤ v ∧ v ≤ 0xDFFF then 0xFFFD
  else if 0x80 ≤ v ∧ v ≤ 0x9F then
    (match Spec.C1.table[v - 0x80]? with | some (some r) => r | _ => v)
  else v

theorem c1_entries_valid : ∀ i ∈ List.range 32,
    (match Gen.C1.table[i]? with
     | some (some r) => isValidScalar r
     | some none => true
     | none => false) = true := by decide

/-- **`finish_numeric` returns the standard's code point** (and never hits the `expect`), given the
register/latch produced by the accumulator for a value `v` -/
theorem C14_finish_numeric (o : Opts) (m : Mach) (cr : CharRefSt) (v : Nat)
    (hbig : (decide (cr.num > 0x10FFFF) || cr.numTooBig) = true ↔ v > 0x10FFFF)
    (hval : v ≤ 0x10FFFF → cr.num = v) :
    (finishNumeric o m cr).2 = .ok (Char.ofNat (specNumeric v)) := by
  unfold finishNumeric numericValue specNumeric
  dsimp only
  by_cases h1 : v > 0x10FFFF
  · have hb := hbig.mpr h1
    have hv0 : v ≠ 0 := by omega
    simp [hb, hv0, h1]
  · have hn : cr.num = v := hval (by omega)
    have hb : (decide (cr.num > 0x10FFFF) || cr.numTooBig) = false := by
      cases hx : (decide (cr.num > 0x10FFFF) || cr.numTooBig) with
      | false => rfl
      | true => exact absurd (hbig.mp hx) h1
    have htb : cr.numTooBig = false := (Bool.or_eq_false_iff.mp hb).2
    simp only [htb, hn]
    by_cases h0 : v = 0
    · simp [h0]
    · by_cases hs : 0xD800 ≤ v ∧ v ≤ 0xDFFF
      · simp [h0, hs, h1]
      · have hs' : (decide (0xD800 ≤ v) && decide (v ≤ 0xDFFF)) = false := by
          cases hx : (decide (0xD800 ≤ v) && decide (v ≤ 0xDFFF)) with
          | false => rfl
          | true => simp at hx; exact absurd hx hs
        have hvalid : isValidScalar v = true := by
          unfold isValidScalar; simp; omega
        simp only [h0, decide_false, hs', Bool.or_false, Bool.false_eq_true, ↓reduceIte, h1, hs]
        by_cases hc : 0x80 ≤ v ∧ v ≤ 0x9F
        · have hc' : (decide (0x80 ≤ v) && decide (v ≤ 0x9F)) = true := by simp; exact hc
          simp only [hc', ↓reduceIte, hc, and_self]
          have hi : v - 0x80 ∈ List.range 32 := by simp; omega
          have hvalid1 := c1_entries_valid (v - 0x80) hi
          rw [← C14_c1]
          cases hx : Gen.C1.table[v - 0x80]? with
          | none => simp [hx] at hvalid1
          | some y =>
            cases y with
            | none => simp [hvalid]
            | some r => simp [hx] at hvalid1; simp [hvalid1]
        · have hc' : (decide (0x80 ≤ v) && decide (v ≤ 0x9F)) = false := by
            cases hx : (decide (0x80 ≤ v) && decide (v ≤ 0x9F)) with
            | false => rfl
            | true => simp at hx; exact absurd hx hc
          simp only [hc', Bool.false_eq_true, ↓reduceIte, hc]
          split <;> (try split) <;> simp_all

/-! ### non-vacuity -/
example : entityLookupN [110, 111, 116] = some (172, 0) := by decide +kernel           -- &not
example : entityLookupN [110, 111, 116, 105] = some (0, 0) := by decide +kernel        -- &noti (prefix of &notin;)
example : entityLookupN [110, 111, 116, 105, 116] = none := by decide +kernel          -- &notit
example : accum 16 [1, 0, 15, 15, 15, 15] (0, false) = (0x10FFFF, false) := by decide  -- largest valid value
example : (accum 16 [1, 1, 0, 0, 0, 0] (0, false)).2 = true := by decide                -- 0x110000: latch
example : (accum 10 [9, 9, 9, 9, 9, 9, 9, 9, 9, 9, 9, 9] (0, false)).2 = true := by decide  -- latch on overflow
example : specNumeric 0x80 = 0x20AC ∧ specNumeric 0x81 = 0x81 ∧ specNumeric 0 = 0xFFFD := by decide

/-! ### the named-reference walk finds the longest match

`do_named` consumes characters one at a time while the buffer is still in the map (a name or a
prefix of one), remembering the last full match. `walk` is that loop as a pure function;
`C14_walk_is_do_named` ties it to the model's `crStep`, and `C14_named_longest` shows that when the
walk stops, the remembered match is the **longest** table name that is a prefix of the text after
`&` — for every text. -/
namespace Walk
open H5V.Model.HtmlTok

/-- a full match: the buffer is a table name -/
def isKey (p : Str) : Prop := ∃ v, entityLookup p = some v ∧ v.1 ≠ 0

/-- the loop of `do_named` on the available text: (buffer, last full match, its length, ran dry?) -/
def walk : Str → Option (Nat × Nat) → Nat → Str → Str × Option (Nat × Nat) × Nat × Bool
  | nb, mt, len, [] => (nb, mt, len, true)
  | nb, mt, len, c :: rest =>
    match entityLookup (nb ++ [c]) with
    | some v => if v.1 ≠ 0 then walk (nb ++ [c]) (some v) (nb ++ [c]).length rest
                else walk (nb ++ [c]) mt len rest
    | none => (nb ++ [c], mt, len, false)

theorem isPrefixOf_iff (a b : List Nat) : isPrefixOf a b = true ↔ a <+: b := by
  induction a generalizing b with
  | nil => simp [isPrefixOf]
  | cons x xs ih =>
    cases b with
    | nil => simp [isPrefixOf]
    | cons y ys => simp [isPrefixOf, ih, List.cons_prefix_cons]

/-- a non-empty buffer is in the map iff it is a prefix of a table name in its letter's bucket -/
theorem lookup_some_iff (c : Nat) (rest : List Nat) :
    (entityLookupN (c :: rest)).isSome = true ↔ ∃ r ∈ Gen.Entities.bucket c, (c :: rest) <+: r.1 := by
  simp only [entityLookupN]
  constructor
  · intro h
    split at h
    · rename_i r hfind
      have hmem := List.mem_of_find?_eq_some hfind
      have heq := List.find?_some hfind
      simp only [beq_iff_eq] at heq
      exact ⟨r, hmem, by rw [heq]; exact List.prefix_refl _⟩
    · split at h
      · rename_i hany
        rw [List.any_eq_true] at hany
        obtain ⟨r, hr, hp⟩ := hany
        exact ⟨r, hr, (isPrefixOf_iff _ _).mp hp⟩
      · simp at h
  · rintro ⟨r, hr, hp⟩
    split
    · rfl
    · have : (Gen.Entities.bucket c).any (fun r => isPrefixOf (c :: rest) r.1) = true := by
        rw [List.any_eq_true]; exact ⟨r, hr, (isPrefixOf_iff _ _).mpr hp⟩
      simp [this]

/-- **prefix closure** (what `build.rs` establishes): every non-empty prefix of a buffer that is in
the map is in the map -/
theorem lookup_prefix_closed (p q : List Nat) (hq : q ≠ []) (hpre : q <+: p)
    (h : (entityLookupN p).isSome = true) : (entityLookupN q).isSome = true := by
  cases q with
  | nil => exact absurd rfl hq
  | cons d qs =>
    cases p with
    | nil => simp at hpre
    | cons c rest =>
      have hd : d = c := by
        obtain ⟨t, ht⟩ := hpre
        simp at ht; exact ht.1
      subst hd
      rw [lookup_some_iff] at h ⊢
      obtain ⟨r, hr, hpr⟩ := h
      exact ⟨r, hr, List.IsPrefix.trans hpre hpr⟩

def bestLen (mt : Option (Nat × Nat)) (len : Nat) : Nat :=
  match mt with
  | some _ => len
  | none => 0

/-- invariant of the walk: `mt`/`len` is the longest full match among the non-empty prefixes of
the consumed buffer `nb` -/
def Best (nb : Str) (mt : Option (Nat × Nat)) (len : Nat) : Prop :=
  (∀ v, mt = some v → 0 < len ∧ len ≤ nb.length ∧ entityLookup (nb.take len) = some v ∧ v.1 ≠ 0) ∧
  (∀ n, bestLen mt len < n → n ≤ nb.length → ¬ isKey (nb.take n))

theorem best_nil : Best [] none 0 := by
  refine ⟨fun v h => by simp at h, fun n h1 h2 => ?_⟩
  simp at h2; omega

theorem walk_best (inp : Str) : ∀ (nb : Str) (mt : Option (Nat × Nat)) (len : Nat),
    Best nb mt len →
    ∀ nb' mt' len' dry, walk nb mt len inp = (nb', mt', len', dry) →
      nb' <+: nb ++ inp ∧ nb <+: nb' ∧
      (dry = false → Best (nb'.take (nb'.length - 1)) mt' len' ∧ nb' ≠ [] ∧ entityLookup nb' = none) ∧
      (dry = true → Best nb' mt' len' ∧ nb' = nb ++ inp) := by
  induction inp with
  | nil =>
    intro nb mt len hb nb' mt' len' dry h
    simp only [walk, Prod.mk.injEq] at h
    obtain ⟨h1, h2, h3, h4⟩ := h
    subst h1 h2 h3 h4
    exact ⟨by simp, List.prefix_refl _, fun h => by simp at h, fun _ => ⟨hb, by simp⟩⟩
  | cons c rest ih =>
    intro nb mt len hb nb' mt' len' dry h
    simp only [walk] at h
    cases hl : entityLookup (nb ++ [c]) with
    | none =>
      rw [hl] at h
      simp only [Prod.mk.injEq] at h
      obtain ⟨h1, h2, h3, h4⟩ := h
      subst h1 h2 h3 h4
      refine ⟨by simp, by simp, fun _ => ⟨?_, by simp, hl⟩, fun h => by simp at h⟩
      simpa using hb
    | some v =>
      rw [hl] at h
      simp only at h
      have hstep : ∀ mt2 len2, Best (nb ++ [c]) mt2 len2 →
          walk (nb ++ [c]) mt2 len2 rest = (nb', mt', len', dry) →
          nb' <+: nb ++ c :: rest ∧ nb <+: nb' ∧
          (dry = false → Best (nb'.take (nb'.length - 1)) mt' len' ∧ nb' ≠ [] ∧ entityLookup nb' = none) ∧
          (dry = true → Best nb' mt' len' ∧ nb' = nb ++ c :: rest) := by
        intro mt2 len2 hb2 hw
        obtain ⟨a1, a2, a3, a4⟩ := ih (nb ++ [c]) mt2 len2 hb2 nb' mt' len' dry hw
        refine ⟨by simpa using a1, List.IsPrefix.trans (by simp) a2, a3, fun hd => ?_⟩
        obtain ⟨b1, b2⟩ := a4 hd
        exact ⟨b1, by simpa using b2⟩
      split at h
      · rename_i hv
        apply hstep (some v) (nb ++ [c]).length ?_ h
        refine ⟨fun v' hv' => ?_, fun n h1 h2 => ?_⟩
        · simp only [Option.some.injEq] at hv'
          subst hv'
          have ht : (nb ++ [c]).take (nb ++ [c]).length = nb ++ [c] := List.take_length
          exact ⟨by simp, by simp, by rw [ht]; exact hl, hv⟩
        · simp only [bestLen] at h1; omega
      · rename_i hv
        apply hstep mt len ?_ h
        obtain ⟨hb1, hb2⟩ := hb
        refine ⟨fun v' hv' => ?_, fun n h1 h2 => ?_⟩
        · obtain ⟨c1, c2, c3, c4⟩ := hb1 v' hv'
          refine ⟨c1, by simp; omega, ?_, c4⟩
          rw [List.take_append_of_le_length c2]; exact c3
        · simp only [List.length_append, List.length_cons, List.length_nil] at h2
          by_cases hn : n ≤ nb.length
          · rw [List.take_append_of_le_length hn]
            exact hb2 n h1 hn
          · have : n = nb.length + 1 := by omega
            subst this
            rw [List.take_of_length_le (by simp)]
            rintro ⟨v', hv1, hv2⟩
            rw [hl] at hv1
            simp only [Option.some.injEq] at hv1
            subst hv1
            simp at hv
            exact hv2 hv

/-- **longest match.** When the walk over the text `s` after `&` stops because the buffer left the
map, the remembered match is the longest table name that is a prefix of `s`: nothing longer is a
name (by prefix closure a longer name would have kept the walk going), and nothing between the
match and the stop point is a name either. -/
theorem C14_named_longest (s : Str) (nb : Str) (mt : Option (Nat × Nat)) (len : Nat)
    (h : walk [] none 0 s = (nb, mt, len, false)) :
    (∀ v, mt = some v → entityLookup (s.take len) = some v ∧ v.1 ≠ 0 ∧ 0 < len) ∧
    (∀ n, bestLen mt len < n → n ≤ s.length → ¬ isKey (s.take n)) := by
  obtain ⟨h1, _, h3, _⟩ := walk_best s [] none 0 best_nil nb mt len false h
  obtain ⟨⟨hb1, hb2⟩, hne, hnone⟩ := h3 rfl
  simp only [List.nil_append] at h1
  obtain ⟨t, ht⟩ := h1
  have hlen : nb.length ≤ s.length := by rw [← ht]; simp
  have htake : ∀ k, k ≤ nb.length → s.take k = nb.take k := by
    intro k hk; rw [← ht, List.take_append_of_le_length hk]
  constructor
  · intro v hv
    obtain ⟨c1, c2, c3, c4⟩ := hb1 v hv
    simp only [List.length_take] at c2
    refine ⟨?_, c4, c1⟩
    rw [htake len (by omega)]
    rw [List.take_take] at c3
    have : min len (nb.length - 1) = len := by omega
    rw [this] at c3; exact c3
  · intro n hn1 hn2
    by_cases hn : n ≤ nb.length - 1
    · have := hb2 n hn1 (by simp; omega)
      rw [List.take_take] at this
      have hm : min n (nb.length - 1) = n := by omega
      rw [hm] at this
      rw [htake n (by omega)]; exact this
    · -- n ≥ |nb|: a name of that length would put `nb` (a non-empty prefix of it) in the map
      rintro ⟨v, hv1, hv2⟩
      have hpos : 0 < nb.length := by
        cases nb with
        | nil => exact absurd rfl hne
        | cons x xs => simp
      have hnb : nb <+: s.take n := by
        rw [← ht, List.take_append]
        rw [List.take_of_length_le (by omega)]
        simp
      have hq : nb.map Char.toNat ≠ [] := by simpa using hne
      have := lookup_prefix_closed ((s.take n).map Char.toNat) (nb.map Char.toNat) hq
        (List.IsPrefix.map _ hnb) (by unfold entityLookup at hv1; rw [hv1]; rfl)
      unfold entityLookup at hnone
      simp [hnone] at this

/-- one iteration of `walk` is one `do_named` step of the model (`crStep` in state `named`): the
registers `name_buf`, `name_match`, `name_len` evolve exactly as the walk's arguments, and the step
that leaves the map hands over to `finish_named` -/
theorem C14_walk_is_do_named (o : Opts) (m : Mach) (inp : Str) (cr : CharRefSt) (nb : Str) (c : Char)
    (hst : cr.state = .named) (hb : cr.nameBuf = some nb) (hpk : peek m inp = some c) :
    crStep o m inp cr =
      (match entityLookup (nb ++ [c]) with
       | some v =>
         .ok ((discardChar m inp).1, (discardChar m inp).2,
              (if v.1 ≠ 0 then { cr with nameBuf := some (nb ++ [c]), nameMatch := some v,
                                         nameLen := (nb ++ [c]).length }
               else { cr with nameBuf := some (nb ++ [c]) }), .progress)
       | none => finishNamed o (discardChar m inp).1 (discardChar m inp).2
                   { cr with nameBuf := some (nb ++ [c]) } (some c)) := by
  unfold crStep
  simp only [hpk, hst, hb]
  cases entityLookup (nb ++ [c]) with
  | none => rfl
  | some v =>
    dsimp only
    split <;> simp_all

example : walk [] none 0 "notit;".toList = ("notit".toList, some (172, 0), 3, false) := by decide +kernel

end Walk

end H5V.Props.C14
