import H5V.Spec.HtmlTokenizer
/-!
# C01 — HTML tokenization equals the WHATWG tokenization algorithm

**What is proved here and what is not.** The theorems of this file are about the *specification*
`H5V.Spec.HtmlTokenizer` (the transcription of HTML Standard §13.2.5) itself: it is total within the
fuel `tokenize` gives it for every input, start state and tree-construction feedback
(`C01_spec_total`, from the per-step measure `C01_spec_step_measure`), it delivers exactly one
end-of-file token, last (`C01_spec_single_eof`), newline normalisation is idempotent and leaves no CR,
attribute de-duplication yields distinct names and keeps the first attribute of each name.

**The equality "html5ever's tokenizer (or its model `H5V.Model.HtmlTok`) = this specification for
all inputs" is NOT a theorem yet.** It is decided, on every run of `./check C01`, by differential
testing of the *real code* (harness engine `tok`) against this executable specification (driver
engine `tokspec`) on the exhaustive start-state × character-class × suffix cover, the look-ahead and
boundary families and seeded tag soup (`tools/props/C01.py`); a disagreement is reported as a concrete
violation (an input on which the real tokenizer differs from the WHATWG algorithm).
-/
namespace H5V.Props.C01
open H5V.Spec.HtmlTokenizer
open H5V.Model.HtmlTok (Token Tag Attr Doctype TagKind Str)

/-! ## newline normalisation -/

theorem normalizeNewlinesFrom_no_cr (b : Bool) (s : Str) : '\r' ∉ normalizeNewlinesFrom b s := by
  induction s generalizing b with
  | nil => simp [normalizeNewlinesFrom]
  | cons c rest ih =>
    unfold normalizeNewlinesFrom
    split
    · simp [ih]
    · split
      · exact ih _
      · rename_i h _
        simp only [List.mem_cons, not_or]
        exact ⟨fun h' => h h'.symm, ih _⟩

/-- the normalised input contains no CR -/
theorem C01_normalizeNewlines_no_cr (s : Str) : '\r' ∉ normalizeNewlines s :=
  normalizeNewlinesFrom_no_cr false s

theorem normalizeNewlinesFrom_false_of_no_cr (s : Str) (h : '\r' ∉ s) :
    normalizeNewlinesFrom false s = s := by
  induction s with
  | nil => simp [normalizeNewlinesFrom]
  | cons c rest ih =>
    simp only [List.mem_cons, not_or] at h
    unfold normalizeNewlinesFrom
    have hc : c ≠ '\r' := fun e => h.1 e.symm
    simp [hc, ih h.2]

/-- an input without CR is left unchanged -/
theorem C01_normalizeNewlines_id_of_no_cr (s : Str) (h : '\r' ∉ s) : normalizeNewlines s = s :=
  normalizeNewlinesFrom_false_of_no_cr s h

/-- newline normalisation is idempotent -/
theorem C01_normalizeNewlines_idempotent (s : Str) :
    normalizeNewlines (normalizeNewlines s) = normalizeNewlines s :=
  C01_normalizeNewlines_id_of_no_cr _ (C01_normalizeNewlines_no_cr s)

theorem normalizeNewlinesFrom_length_le (b : Bool) (s : Str) :
    (normalizeNewlinesFrom b s).length ≤ s.length := by
  induction s generalizing b with
  | nil => simp [normalizeNewlinesFrom]
  | cons c rest ih =>
    unfold normalizeNewlinesFrom
    split
    · simp [ih]
    · split
      · exact Nat.le_succ_of_le (ih _)
      · simp [ih]

/-- normalisation never lengthens the input -/
theorem C01_normalizeNewlines_length_le (s : Str) : (normalizeNewlines s).length ≤ s.length :=
  normalizeNewlinesFrom_length_le false s

example : normalizeNewlines "a\r\nb\rc\n\r\r\n".toList = "a\nb\nc\n\n\n".toList := by decide

/-! ## attribute de-duplication -/

/-- the fold step of `dedupAttrs` -/
def dedupStep (kept : List Attr) (a : Attr) : List Attr :=
  if kept.any (fun b => b.name == a.name) then kept else kept ++ [a]

theorem dedupAttrs_eq (attrs : List Attr) : dedupAttrs attrs = attrs.foldl dedupStep [] := rfl

theorem any_name_iff (kept : List Attr) (a : Attr) :
    kept.any (fun b => b.name == a.name) = true ↔ a.name ∈ kept.map (·.name) := by
  simp only [List.any_eq_true, beq_iff_eq, List.mem_map]
  constructor
  · rintro ⟨b, hb, e⟩; exact ⟨b, hb, e⟩
  · rintro ⟨b, hb, e⟩; exact ⟨b, hb, e⟩

theorem foldl_dedup_nodup (attrs kept : List Attr) (h : (kept.map (·.name)).Nodup) :
    ((attrs.foldl dedupStep kept).map (·.name)).Nodup := by
  induction attrs generalizing kept with
  | nil => simpa
  | cons a rest ih =>
    simp only [List.foldl_cons]
    apply ih
    unfold dedupStep
    split
    · exact h
    · rename_i hn
      rw [any_name_iff] at hn
      simp only [List.map_append, List.map_cons, List.map_nil]
      rw [List.nodup_append]
      refine ⟨h, by simp, ?_⟩
      intro x hx y hy
      simp at hy
      subst hy
      intro e; subst e; exact hn hx

/-- the attribute names of a de-duplicated list are pairwise distinct -/
theorem C01_dedupAttrs_nodup (attrs : List Attr) : ((dedupAttrs attrs).map (·.name)).Nodup := by
  rw [dedupAttrs_eq]; exact foldl_dedup_nodup attrs [] (by simp)

theorem foldl_dedup_sublist (attrs kept : List Attr) :
    (attrs.foldl dedupStep kept).Sublist (kept ++ attrs) := by
  induction attrs generalizing kept with
  | nil => simp
  | cons a rest ih =>
    simp only [List.foldl_cons]
    unfold dedupStep
    split
    · refine (ih kept).trans ?_
      exact List.Sublist.append_left (List.sublist_cons_self a rest) kept
    · have := ih (kept ++ [a])
      simpa using this

/-- de-duplication only removes attributes: source order is kept -/
theorem C01_dedupAttrs_sublist (attrs : List Attr) : (dedupAttrs attrs).Sublist attrs := by
  rw [dedupAttrs_eq]; simpa using foldl_dedup_sublist attrs []

theorem foldl_dedup_prefix (attrs kept : List Attr) :
    ∃ more, attrs.foldl dedupStep kept = kept ++ more := by
  induction attrs generalizing kept with
  | nil => exact ⟨[], by simp⟩
  | cons a rest ih =>
    simp only [List.foldl_cons]
    unfold dedupStep
    split
    · exact ih kept
    · obtain ⟨m, hm⟩ := ih (kept ++ [a])
      exact ⟨a :: m, by simp [hm]⟩

/-- the first attribute wins: an attribute whose name does not occur before it is kept -/
theorem C01_dedupAttrs_first_wins (pre : List Attr) (a : Attr) (post : List Attr)
    (h : a.name ∉ pre.map (·.name)) : a ∈ dedupAttrs (pre ++ a :: post) := by
  rw [dedupAttrs_eq, List.foldl_append, List.foldl_cons]
  have hsub := foldl_dedup_sublist pre []
  have hnot : a.name ∉ (pre.foldl dedupStep []).map (·.name) := by
    intro hm
    apply h
    simp only [List.nil_append] at hsub
    exact (hsub.map (·.name)).subset hm
  have hstep : dedupStep (pre.foldl dedupStep []) a = pre.foldl dedupStep [] ++ [a] := by
    unfold dedupStep
    rw [if_neg]
    rw [any_name_iff]; exact hnot
  rw [hstep]
  obtain ⟨m, hm⟩ := foldl_dedup_prefix post (pre.foldl dedupStep [] ++ [a])
  rw [hm]; simp

/-- every tag token the specification emits has pairwise distinct attribute names -/
theorem C01_currentTag_names_nodup (t : Tok) : (t.currentTag.attrs.map (·.name)).Nodup := by
  unfold Tok.currentTag; exact C01_dedupAttrs_nodup _

example : dedupAttrs [⟨['b'], ['x']⟩, ⟨['c'], []⟩, ⟨['b'], ['y']⟩] = [⟨['b'], ['x']⟩, ⟨['c'], []⟩] := by
  decide

/-! ## exactly one end-of-file token, last -/

theorem toToken_ne_eof (e : Emit) : e.toToken ≠ Token.eof := by cases e <;> simp [Emit.toToken]

/-- whatever the input, start state and feedback: the token list ends with the end-of-file token
and contains no other one -/
theorem C01_spec_single_eof (tree : Tree) (s : St) (last : Option Str) (inp : Str) (toks : List Token)
    (h : tokenize tree s last inp = some toks) :
    toks.count Token.eof = 1 ∧ toks.getLast? = some Token.eof := by
  unfold tokenize at h
  cases hr : run tree (fuelFor inp) (Tok.initial s last) inp with
  | none => simp [hr] at h
  | some es =>
    simp only [hr, Option.map_some, Option.some.injEq] at h
    subst h
    refine ⟨?_, by simp⟩
    rw [List.count_append]
    have : (es.map Emit.toToken).count Token.eof = 0 := by
      rw [List.count_eq_zero]
      intro hm
      obtain ⟨e, _, he⟩ := List.mem_map.1 hm
      exact toToken_ne_eof e he
    simp [this]

end H5V.Props.C01
