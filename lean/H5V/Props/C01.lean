import H5V.Spec.HtmlTokenizer
/-!
# C01 — HTML tokenization equals the WHATWG tokenization algorithm

**What is proved here and what is not.** The theorems of this file are about the *specification*
`H5V.Spec.HtmlTokenizer` (the transcription of HTML Standard §13.2.5) itself: it is total within the
fuel `tokenize` gives it for every input, start state and tree-construction feedback
(`C01_spec_total`, from the per-step measure `C01_spec_step_measure`), it delivers exactly one
end-of-file token, last (`C01_spec_single_eof`), newline normalisation is idempotent and leaves no CR,
attribute de-duplication yields distinct names and keeps the first attribute of each name.

**The equality "html5ever's tokenizer (or its model `H5V.Model.HtmlTok`) = this specification for
all inputs" is NOT a theorem yet.** It is decided, on every run of `./check C01`, by differential
testing of the *real code* (harness engine `tok`) against this executable specification (driver
engine `tokspec`) on the exhaustive start-state × character-class × suffix cover, the look-ahead and
boundary families and seeded tag soup (`tools/props/C01.py`); a disagreement is reported as a concrete
violation (an input on which the real tokenizer differs from the WHATWG algorithm).
-/
namespace H5V.Props.C01
open H5V.Spec.HtmlTokenizer
open H5V.Model.HtmlTok (Token Tag Attr Doctype TagKind Str)

/-! ## newline normalisation -/

theorem normalizeNewlinesFrom_no_cr (b : Bool) (s : Str) : '\r' ∉ normalizeNewlinesFrom b s := by
  induction s generalizing b with
  | nil => simp [normalizeNewlinesFrom]
  | cons c rest ih =>
    unfold normalizeNewlinesFrom
    split
    · simp [ih]
    · split
      · exact ih _
      · rename_i h _
        simp only [List.mem_cons, not_or]
        exact ⟨fun h' => h h'.symm, ih _⟩

/-- the normalised input contains no CR -/
theorem C01_normalizeNewlines_no_cr (s : Str) : '\r' ∉ normalizeNewlines s :=
  normalizeNewlinesFrom_no_cr false s

theorem normalizeNewlinesFrom_false_of_no_cr (s : Str) (h : '\r' ∉ s) :
    normalizeNewlinesFrom false s = s := by
  induction s with
  | nil => simp [normalizeNewlinesFrom]
  | cons c rest ih =>
    simp only [List.mem_cons, not_or] at h
    unfold normalizeNewlinesFrom
    have hc : c ≠ '\r' := fun e => h.1 e.symm
    simp [hc, ih h.2]

/-- an input without CR is left unchanged -/
theorem C01_normalizeNewlines_id_of_no_cr (s : Str) (h : '\r' ∉ s) : normalizeNewlines s = s :=
  normalizeNewlinesFrom_false_of_no_cr s h

/-- newline normalisation is idempotent -/
theorem C01_normalizeNewlines_idempotent (s : Str) :
    normalizeNewlines (normalizeNewlines s) = normalizeNewlines s :=
  C01_normalizeNewlines_id_of_no_cr _ (C01_normalizeNewlines_no_cr s)

theorem normalizeNewlinesFrom_length_le (b : Bool) (s : Str) :
    (normalizeNewlinesFrom b s).length ≤ s.length := by
  induction s generalizing b with
  | nil => simp [normalizeNewlinesFrom]
  | cons c rest ih =>
    unfold normalizeNewlinesFrom
    split
    · simp [ih]
    · split
      · exact Nat.le_succ_of_le (ih _)
      · simp [ih]

/-- normalisation never lengthens the input -/
theorem C01_normalizeNewlines_length_le (s : Str) : (normalizeNewlines s).length ≤ s.length :=
  normalizeNewlinesFrom_length_le false s

example : normalizeNewlines "a\r\nb\rc\n\r\r\n".toList = "a\nb\nc\n\n\n".toList := by decide

/-! ## attribute de-duplication -/

/-- the fold step of `dedupAttrs` -/
def dedupStep (kept : List Attr) (a : Attr) : List Attr :=
  if kept.any (fun b => b.name == a.name) then kept else kept ++ [a]

theorem dedupAttrs_eq (attrs : List Attr) : dedupAttrs attrs = attrs.foldl dedupStep [] := rfl

theorem any_name_iff (kept : List Attr) (a : Attr) :
    kept.any (fun b => b.name == a.name) = true ↔ a.name ∈ kept.map (·.name) := by
  simp only [List.any_eq_true, beq_iff_eq, List.mem_map]

theorem dedupStep_cases (kept : List Attr) (a : Attr) :
    (a.name ∈ kept.map (·.name) ∧ dedupStep kept a = kept)
    ∨ (a.name ∉ kept.map (·.name) ∧ dedupStep kept a = kept ++ [a]) := by
  unfold dedupStep
  split
  · rename_i h; rw [any_name_iff] at h; exact .inl ⟨h, rfl⟩
  · rename_i h; rw [any_name_iff] at h; exact .inr ⟨h, rfl⟩

theorem foldl_dedup_nodup (attrs kept : List Attr) (h : (kept.map (·.name)).Nodup) :
    ((attrs.foldl dedupStep kept).map (·.name)).Nodup := by
  induction attrs generalizing kept with
  | nil => simpa
  | cons a rest ih =>
    simp only [List.foldl_cons]
    apply ih
    rcases dedupStep_cases kept a with ⟨_, e⟩ | ⟨hn, e⟩ <;> rw [e]
    · exact h
    · simp only [List.map_append, List.map_cons, List.map_nil]
      rw [List.nodup_append]
      refine ⟨h, by simp, ?_⟩
      intro x hx y hy
      simp at hy
      subst hy
      intro e; subst e; exact hn hx

/-- the attribute names of a de-duplicated list are pairwise distinct -/
theorem C01_dedupAttrs_nodup (attrs : List Attr) : ((dedupAttrs attrs).map (·.name)).Nodup := by
  rw [dedupAttrs_eq]; exact foldl_dedup_nodup attrs [] (by simp)

theorem foldl_dedup_sublist (attrs kept : List Attr) :
    (attrs.foldl dedupStep kept).Sublist (kept ++ attrs) := by
  induction attrs generalizing kept with
  | nil => simp
  | cons a rest ih =>
    simp only [List.foldl_cons]
    rcases dedupStep_cases kept a with ⟨_, e⟩ | ⟨_, e⟩ <;> rw [e]
    · refine (ih kept).trans ?_
      exact List.Sublist.append_left (List.sublist_cons_self a rest) kept
    · have := ih (kept ++ [a])
      simpa using this

/-- de-duplication only removes attributes: source order is kept -/
theorem C01_dedupAttrs_sublist (attrs : List Attr) : (dedupAttrs attrs).Sublist attrs := by
  rw [dedupAttrs_eq]; simpa using foldl_dedup_sublist attrs []

theorem foldl_dedup_prefix (attrs kept : List Attr) :
    ∃ more, attrs.foldl dedupStep kept = kept ++ more := by
  induction attrs generalizing kept with
  | nil => exact ⟨[], by simp⟩
  | cons a rest ih =>
    simp only [List.foldl_cons]
    rcases dedupStep_cases kept a with ⟨_, e⟩ | ⟨_, e⟩ <;> rw [e]
    · exact ih kept
    · obtain ⟨m, hm⟩ := ih (kept ++ [a])
      exact ⟨a :: m, by rw [hm]; simp⟩

/-- the first attribute wins: an attribute whose name does not occur before it is kept -/
theorem C01_dedupAttrs_first_wins (pre : List Attr) (a : Attr) (post : List Attr)
    (h : a.name ∉ pre.map (·.name)) : a ∈ dedupAttrs (pre ++ a :: post) := by
  rw [dedupAttrs_eq, List.foldl_append, List.foldl_cons]
  have hsub := foldl_dedup_sublist pre []
  have hnot : a.name ∉ (pre.foldl dedupStep []).map (·.name) := by
    intro hm
    apply h
    simp only [List.nil_append] at hsub
    exact (hsub.map (·.name)).subset hm
  have hstep : dedupStep (pre.foldl dedupStep []) a = pre.foldl dedupStep [] ++ [a] := by
    rcases dedupStep_cases (pre.foldl dedupStep []) a with ⟨hin, _⟩ | ⟨_, e⟩
    · exact absurd hin hnot
    · exact e
  rw [hstep]
  obtain ⟨m, hm⟩ := foldl_dedup_prefix post (pre.foldl dedupStep [] ++ [a])
  rw [hm]; simp

/-- every tag token the specification emits has pairwise distinct attribute names -/
theorem C01_currentTag_names_nodup (t : Tok) : (t.currentTag.attrs.map (·.name)).Nodup := by
  unfold Tok.currentTag; exact C01_dedupAttrs_nodup _

example : dedupAttrs [⟨['b'], ['x']⟩, ⟨['c'], []⟩, ⟨['b'], ['y']⟩] = [⟨['b'], ['x']⟩, ⟨['c'], []⟩] := by
  decide

/-! ## exactly one end-of-file token, last -/

theorem toToken_ne_eof (e : Emit) : e.toToken ≠ Token.eof := by cases e <;> simp [Emit.toToken]

/-- whatever the input, start state and feedback: the token list ends with the end-of-file token
and contains no other one -/
theorem C01_spec_single_eof (tree : Tree) (s : St) (last : Option Str) (inp : Str) (toks : List Token)
    (h : tokenize tree s last inp = some toks) :
    toks.count Token.eof = 1 ∧ toks.getLast? = some Token.eof := by
  unfold tokenize at h
  cases hr : run tree (fuelFor inp) (Tok.initial s last) inp with
  | none => simp [hr] at h
  | some es =>
    simp only [hr, Option.map_some, Option.some.injEq] at h
    subst h
    refine ⟨?_, by simp⟩
    rw [List.count_append]
    have : (es.map Emit.toToken).count Token.eof = 0 := by
      rw [List.count_eq_zero]
      intro hm
      obtain ⟨e, _, he⟩ := List.mem_map.1 hm
      exact toToken_ne_eof e he
    simp [this]

/-! ## totality: the fuel `tokenize` provides always suffices

Every step either consumes at least one input character, or leaves the input alone and moves to a
state of strictly smaller `rank` (for the character being looked at): the chains of "reconsume in …"
are finite. `rank` is 0 for the states that always consume (or stop at EOF). -/

open H5V.Spec.HtmlTokenizer.Tok

def rank (s : St) (c : Option Char) : Nat :=
  match s with
  | .afterAttributeName =>
    match c with
    | none => 0
    | some c => if c = '\t' ∨ c = '\n' ∨ c = '\x0c' ∨ c = ' ' ∨ c = '/' ∨ c = '=' ∨ c = '>' then 0 else 2
  | .attributeName | .beforeAttributeValue | .tagOpen | .endTagOpen => 1
  | .beforeAttributeName => 3
  | .afterAttributeValueQuoted | .selfClosingStartTag => 4
  | .rcdataLessThanSign | .rcdataEndTagName | .rawtextLessThanSign | .rawtextEndTagName
  | .scriptDataLessThanSign | .scriptDataEndTagName | .scriptDataEscapedEndTagName => 1
  | .rcdataEndTagOpen | .rawtextEndTagOpen | .scriptDataEndTagOpen | .scriptDataEscapedEndTagOpen => 2
  | .scriptDataEscapeStart | .scriptDataEscapeStartDash | .scriptDataDoubleEscapeStart
  | .scriptDataDoubleEscapedLessThanSign | .scriptDataDoubleEscapeEnd => 1
  | .scriptDataEscapedLessThanSign => 2
  | .markupDeclarationOpen => 1
  | .commentStart | .commentStartDash | .commentLessThanSign | .commentLessThanSignBang
  | .commentEndDash | .commentEnd | .commentEndBang => 1
  | .commentLessThanSignBangDash | .commentLessThanSignBangDashDash => 2
  | .doctype | .afterDoctypeName | .afterDoctypePublicKeyword | .beforeDoctypePublicIdentifier
  | .afterDoctypePublicIdentifier | .betweenDoctypePublicAndSystemIdentifiers
  | .afterDoctypeSystemKeyword | .beforeDoctypeSystemIdentifier | .afterDoctypeSystemIdentifier => 1
  | .cdataSectionBracket | .cdataSectionEnd => 1
  | .numericCharacterReferenceEnd | .ambiguousAmpersand => 1
  | .hexadecimalCharacterReference | .decimalCharacterReference | .namedCharacterReference => 2
  | .hexadecimalCharacterReferenceStart | .decimalCharacterReferenceStart | .characterReference => 3
  | .numericCharacterReference => 4
  | _ => 0

def Good (s : St) (c : Option Char) (nonempty : Prop) (r : Res) : Prop :=
  match r.2 with
  | .stop => True
  | .advance n => (n = 0 ∧ rank r.1.state c < rank s c) ∨ (1 ≤ n ∧ nonempty)

theorem rank_toSt (r : ReturnSt) (c : Option Char) : rank r.toSt c = 0 := by cases r <;> rfl

set_option linter.unusedSimpArgs false
macro "good_tac" : tactic =>
  `(tactic| ((repeat' split) <;>
      (try simp_all [Good, switchTo, Tok.done, emitEOF, reconsumeIn, rank_toSt, setState]) <;>
      (try simp_all [rank])))

theorem good_data (t : Tok) (c : Option Char) : Good .data c (c ≠ none) (dataState t c) := by
  unfold dataState; good_tac

theorem good_rcdata (t : Tok) (c : Option Char) : Good .rcdata c (c ≠ none) (rcdataState t c) := by
  unfold rcdataState; good_tac

theorem good_rawtext (t : Tok) (c : Option Char) : Good .rawtext c (c ≠ none) (rawtextState t c) := by
  unfold rawtextState; good_tac

theorem good_scriptData (t : Tok) (c : Option Char) : Good .scriptData c (c ≠ none) (scriptDataState t c) := by
  unfold scriptDataState; good_tac

theorem good_plaintext (t : Tok) (c : Option Char) : Good .plaintext c (c ≠ none) (plaintextState t c) := by
  unfold plaintextState; good_tac

theorem good_tagOpen (t : Tok) (c : Option Char) : Good .tagOpen c (c ≠ none) (tagOpenState t c) := by
  unfold tagOpenState; good_tac

theorem good_endTagOpen (t : Tok) (c : Option Char) : Good .endTagOpen c (c ≠ none) (endTagOpenState t c) := by
  unfold endTagOpenState; good_tac

theorem good_rcdataLessThanSign (t : Tok) (c : Option Char) : Good .rcdataLessThanSign c (c ≠ none) (rcdataLessThanSignState t c) := by
  unfold rcdataLessThanSignState; good_tac

theorem good_rcdataEndTagOpen (t : Tok) (c : Option Char) : Good .rcdataEndTagOpen c (c ≠ none) (rcdataEndTagOpenState t c) := by
  unfold rcdataEndTagOpenState; good_tac

theorem good_rawtextLessThanSign (t : Tok) (c : Option Char) : Good .rawtextLessThanSign c (c ≠ none) (rawtextLessThanSignState t c) := by
  unfold rawtextLessThanSignState; good_tac

theorem good_rawtextEndTagOpen (t : Tok) (c : Option Char) : Good .rawtextEndTagOpen c (c ≠ none) (rawtextEndTagOpenState t c) := by
  unfold rawtextEndTagOpenState; good_tac

theorem good_scriptDataLessThanSign (t : Tok) (c : Option Char) : Good .scriptDataLessThanSign c (c ≠ none) (scriptDataLessThanSignState t c) := by
  unfold scriptDataLessThanSignState; good_tac

theorem good_scriptDataEndTagOpen (t : Tok) (c : Option Char) : Good .scriptDataEndTagOpen c (c ≠ none) (scriptDataEndTagOpenState t c) := by
  unfold scriptDataEndTagOpenState; good_tac

theorem good_scriptDataEscapeStart (t : Tok) (c : Option Char) : Good .scriptDataEscapeStart c (c ≠ none) (scriptDataEscapeStartState t c) := by
  unfold scriptDataEscapeStartState; good_tac

theorem good_scriptDataEscapeStartDash (t : Tok) (c : Option Char) : Good .scriptDataEscapeStartDash c (c ≠ none) (scriptDataEscapeStartDashState t c) := by
  unfold scriptDataEscapeStartDashState; good_tac

theorem good_scriptDataEscaped (t : Tok) (c : Option Char) : Good .scriptDataEscaped c (c ≠ none) (scriptDataEscapedState t c) := by
  unfold scriptDataEscapedState; good_tac

theorem good_scriptDataEscapedDash (t : Tok) (c : Option Char) : Good .scriptDataEscapedDash c (c ≠ none) (scriptDataEscapedDashState t c) := by
  unfold scriptDataEscapedDashState; good_tac

theorem good_scriptDataEscapedDashDash (t : Tok) (c : Option Char) : Good .scriptDataEscapedDashDash c (c ≠ none) (scriptDataEscapedDashDashState t c) := by
  unfold scriptDataEscapedDashDashState; good_tac

theorem good_scriptDataEscapedLessThanSign (t : Tok) (c : Option Char) : Good .scriptDataEscapedLessThanSign c (c ≠ none) (scriptDataEscapedLessThanSignState t c) := by
  unfold scriptDataEscapedLessThanSignState; good_tac

theorem good_scriptDataEscapedEndTagOpen (t : Tok) (c : Option Char) : Good .scriptDataEscapedEndTagOpen c (c ≠ none) (scriptDataEscapedEndTagOpenState t c) := by
  unfold scriptDataEscapedEndTagOpenState; good_tac

theorem good_scriptDataDoubleEscapeStart (t : Tok) (c : Option Char) : Good .scriptDataDoubleEscapeStart c (c ≠ none) (scriptDataDoubleEscapeStartState t c) := by
  unfold scriptDataDoubleEscapeStartState; good_tac

theorem good_scriptDataDoubleEscaped (t : Tok) (c : Option Char) : Good .scriptDataDoubleEscaped c (c ≠ none) (scriptDataDoubleEscapedState t c) := by
  unfold scriptDataDoubleEscapedState; good_tac

theorem good_scriptDataDoubleEscapedDash (t : Tok) (c : Option Char) : Good .scriptDataDoubleEscapedDash c (c ≠ none) (scriptDataDoubleEscapedDashState t c) := by
  unfold scriptDataDoubleEscapedDashState; good_tac

theorem good_scriptDataDoubleEscapedDashDash (t : Tok) (c : Option Char) : Good .scriptDataDoubleEscapedDashDash c (c ≠ none) (scriptDataDoubleEscapedDashDashState t c) := by
  unfold scriptDataDoubleEscapedDashDashState; good_tac

theorem good_scriptDataDoubleEscapedLessThanSign (t : Tok) (c : Option Char) : Good .scriptDataDoubleEscapedLessThanSign c (c ≠ none) (scriptDataDoubleEscapedLessThanSignState t c) := by
  unfold scriptDataDoubleEscapedLessThanSignState; good_tac

theorem good_scriptDataDoubleEscapeEnd (t : Tok) (c : Option Char) : Good .scriptDataDoubleEscapeEnd c (c ≠ none) (scriptDataDoubleEscapeEndState t c) := by
  unfold scriptDataDoubleEscapeEndState; good_tac

theorem good_beforeAttributeName (t : Tok) (c : Option Char) : Good .beforeAttributeName c (c ≠ none) (beforeAttributeNameState t c) := by
  unfold beforeAttributeNameState; good_tac

theorem good_attributeName (t : Tok) (c : Option Char) : Good .attributeName c (c ≠ none) (attributeNameState t c) := by
  unfold attributeNameState; good_tac

theorem good_attributeValueDoubleQuoted (t : Tok) (c : Option Char) : Good .attributeValueDoubleQuoted c (c ≠ none) (attributeValueDoubleQuotedState t c) := by
  unfold attributeValueDoubleQuotedState; good_tac

theorem good_attributeValueSingleQuoted (t : Tok) (c : Option Char) : Good .attributeValueSingleQuoted c (c ≠ none) (attributeValueSingleQuotedState t c) := by
  unfold attributeValueSingleQuotedState; good_tac

theorem good_bogusComment (t : Tok) (c : Option Char) : Good .bogusComment c (c ≠ none) (bogusCommentState t c) := by
  unfold bogusCommentState; good_tac

theorem good_commentStart (t : Tok) (c : Option Char) : Good .commentStart c (c ≠ none) (commentStartState t c) := by
  unfold commentStartState; good_tac

theorem good_commentStartDash (t : Tok) (c : Option Char) : Good .commentStartDash c (c ≠ none) (commentStartDashState t c) := by
  unfold commentStartDashState; good_tac

theorem good_comment (t : Tok) (c : Option Char) : Good .comment c (c ≠ none) (commentState t c) := by
  unfold commentState; good_tac

theorem good_commentLessThanSign (t : Tok) (c : Option Char) : Good .commentLessThanSign c (c ≠ none) (commentLessThanSignState t c) := by
  unfold commentLessThanSignState; good_tac

theorem good_commentLessThanSignBang (t : Tok) (c : Option Char) : Good .commentLessThanSignBang c (c ≠ none) (commentLessThanSignBangState t c) := by
  unfold commentLessThanSignBangState; good_tac

theorem good_commentLessThanSignBangDash (t : Tok) (c : Option Char) : Good .commentLessThanSignBangDash c (c ≠ none) (commentLessThanSignBangDashState t c) := by
  unfold commentLessThanSignBangDashState; good_tac

theorem good_commentLessThanSignBangDashDash (t : Tok) (c : Option Char) : Good .commentLessThanSignBangDashDash c (c ≠ none) (commentLessThanSignBangDashDashState t c) := by
  unfold commentLessThanSignBangDashDashState; good_tac

theorem good_commentEndDash (t : Tok) (c : Option Char) : Good .commentEndDash c (c ≠ none) (commentEndDashState t c) := by
  unfold commentEndDashState; good_tac

theorem good_commentEnd (t : Tok) (c : Option Char) : Good .commentEnd c (c ≠ none) (commentEndState t c) := by
  unfold commentEndState; good_tac

theorem good_commentEndBang (t : Tok) (c : Option Char) : Good .commentEndBang c (c ≠ none) (commentEndBangState t c) := by
  unfold commentEndBangState; good_tac

theorem good_doctype (t : Tok) (c : Option Char) : Good .doctype c (c ≠ none) (doctypeState t c) := by
  unfold doctypeState; good_tac

theorem good_beforeDoctypeName (t : Tok) (c : Option Char) : Good .beforeDoctypeName c (c ≠ none) (beforeDoctypeNameState t c) := by
  unfold beforeDoctypeNameState; good_tac

theorem good_doctypeName (t : Tok) (c : Option Char) : Good .doctypeName c (c ≠ none) (doctypeNameState t c) := by
  unfold doctypeNameState; good_tac

theorem good_afterDoctypePublicKeyword (t : Tok) (c : Option Char) : Good .afterDoctypePublicKeyword c (c ≠ none) (afterDoctypePublicKeywordState t c) := by
  unfold afterDoctypePublicKeywordState; good_tac

theorem good_beforeDoctypePublicIdentifier (t : Tok) (c : Option Char) : Good .beforeDoctypePublicIdentifier c (c ≠ none) (beforeDoctypePublicIdentifierState t c) := by
  unfold beforeDoctypePublicIdentifierState; good_tac

theorem good_doctypePublicIdentifierDoubleQuoted (t : Tok) (c : Option Char) : Good .doctypePublicIdentifierDoubleQuoted c (c ≠ none) (doctypePublicIdentifierDoubleQuotedState t c) := by
  unfold doctypePublicIdentifierDoubleQuotedState; good_tac

theorem good_doctypePublicIdentifierSingleQuoted (t : Tok) (c : Option Char) : Good .doctypePublicIdentifierSingleQuoted c (c ≠ none) (doctypePublicIdentifierSingleQuotedState t c) := by
  unfold doctypePublicIdentifierSingleQuotedState; good_tac

theorem good_afterDoctypePublicIdentifier (t : Tok) (c : Option Char) : Good .afterDoctypePublicIdentifier c (c ≠ none) (afterDoctypePublicIdentifierState t c) := by
  unfold afterDoctypePublicIdentifierState; good_tac

theorem good_betweenDoctypePublicAndSystemIdentifiers (t : Tok) (c : Option Char) : Good .betweenDoctypePublicAndSystemIdentifiers c (c ≠ none) (betweenDoctypePublicAndSystemIdentifiersState t c) := by
  unfold betweenDoctypePublicAndSystemIdentifiersState; good_tac

theorem good_afterDoctypeSystemKeyword (t : Tok) (c : Option Char) : Good .afterDoctypeSystemKeyword c (c ≠ none) (afterDoctypeSystemKeywordState t c) := by
  unfold afterDoctypeSystemKeywordState; good_tac

theorem good_beforeDoctypeSystemIdentifier (t : Tok) (c : Option Char) : Good .beforeDoctypeSystemIdentifier c (c ≠ none) (beforeDoctypeSystemIdentifierState t c) := by
  unfold beforeDoctypeSystemIdentifierState; good_tac

theorem good_doctypeSystemIdentifierDoubleQuoted (t : Tok) (c : Option Char) : Good .doctypeSystemIdentifierDoubleQuoted c (c ≠ none) (doctypeSystemIdentifierDoubleQuotedState t c) := by
  unfold doctypeSystemIdentifierDoubleQuotedState; good_tac

theorem good_doctypeSystemIdentifierSingleQuoted (t : Tok) (c : Option Char) : Good .doctypeSystemIdentifierSingleQuoted c (c ≠ none) (doctypeSystemIdentifierSingleQuotedState t c) := by
  unfold doctypeSystemIdentifierSingleQuotedState; good_tac

theorem good_afterDoctypeSystemIdentifier (t : Tok) (c : Option Char) : Good .afterDoctypeSystemIdentifier c (c ≠ none) (afterDoctypeSystemIdentifierState t c) := by
  unfold afterDoctypeSystemIdentifierState; good_tac

theorem good_bogusDoctype (t : Tok) (c : Option Char) : Good .bogusDoctype c (c ≠ none) (bogusDoctypeState t c) := by
  unfold bogusDoctypeState; good_tac

theorem good_cdataSection (t : Tok) (c : Option Char) : Good .cdataSection c (c ≠ none) (cdataSectionState t c) := by
  unfold cdataSectionState; good_tac

theorem good_cdataSectionBracket (t : Tok) (c : Option Char) : Good .cdataSectionBracket c (c ≠ none) (cdataSectionBracketState t c) := by
  unfold cdataSectionBracketState; good_tac

theorem good_cdataSectionEnd (t : Tok) (c : Option Char) : Good .cdataSectionEnd c (c ≠ none) (cdataSectionEndState t c) := by
  unfold cdataSectionEndState; good_tac

theorem good_characterReference (t : Tok) (c : Option Char) : Good .characterReference c (c ≠ none) (characterReferenceState t c) := by
  unfold characterReferenceState; good_tac

theorem good_ambiguousAmpersand (t : Tok) (c : Option Char) : Good .ambiguousAmpersand c (c ≠ none) (ambiguousAmpersandState t c) := by
  unfold ambiguousAmpersandState; good_tac

theorem good_numericCharacterReference (t : Tok) (c : Option Char) : Good .numericCharacterReference c (c ≠ none) (numericCharacterReferenceState t c) := by
  unfold numericCharacterReferenceState; good_tac

theorem good_hexadecimalCharacterReferenceStart (t : Tok) (c : Option Char) : Good .hexadecimalCharacterReferenceStart c (c ≠ none) (hexadecimalCharacterReferenceStartState t c) := by
  unfold hexadecimalCharacterReferenceStartState; good_tac

theorem good_decimalCharacterReferenceStart (t : Tok) (c : Option Char) : Good .decimalCharacterReferenceStart c (c ≠ none) (decimalCharacterReferenceStartState t c) := by
  unfold decimalCharacterReferenceStartState; good_tac

theorem good_hexadecimalCharacterReference (t : Tok) (c : Option Char) : Good .hexadecimalCharacterReference c (c ≠ none) (hexadecimalCharacterReferenceState t c) := by
  unfold hexadecimalCharacterReferenceState; good_tac

theorem good_decimalCharacterReference (t : Tok) (c : Option Char) : Good .decimalCharacterReference c (c ≠ none) (decimalCharacterReferenceState t c) := by
  unfold decimalCharacterReferenceState; good_tac

theorem good_tagName (tree : Tree) (t : Tok) (c : Option Char) : Good .tagName c (c ≠ none) (tagNameState tree t c) := by
  unfold tagNameState; good_tac

theorem good_afterAttributeName (tree : Tree) (t : Tok) (c : Option Char) : Good .afterAttributeName c (c ≠ none) (afterAttributeNameState tree t c) := by
  unfold afterAttributeNameState; good_tac

theorem good_beforeAttributeValue (tree : Tree) (t : Tok) (c : Option Char) : Good .beforeAttributeValue c (c ≠ none) (beforeAttributeValueState tree t c) := by
  unfold beforeAttributeValueState; good_tac

theorem good_attributeValueUnquoted (tree : Tree) (t : Tok) (c : Option Char) : Good .attributeValueUnquoted c (c ≠ none) (attributeValueUnquotedState tree t c) := by
  unfold attributeValueUnquotedState; good_tac

theorem good_afterAttributeValueQuoted (tree : Tree) (t : Tok) (c : Option Char) : Good .afterAttributeValueQuoted c (c ≠ none) (afterAttributeValueQuotedState tree t c) := by
  unfold afterAttributeValueQuotedState; good_tac

theorem good_selfClosingStartTag (tree : Tree) (t : Tok) (c : Option Char) : Good .selfClosingStartTag c (c ≠ none) (selfClosingStartTagState tree t c) := by
  unfold selfClosingStartTagState; good_tac

theorem good_rcdataEndTagName (tree : Tree) (t : Tok) (c : Option Char) : Good .rcdataEndTagName c (c ≠ none) (rcdataEndTagNameState tree t c) := by
  unfold rcdataEndTagNameState genericEndTagNameState; good_tac

theorem good_rawtextEndTagName (tree : Tree) (t : Tok) (c : Option Char) : Good .rawtextEndTagName c (c ≠ none) (rawtextEndTagNameState tree t c) := by
  unfold rawtextEndTagNameState genericEndTagNameState; good_tac

theorem good_scriptDataEndTagName (tree : Tree) (t : Tok) (c : Option Char) : Good .scriptDataEndTagName c (c ≠ none) (scriptDataEndTagNameState tree t c) := by
  unfold scriptDataEndTagNameState genericEndTagNameState; good_tac

theorem good_scriptDataEscapedEndTagName (tree : Tree) (t : Tok) (c : Option Char) : Good .scriptDataEscapedEndTagName c (c ≠ none) (scriptDataEscapedEndTagNameState tree t c) := by
  unfold scriptDataEscapedEndTagNameState genericEndTagNameState; good_tac

theorem good_markupDeclarationOpen (tree : Tree) (t : Tok) (inp : Str) :
    Good .markupDeclarationOpen inp.head? (inp ≠ []) (markupDeclarationOpenState tree t inp) := by
  unfold markupDeclarationOpenState
  split
  · rename_i h
    have : inp ≠ [] := by intro e; subst e; simp [nextAre] at h
    simp [Good, this]
  · split
    · rename_i h
      have : inp ≠ [] := by intro e; subst e; simp [nextAreCaseInsensitive] at h
      simp [Good, this]
    · split
      · rename_i h
        have : inp ≠ [] := by intro e; subst e; simp [nextAre] at h
        split <;> simp [Good, this]
      · simp [Good, setState, rank]

theorem good_afterDoctypeName (t : Tok) (inp : Str) :
    Good .afterDoctypeName inp.head? (inp ≠ []) (afterDoctypeNameState t inp) := by
  unfold afterDoctypeNameState
  cases inp with
  | nil => simp [Good, emitEOF]
  | cons c rest =>
    simp only [List.head?_cons]
    good_tac

theorem longestNamedReference_ne_nil {inp : Str} {r} (h : longestNamedReference inp = some r) : inp ≠ [] := by
  intro e; subst e; simp [longestNamedReference] at h

theorem good_return {s : St} {c : Option Char} (hs : 0 < rank s c) (t1 : Tok) (r : ReturnSt) (n : Nat)
    (P : Prop) (h : n = 0 ∨ (1 ≤ n ∧ P)) : Good s c P (t1.setState r.toSt, .advance n) := by
  unfold Good
  simp only [setState, rank_toSt]
  rcases h with h | h
  · exact .inl ⟨h, hs⟩
  · exact .inr h

theorem good_namedCharacterReference (t : Tok) (inp : Str) :
    Good .namedCharacterReference inp.head? (inp ≠ []) (namedCharacterReferenceState t inp) := by
  unfold namedCharacterReferenceState
  split
  · rename_i name cp1 cp2 h
    have hne := longestNamedReference_ne_nil h
    have hn : name.length = 0 ∨ (1 ≤ name.length ∧ inp ≠ []) := by
      by_cases h0 : name.length = 0
      · exact .inl h0
      · exact .inr ⟨Nat.one_le_iff_ne_zero.2 h0, hne⟩
    simp only []
    split
    · exact good_return (by simp [rank]) _ _ _ _ hn
    · exact good_return (by simp [rank]) _ _ _ _ hn
  · simp [Good, setState, rank]

theorem good_numericCharacterReferenceEnd (t : Tok) (c : Option Char) (P : Prop) :
    Good .numericCharacterReferenceEnd c P (numericCharacterReferenceEndState t) := by
  unfold numericCharacterReferenceEndState
  exact good_return (by simp [rank]) _ _ _ _ (.inl rfl)

theorem head?_ne_none {inp : Str} (h : inp.head? ≠ none) : inp ≠ [] := by
  intro e; subst e; simp at h

theorem Good.mono {s c} {P Q : Prop} {r : Res} (h : Good s c P r) (hpq : P → Q) : Good s c Q r := by
  unfold Good at *
  split <;> simp_all
  rcases h with h | h
  · exact .inl h
  · exact .inr ⟨h.1, hpq h.2⟩

theorem good_step (tree : Tree) (t : Tok) (inp : Str) :
    Good t.state inp.head? (inp ≠ []) (step tree t inp) := by
  unfold step
  cases t.state <;> simp only [] <;>
    first
    | exact good_markupDeclarationOpen ..
    | exact good_afterDoctypeName ..
    | exact good_namedCharacterReference ..
    | exact good_numericCharacterReferenceEnd ..
    | (refine Good.mono ?_ head?_ne_none
       first | exact good_data .. | exact good_rcdata .. | exact good_rawtext .. | exact good_scriptData .. | exact good_plaintext .. | exact good_tagOpen .. | exact good_endTagOpen .. | exact good_rcdataLessThanSign .. | exact good_rcdataEndTagOpen .. | exact good_rawtextLessThanSign .. | exact good_rawtextEndTagOpen .. | exact good_scriptDataLessThanSign .. | exact good_scriptDataEndTagOpen .. | exact good_scriptDataEscapeStart .. | exact good_scriptDataEscapeStartDash .. | exact good_scriptDataEscaped .. | exact good_scriptDataEscapedDash .. | exact good_scriptDataEscapedDashDash .. | exact good_scriptDataEscapedLessThanSign .. | exact good_scriptDataEscapedEndTagOpen .. | exact good_scriptDataDoubleEscapeStart .. | exact good_scriptDataDoubleEscaped .. | exact good_scriptDataDoubleEscapedDash .. | exact good_scriptDataDoubleEscapedDashDash .. | exact good_scriptDataDoubleEscapedLessThanSign .. | exact good_scriptDataDoubleEscapeEnd .. | exact good_beforeAttributeName .. | exact good_attributeName .. | exact good_attributeValueDoubleQuoted .. | exact good_attributeValueSingleQuoted .. | exact good_bogusComment .. | exact good_commentStart .. | exact good_commentStartDash .. | exact good_comment .. | exact good_commentLessThanSign .. | exact good_commentLessThanSignBang .. | exact good_commentLessThanSignBangDash .. | exact good_commentLessThanSignBangDashDash .. | exact good_commentEndDash .. | exact good_commentEnd .. | exact good_commentEndBang .. | exact good_doctype .. | exact good_beforeDoctypeName .. | exact good_doctypeName .. | exact good_afterDoctypePublicKeyword .. | exact good_beforeDoctypePublicIdentifier .. | exact good_doctypePublicIdentifierDoubleQuoted .. | exact good_doctypePublicIdentifierSingleQuoted .. | exact good_afterDoctypePublicIdentifier .. | exact good_betweenDoctypePublicAndSystemIdentifiers .. | exact good_afterDoctypeSystemKeyword .. | exact good_beforeDoctypeSystemIdentifier .. | exact good_doctypeSystemIdentifierDoubleQuoted .. | exact good_doctypeSystemIdentifierSingleQuoted .. | exact good_afterDoctypeSystemIdentifier .. | exact good_bogusDoctype .. | exact good_cdataSection .. | exact good_cdataSectionBracket .. | exact good_cdataSectionEnd .. | exact good_characterReference .. | exact good_ambiguousAmpersand .. | exact good_numericCharacterReference .. | exact good_hexadecimalCharacterReferenceStart .. | exact good_decimalCharacterReferenceStart .. | exact good_hexadecimalCharacterReference .. | exact good_decimalCharacterReference .. | exact good_tagName .. | exact good_afterAttributeName .. | exact good_beforeAttributeValue .. | exact good_attributeValueUnquoted .. | exact good_afterAttributeValueQuoted .. | exact good_selfClosingStartTag .. | exact good_rcdataEndTagName .. | exact good_rawtextEndTagName .. | exact good_scriptDataEndTagName .. | exact good_scriptDataEscapedEndTagName ..)

/-- **the per-step measure.** A step that does not stop either reconsumes (`n = 0`) into a state of
strictly smaller rank for the same next character, or consumes `n ≥ 1` characters of a non-empty
input. -/
theorem C01_spec_step_measure (tree : Tree) (t t' : Tok) (inp : Str) (n : Nat)
    (h : step tree t inp = (t', .advance n)) :
    (n = 0 ∧ rank t'.state inp.head? < rank t.state inp.head?) ∨ (1 ≤ n ∧ inp ≠ []) := by
  have := good_step tree t inp
  simpa [Good, h] using this

theorem rank_lt (s : St) (c : Option Char) : rank s c < stepsPerChar := by
  unfold rank stepsPerChar
  cases s <;> simp only [] <;> (try split) <;> (try split) <;> omega

/-- the measure that every step decreases -/
def measure (t : Tok) (inp : Str) : Nat := stepsPerChar * inp.length + rank t.state inp.head?

theorem step_measure_lt (tree : Tree) (t t' : Tok) (inp : Str) (n : Nat)
    (h : step tree t inp = (t', .advance n)) : measure t' (inp.drop n) < measure t inp := by
  rcases C01_spec_step_measure tree t t' inp n h with ⟨rfl, hr⟩ | ⟨hn, hne⟩
  · simpa [measure] using hr
  · unfold measure
    have h1 : (inp.drop n).length + 1 ≤ inp.length := by
      have : 0 < inp.length := List.length_pos_iff.2 hne
      rw [List.length_drop]; omega
    have h2 := rank_lt t'.state (inp.drop n).head?
    have h3 : stepsPerChar * ((inp.drop n).length + 1) ≤ stepsPerChar * inp.length :=
      Nat.mul_le_mul_left _ h1
    rw [Nat.mul_add, Nat.mul_one] at h3
    omega

/-- with more fuel than the measure the run ends with the end-of-file token -/
theorem C01_spec_run_steps (tree : Tree) (fuel : Nat) (t : Tok) (inp : Str)
    (h : measure t inp < fuel) : (run tree fuel t inp).isSome := by
  induction fuel generalizing t inp with
  | zero => omega
  | succ fuel ih =>
    unfold run
    split
    · simp
    · rename_i t' n hs
      apply ih
      have := step_measure_lt tree t t' inp n hs
      omega

/-- **totality.** For every feedback, start state, last start tag name and input the specification
delivers a token list: at most `stepsPerChar · (|input| + 1) + 1` steps are needed. -/
theorem C01_spec_total (tree : Tree) (s : St) (last : Option Str) (inp : Str) :
    (tokenize tree s last inp).isSome := by
  unfold tokenize
  rw [Option.isSome_map]
  apply C01_spec_run_steps
  unfold measure fuelFor
  have := rank_lt (Tok.initial s last).state inp.head?
  rw [Nat.mul_add, Nat.mul_one]
  omega

/-- non-vacuity: a run through tags, attributes, a character reference, a comment and a DOCTYPE -/
example :
    tokenize ⟨fun _ _ => .none, fun _ => false⟩ .data none "<!DOCTYPE html><a b=&amp; B=c>x</a><!--y-->".toList
      = some [.doctype { name := some "html".toList },
              .tag { kind := .startTag, name := ['a'], selfClosing := false,
                     attrs := [⟨['b'], ['&']⟩], hadDup := true },
              .chars ['x'],
              .tag { kind := .endTag, name := ['a'], selfClosing := false, attrs := [], hadDup := false },
              .comment ['y'], .eof] := by
  decide

end H5V.Props.C01
