import H5V.Lemmas.HtmlTBContractAll
import H5V.Props.C04TB
/-!
# C05 for the HTML tree builder model: every sink call is within the TreeSink contract

`H5V.Props.C05` shows that a call within `Contract` on an arena satisfying `Inv` never fails (the
selectedcontent mirror op excepted) and re-establishes `Inv`.  Here: **every `sink op` the tree builder
model issues satisfies `Contract s.dom op`**, for every option set, every token list whose tag tokens carry
attribute lists as the tokenizer delivers them (`TagsOk`: names without namespace/prefix, lower case, no
duplicates — `create_element` / `add_attrs_if_missing` require duplicate-free lists), document and fragment
parses.  The statement is by the recorded call list (`State.traceRev`): on success the calls form a
`C20.Run` (each call within the contract in the arena it is made in, each returning normally) and the
final arena satisfies `Inv`; a failing run ends in `Esc e`: a panic/fuel/protocol message of the builder
itself (excluded by `C04TB`), a `meta-extract@encoding.rs` message, or a failure of the mirror op
`maybe_clone_an_option_into_selectedcontent` *called within its contract* (the op not covered by
`C05_no_panic_partial`) — never a contract violation and never a failure of another sink call.
-/
namespace H5V.Props.C05TB
open H5V.Model.HtmlTB
open H5V.Model.Dom (Id QualName Attr NodeOrText SinkOp Output ElementFlags QuirksMode Dom NodeData Node Contract)
open H5V.Props.C20 (Inv Run)
open H5V.Lemmas.TBSafe (IsEl nm sigOf Ext Benign MutOp ptcFuelMsg textProtoMsg Respects infixL infixL_append)
open H5V.Lemmas.TBC
open H5V.Props.C04TB (parseDocument parseFragment parseRest fragInit docStart BenignProto BenignAny)

/-- the attribute list of a tag as the tokenizer delivers it -/
abbrev AttrsOk := H5V.Lemmas.TBC.AttrsOk
/-- every tag token of the list carries such an attribute list -/
abbrev TagsOk := H5V.Lemmas.TBC.TagsOk
/-- the failures that are not sink failures (or are the mirror op's) -/
abbrev Esc := H5V.Lemmas.TBC.Esc

/-- the sink calls made so far, oldest first -/
def calls (s : State) : List SinkOp := s.traceRev.reverse.map Prod.fst

/-- what a run of the builder from the arena `d0` ends in: success with a contract-abiding call list and an
arena satisfying `Inv`, or a failure that is `Esc` (an inductive predicate, so that nothing tries to evaluate
the run) -/
inductive Outcome (d0 : Dom) {α : Type} : Except String (α × State) → Prop
  | ok {a : α} {s' : State} : Inv s'.dom → Run d0 (calls s') s'.dom → Outcome d0 (.ok (a, s'))
  | error {e : String} : Esc e → Outcome d0 (.error e)

theorem outcome_of_satc {d0 : Dom} {α : Type} {m : M α} {s : State} (h : SatC m s (fun _ s' => DomI d0 s')) :
    Outcome d0 (m.run s) := by
  show Outcome d0 (m s)
  unfold SatC at h
  cases hm : m s with
  | error e => rw [hm] at h; exact .error h
  | ok p => obtain ⟨a, s'⟩ := p; rw [hm] at h; exact .ok h.inv h.run

theorem Outcome.esc {d0 : Dom} {α : Type} {r : Except String (α × State)} {e : String} (h : Outcome d0 r)
    (he : r = .error e) : Esc e := by
  cases h with
  | ok _ _ => cases he
  | error h' => cases he; exact h'

/-- **C05 (tree builder), documents.**  For every option set and every token list with `TagsOk`: a
document parse that succeeds has made only contract-abiding, normally returning sink calls
(`Run Dom.new (calls s') s'.dom`) and ends with an arena satisfying `Inv`; a failing one fails with `Esc`. -/
theorem C05_tb_contract (opts : Opts) (toks : List (TokToken × Nat)) (htags : TagsOk toks) :
    Outcome Dom.new ((parseDocument toks).run (State.init opts)) := by
  refine outcome_of_satc ?_
  unfold parseDocument parseRest
  refine (ci0_newTB (ci0_init opts)).bind ?_
  intro _ s1 h1
  exact satc_rest (Or.inl h1) htags

/-- **C05 (tree builder), fragments**: any arena `d` satisfying `Inv` with a `Document` node at index 0
(every arena of the sink model has one), any element of `d` as context, no form owner or an element of `d`. -/
theorem C05_tb_contract_fragment (opts : Opts) (d : Dom) (ctx : Id) (form : Option Id)
    (toks : List (TokToken × Nat)) (htags : TagsOk toks) (hinv : Inv d) (hdoc : d.dataOf 0 = some .document)
    (hctx : IsEl d ctx) (hform : ∀ f, form = some f → IsEl d f) :
    Outcome d ((parseFragment ctx form toks).run (fragInit opts d)) := by
  refine outcome_of_satc ?_
  unfold parseFragment parseRest
  have hfi : FI d (fragInit opts d) := ⟨⟨hinv, Run.nil⟩, rfl, rfl, rfl, rfl, rfl, hdoc⟩
  refine (satc_newForFragment hfi hctx hform).bind ?_
  intro _ s1 h1
  exact satc_rest (Or.inr h1) htags

/-- the recorded calls of a run are all within the contract (`C05.Abiding`-style reading of `Run`) -/
theorem run_contract {d d' : Dom} {ops : List SinkOp} (h : Run d ops d') :
    ∀ pre op post, ops = pre ++ op :: post → ∃ d1, Run d pre d1 ∧ Contract d1 op := by
  induction h with
  | nil => intro pre op post e; cases pre <;> cases e
  | cons hc ha _ ih =>
    intro pre op post e
    cases pre with
    | nil => cases e; exact ⟨_, Run.nil, hc⟩
    | cons p pre' =>
      cases e
      obtain ⟨d1, h1, h2⟩ := ih pre' op post rfl
      exact ⟨d1, Run.cons hc ha h1, h2⟩

/-- a sink failure that is not the mirror op's is not `Esc` -/
theorem esc_sink {e : String} (h : Esc e) {x : String} (he : e = errClass x ++ "@sink: " ++ x) :
    ("meta-extract@encoding.rs: ".toList.isPrefixOf e.toList = true) ∨
    ∃ (d : Dom) (o : Id) (y : String), d.apply (.maybeCloneAnOptionIntoSelectedcontent o) = .error y ∧
      e = errClass y ++ "@sink: " ++ y := by
  rcases h with h | h | h
  · have : infixL "@sink: ".toList e.toList = true := by
      rw [he]
      simp only [String.toList_append, List.append_assoc]
      exact infixL_append _ _ _
    rw [this] at h; cases h
  · exact Or.inl h
  · exact Or.inr h

/-- **C04 + C05 together** (documents): with a token source that keeps the tokenizer protocol and
delivers `TagsOk` tokens, a document parse of the tree-builder model fails only by (i) the fuel of
`process_to_completion` (see `C04TB2`), (ii) the two `encoding.rs` messages of the `<meta>` prescan
(`extract_a_character_encoding_from_a_meta_element`: both are `panic!`-free `Err`-like outcomes of the
model), or (iii) a failure of `maybe_clone_an_option_into_selectedcontent` called within its contract. -/
theorem C04_tb_total_full (opts : Opts) (toks : List (TokToken × Nat))
    (hresp : Respects (docStart opts) toks) (htags : TagsOk toks) (e : String)
    (h : (parseDocument toks).run (State.init opts) = .error e) :
    e = ptcFuelMsg ∨ ("meta-extract@encoding.rs: ".toList.isPrefixOf e.toList = true) ∨
    e = "subtendril-utf8@encoding.rs: subtendril is not valid UTF-8" ∨
    ∃ (d : Dom) (o : Id) (y : String), d.apply (.maybeCloneAnOptionIntoSelectedcontent o) = .error y ∧
      e = errClass y ++ "@sink: " ++ y := by
  have h4 := H5V.Props.C04TB.C04_tb_no_panic_protocol opts toks hresp e h
  have h5 : Esc e := by
    exact (C05_tb_contract opts toks htags).esc h
  cases h4 with
  | sinkMut d op x h1 h2 =>
    rcases esc_sink h5 rfl with h | h
    · exact Or.inr (Or.inl h)
    · exact Or.inr (Or.inr (Or.inr h))
  | ptcFuel _ => exact Or.inl rfl
  | textProto ha => exact ha.elim
  | metaExtract m =>
    refine Or.inr (Or.inl ?_)
    simp only [String.toList_append]
    exact H5V.Lemmas.TBSafe.isPrefixOf_append _ _
  | metaUtf8 => exact Or.inr (Or.inr (Or.inl rfl))

/-! ### the fragment variant of the combination -/

/-- **C04 + C05 together** (fragments) -/
theorem C04_tb_total_full_fragment (opts : Opts) (d : Dom) (ctx : Id) (form : Option Id)
    (toks : List (TokToken × Nat)) (htags : TagsOk toks) (hinv : Inv d) (hdoc : d.dataOf 0 = some .document)
    (hctx : IsEl d ctx) (hform : ∀ f, form = some f → IsEl d f ∧ nm d f = H5V.Lemmas.TBSafe.formName)
    (hresp : ∀ s1, (newForFragment ctx form).run (fragInit opts d) = .ok ((), s1) → Respects s1 toks)
    (e : String) (h : (parseFragment ctx form toks).run (fragInit opts d) = .error e) :
    e = ptcFuelMsg ∨ ("meta-extract@encoding.rs: ".toList.isPrefixOf e.toList = true) ∨
    e = "subtendril-utf8@encoding.rs: subtendril is not valid UTF-8" ∨
    ∃ (d : Dom) (o : Id) (y : String), d.apply (.maybeCloneAnOptionIntoSelectedcontent o) = .error y ∧
      e = errClass y ++ "@sink: " ++ y := by
  have h4 := H5V.Props.C04TB.C04_tb_no_panic_protocol_fragment opts d ctx form toks hctx hform hresp e h
  have h5 : Esc e := by
    exact (C05_tb_contract_fragment opts d ctx form toks htags hinv hdoc hctx (fun f hf => (hform f hf).1)).esc h
  cases h4 with
  | sinkMut d op x h1 h2 =>
    rcases esc_sink h5 rfl with h | h
    · exact Or.inr (Or.inl h)
    · exact Or.inr (Or.inr (Or.inr h))
  | ptcFuel _ => exact Or.inl rfl
  | textProto ha => exact ha.elim
  | metaExtract m =>
    refine Or.inr (Or.inl ?_)
    simp only [String.toList_append]
    exact H5V.Lemmas.TBSafe.isPrefixOf_append _ _
  | metaUtf8 => exact Or.inr (Or.inr (Or.inl rfl))

/-! ### non-vacuity -/

instance (attrs : List Attr) : Decidable (H5V.Lemmas.TBC.AttrsOk attrs) := by
  unfold H5V.Lemmas.TBC.AttrsOk; infer_instance

instance : DecidablePred H5V.Lemmas.TBC.TokTokOk := fun t => by
  cases t <;> (unfold H5V.Lemmas.TBC.TokTokOk; infer_instance)

instance (toks : List (TokToken × Nat)) : Decidable (H5V.Lemmas.TBC.TagsOk toks) := by
  unfold H5V.Lemmas.TBC.TagsOk; infer_instance

open H5V.Props.C04TB (st et ch errOf fragDom fragDom_ctx)

/-- a start tag with attributes (lower-case names without namespace) -/
def sta (n : String) (attrs : List (String × String)) : TokToken × Nat :=
  (.tag { kind := .startTag, name := n.toList,
          attrs := attrs.map (fun p => { name := { pfx := none, ns := [], loc := p.1.toList }, value := p.2.toList }) }, 1)

/-- what a successful run gives -/
theorem outcome_ok {d0 : Dom} {α : Type} {r : Except String (α × State)} (h : Outcome d0 r)
    (hok : errOf r = none) : ∃ a s', r = .ok (a, s') ∧ Inv s'.dom ∧ Run d0 (calls s') s'.dom := by
  cases h with
  | error _ => cases hok
  | ok h1 h2 => exact ⟨_, _, rfl, h1, h2⟩

/-- foster parenting, the adoption agency (step 14 moves a node that is already in the tree) and table
modes, with attributes: the run succeeds, all its sink calls are within the contract -/
def ex1 : List (TokToken × Nat) :=
  [st "html", sta "table" [("border", "1")], sta "b" [("class", "x"), ("id", "y")], ch "x", st "td", et "b",
   st "p", et "table", ch "y", (.eof, 1)]

theorem ex1_tags : TagsOk ex1 := by decide +kernel
theorem ex1_ok : errOf ((parseDocument ex1).run (State.init {})) = none := by decide +kernel
example : ∃ a s', (parseDocument ex1).run (State.init {}) = .ok (a, s') ∧ Inv s'.dom ∧
    Run Dom.new (calls s') s'.dom :=
  outcome_ok (C05_tb_contract {} ex1 ex1_tags) ex1_ok

/-- misnested formatting elements: `<a><b><p>x</a>y</b>` runs the adoption agency with a furthest block -/
def ex2 : List (TokToken × Nat) :=
  [sta "a" [("href", "u")], st "b", st "p", ch "x", et "a", ch "y", et "b", (.eof, 1)]

theorem ex2_tags : TagsOk ex2 := by decide +kernel
theorem ex2_ok : errOf ((parseDocument ex2).run (State.init {})) = none := by decide +kernel
example : ∃ a s', (parseDocument ex2).run (State.init {}) = .ok (a, s') ∧ Inv s'.dom ∧
    Run Dom.new (calls s') s'.dom :=
  outcome_ok (C05_tb_contract {} ex2 ex2_tags) ex2_ok

/-- `<frameset>` after `<body>`: `remove_from_parent(body)` -/
def ex3 : List (TokToken × Nat) := [st "body", st "frameset", st "frame", et "frameset", (.eof, 1)]

theorem ex3_tags : TagsOk ex3 := by decide +kernel
theorem ex3_ok : errOf ((parseDocument ex3).run (State.init {})) = none := by decide +kernel
example : ∃ a s', (parseDocument ex3).run (State.init {}) = .ok (a, s') ∧ Inv s'.dom ∧
    Run Dom.new (calls s') s'.dom :=
  outcome_ok (C05_tb_contract {} ex3 ex3_tags) ex3_ok

/-- `</option>` inside `<select>`: the mirror op is called within its contract -/
def ex4 : List (TokToken × Nat) := [st "select", st "option", ch "a", et "option", et "select", (.eof, 1)]

theorem ex4_tags : TagsOk ex4 := by decide +kernel
theorem ex4_ok : errOf ((parseDocument ex4).run (State.init {})) = none := by decide +kernel
example : ∃ a s', (parseDocument ex4).run (State.init {}) = .ok (a, s') ∧ Inv s'.dom ∧
    Run Dom.new (calls s') s'.dom :=
  outcome_ok (C05_tb_contract {} ex4 ex4_tags) ex4_ok

/-- a token list with a duplicate attribute name is not `TagsOk` (the tokenizer drops duplicates) -/
example : ¬ TagsOk [sta "p" [("id", "a"), ("id", "b")]] := by decide +kernel

/-- a fragment parse (context `td` of `C04TB.fragDom`) -/
theorem fragDom_inv : Inv fragDom :=
  H5V.Props.C20.C20_parent_links (d := Dom.new) (ops := [.createElement { ns := nsHtml, loc := "td".toList } [] {}])
    H5V.Props.C20.inv_new (Run.cons (out := .node 1) rfl rfl Run.nil)

def ex5 : List (TokToken × Nat) := [st "tr", st "td", st "svg", st "b", et "td", ch "x", (.eof, 1)]
theorem ex5_tags : TagsOk ex5 := by decide +kernel
theorem ex5_ok : errOf ((parseFragment 1 none ex5).run (fragInit {} fragDom)) = none := by decide +kernel
example : ∃ a s', (parseFragment 1 none ex5).run (fragInit {} fragDom) = .ok (a, s') ∧ Inv s'.dom ∧
    Run fragDom (calls s') s'.dom :=
  outcome_ok (C05_tb_contract_fragment {} fragDom 1 none ex5 ex5_tags fragDom_inv rfl fragDom_ctx
    (fun f hf => by cases hf)) ex5_ok

end H5V.Props.C05TB

#print axioms H5V.Props.C05TB.C05_tb_contract
#print axioms H5V.Props.C05TB.C05_tb_contract_fragment
#print axioms H5V.Props.C05TB.run_contract
#print axioms H5V.Props.C05TB.esc_sink
#print axioms H5V.Props.C05TB.C04_tb_total_full
#print axioms H5V.Props.C05TB.C04_tb_total_full_fragment
#print axioms H5V.Lemmas.TBC.stepH
#print axioms H5V.Lemmas.TBC.cps_adoptionAgency
#print axioms H5V.Lemmas.TBC.satc_ptc
#print axioms H5V.Lemmas.TBC.satc_newForFragment
