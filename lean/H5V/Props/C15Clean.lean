import H5V.Lemmas.XmlTokCleanNoRef
import H5V.Props.C04XmlTerm
/-!
C15 — **no raw CR / NUL reaches the sink** (XML tokenizer model, all states, fast path and slow path,
both values of `exact_errors`, every chunking, `feed` and `end`).  Closes the "*not proved*: the 'no
raw CR / NUL reaches the sink' clause as a global invariant" note of `Props/C15.lean`.

What is true, precisely.  A character *read from the input* reaches a token only through
`get_preprocessed_char` (CR → LF with the LF of a CRLF dropped, NUL → U+FFFD; `C15_preprocessed`)
or through a raw `NotFromSet` run of `pop_except_from`, whose set contains CR and NUL
(`C15_fast_path_clean`).  The only other source of token characters is the result of a *character
reference*, handed to `process_char_ref`: `&#13;` legitimately yields U+000D (the numeric-reference
rules report it as an error and keep it), `&#0;` yields U+FFFD, and no reference yields U+0000
(`C15_ref_no_nul`).  `process_char_ref` delivers into a character token (in `Data`/`Cdata`) or the
attribute value being built — nowhere else.  Hence:

* `C15_no_raw_cr_nul` — **for every input**: no token of the whole parse contains U+0000, and no
  token contains U+000D outside character tokens and attribute values (tag names, attribute names,
  comments, PI targets and data, doctype names and identifiers are CR-free);
* `C15_clean_no_refs` — **for every input without `&`**: no token contains U+000D or U+0000 at all;
* `C15_step_provenance` — step level, any input: from a completely clean machine every step leads
  to a completely clean machine, *except* a step in which a character reference completes, and that
  step is `process_char_ref m₁ chars` on a completely clean `m₁` — so a CR in a token is always a
  member of some `chars` delivered by the character-reference sub-tokenizer;
* `C15_step_clean`, `C15_run_clean`, `C15_feed_clean`, `C15_finish_clean`, `C15_session_clean`
  — the invariant `NInv` through `step`, `run`, `feed`, `end`, and a chunked session
  (the tokens delivered so far are clean after every feed, not only at the end).

Parse-error tokens are diagnostics, not document content, and are not constrained (the
`exact_errors` message `Saw {c} in state …` shows `current_char`, which is U+0000 before the first
character has been read).  `temp_buf` holds raw look-ahead that goes back to the input, never to a
token, and is not constrained either.
-/
namespace H5V.Props.C15
open H5V.Model.XmlTok H5V.Props.C04X

/-! ### the observation, spelled out independently of the invariant's definition -/

def qnameChars (q : QName) : Str := q.pfx.getD [] ++ q.loc

/-- the characters of a token outside attribute values and character data: tag name, attribute
names, comment, PI target and data, doctype name and identifiers -/
def markupChars : Token → Str
  | .doctype d => d.name.getD [] ++ d.publicId.getD [] ++ d.systemId.getD []
  | .tag t => qnameChars t.name ++ (t.attrs.map (fun a => qnameChars a.name)).flatten
  | .pi t d => t ++ d
  | .comment s => s
  | .chars _ => []
  | .eof => []
  | .error _ => []

/-- the characters of a token in the two places a character reference delivers into -/
def textChars : Token → Str
  | .tag t => (t.attrs.map (fun a => a.value)).flatten
  | .chars s => s
  | _ => []

theorem OptS_getD {o : Option Str} (h : OptS o) : AllS QC (o.getD []) := by
  cases o with
  | none => exact AllS_nil _
  | some s => exact h s rfl

theorem qnameChars_clean {q : QName} (h : q.Clean) : AllS QC (qnameChars q) :=
  AllS_append (OptS_getD h.1) h.2

theorem AllS_flatten_map {α : Type} {P : Char → Prop} (l : List α) (f : α → Str) (h : ∀ a ∈ l, AllS P (f a)) :
    AllS P (l.map f).flatten := by
  intro c hc
  simp only [List.mem_flatten, List.mem_map] at hc
  obtain ⟨s, ⟨a, ha, rfl⟩, hcs⟩ := hc
  exact h a ha c hcs

/-- what `Token.Clean P` says in terms of the two observations -/
theorem tokenClean_chars {P : Char → Prop} {t : Token} (h : t.Clean P) :
    AllS QC (markupChars t) ∧ AllS P (textChars t) := by
  cases t with
  | doctype d => exact ⟨AllS_append (AllS_append (OptS_getD h.1) (OptS_getD h.2.1)) (OptS_getD h.2.2), AllS_nil _⟩
  | tag t =>
    exact ⟨AllS_append (qnameChars_clean h.1) (AllS_flatten_map _ _ fun a ha => qnameChars_clean (h.2 a ha).1),
      AllS_flatten_map _ _ fun a ha => (h.2 a ha).2⟩
  | pi a b => exact ⟨AllS_append h.1 h.2, AllS_nil _⟩
  | comment s => exact ⟨h, AllS_nil _⟩
  | chars s => exact ⟨AllS_nil _, h⟩
  | eof => exact ⟨AllS_nil _, AllS_nil _⟩
  | error s => exact ⟨AllS_nil _, AllS_nil _⟩

/-- for all inputs: no NUL anywhere, no CR in markup -/
def TokOK (t : Token) : Prop :=
  '\x00' ∉ markupChars t ∧ '\x00' ∉ textChars t ∧ '\r' ∉ markupChars t

/-- completely clean: neither CR nor NUL anywhere -/
def TokClean (t : Token) : Prop :=
  '\x00' ∉ markupChars t ∧ '\x00' ∉ textChars t ∧ '\r' ∉ markupChars t ∧ '\r' ∉ textChars t

theorem tokOK_of_clean {t : Token} (h : t.Clean NN) : TokOK t := by
  obtain ⟨h1, h2⟩ := tokenClean_chars h
  exact ⟨fun hm => (h1 _ hm).2 rfl, fun hm => h2 _ hm rfl, fun hm => (h1 _ hm).1 rfl⟩

theorem tokClean_of_clean {t : Token} (h : t.Clean QC) : TokClean t := by
  obtain ⟨h1, h2⟩ := tokenClean_chars h
  exact ⟨fun hm => (h1 _ hm).2 rfl, fun hm => (h2 _ hm).2 rfl, fun hm => (h1 _ hm).1 rfl,
    fun hm => (h2 _ hm).1 rfl⟩

/-! ### the two sources of input characters -/

/-- **`get_preprocessed_char`** never delivers CR or NUL: it delivers LF for CR, U+FFFD for NUL and
the character itself otherwise — in every state, with or without `exact_errors` -/
theorem C15_preprocessed (o : Opts) (m : Mach) (c : Char) :
    (foldChar o m c).1 = (if c = '\r' then '\n' else if c = '\x00' then '�' else c) ∧
    (foldChar o m c).1 ≠ '\r' ∧ (foldChar o m c).1 ≠ '\x00' :=
  ⟨foldChar_char o m c, (foldChar_QC o m c).1, (foldChar_QC o m c).2⟩

/-- **`get_char`** (fresh or reconsumed), from a machine satisfying the invariant -/
theorem C15_get_char_clean (o : Opts) {m : Mach} (h : NInv m) (inp : Str) (c : Char)
    (hc : (getChar o m inp).1 = some c) : c ≠ '\r' ∧ c ≠ '\x00' :=
  ((getChar_clean o h.1 inp).2.2 c hc).1

/-- **the fast path** (`pop_except_from`, any of the model's sets, which are the source's by
`xmlTokSets_match`): a `FromSet` character is preprocessed, a raw `NotFromSet` run contains
neither CR nor NUL -/
theorem C15_fast_path_clean (o : Opts) {m : Mach} (h : NInv m) (hk : readKind m.state = .popExcept) (inp : Str) :
    (∀ c, (popExceptFrom o (setOf m.state) m inp).1 = some (.fromSet c) → c ≠ '\r' ∧ c ≠ '\x00') ∧
    (∀ b, (popExceptFrom o (setOf m.state) m inp).1 = some (.notFromSet b) → '\r' ∉ b ∧ '\x00' ∉ b) := by
  obtain ⟨_, _, h3⟩ := popExceptFrom_clean o (setOf m.state) (setOf_has _ hk) h.1 inp
  exact ⟨fun c hc => h3 _ hc, fun b hb =>
    ⟨fun hm => ((h3 _ hb) _ hm).1 rfl, fun hm => ((h3 _ hb) _ hm).2 rfl⟩⟩

/-- **a character reference never delivers NUL** (it may deliver CR: `C15_ref_can_deliver_cr`) -/
theorem C15_ref_no_nul (o : Opts) {m : Mach} (h : NInv m) (inp : Str) (cr : CharRefSt)
    (hcr : m.charRef = some cr) (m1 : Mach) (i1 : Str) (cr1 : CharRefSt) (chars : Str)
    (hs : crStep o m inp cr = .ok (m1, i1, cr1, .done chars)) : '\x00' ∉ chars := by
  have := crStep_nn o m inp (h.2 cr hcr)
  rw [hs] at this
  exact fun hm => this.2 chars rfl _ hm rfl

/-! ### the invariant through `step`, `run`, `feed`, `end` -/

/-- every machine the driver starts from (any initial state, either `discard_bom`) -/
theorem C15_initial_clean (st : State) (bom : Bool) : NInv { state := st, discardBom := bom } :=
  ninv_initial st bom

/-- the tokens delivered so far by a machine satisfying the invariant -/
theorem C15_out_of_inv {m : Mach} (h : NInv m) : ∀ t ∈ m.out, TokOK t :=
  fun t ht => tokOK_of_clean (h.1.1.out t ht)

/-- **one `XmlTokenizer::step`**, every state, fast and slow path, both `exact_errors` values -/
theorem C15_step_clean (o : Opts) {m : Mach} (h : NInv m) (inp : Str) :
    (∀ m' i', step o m inp = .cont m' i' → NInv m') ∧ (∀ m' i', step o m inp = .suspend m' i' → NInv m') := by
  have := step_ninv o h inp
  constructor <;> intro m' i' hs <;> rw [hs] at this <;> exact this

theorem C15_run_clean (o : Opts) (fuel : Nat) {m : Mach} (h : NInv m) (inp : Str) (m' : Mach) (i' : Str)
    (hr : run o fuel m inp = .done m' i') : NInv m' := run_ninv o fuel h inp m' i' hr

theorem C15_feed_clean (o : Opts) {m : Mach} (h : NInv m) (inp chunk : Str) (m' : Mach) (i' : Str)
    (hf : feed o m inp chunk = .done m' i') : NInv m' := feed_ninv o h inp chunk m' i' hf

theorem C15_finish_clean (o : Opts) {m : Mach} (h : NInv m) (mf : Mach) (hf : finish o m = .ok mf) :
    ∀ t ∈ mf.out, TokOK t :=
  fun t ht => tokOK_of_clean ((finish_clean o h mf hf).out t ht)

/-- a chunked session: the invariant holds after every feed, so the tokens delivered *so far* are
clean at every point of the session -/
theorem C15_session_clean (o : Opts) (cs : List Str) {m : Mach} (h : NInv m) (inp : Str) (m' : Mach) (i' : Str)
    (hf : feedMany o m inp cs = .done m' i') : NInv m' := by
  induction cs generalizing m inp with
  | nil =>
    simp only [feedMany, RunRes.done.injEq] at hf
    rw [← hf.1]; exact h
  | cons c cs ih =>
    simp only [feedMany] at hf
    cases hfd : feed o m inp c with
    | done m1 i1 => rw [hfd] at hf; exact ih (feed_ninv o h inp c m1 i1 hfd) i1 hf
    | panic e => rw [hfd] at hf; cases hf
    | outOfFuel => rw [hfd] at hf; cases hf

/-- **C15, no raw CR / NUL reaches the sink — every input.**  A whole parse (any start state, any
`discard_bom`, either `exact_errors`, any list of chunks, then `end()`) runs to completion
(`C04_xml_parse_total`) and of the tokens it has delivered
* none contains U+0000 — not in markup, not in text, not through a character reference;
* none contains U+000D outside character tokens and attribute values, the two places where a
  numeric character reference (`&#13;`, `&#xD;`) legitimately delivers one. -/
theorem C15_no_raw_cr_nul (o : Opts) (st : State) (bom : Bool) (cs : List Str) :
    ∃ m' mf, feedMany o { state := st, discardBom := bom } [] cs = .done m' [] ∧ finish o m' = .ok mf ∧
      (∀ t ∈ m'.out, TokOK t) ∧ ∀ t ∈ mf.out, TokOK t := by
  obtain ⟨m', mf, h1, h2, _⟩ := C04_xml_parse_total o st bom cs
  have hi := C15_session_clean o cs (C15_initial_clean st bom) [] m' [] h1
  exact ⟨m', mf, h1, h2, C15_out_of_inv hi, C15_finish_clean o hi mf h2⟩

/-! ### inputs without `&` -/

theorem session_finv (o : Opts) (cs : List Str) (hc : ∀ c ∈ cs, '&' ∉ c) {m : Mach} {inp : Str}
    (h : FInv m inp) (m' : Mach) (i' : Str) (hf : feedMany o m inp cs = .done m' i') : FInv m' i' := by
  induction cs generalizing m inp with
  | nil =>
    simp only [feedMany, RunRes.done.injEq] at hf
    rw [← hf.1, ← hf.2]; exact h
  | cons c cs ih =>
    simp only [feedMany] at hf
    cases hfd : feed o m inp c with
    | done m1 i1 =>
      rw [hfd] at hf
      exact ih (fun x hx => hc x (List.mem_cons_of_mem _ hx))
        (feed_finv o h c (hc c (List.mem_cons_self)) m1 i1 hfd) hf
    | panic e => rw [hfd] at hf; cases hf
    | outOfFuel => rw [hfd] at hf; cases hf

/-- **C15, no raw CR / NUL reaches the sink — inputs without `&`.**  If no chunk contains `&` (so
no character reference is ever started), no token of the whole parse contains U+000D or U+0000
anywhere: every CR / CRLF of the input has become LF and every NUL has become U+FFFD, in markup and
in text, on the fast path and on the slow path. -/
theorem C15_clean_no_refs (o : Opts) (st : State) (bom : Bool) (cs : List Str) (hc : ∀ c ∈ cs, '&' ∉ c) :
    ∃ m' mf, feedMany o { state := st, discardBom := bom } [] cs = .done m' [] ∧ finish o m' = .ok mf ∧
      (∀ t ∈ m'.out, TokClean t) ∧ ∀ t ∈ mf.out, TokClean t := by
  obtain ⟨m', mf, h1, h2, _⟩ := C04_xml_parse_total o st bom cs
  have hi := session_finv o cs hc (finv_initial st bom) m' [] h1
  exact ⟨m', mf, h1, h2, fun t ht => tokClean_of_clean (hi.1.1.out t ht),
    fun t ht => tokClean_of_clean ((finish_clean_norefs o hi mf h2).out t ht)⟩

/-! ### provenance of a CR -/

/-- **provenance, step level, every input.**  From a completely clean machine (no CR, no NUL in any
buffer or token) every step of the tokenizer loop leads to a completely clean machine — unless a
character reference completes in this step, and then the step is exactly `process_char_ref m₁ chars`
on a completely clean machine `m₁`: the only way a CR enters a token is as a member of `chars`, the
result of the character-reference sub-tokenizer. -/
theorem C15_step_provenance (o : Opts) {m : Mach} (h : CInv QC m) (inp : Str) :
    RInv QC (step o m inp) ∨
    ∃ cr m1 i1 cr1 chars, m.charRef = some cr ∧ crStep o m inp cr = .ok (m1, i1, cr1, .done chars) ∧
      CInv QC m1 ∧
      step o m inp = ofSig ((processCharRef m1 chars).1.setCharRef none, (processCharRef m1 chars).2) i1 := by
  cases hcr : m.charRef with
  | none => exact Or.inl (step_RInv o h inp (fun cr hc => by rw [hcr] at hc; cases hc))
  | some cr =>
    cases hs : crStep o m inp cr with
    | error e =>
      refine Or.inl (step_RInv o h inp (fun cr' hc m1 i1 cr1 chars hs' => ?_))
      rw [hcr] at hc; cases hc
      rw [hs] at hs'; cases hs'
    | ok v =>
      obtain ⟨m1, i1, cr1, stt⟩ := v
      cases stt with
      | done chars =>
        refine Or.inr ⟨cr, m1, i1, cr1, chars, rfl, hs, ?_, ?_⟩
        · have := crStep_good o h inp cr
          rw [hs] at this; exact this
        · rw [step_kind_charRef o m inp cr hcr]
          unfold stepCharRef
          rw [hs]
      | stuck =>
        refine Or.inl (step_RInv o h inp (fun cr' hc m1' i1' cr1' chars hs' => ?_))
        rw [hcr] at hc; cases hc
        rw [hs] at hs'; cases hs'
      | progress =>
        refine Or.inl (step_RInv o h inp (fun cr' hc m1' i1' cr1' chars hs' => ?_))
        rw [hcr] at hc; cases hc
        rw [hs] at hs'; cases hs'

/-- … and `process_char_ref` puts `chars` into a character token or the attribute value, nothing
else: given admissible `chars` it preserves the invariant for any admissible predicate -/
theorem C15_process_char_ref {P : Char → Prop} [Allow P] {m : Mach} (h : CInv P m) {chars : Str}
    (hc : ∀ c ∈ chars, P c) : CInv P (processCharRef m chars).1 := processCharRef_cinv h hc

/-! ### non-vacuity -/

/-- the driver's session, then `end()`: the token log, oldest first -/
def parseOut (o : Opts) (cs : List Str) : List Token :=
  match feedMany o {} [] cs with
  | .done m _ => match finish o m with
    | .ok mf => mf.out.reverse
    | .error _ => []
  | _ => []

/-- CR, CRLF (split over two chunks) and NUL in text, in an attribute value, in a comment and in a
tag name: all normalised (fast path: `exact_errors = false`) -/
example : parseOut ⟨false⟩ ["a\rb\r".toList, "\nc\x00<x\x00 y='p\r\nq\x00'><!--\r\x00-->".toList] =
    [.chars ['a'], .chars ['\n'], .chars ['b'], .chars ['\n'], .chars ['c'], .chars ['�'],
     .tag { kind := .startTag, name := ⟨none, ['x', '�']⟩,
            attrs := [⟨⟨none, ['y']⟩, ['p', '\n', 'q', '�']⟩] },
     .comment ['\n', '�'], .eof] := by decide

/-- the exemption is necessary: `&#13;` delivers a CR into a character token (with a parse error),
`&#0;` delivers U+FFFD -/
theorem C15_ref_can_deliver_cr :
    parseOut ⟨false⟩ ["&#13;&#0;".toList] =
      [.error "Invalid numeric character reference".toList, .chars ['\r'],
       .error "Invalid numeric character reference".toList, .chars ['�'], .eof] := by decide

example : ∃ m' mf, feedMany ⟨true⟩ {} [] ["a\r".toList, "\n<b>".toList] = .done m' [] ∧
    finish ⟨true⟩ m' = .ok mf ∧ (∀ t ∈ m'.out, TokClean t) ∧ ∀ t ∈ mf.out, TokClean t :=
  C15_clean_no_refs ⟨true⟩ .data true _ (by decide)

example : ∃ m' mf, feedMany ⟨false⟩ {} [] ["&#13;<a b='&#xD;'>".toList] = .done m' [] ∧
    finish ⟨false⟩ m' = .ok mf ∧ (∀ t ∈ m'.out, TokOK t) ∧ ∀ t ∈ mf.out, TokOK t :=
  C15_no_raw_cr_nul ⟨false⟩ .data true _

/-- the hypothesis of `C15_step_provenance` and its second alternative are both inhabited: the step
that completes `&#13;` from a completely clean machine delivers `['\r']` to `process_char_ref` -/
def mRef13 : Mach :=
  { charRef := some { addnlAllowed := none, state := .numericSemicolon, num := 13, seenDigit := true } }

example : CInv QC mRef13 ∧
    (match crStep ⟨false⟩ mRef13 [';'] { addnlAllowed := none, state := .numericSemicolon, num := 13, seenDigit := true } with
     | .ok (_, _, _, .done cs) => cs == ['\r']
     | _ => false) = true :=
  ⟨⟨⟨AllS_nil _, (fun _ h => nomatch h), AllS_nil _, AllS_nil _, AllS_nil _, Doctype_clean_empty, AllS_nil _,
      AllS_nil _, (fun _ h => nomatch h)⟩, fun hr => by cases hr⟩, by decide⟩

end H5V.Props.C15
