import H5V.Lemmas.HtmlTBMetaFire
/-!
C19 — an encoding indicator fires exactly once per qualifying `meta` (tree-builder model).

`qualifies tag : Option Str` is the property text: the `charset` attribute if there is one, else — for
`http-equiv` = `content-type` (ASCII case-insensitively) — the label the WHATWG extraction algorithm
(`H5V.Spec.MetaExtract.extract`, proved equal to the model of `encoding.rs` in `C19_extract`) finds in
`content`.

* `C19_in_head_meta` / `C19_in_head_meta_total` (A1): the "in head" rule on a `meta` start tag makes a
  few queries, `create_element(meta, attrs)` and one insertion, leaves the builder (stack of open
  elements included) exactly as it was, and answers `EncodingIndicator(l)` iff `qualifies tag = some l`,
  else `DoneAckSelfClosing`;
* `C19_only_meta_fires` (A2): for every state, every token, every line: if `process_token` answers
  `EncodingIndicator(l)` the token is a `meta` start tag with `qualifies = some l`
  (`C19_rule_only_meta`, `C19_foreign_only_meta`: the same for every single rule);
  `C19_at_most_once`: in a run over a token list there are at most as many indicators as qualifying
  `meta` start tags;
* `C19_meta_routing` (A3): for each of the 21 insertion modes, what the rule does with a `meta` start
  tag: "in head", "in head noscript", "in body", "in template", "in caption", "in cell" hand it to
  the "in head" rule as it is; "after head" does so with the head element pushed back; "in table",
  "in table body", "in row" do so with foster parenting on; "in column group" closes the `colgroup`
  and re-processes "in table" or ignores the token; "initial", "before html", "before head", "after
  body", "after after body", "in table text" re-process the same token in the next mode; "in
  frameset", "after frameset", "after after frameset" ignore it; "text" is the `unreachable!`; in
  foreign content `meta` is a break-out tag (`C19_meta_foreign`);
* `C19_fires_in_head` / `C19_silent_in_head`: `process_to_completion` returns the indicator at once
  (the rest of the queue is not touched), resp. goes on.

Not proved: that the slice the extraction returns is valid UTF-8 (`MetaDecodes`; it is cut at ASCII
bytes of a UTF-8 string) — the model has a panic branch there, the ⇐ direction assumes it is not taken.
-/
namespace H5V.Props.C19
open H5V.Model.Dom (Id QualName Attr NodeOrText SinkOp Output ElementFlags QuirksMode Dom)
open H5V.Model.HtmlTB
open H5V.Lemmas.TBM

/-! ## A1 -/

/-- **the `meta` arm of "in head"** -/
theorem C19_in_head_meta {tag : Tag} (hm : isMetaStart tag) {s s' : State} {r : ProcessResult}
    (h : (stepInHead (.tag tag)).run s = .ok (r, s')) :
    -- the answer
    r = answerOf (qualifies tag) ∧
    (∀ l, r = .encodingIndicator l ↔ qualifies tag = some l) ∧
    (r = .doneAckSelfClosing ↔ qualifies tag = none) ∧
    -- the builder is as before: in particular nothing stays on the stack of open elements
    SameBuilder s s' ∧
    -- the sink has seen: queries, `create_element(meta)`, one insertion of that element
    ∃ elem ip qs, (∀ c ∈ qs, isQuery c.1 = true) ∧
      s'.traceRev = (insOp ip (.node elem), .unit) ::
        (.createElement (htmlQual "meta".toList) tag.attrs (plainFlags tag.hadDup), .node elem) :: (qs ++ s.traceRev) := by
  obtain ⟨⟨elem, hi⟩, rfl⟩ := stepInHead_meta_ok hm h
  obtain ⟨hb, ip, qs, hq, ht⟩ := insertAndPop_spec (meta_plain hm).1 (meta_plain hm).2 hi
  rw [hm.2] at ht
  refine ⟨rfl, ?_, ?_, hb, elem, ip, qs, hq, ht⟩
  · intro l
    cases hq : qualifies tag with
    | none => simp [answerOf]
    | some l' => simp [answerOf]
  · cases hq : qualifies tag with
    | none => simp [answerOf]
    | some l' => simp [answerOf]

/-- the converse: when the insertion goes through, the rule answers (no other panic than the
undecodable-slice branch) -/
theorem C19_in_head_meta_total {tag : Tag} (hm : isMetaStart tag) (hd : MetaDecodes tag) {s s' : State} {elem : Id}
    (h : (insertAndPopElementFor tag).run s = .ok (elem, s')) :
    (stepInHead (.tag tag)).run s = .ok (answerOf (qualifies tag), s') :=
  stepInHead_meta_run hm hd h

/-- `charset` wins over the pragma -/
theorem C19_charset_wins {tag : Tag} {cs : Str} (h : tag.getAttribute "charset" = some cs) :
    qualifies tag = some cs := qualifies_charset h

/-! ## A2 -/

/-- no rule of any insertion mode but the `meta` arm answers with an indicator -/
theorem C19_rule_only_meta {mode : Mode} {tok : Token} {s s' : State} {l : Str}
    (h : (step mode tok).run s = .ok (.encodingIndicator l, s')) : Fires tok l :=
  (inferInstance : Ans (ROk tok) (step mode tok)).h s _ s' h

/-- nor does the foreign-content rule (it reaches an indicator only through `step`) -/
theorem C19_foreign_only_meta {tok : Token} {s s' : State} {l : Str}
    (h : (stepForeign tok).run s = .ok (.encodingIndicator l, s')) : Fires tok l :=
  (inferInstance : Ans (ROk tok) (stepForeign tok)).h s _ s' h

/-- **only a qualifying `meta` start tag fires**: every state, every token, every line -/
theorem C19_only_meta_fires {tok : TokToken} {line : Nat} {s s' : State} {l : Str}
    (h : (processToken tok line).run s = .ok (.encodingIndicator l, s')) :
    ∃ tag, tok = .tag tag ∧ isMetaStart tag ∧ qualifies tag = some l :=
  (ans_processToken tok line).h s _ s' h l rfl

/-- is the answer an indicator -/
def isIndicator : SinkResult → Bool
  | .encodingIndicator _ => true
  | _ => false

/-- is the token a `meta` start tag that announces a label -/
def qualTok : TokToken → Bool
  | .tag t => t.kind == .startTag && t.name == "meta".toList && (qualifies t).isSome
  | _ => false

/-- **at most once per qualifying `meta`**: a run over a token list collects at most as many
indicators as there are qualifying `meta` start tags in the list -/
theorem C19_at_most_once : ∀ (toks : List (TokToken × Nat)) (acc res : List SinkResult) (s s' : State),
    (processTokens toks acc).run s = .ok (res, s') →
    (res.filter isIndicator).length ≤ (acc.filter isIndicator).length + (toks.filter (fun p => qualTok p.1)).length
  | [], acc, res, s, s', h => by
    obtain ⟨rfl, _⟩ := pure_ok.mp h
    simp
  | (t, line) :: rest, acc, res, s, s', h => by
    have h' : (processToken t line >>= fun r => processTokens rest (if r == .continue_ then acc else r :: acc)) s
        = .ok (res, s') := h
    obtain ⟨r, s1, e1, e2⟩ := bind_ok.mp h'
    have ih := C19_at_most_once rest _ res s1 s' e2
    have hstep : ((if r == .continue_ then acc else r :: acc).filter isIndicator).length
        ≤ (acc.filter isIndicator).length + (if qualTok t then 1 else 0) := by
      cases r with
      | encodingIndicator l =>
        obtain ⟨tag, rfl, hm, hq⟩ := C19_only_meta_fires e1
        have : qualTok (.tag tag) = true := by simp [qualTok, hm.1, hm.2, hq]
        simp [this, isIndicator, List.filter_cons]
      | continue_ => simp
      | script n => simp [isIndicator]
      | plaintext => simp [isIndicator]
      | rawData k => simp [isIndicator]
    simp only [List.filter_cons]
    split <;> simp_all <;> omega

/-! ## A3 -/

/-- **where a `meta` start tag goes**, mode by mode -/
theorem C19_meta_routing {tag : Tag} (hm : isMetaStart tag) :
    -- handed to the "in head" rule as it is
    step .inHead (.tag tag) = stepInHead (.tag tag) ∧
    step .inHeadNoscript (.tag tag) = stepInHead (.tag tag) ∧
    step .inBody (.tag tag) = stepInHead (.tag tag) ∧
    step .inTemplate (.tag tag) = stepInHead (.tag tag) ∧
    step .inCaption (.tag tag) = stepInHead (.tag tag) ∧
    step .inCell (.tag tag) = stepInHead (.tag tag) ∧
    -- … with the head element pushed back / with foster parenting on
    step .afterHead (.tag tag) = withHeadPushed (.tag tag) ∧
    step .inTable (.tag tag) = fosteredInHead (.tag tag) ∧
    step .inTableBody (.tag tag) = fosteredInHead (.tag tag) ∧
    step .inRow (.tag tag) = fosteredInHead (.tag tag) ∧
    -- closes the colgroup and tries again "in table", or ignores the token
    step .inColumnGroup (.tag tag) = colgroupAnythingElse (.tag tag) ∧
    -- the same token is re-processed in the next mode
    Ans (fun r => r = .reprocess .beforeHtml (.tag tag)) (step .initial (.tag tag)) ∧
    Ans (fun r => r = .reprocess .beforeHead (.tag tag)) (step .beforeHtml (.tag tag)) ∧
    Ans (fun r => r = .reprocess .inHead (.tag tag)) (step .beforeHead (.tag tag)) ∧
    Ans (fun r => r = .reprocess .inBody (.tag tag)) (step .afterBody (.tag tag)) ∧
    Ans (fun r => r = .reprocess .inBody (.tag tag)) (step .afterAfterBody (.tag tag)) ∧
    Ans (fun r => ∃ m, r = .reprocess m (.tag tag)) (step .inTableText (.tag tag)) ∧
    -- ignored with a parse error
    step .inFrameset (.tag tag) = unexpected ∧
    step .afterFrameset (.tag tag) = unexpected ∧
    step .afterAfterFrameset (.tag tag) = unexpected ∧
    -- impossible
    step .text (.tag tag) = panicAt "unreachable" "rules.rs:1037" "impossible case in Text mode" :=
  ⟨route_inHead tag, route_inHeadNoscript hm, route_inBody hm, route_inTemplate hm, route_inCaption hm,
   route_inCell hm, route_afterHead hm, route_inTable hm, route_inTableBody hm, route_inRow hm,
   route_inColumnGroup hm, route_initial tag, route_beforeHtml hm, route_beforeHead hm, route_afterBody hm,
   route_afterAfterBody hm, route_inTableText tag, route_inFrameset hm, route_afterFrameset hm,
   route_afterAfterFrameset hm, route_text hm⟩

/-- in foreign content `meta` is a break-out tag: parse error, pop to an integration point / HTML
element, then the rule of the current insertion mode -/
theorem C19_meta_foreign {tag : Tag} (hm : isMetaStart tag) :
    stepForeign (.tag tag) = unexpectedStartTagInForeignContent tag := route_foreign hm

/-- the modes that ignore a `meta` never fire, whatever its attributes -/
theorem C19_meta_ignored {tag : Tag} (hm : isMetaStart tag) {mode : Mode}
    (hmode : mode = .inFrameset ∨ mode = .afterFrameset ∨ mode = .afterAfterFrameset) {s s' : State}
    {r : ProcessResult} (h : (step mode (.tag tag)).run s = .ok (r, s')) : r = .done := by
  have hu : step mode (.tag tag) = unexpected := by
    rcases hmode with rfl | rfl | rfl
    · exact route_inFrameset hm
    · exact route_afterFrameset hm
    · exact route_afterAfterFrameset hm
  rw [hu] at h
  unfold unexpected at h
  obtain ⟨_, _, _, e2⟩ := bind_ok.mp h
  exact (pure_ok.mp e2).1.symm

/-! ## the indicator goes straight back to the tokenizer -/

/-- a qualifying `meta` that reaches "in head": `process_to_completion` answers the indicator at
once; the rest of the queue is not looked at -/
theorem C19_fires_in_head {tag : Tag} (hm : isMetaStart tag) (hd : MetaDecodes tag) {s s1 s2 : State} {elem : Id}
    {l : Str} (hq : qualifies tag = some l)
    (hf : (isForeign (.tag tag)).run s = .ok (false, s1)) (hmode : s1.mode = .inHead)
    (hi : (insertAndPopElementFor tag).run s1 = .ok (elem, s2)) (fuel : Nat) (more : List Token) :
    (processToCompletion (fuel + 1) (.tag tag) more).run s = .ok (.encodingIndicator l, s2) :=
  ptc_meta_fires hm hd hq hf hmode hi fuel more

/-- a `meta` that announces nothing: `Continue`, and no "unacknowledged self-closing" error -/
theorem C19_silent_in_head {tag : Tag} (hm : isMetaStart tag) (hd : MetaDecodes tag) {s s1 s2 : State} {elem : Id}
    (hq : qualifies tag = none)
    (hf : (isForeign (.tag tag)).run s = .ok (false, s1)) (hmode : s1.mode = .inHead)
    (hi : (insertAndPopElementFor tag).run s1 = .ok (elem, s2)) (fuel : Nat) :
    (processToCompletion (fuel + 1) (.tag tag) []).run s = .ok (.continue_, s2) :=
  ptc_meta_silent hm hd hq hf hmode hi fuel

/-! ## non-vacuity -/

section Examples

def attr (n v : String) : Attr := { name := { pfx := none, ns := [], loc := n.toList }, value := v.toList }
def startTag (n : String) (attrs : List Attr) : Tag := { kind := .startTag, name := n.toList, attrs := attrs }

/-- `<meta charset=x http-equiv=Content-Type content="text/html; charset=y">` -/
def metaBoth : Tag := startTag "meta" [attr "http-equiv" "Content-Type", attr "content" "text/html; charset=y",
  attr "charset" "x"]
/-- `<meta http-equiv=CONTENT-type content="text/html; charset = 'y' ">` -/
def metaPragma : Tag := startTag "meta" [attr "http-equiv" "CONTENT-type", attr "content" "text/html; charset = 'y' "]
/-- `<meta http-equiv=refresh content="charset=y">` -/
def metaRefresh : Tag := startTag "meta" [attr "http-equiv" "refresh", attr "content" "charset=y"]
/-- `<link charset=x>` -/
def linkCharset : Tag := startTag "link" [attr "charset" "x"]

example : isMetaStart metaBoth := ⟨rfl, rfl⟩

-- charset wins
example : qualifies metaBoth = some "x".toList := by decide +kernel
example : qualifies metaRefresh = none := by decide +kernel

/-- the answer of `process_token` for one tag fed to a fresh document builder -/
def answerFresh (t : Tag) : Option SinkResult :=
  match (do newTB; processToken (.tag t) 1 : M SinkResult).run (State.init {}) with
  | .ok (r, _) => some r
  | .error _ => none

/-- the non-`Continue` answers (newest first) of a token list fed to a fresh document builder -/
def answersFresh (toks : List Tag) : Option (List SinkResult) :=
  match (do newTB; processTokens (toks.map fun t => (.tag t, 1)) [] : M (List SinkResult)).run (State.init {}) with
  | .ok (r, _) => some r
  | .error _ => none

-- a `meta` with both: one indicator, for the charset attribute
example : answerFresh metaBoth = some (.encodingIndicator "x".toList) := by decide +kernel
-- the pragma alone: the extracted label
example : qualifies metaPragma = some "y".toList := by decide +kernel
example : answerFresh metaPragma = some (.encodingIndicator "y".toList) := by decide +kernel
-- `http-equiv` is not `content-type`: nothing
example : answerFresh metaRefresh = some .continue_ := by decide +kernel
-- `<link charset=x>` takes the same arm of "in head" but never fires
example : answerFresh linkCharset = some .continue_ := by decide +kernel
-- in body: each qualifying `meta` fires once; `link` and `<div charset=q>` do not
example : answersFresh [startTag "body" [], metaBoth, metaPragma, linkCharset, startTag "div" [attr "charset" "q"]]
    = some [.encodingIndicator "y".toList, .encodingIndicator "x".toList] := by decide +kernel
-- "in frameset" ignores the `meta`
example : answersFresh [startTag "frameset" [], metaBoth] = some [] := by decide +kernel
-- foreign content: break-out, then "in body" → "in head"
example : answersFresh [startTag "svg" [], metaBoth] = some [.encodingIndicator "x".toList] := by decide +kernel
-- "in table": foster-parented, still fires
example : answersFresh [startTag "table" [], metaBoth] = some [.encodingIndicator "x".toList] := by decide +kernel

end Examples

/-! ## axioms -/
#print axioms C19_in_head_meta
#print axioms C19_in_head_meta_total
#print axioms C19_charset_wins
#print axioms C19_rule_only_meta
#print axioms C19_foreign_only_meta
#print axioms C19_only_meta_fires
#print axioms C19_at_most_once
#print axioms C19_meta_routing
#print axioms C19_meta_foreign
#print axioms C19_meta_ignored
#print axioms C19_fires_in_head
#print axioms C19_silent_in_head

end H5V.Props.C19
