import H5V.Lemmas.HtmlTokTerm
import H5V.Props.C04
/-!
C04 — parsing is total, HTML tokenizer part 2: **no hang**.

`Tokenizer::run` is modelled as `run o pol fuel m inp` (iterate `step` while it answers Continue);
`feed` and `end` call it with `fuelFor m inp = 17·(unread + temp_buf + name_buf + 2) + 16`.
This file proves that the fuel is never exhausted, i.e. the `.outOfFuel` result of the model is
unreachable and the loop of the Rust terminates on every input, from every reachable machine.

* `C04_tok_step_decreases`: every step that answers Continue strictly decreases the measure
  `mu m inp` and keeps the invariant `TInv` (`LInv` — which contains the no-panic invariant `Safe` —
  plus "`name_buf` holds alphanumerics/`;` only, the hex marker is not `&`").
  `mu` = 16 per character unread or stashed (`temp_buf` in the two `eat` states, `name_buf`, the
  `#`/`x` of a numeric reference) + `tripF` (characters of an alphanumeric/`;` run directly after an
  `&`: the only text read twice, once into `name_buf` and once after `unconsume_name`) + 12 for a
  pending `reconsume` + a state rank ≤ 2, resp. 8 + a rank ≤ 3 inside a character reference.
* `C04_tok_run_terminates` / `_fuelFor`: `run` does not run out of fuel once `mu m inp < fuel`;
  `mu m inp < fuelFor m inp` always (`C04_tok_measure_below_fuel`).
* `C04_tok_fuel_irrelevant`: a run that did not run out of fuel is unchanged by more fuel.
* `C04_tok_feed_terminates`, `C04_tok_feed_keeps_invariant`, `C04_tok_initial_inv`,
  `C04_tok_session_feed_terminates`: every `feed` on a fresh tokenizer, after any earlier feeds
  (any chunking), and after any Script / EncodingIndicator pause, terminates without panic.
* `C04_tok_eof_loop_total`: the `eof_step` loop of `end()` finishes within its 8 rounds (3 suffice).
* `C04_tok_suspend_drains`: a step that asks for more input leaves the queue empty — also with
  `at_eof` set (the `assert!(input.is_empty())` of `end()`).
* `C04_tok_finish_total`: `end()` completes (`.ok`) from every machine satisfying the invariant,
  for a sink that never answers Script / EncodingIndicator. Without that hypothesis the branch
  `assert!(matches!(self.run(&input), TokenizerResult::Done))` IS reachable in the model from
  machines satisfying `TInv` (`C04_tok_finish_pause_witness`: pending reconsume of `>` in the tag
  name state); such a machine never arises at a suspension (`reconsume` is clear whenever a step
  asks for more input), but that is not part of `TInv`, so the theorem carries the hypothesis.
* `C04_tok_end_total`: **`end()` completes for EVERY sink** (also one that answers Script /
  EncodingIndicator to any tag) from every *quiet* machine, `Quiet m := TInv m ∧ m.reconsume = false ∧
  SP m` (`SP`: what the look-ahead stash `temp_buf` holds in the two `eat` states contains neither `>`
  nor `&` — it matched a prefix of a keyword). Quiet machines are exactly where the loop can stop:
  `C04_tok_step_stops_quiet` (a step that asks for more input or pauses leaves no pending `reconsume`:
  a read that found the queue empty had none, and the table pauses only in branches that do not set
  it), `C04_tok_feed_stops_quiet`, `C04_tok_initial_quiet`. Reason: the tokenizer pauses only on
  reading `>` (`transChar_pause`, `transSet_pause`, `stepBav_pause`) and starts a character reference
  only on `&`; `end()` hands back `name_buf` (alphanumerics/`;`), `#`, `x`/`X` or a failed keyword
  prefix, so its final `run` never delivers a tag token (`C04_tok_end_run_never_pauses`) and the sink
  is not consulted. `C04_tok_session_end_total`: fresh tokenizer, any chunking, any sink ⇒ `end()` is
  `.ok` with EOF last.
-/
namespace H5V.Props.C04
open H5V.Model.HtmlTok

/-- **1. every Continue step decreases the measure and keeps the invariant** -/
theorem C04_tok_step_decreases (o : Opts) (pol : Pol) (m : Mach) (inp : Str) (hi : TInv m)
    (m' : Mach) (inp' : Str) (h : step o pol m inp = .cont m' inp') :
    TInv m' ∧ mu m' inp' < mu m inp :=
  ⟨step_tinv o pol m inp hi m' inp' (by rw [h]; rfl), step_dec o pol m inp hi m' inp' h⟩

/-- the invariant survives every step, whatever it answers (Continue, Suspend, Script, EncodingIndicator) -/
theorem C04_tok_step_keeps_invariant (o : Opts) (pol : Pol) (m : Mach) (inp : Str) (hi : TInv m)
    (m' : Mach) (inp' : Str) (h : (step o pol m inp).pair? = some (m', inp')) : TInv m' :=
  step_tinv o pol m inp hi m' inp' h

/-- the fuel `feed` / `end` hand to `run` exceeds the measure -/
theorem C04_tok_measure_below_fuel (m : Mach) (inp : Str) : mu m inp < fuelFor m inp :=
  mu_lt_fuelFor m inp

/-- **2. `run` terminates**: with more fuel than the measure it never answers `outOfFuel` -/
theorem C04_tok_run_terminates (o : Opts) (pol : Pol) (m : Mach) (inp : Str) (hi : TInv m) :
    ∀ fuel, mu m inp < fuel → run o pol fuel m inp ≠ .outOfFuel :=
  fun fuel hf => run_terminates o pol fuel m inp hi hf

theorem C04_tok_run_terminates_fuelFor (o : Opts) (pol : Pol) (m : Mach) (inp : Str) (hi : TInv m) :
    run o pol (fuelFor m inp) m inp ≠ .outOfFuel :=
  run_terminates o pol _ m inp hi (mu_lt_fuelFor m inp)

/-- **3. fuel irrelevance** -/
theorem C04_tok_fuel_irrelevant (o : Opts) (pol : Pol) (n k : Nat) (m : Mach) (inp : Str)
    (h : run o pol n m inp ≠ .outOfFuel) (hk : n ≤ k) : run o pol k m inp = run o pol n m inp :=
  run_fuel_mono o pol n k m inp h hk

/-- the result of the loop with `fuelFor` is the result with any larger amount of fuel: the model's
fuel is not observable -/
theorem C04_tok_fuelFor_is_enough (o : Opts) (pol : Pol) (m : Mach) (inp : Str) (hi : TInv m) (k : Nat)
    (hk : fuelFor m inp ≤ k) : run o pol k m inp = run o pol (fuelFor m inp) m inp :=
  run_fuel_mono o pol _ k m inp (C04_tok_run_terminates_fuelFor o pol m inp hi) hk

/-- **4a. a tokenizer as created by `Tokenizer::new`** (any start state / last start tag / BOM option)
satisfies the invariant -/
theorem C04_tok_initial_inv (st : State) (last : Option Str) (bom : Bool) :
    TInv { state := st, lastStartTag := last, discardBom := bom } :=
  tinv_fresh _ rfl rfl rfl

/-- **4b. `feed` terminates** (never `outOfFuel`), and does not panic -/
theorem C04_tok_feed_terminates (o : Opts) (pol : Pol) (m : Mach) (inp chunk : Str) (hi : TInv m) :
    feed o pol m inp chunk ≠ .outOfFuel ∧ ∀ e, feed o pol m inp chunk ≠ .panic e :=
  ⟨feed_terminates o pol m inp chunk hi, feed_no_panic o pol m inp chunk hi⟩

/-- **4c. wherever `feed` stops — needs more input, Script pause, EncodingIndicator pause — the
invariant holds**, so the next `feed` (with the left-over input of a pause) terminates as well -/
theorem C04_tok_feed_keeps_invariant (o : Opts) (pol : Pol) (m : Mach) (inp chunk : Str) (hi : TInv m)
    (m' : Mach) (inp' : Str) (h : (feed o pol m inp chunk).pair? = some (m', inp')) : TInv m' :=
  feed_tinv o pol m inp chunk hi m' inp' h

/-- **4d. after any earlier chunks** (each run to suspension, pauses resumed at once — the shape of
`session_linv`) a further `feed` terminates -/
theorem C04_tok_session_feed_terminates (o : Opts) (pol : Pol) (st : State) (last : Option Str) (bom : Bool)
    (cs : List Str) (mf : Mach)
    (hs : Session o pol { state := st, lastStartTag := last, discardBom := bom } cs mf) (inp chunk : Str) :
    feed o pol mf inp chunk ≠ .outOfFuel ∧ ∀ e, feed o pol mf inp chunk ≠ .panic e :=
  C04_tok_feed_terminates o pol mf inp chunk (session_tinv o pol hs (C04_tok_initial_inv st last bom))

/-- **5a. the `eof_step` loop never exhausts its 8 rounds**, from any machine -/
theorem C04_tok_eof_loop_total (o : Opts) (m : Mach) : ∃ m', eofLoop o 8 m = .ok m' :=
  eofLoop_total o m

/-- a step that asks for more input has emptied the queue, with or without `at_eof` -/
theorem C04_tok_suspend_drains (o : Opts) (pol : Pol) (m : Mach) (inp : Str) (hi : TInv m) (m' : Mach) (inp' : Str)
    (h : step o pol m inp = .suspend m' inp') : inp' = [] :=
  step_suspend_nil o pol m inp hi m' inp' h

/-- **5b. `Tokenizer::end` is total** for a sink that never pauses the tokenizer: no panic, no hang,
no failed assertion; it ends by delivering EOF (`C04_tok_eof_is_last`) -/
theorem C04_tok_finish_total (o : Opts) (pol : Pol) (hp : NoPause pol) (m : Mach) (hi : TInv m) :
    ∃ mf, finish o pol m = .ok mf ∧ ∃ l rest, mf.out = (Token.eof, l) :: rest := by
  obtain ⟨mf, h⟩ := finish_total o pol hp m hi
  refine ⟨mf, h, ?_⟩
  -- `finish` ends in the eof loop
  unfold finish at h
  have tail : ∀ (m0 : Mach) (i0 : Str),
      (match run o pol (fuelFor (m0.setAtEof true) i0) (m0.setAtEof true) i0 with
        | .done m inp => if !inp.isEmpty then .error "assertion failed: input.is_empty()" else eofLoop o 8 m
        | .script _ _ | .indicator _ _ =>
          .error "assertion failed: matches!(self.run(&input), TokenizerResult::Done)"
        | .panic e => .error e
        | .outOfFuel => .error "run out of fuel") = Except.ok mf →
      ∃ l rest, mf.out = (Token.eof, l) :: rest := by
    intro m0 i0 h0
    split at h0
    · split at h0
      · simp at h0
      · exact C04_tok_eof_is_last o 8 _ mf h0
    · simp at h0
    · simp at h0
    · simp at h0
    · simp at h0
  cases hcr : m.charRef with
  | none =>
    simp only [hcr] at h
    exact tail m [] h
  | some cr =>
    simp only [hcr] at h
    cases hce : crEof o m [] cr with
    | error e => rw [hce] at h; simp at h
    | ok v =>
      obtain ⟨m1, i1, chars⟩ := v
      rw [hce] at h
      simp only at h
      cases hpc : processCharRef (m1.setCharRef none) chars with
      | mk m2 sig =>
        rw [hpc] at h
        cases sig with
        | cont => exact tail m2 i1 h
        | script => simp at h
        | indicator => simp at h
        | panic e => simp at h

/-- whenever `end()` completes, the last token it delivered is EOF -/
theorem C04_tok_finish_eof_last (o : Opts) (pol : Pol) (m mf : Mach) (h : finish o pol m = .ok mf) :
    ∃ l rest, mf.out = (Token.eof, l) :: rest := by
  unfold finish at h
  have tail : ∀ (m0 : Mach) (i0 : Str),
      (match run o pol (fuelFor (m0.setAtEof true) i0) (m0.setAtEof true) i0 with
        | .done m inp => if !inp.isEmpty then .error "assertion failed: input.is_empty()" else eofLoop o 8 m
        | .script _ _ | .indicator _ _ =>
          .error "assertion failed: matches!(self.run(&input), TokenizerResult::Done)"
        | .panic e => .error e
        | .outOfFuel => .error "run out of fuel") = Except.ok mf →
      ∃ l rest, mf.out = (Token.eof, l) :: rest := by
    intro m0 i0 h0
    split at h0
    · split at h0
      · simp at h0
      · exact C04_tok_eof_is_last o 8 _ mf h0
    · simp at h0
    · simp at h0
    · simp at h0
    · simp at h0
  cases hcr : m.charRef with
  | none =>
    simp only [hcr] at h
    exact tail m [] h
  | some cr =>
    simp only [hcr] at h
    cases hce : crEof o m [] cr with
    | error e => rw [hce] at h; simp at h
    | ok v =>
      obtain ⟨m1, i1, chars⟩ := v
      rw [hce] at h
      simp only at h
      cases hpc : processCharRef (m1.setCharRef none) chars with
      | mk m2 sig =>
        rw [hpc] at h
        cases sig with
        | cont => exact tail m2 i1 h
        | script => simp at h
        | indicator => simp at h
        | panic e => simp at h

/-! ### `end()` for every sink, from the machines that can reach it -/

/-- a tokenizer as created by `Tokenizer::new` is quiet -/
theorem C04_tok_initial_quiet (st : State) (last : Option Str) (bom : Bool) :
    Quiet { state := st, lastStartTag := last, discardBom := bom } :=
  quiet_fresh _ rfl rfl rfl

/-- **a step that stops the loop leaves a quiet machine**: in particular no pending `reconsume`,
whether it asked for more input or paused for the sink -/
theorem C04_tok_step_stops_quiet (o : Opts) (pol : Pol) (m : Mach) (inp : Str) (hi : TInv m) (m' : Mach) (inp' : Str)
    (h : step o pol m inp = .suspend m' inp' ∨ step o pol m inp = .script m' inp' ∨
      step o pol m inp = .indicator m' inp') : Quiet m' ∧ m'.reconsume = false := by
  have hq : Quiet m' := by
    rcases h with h | h | h <;>
      exact step_stop_quiet o pol m inp hi m' inp' (by rw [h]; rfl) (by rw [h]; simp)
  exact ⟨hq, hq.nrec⟩

/-- **every way a `feed` can stop** (needs more input / Script / EncodingIndicator) **yields a quiet
machine** -/
theorem C04_tok_feed_stops_quiet (o : Opts) (pol : Pol) (m : Mach) (inp chunk : Str) (hq : Quiet m)
    (m' : Mach) (inp' : Str) (h : (feed o pol m inp chunk).pair? = some (m', inp')) : Quiet m' :=
  feed_stops_quiet o pol m inp chunk hq m' inp' h

/-- from a quiet machine with nothing but plain text left, the loop never answers Script /
EncodingIndicator — for any sink: no tag token is delivered -/
theorem C04_tok_end_run_never_pauses (o : Opts) (pol : Pol) (fuel : Nat) (m : Mach) (inp : Str) (he : EndInv m inp) :
    (∀ m' i', run o pol fuel m inp ≠ .script m' i') ∧ (∀ m' i', run o pol fuel m inp ≠ .indicator m' i') :=
  run_end o pol fuel m inp he

/-- **5c. `Tokenizer::end` is total for EVERY sink** from every machine in which the loop can have
stopped: no panic, no hang, no failed assertion, EOF delivered last -/
theorem C04_tok_end_total (o : Opts) (pol : Pol) (m : Mach) (hq : Quiet m) :
    ∃ mf, finish o pol m = .ok mf ∧ ∃ l rest, mf.out = (Token.eof, l) :: rest := by
  obtain ⟨mf, h⟩ := finish_end_total o pol m hq
  exact ⟨mf, h, C04_tok_finish_eof_last o pol m mf h⟩

/-- **fresh tokenizer, any chunks, any sink ⇒ `end()` completes with EOF last** -/
theorem C04_tok_session_end_total (o : Opts) (pol : Pol) (st : State) (last : Option Str) (bom : Bool)
    (cs : List Str) (mf : Mach)
    (hs : Session o pol { state := st, lastStartTag := last, discardBom := bom } cs mf) :
    ∃ me, finish o pol mf = .ok me ∧ ∃ l rest, me.out = (Token.eof, l) :: rest :=
  C04_tok_end_total o pol mf (session_quiet o pol hs (C04_tok_initial_quiet st last bom))

/-- the same through `feed` itself: if a `feed` on a quiet machine stops for more input, `end()` on
the result completes, for any sink -/
theorem C04_tok_feed_end_total (o : Opts) (pol : Pol) (m : Mach) (inp chunk : Str) (hq : Quiet m)
    (m' : Mach) (inp' : Str) (h : feed o pol m inp chunk = .done m' inp') :
    ∃ me, finish o pol m' = .ok me ∧ ∃ l rest, me.out = (Token.eof, l) :: rest :=
  C04_tok_end_total o pol m' (feed_stops_quiet o pol m inp chunk hq m' inp' (by rw [h]; rfl))

/-! ### non-vacuity -/

/-- a sink that lets the tokenizer run -/
def pol0 : Pol := ⟨fun _ _ => .continue_, fun _ => false⟩
/-- a sink that pauses on every tag -/
def polScript : Pol := ⟨fun _ _ => .script, fun _ => false⟩

theorem pol0_noPause : NoPause pol0 := fun _ _ => ⟨by simp [pol0], by simp [pol0]⟩

/-- the hypotheses of `C04_tok_step_decreases` are satisfiable with a genuine Continue step:
a fresh tokenizer reading `&` of `&a` starts a character reference … -/
example : step ⟨false⟩ pol0 {} ['&', 'a'] =
    .cont { charRef := some { inAttr := false }, currentChar := '&' } ['a'] := by rfl

/-- … and the measure drops from 33 to 28 -/
example : mu ({} : Mach) ['&', 'a'] = 33 ∧
    mu ({ charRef := some { inAttr := false }, currentChar := '&' } : Mach) ['a'] = 28 := by
  constructor <;> decide

example : (∃ m' i', step ⟨false⟩ pol0 {} ['&', 'a'] = .cont m' i' ∧ TInv m' ∧ mu m' i' < mu {} ['&', 'a']) :=
  ⟨_, _, rfl, C04_tok_step_decreases ⟨false⟩ pol0 {} ['&', 'a'] (C04_tok_initial_inv .data none true) _ _ rfl⟩

/-- the text `&am;x` makes the round trip through `name_buf` (no entity `am;`) and the run still
ends, suspended with the queue drained -/
example : ∃ m', run ⟨false⟩ pol0 (fuelFor {} ['&', 'a', 'm', ';', 'x']) {} ['&', 'a', 'm', ';', 'x'] = .done m' [] :=
  ⟨_, rfl⟩

/-- `end()` on the fresh tokenizer is `.ok` -/
example : ∃ mf, finish ⟨false⟩ pol0 {} = .ok mf :=
  let ⟨mf, h, _⟩ := C04_tok_finish_total ⟨false⟩ pol0 pol0_noPause {} (C04_tok_initial_inv .data none true)
  ⟨mf, h⟩

/-- the machine of the witness below: a `>` is pending for re-consumption in the tag name state -/
def pausedAtEnd : Mach := { state := .tagName, reconsume := true, currentChar := '>' }

theorem pausedAtEnd_inv : TInv pausedAtEnd :=
  TInv.of_none
    { safe := Safe.of_none rfl
      eatOk := fun h => by simp [pausedAtEnd] at h
      nr := fun _ _ _ => rfl
      peekNoRecon := fun h => by simp [pausedAtEnd] at h
      ri := fun _ h => by simp [pausedAtEnd] at h
      stashOk := fun c hc => by simp [stash, pausedAtEnd] at hc
      cr := fun cr h => by simp [pausedAtEnd] at h } rfl

/-- **the pause hypothesis of `C04_tok_finish_total` cannot be dropped for arbitrary machines
satisfying the invariant**: with a sink that answers Script, `end()` from this machine hits
`assert!(matches!(self.run(&input), TokenizerResult::Done))` -/
theorem C04_tok_finish_pause_witness :
    TInv pausedAtEnd ∧
    finish ⟨false⟩ polScript pausedAtEnd =
      .error "assertion failed: matches!(self.run(&input), TokenizerResult::Done)" :=
  ⟨pausedAtEnd_inv, rfl⟩

/-- the witness machine is not quiet (its `reconsume` is pending): no contradiction with
`C04_tok_end_total` -/
example : ¬ Quiet pausedAtEnd := fun h => by have := h.nrec; simp [pausedAtEnd] at this

/-- non-vacuity of `C04_tok_end_total` with a sink that answers Script to every tag: after `<!-` the
tokenizer is suspended with `-` stashed; `end()` puts it back, reads it as a bogus comment and
completes -/
example : ∃ m', feed ⟨false⟩ polScript {} [] ['<', '!', '-'] = .done m' [] ∧ m'.tempBuf = ['-'] ∧
    ∃ mf, finish ⟨false⟩ polScript m' = .ok mf :=
  ⟨_, rfl, rfl,
    let ⟨mf, h, _⟩ := C04_tok_feed_end_total ⟨false⟩ polScript {} [] ['<', '!', '-']
      (C04_tok_initial_quiet .data none true) _ [] rfl
    ⟨mf, h⟩⟩

/-- … and in the middle of a character reference: `&am` -/
example : ∃ m', feed ⟨false⟩ polScript {} [] ['&', 'a', 'm'] = .done m' [] ∧
    (∃ cr, m'.charRef = some cr ∧ cr.nameBuf = some ['a', 'm']) ∧
    ∃ mf, finish ⟨false⟩ polScript m' = .ok mf :=
  ⟨_, rfl, ⟨_, rfl, rfl⟩,
    let ⟨mf, h, _⟩ := C04_tok_feed_end_total ⟨false⟩ polScript {} [] ['&', 'a', 'm']
      (C04_tok_initial_quiet .data none true) _ [] rfl
    ⟨mf, h⟩⟩

end H5V.Props.C04
