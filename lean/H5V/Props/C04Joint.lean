import H5V.Lemmas.HtmlJointTotal
/-!
# C04 for the joint model: **the joint HTML parse is total** (up to failures of the sink)

The joint model (`H5V.Model.HtmlTB.Joint`: the tokenizer model with the tree-builder model as its sink, the
composition of `driver.rs`; `H5V.Props.C03.parseChunks o N m0 j0 chunks`, `N` = budget of `loop_until_done`)
**ends, for every input, every chunking, every tokenizer / tree-builder option set, and every sufficiently large
budget, in the same way**: with a final joint state, or with a failure `e` satisfying `JFail e`:

1. a failure of a tree-MUTATING sink operation (`Dom.apply op = .error x` with `MutOp op`; by `C05TB` the only such
   failure a contract-abiding call can have is the mirror op `maybe_clone_an_option_into_selectedcontent` — see
   "what is partial" below),
2. one of the two `<meta>`-prescan messages `meta-extract@encoding.rs: …`, `subtendril-utf8@encoding.rs: …` (they
   are still in the C04 tree-builder judgement `Benign`; `C19_extractEncoding_total` shows that the model's
   `extractEncoding` never produces them, but that is not threaded through `Benign`).

So: no panic site of the tokenizer, of the character-reference tokenizer, of the tree builder (`panicAt`, helper
fuel, the fuel of `process_to_completion`, the Text-mode `unreachable!`) is reachable, `Tokenizer::run` never runs out
of its fuel, `loop_until_done` never runs out of its budget, `assert!(input.is_empty())` (driver.rs:132 and
`Tokenizer::end`) and `assert!(matches!(self.run(..), Done))` of `Tokenizer::end` never fire, the tokenizer's
`process_token_and_continue` assertion (tokenizer/mod.rs:257) never fires — the tree builder answers anything but a
tag token with `Continue` (`H5V.Lemmas.JointTotal.A.processToken_nontag_continue`, new) —, `eof_step` ends within its 8
rounds, `TreeBuilder::end` never fails.

Method (route (b), direct induction on the joint loop with the tokenizer's termination measure `mu`):
* per token: `sat_processTokens2` (C04TB2: no fuel allowance, "text" protocol) on a one-token list — from a
  tree-builder state satisfying the C04 invariant `TI`, a token that keeps the "text" protocol fails at most
  `BenignStrict`ly (`tok_safe`);
* per step: the tokens of one tokenizer step are non-tags followed by at most one tag followed by pause markers
  (`step_one_tag`); from a raw-text state (`TextSt`) they are allowed in "text" (`step_textSt`); so the delivery
  succeeds — and re-establishes the joint invariant `CI` (`joint_step_text'`) — or fails with `JErr` (`absorb_safe`);
* the loop: `Continue` steps decrease `mu` (`step_dec`); PAUSING steps decrease it as well (`step_dec_script`:
  through the never-pausing policy `npPol j` such a step is a `Continue` step, `joint_step_star`); `Suspend` drains the
  queue (`step_suspend_nil`); no step panics (`step_safe`);
* `Parser::finish`: the mirror of `finish_end_total` (HtmlTokTerm): the flush of a pending character reference
  delivers allowed non-tags, the final `run` sees neither `>` nor `&` (`EndInv`), so it never pauses (`step_end`);
  `eofLoop_total`; `C04_tb_end_total`.

**What is partial** w.r.t. the intended statement (failure ONLY by the mirror op):
* item 1 is "some mutating sink op fails", not "the mirror op fails within its contract": narrowing it needs
  `TagsOk` of every delivered tag (C05TB), i.e. that the tokenizer model lower-cases ATTRIBUTE names — not part of the
  existing tokenizer output invariant `WfM` (`H5V.Lemmas.HtmlParseSpecOutWf`: tag names lower case, attribute names
  distinct), and a proof over the whole transition table;
* item 2 is not excluded: the two messages are constructors of the C04 judgement `Benign`; excluding them needs either
  a `Benign` without them (re-running the `Sat` proofs of the "in head" rules with `C19_extractEncoding_total`) or a
  second, error-origin judgement over all rules.
-/
namespace H5V.Props.C04J
open H5V.Model.HtmlTB
open H5V.Model.Dom (Dom SinkOp)
open H5V.Lemmas.TBSafe (TI MutOp Benign)
open H5V.Lemmas.JointChunk (TOpts Chars)
open H5V.Lemmas.ParseSpec (j0Of crInv_of_none good_docStart)
open H5V.Lemmas.JointTotal
open H5V.Props.C03 (parseChunks)
open H5V.Props.C02 (tok0 start_tok0)
open H5V.Props.C04TB (docStart)
open H5V.Model.HtmlTB.Joint (JState)

/-- the failures of the joint model that are not excluded (see the header) -/
def JFail (e : String) : Prop :=
  (∃ (d : Dom) (op : SinkOp) (x : String), MutOp op ∧ d.apply op = .error x ∧ e = errClass x ++ "@sink: " ++ x) ∨
  "meta-extract@encoding.rs: ".toList.isPrefixOf e.toList = true ∨
  e = "subtendril-utf8@encoding.rs: subtendril is not valid UTF-8"

theorem jfail_of_jerr {e : String} (h : JErr e) : JFail e := by
  cases h with
  | sinkMut d op x h1 h2 => exact Or.inl ⟨d, op, x, h2, h1, rfl⟩
  | ptcFuel ha => exact ha.elim
  | textProto ha => exact ha.elim
  | metaExtract m =>
    refine Or.inr (Or.inl ?_)
    simp only [String.toList_append]
    exact H5V.Lemmas.TBSafe.isPrefixOf_append _ _
  | metaUtf8 => exact Or.inr (Or.inr rfl)

/-- the start of a document parse: `Tokenizer::new` (data state, any BOM flag), `TreeBuilder::new` (any options) -/
theorem between_doc (opts : Opts) (bom : Bool) : Between (tok0 bom) (j0Of opts) :=
  ⟨Or.inl (start_tok0 bom), H5V.Model.HtmlTok.quiet_fresh _ rfl rfl rfl,
    ⟨(start_tok0 bom).out, crInv_of_none rfl,
      fun h => absurd h (show (docStart opts).mode ≠ .text by simp [docStart, State.init]),
      H5V.Props.C04TB.C04_tb_inv_new opts, good_docStart opts⟩⟩

/-- **C04, joint model, any chunking** (PARTIAL: `JFail` instead of "the mirror op fails").  For every tokenizer
option set `o`, tree-builder options `opts` (quirks mode, `drop_doctype`, scripting, iframe-srcdoc, exact errors: no
restriction), BOM flag and chunk list: there is a budget `N0` from which on the joint parse ends in the same way —
with the same final joint state, or with the same failure, which is a `JFail`. -/
theorem C04_joint_total_chunked_partial (o : TOpts) (opts : Opts) (bom : Bool) (chunks : List Chars) :
    ∃ N0, (∃ jf, ∀ N, N0 ≤ N → parseChunks o N (tok0 bom) (j0Of opts) chunks = .ok jf) ∨
      (∃ e, JFail e ∧ ∀ N, N0 ≤ N → parseChunks o N (tok0 bom) (j0Of opts) chunks = .error e) := by
  obtain ⟨N0, h⟩ := parse_total o chunks (tok0 bom) (j0Of opts) (between_doc opts bom)
  refine ⟨N0, ?_⟩
  rcases h with h | ⟨e, he, h⟩
  · exact Or.inl h
  · exact Or.inr ⟨e, jfail_of_jerr he, h⟩

/-- **C04, joint model** (PARTIAL: `JFail` instead of "the mirror op fails"), in the requested form: for every
input text there is `N0` such that for every `N ≥ N0` the joint parse returns `.ok jf` or `.error e` with `JFail e`.

The full statement aimed at:
`∃ N0, ∀ N ≥ N0, (∃ jf, parseChunks o N (tok0 bom) (j0Of opts) [s] = .ok jf) ∨
   (∃ e, parseChunks o N (tok0 bom) (j0Of opts) [s] = .error e ∧
     ∃ d o y, d.apply (.maybeCloneAnOptionIntoSelectedcontent o) = .error y ∧ e = errClass y ++ "@sink: " ++ y)`. -/
theorem C04_joint_total_partial (o : TOpts) (opts : Opts) (bom : Bool) (s : Chars) :
    ∃ N0, ∀ N, N0 ≤ N → (∃ jf, parseChunks o N (tok0 bom) (j0Of opts) [s] = .ok jf) ∨
      (∃ e, parseChunks o N (tok0 bom) (j0Of opts) [s] = .error e ∧ JFail e) := by
  obtain ⟨N0, h⟩ := C04_joint_total_chunked_partial o opts bom [s]
  refine ⟨N0, fun N hN => ?_⟩
  rcases h with ⟨jf, h⟩ | ⟨e, he, h⟩
  · exact Or.inl ⟨jf, h N hN⟩
  · exact Or.inr ⟨e, h N hN, he⟩

/-- the same for a tokenizer created in any state (fragment parsing: `tokenizer_state_for_context_elem`) and any
tree-builder state that satisfies the C04 invariant `TI`, is `GoodS` (C03) and is not in the "text" insertion mode -/
theorem C04_joint_total_any_partial (o : TOpts) (st : H5V.Model.HtmlTok.State) (last : Option Chars) (bom : Bool)
    (tb : State) (hti : TI tb) (hg : H5V.Props.C03.GoodS tb) (hmode : tb.mode ≠ .text) (chunks : List Chars) :
    ∃ N0, (∃ jf, ∀ N, N0 ≤ N →
        parseChunks o N { state := st, lastStartTag := last, discardBom := bom } { tb := tb } chunks = .ok jf) ∨
      (∃ e, JFail e ∧ ∀ N, N0 ≤ N →
        parseChunks o N { state := st, lastStartTag := last, discardBom := bom } { tb := tb } chunks = .error e) := by
  have hb : Between ({ state := st, lastStartTag := last, discardBom := bom } : H5V.Model.HtmlTok.Mach) { tb := tb } :=
    ⟨Or.inl (H5V.Props.C03.start_fresh st last bom), H5V.Model.HtmlTok.quiet_fresh _ rfl rfl rfl,
      ⟨rfl, crInv_of_none rfl, fun h => absurd h hmode, hti, hg⟩⟩
  obtain ⟨N0, h⟩ := parse_total o chunks _ _ hb
  refine ⟨N0, ?_⟩
  rcases h with h | ⟨e, he, h⟩
  · exact Or.inl h
  · exact Or.inr ⟨e, jfail_of_jerr he, h⟩

end H5V.Props.C04J

namespace H5V.Props.C02
open H5V.Model.HtmlTB
open H5V.Lemmas.JointChunk (TOpts)
open H5V.Lemmas.ParseSpec
open H5V.Props.C03 (parseChunks)
open H5V.Props.C04J

/-- **C02 capstone without the hypotheses "the joint run succeeds" and "the token stream exists"**:
`C02_parse_eq_spec_total` with `hrun` replaced by "the joint parse does not fail with a `JFail` failure" (no failure
of a mutating sink op, none of the two `<meta>` messages), for every sufficiently large budget; the token stream `ts`
exists by `modelStream_total`. -/
theorem C02_parse_eq_spec_total_nohrun (o : TOpts) (opts : Opts) (hq : opts.quirksMode = .noQuirks)
    (hdd : opts.dropDoctype = false) (bom : Bool) (s : Chs) :
    ∃ N0 ts, modelStream o opts bom s = some ts ∧ ∀ N, N0 ≤ N →
      (∀ e, parseChunks o N (tok0 bom) (j0Of opts) [s] = .error e → ¬ JFail e) →
      ∃ jf, parseChunks o N (tok0 bom) (j0Of opts) [s] = .ok jf ∧
        ((∀ p ∈ ts, ∀ t, p.1 = .tag t → ∀ a ∈ t.attrs, a.name.loc ≠ "shadowrootmode".toList) →
        ∃ ids, ∀ rest, ∃ F, ∀ fuel, F ≤ fuel →
          ParseAgreesX opts ⟨docCfg opts, fuel, ids ++ rest⟩ (H5V.Props.C01.stripBom bom s) ts jf) := by
  obtain ⟨N0, h⟩ := C04_joint_total_partial o opts bom s
  obtain ⟨ts, hts⟩ := modelStream_total o opts bom s
  refine ⟨N0, ts, hts, fun N hN hno => ?_⟩
  rcases h N hN with ⟨jf, hjf⟩ | ⟨e, he, hf⟩
  · exact ⟨jf, hjf, fun hshadow => C02_parse_eq_spec_total o opts hq hdd bom N s jf hjf ts hts hshadow⟩
  · exact absurd hf (hno e he)

/-- the same for any chunking of the input -/
theorem C02_parse_eq_spec_total_chunked_nohrun (o : TOpts) (opts : Opts) (hq : opts.quirksMode = .noQuirks)
    (hdd : opts.dropDoctype = false) (bom : Bool) (chunks : List Chs) :
    ∃ N0 ts, modelStream o opts bom chunks.flatten = some ts ∧ ∀ N, N0 ≤ N →
      (∀ e, parseChunks o N (tok0 bom) (j0Of opts) chunks = .error e → ¬ JFail e) →
      ∃ jf, parseChunks o N (tok0 bom) (j0Of opts) chunks = .ok jf ∧
        ((∀ p ∈ ts, ∀ t, p.1 = .tag t → ∀ a ∈ t.attrs, a.name.loc ≠ "shadowrootmode".toList) →
        ∃ ids, ∀ rest, ∃ F, ∀ fuel, F ≤ fuel →
          ParseAgreesX opts ⟨docCfg opts, fuel, ids ++ rest⟩ (H5V.Props.C01.stripBom bom chunks.flatten) ts jf) := by
  obtain ⟨N0, h⟩ := C04_joint_total_chunked_partial o opts bom chunks
  obtain ⟨ts, hts⟩ := modelStream_total o opts bom chunks.flatten
  refine ⟨N0, ts, hts, fun N hN hno => ?_⟩
  rcases h with ⟨jf, hjf⟩ | ⟨e, he, hf⟩
  · exact ⟨jf, hjf N hN, fun hshadow =>
      C02_parse_eq_spec_total_chunked o opts hq hdd bom N chunks jf (hjf N hN) ts hts hshadow⟩
  · exact absurd he (hno e (hf N hN))

end H5V.Props.C02

/-! ## non-vacuity -/
namespace H5V.Props.C04J.Ex
open H5V.Props.C02.ExParse (doc run)

/-- the joint parse of `ExParse.doc` (DOCTYPE, RCDATA with a character reference, a script with its pause, table
modes, foreign content with a CDATA section) with budget 50 -/
def ok : Bool := match run with | .ok _ => true | .error _ => false

/-- the first disjunct of `C04_joint_total_partial` is inhabited: this parse succeeds -/
example : ok = true := by decide +kernel

end H5V.Props.C04J.Ex

#print axioms H5V.Props.C04J.C04_joint_total_chunked_partial
#print axioms H5V.Props.C04J.C04_joint_total_partial
#print axioms H5V.Props.C04J.C04_joint_total_any_partial
#print axioms H5V.Props.C02.C02_parse_eq_spec_total_nohrun
#print axioms H5V.Props.C02.C02_parse_eq_spec_total_chunked_nohrun
#print axioms H5V.Lemmas.JointTotal.A.processToken_nontag_continue
#print axioms H5V.Lemmas.JointTotal.loop_total
#print axioms H5V.Lemmas.JointTotal.Fin.finish_total
#print axioms H5V.Lemmas.JointTotal.parse_total
