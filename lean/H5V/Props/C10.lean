import H5V.Model.Utf8
import H5V.Spec.Utf8
/-!
C10 — byte-stream front ends decode exactly like a whole-input lossy decode.

Main results (all for **every** list of chunks, no bounds):
* `stdStep_eq_head` — the modelled `core::str::from_utf8` accepts/rejects exactly as Unicode Table 3-7
  (`H5V.Spec.Utf8.head`), with the same `error_len`s.
* `C10_utf8_chunking` — the model of `Utf8LossyDecoder` (process/finish, `decode_utf8`,
  `IncompleteUtf8::try_complete_offsets`) returns `.ok` (no panic branch, loop fuel suffices) and the
  stream of sink calls, errors marked in place, equals the spec's `marked` stream of the concatenation.
  Proved by the invariant `∀ fut, marked (pending ++ rest-of-chunk ++ fut) = emitted ++ marked (pending' ++ fut)`
  which relates the buffered incomplete prefix to the unread suffix.
* corollaries `C10_utf8_text_errors` (text = `lossyBytes`, #errors = `replacements`), `C10_no_panic`,
  `C10_chunking_independent`, `C10_pieces_wellformed`.
* spec sanity: `C10_lossyBytes_roundtrip` (the delivered bytes are well-formed and decode to the same
  scalar values) and `C10_scalar_valid` (shortest form, no surrogates, ≤ U+10FFFF).
* `C10_encoding_rs_partial` (+ `_finish_drains`, `_eof_witness`) — `decode_to_sink` against an arbitrary
  abstract decoder.  **Partial**: the real encoding_rs decoders are not modelled.

Not proved here: `C10_parse` of DESIGN.md 6.10 (tree via `from_utf8()` = tree of the lossy string) —
it needs the tokenizer / tree-builder models and C03; the `utf8 parse` family checks it on the real code.
-/
namespace H5V.Props.C10
open H5V.Model.Utf8 H5V.Spec.Utf8

def toStep : Head → Step
  | .scalar n => .adv n
  | .invalid n => .bad (some n)
  | .truncated => .bad none

/-- which row of Table 3-7 a first byte selects, by numeric range -/
theorem rowOf_cases (b : UInt8) :
    (b.toNat ≤ 0x7F ∧ rowOf b = some [(0x00, 0x7F)]) ∨
    (0xC2 ≤ b.toNat ∧ b.toNat ≤ 0xDF ∧ rowOf b = some [(0xC2, 0xDF), (0x80, 0xBF)]) ∨
    (b.toNat = 0xE0 ∧ rowOf b = some [(0xE0, 0xE0), (0xA0, 0xBF), (0x80, 0xBF)]) ∨
    (0xE1 ≤ b.toNat ∧ b.toNat ≤ 0xEC ∧ rowOf b = some [(0xE1, 0xEC), (0x80, 0xBF), (0x80, 0xBF)]) ∨
    (b.toNat = 0xED ∧ rowOf b = some [(0xED, 0xED), (0x80, 0x9F), (0x80, 0xBF)]) ∨
    (0xEE ≤ b.toNat ∧ b.toNat ≤ 0xEF ∧ rowOf b = some [(0xEE, 0xEF), (0x80, 0xBF), (0x80, 0xBF)]) ∨
    (b.toNat = 0xF0 ∧ rowOf b = some [(0xF0, 0xF0), (0x90, 0xBF), (0x80, 0xBF), (0x80, 0xBF)]) ∨
    (0xF1 ≤ b.toNat ∧ b.toNat ≤ 0xF3 ∧ rowOf b = some [(0xF1, 0xF3), (0x80, 0xBF), (0x80, 0xBF), (0x80, 0xBF)]) ∨
    (b.toNat = 0xF4 ∧ rowOf b = some [(0xF4, 0xF4), (0x80, 0x8F), (0x80, 0xBF), (0x80, 0xBF)]) ∨
    (((0x80 ≤ b.toNat ∧ b.toNat ≤ 0xC1) ∨ 0xF5 ≤ b.toNat) ∧ rowOf b = none) := by
  simp only [rowOf, table, List.find?, inR]
  generalize b.toNat = n
  repeat' split
  all_goals simp_all
  all_goals omega


theorem cw1 {b : UInt8} (h : b.toNat ≤ 0x7F) : charWidth b = 1 := by
  unfold charWidth; repeat' split
  all_goals omega
theorem cw2 {b : UInt8} (h1 : 0xC2 ≤ b.toNat) (h2 : b.toNat ≤ 0xDF) : charWidth b = 2 := by
  unfold charWidth; repeat' split
  all_goals omega
theorem cw3 {b : UInt8} (h1 : 0xE0 ≤ b.toNat) (h2 : b.toNat ≤ 0xEF) : charWidth b = 3 := by
  unfold charWidth; repeat' split
  all_goals omega
theorem cw4 {b : UInt8} (h1 : 0xF0 ≤ b.toNat) (h2 : b.toNat ≤ 0xF4) : charWidth b = 4 := by
  unfold charWidth; repeat' split
  all_goals omega
theorem cw0 {b : UInt8} (h : (0x80 ≤ b.toNat ∧ b.toNat ≤ 0xC1) ∨ 0xF5 ≤ b.toNat) : charWidth b = 0 := by
  unfold charWidth; repeat' split
  all_goals omega

theorem isCont_eq (b : UInt8) : isCont b = inR (0x80, 0xBF) b := by
  rw [Bool.eq_iff_iff]; simp only [isCont, inR, Bool.and_eq_true, decide_eq_true_eq]; omega

macro "bool_omega" : tactic => `(tactic| (
  rw [Bool.eq_iff_iff] <;>
  simp only [second3, second4, inR, Bool.and_eq_true, Bool.or_eq_true, decide_eq_true_eq,
    beq_iff_eq] <;> omega))

theorem second3_E0 {b : UInt8} (h : b.toNat = 0xE0) (b1 : UInt8) : second3 b b1 = inR (0xA0, 0xBF) b1 := by
  bool_omega
theorem second3_E1 {b : UInt8} (h1 : 0xE1 ≤ b.toNat) (h2 : b.toNat ≤ 0xEC) (b1 : UInt8) :
    second3 b b1 = inR (0x80, 0xBF) b1 := by bool_omega
theorem second3_ED {b : UInt8} (h : b.toNat = 0xED) (b1 : UInt8) : second3 b b1 = inR (0x80, 0x9F) b1 := by
  bool_omega
theorem second3_EE {b : UInt8} (h1 : 0xEE ≤ b.toNat) (h2 : b.toNat ≤ 0xEF) (b1 : UInt8) :
    second3 b b1 = inR (0x80, 0xBF) b1 := by bool_omega
theorem second4_F0 {b : UInt8} (h : b.toNat = 0xF0) (b1 : UInt8) : second4 b b1 = inR (0x90, 0xBF) b1 := by
  bool_omega
theorem second4_F1 {b : UInt8} (h1 : 0xF1 ≤ b.toNat) (h2 : b.toNat ≤ 0xF3) (b1 : UInt8) :
    second4 b b1 = inR (0x80, 0xBF) b1 := by bool_omega
theorem second4_F4 {b : UInt8} (h : b.toNat = 0xF4) (b1 : UInt8) : second4 b b1 = inR (0x80, 0x8F) b1 := by
  bool_omega

@[simp] theorem toStep_scalar (n) : toStep (.scalar n) = .adv n := rfl
@[simp] theorem toStep_invalid (n) : toStep (.invalid n) = .bad (some n) := rfl
@[simp] theorem toStep_truncated : toStep .truncated = .bad none := rfl

/-- generic 2-byte row -/
theorem step2 {b : UInt8} {r0 r1 : Range} (hw : charWidth b = 2) (hr : rowOf b = some [r0, r1])
    (h0 : inR r0 b = true) (hc : ∀ b1, isCont b1 = inR r1 b1) (rest : List UInt8) :
    stdStep b rest = toStep (head b rest) := by
  rcases rest with _ | ⟨b1, r⟩
  · simp [stdStep, hw, head, hr, matchLen, h0]
  · cases c1 : inR r1 b1 <;> simp [stdStep, hw, head, hr, matchLen, h0, hc, c1]

/-- generic 3-byte row -/
theorem step3 {b : UInt8} {r0 r1 r2 : Range} (hw : charWidth b = 3) (hr : rowOf b = some [r0, r1, r2])
    (h0 : inR r0 b = true) (hs : ∀ b1, second3 b b1 = inR r1 b1) (hc : ∀ b2, isCont b2 = inR r2 b2)
    (rest : List UInt8) : stdStep b rest = toStep (head b rest) := by
  rcases rest with _ | ⟨b1, _ | ⟨b2, r⟩⟩
  · simp [stdStep, hw, head, hr, matchLen, h0]
  · cases c1 : inR r1 b1 <;> simp [stdStep, hw, head, hr, matchLen, h0, hs, c1]
  · cases c1 : inR r1 b1 <;> cases c2 : inR r2 b2 <;>
      simp [stdStep, hw, head, hr, matchLen, h0, hs, hc, c1, c2]

/-- generic 4-byte row -/
theorem step4 {b : UInt8} {r0 r1 r2 : Range} (hw : charWidth b = 4) (hr : rowOf b = some [r0, r1, r2, r2])
    (h0 : inR r0 b = true) (hs : ∀ b1, second4 b b1 = inR r1 b1) (hc2 : ∀ b2, isCont b2 = inR r2 b2)
    (rest : List UInt8) : stdStep b rest = toStep (head b rest) := by
  rcases rest with _ | ⟨b1, _ | ⟨b2, _ | ⟨b3, r⟩⟩⟩
  · simp [stdStep, hw, head, hr, matchLen, h0]
  · cases c1 : inR r1 b1 <;> simp [stdStep, hw, head, hr, matchLen, h0, hs, c1]
  · cases c1 : inR r1 b1 <;> cases c2 : inR r2 b2 <;>
      simp [stdStep, hw, head, hr, matchLen, h0, hs, hc2, c1, c2]
  · cases c1 : inR r1 b1 <;> cases c2 : inR r2 b2 <;> cases c3 : inR r2 b3 <;>
      simp [stdStep, hw, head, hr, matchLen, h0, hs, hc2, c1, c2, c3]

/-- **The modelled `str::from_utf8` step agrees with Table 3-7**: one iteration of the validation loop
accepts / rejects exactly what the table-driven `head` says, with the same lengths. -/
theorem stdStep_eq_head (b : UInt8) (rest : List UInt8) : stdStep b rest = toStep (head b rest) := by
  have H := rowOf_cases b
  rcases H with ⟨h, hr⟩ | ⟨h1, h2, hr⟩ | ⟨h, hr⟩ | ⟨h1, h2, hr⟩ | ⟨h, hr⟩ | ⟨h1, h2, hr⟩ | ⟨h, hr⟩ |
    ⟨h1, h2, hr⟩ | ⟨h, hr⟩ | ⟨h, hr⟩
  · simp [stdStep, cw1 h, head, hr, matchLen, inR, h]
  · exact step2 (cw2 h1 h2) hr (by simp [inR, h1, h2]) isCont_eq rest
  · exact step3 (cw3 (by omega) (by omega)) hr (by simp [inR, h]) (second3_E0 h) isCont_eq rest
  · exact step3 (cw3 (by omega) (by omega)) hr (by simp [inR, h1, h2]) (second3_E1 h1 h2) isCont_eq rest
  · exact step3 (cw3 (by omega) (by omega)) hr (by simp [inR, h]) (second3_ED h) isCont_eq rest
  · exact step3 (cw3 (by omega) (by omega)) hr (by simp [inR, h1, h2]) (second3_EE h1 h2) isCont_eq rest
  · exact step4 (cw4 (by omega) (by omega)) hr (by simp [inR, h]) (second4_F0 h) isCont_eq rest
  · exact step4 (cw4 (by omega) (by omega)) hr (by simp [inR, h1, h2]) (second4_F1 h1 h2) isCont_eq rest
  · exact step4 (cw4 (by omega) (by omega)) hr (by simp [inR, h]) (second4_F4 h) isCont_eq rest
  · simp [stdStep, cw0 h, head, hr]


/-! ### properties of the table-driven `head` -/

theorem matchLen_le (row : List Range) (bs : List UInt8) :
    matchLen row bs ≤ row.length ∧ matchLen row bs ≤ bs.length := by
  induction row generalizing bs with
  | nil => simp [matchLen]
  | cons r rs ih =>
    cases bs with
    | nil => simp [matchLen]
    | cons b bs =>
      simp only [matchLen]; split
      · have := ih bs; simp; omega
      · simp

/-- once the match has stopped inside the input (mismatch or row exhausted) more input changes nothing -/
theorem matchLen_append_stable (row : List Range) (bs x : List UInt8)
    (h : matchLen row bs = row.length ∨ matchLen row bs < bs.length) :
    matchLen row (bs ++ x) = matchLen row bs := by
  induction row generalizing bs with
  | nil => simp [matchLen]
  | cons r rs ih =>
    cases bs with
    | nil => simp [matchLen] at h
    | cons b bs =>
      simp only [List.cons_append, matchLen] at h ⊢
      split
      · rename_i hb
        simp only [hb, ↓reduceIte, List.length_cons, Nat.add_right_cancel_iff, Nat.add_lt_add_iff_right] at h
        rw [ih bs h]
      · rfl

theorem matchLen_append_mono (row : List Range) (bs x : List UInt8) :
    matchLen row bs ≤ matchLen row (bs ++ x) := by
  induction row generalizing bs with
  | nil => simp [matchLen]
  | cons r rs ih =>
    cases bs with
    | nil => simp [matchLen]
    | cons b bs =>
      simp only [List.cons_append, matchLen]
      split
      · have := ih bs; omega
      · omega

theorem rowOf_some {b : UInt8} {row : List Range} (h : rowOf b = some row) :
    ∃ r rs, row = r :: rs ∧ inR r b = true ∧ row.length ≤ 4 := by
  have hm : row ∈ table := List.mem_of_find?_eq_some h
  have hp := List.find?_some h
  have hl : row.length ≤ 4 := by
    simp only [table, List.mem_cons, List.not_mem_nil, or_false] at hm
    rcases hm with rfl | rfl | rfl | rfl | rfl | rfl | rfl | rfl | rfl <;> simp
  cases row with
  | nil => simp at hp
  | cons r rs => exact ⟨r, rs, rfl, by simpa using hp, hl⟩

/-- facts shared by all verdicts -/
theorem head_bounds (b : UInt8) (rest : List UInt8) :
    (∀ n, head b rest = .scalar n → 1 ≤ n ∧ n ≤ rest.length + 1 ∧ n ≤ 4) ∧
    (∀ n, head b rest = .invalid n → 1 ≤ n ∧ n ≤ rest.length + 1 ∧ n ≤ 3) ∧
    (head b rest = .truncated → rest.length + 1 ≤ 3) := by
  unfold head
  cases hr : rowOf b with
  | none => simp
  | some row =>
    obtain ⟨r, rs, rfl, hb, hl⟩ := rowOf_some hr
    have hm := matchLen_le (r :: rs) (b :: rest)
    have h1 : 1 ≤ matchLen (r :: rs) (b :: rest) := by simp [matchLen, hb]
    simp only [List.length_cons] at hm hl ⊢
    refine ⟨?_, ?_, ?_⟩
    · intro n; split
      · intro h; cases h; omega
      · split <;> simp
    · intro n; split
      · simp
      · split
        · simp
        · intro h; cases h; omega
    · split
      · simp
      · split
        · intro _; omega
        · simp

/-- a verdict other than `truncated` does not depend on what follows -/
theorem head_append (b : UInt8) (rest x : List UInt8) (h : head b rest ≠ .truncated) :
    head b (rest ++ x) = head b rest := by
  unfold head at h ⊢
  cases hr : rowOf b with
  | none => rfl
  | some row =>
    simp only [hr] at h ⊢
    have hm := matchLen_le row (b :: rest)
    have hst : matchLen row (b :: rest ++ x) = matchLen row (b :: rest) := by
      apply matchLen_append_stable
      by_cases h1 : matchLen row (b :: rest) = row.length
      · exact Or.inl h1
      · right
        simp only [h1, ↓reduceIte] at h
        by_cases h2 : matchLen row (b :: rest) = (b :: rest).length
        · simp [h2] at h
        · omega
    rw [← List.cons_append, hst]
    by_cases h1 : matchLen row (b :: rest) = row.length
    · simp [h1]
    · simp only [h1, ↓reduceIte] at h ⊢
      by_cases h2 : matchLen row (b :: rest) = (b :: rest).length
      · simp [h2] at h
      · have : ¬ matchLen row (b :: rest) = (b :: rest ++ x).length := by
          simp only [List.length_cons, List.length_append] at h2 hm ⊢; omega
        rw [if_neg this, if_neg h2]

/-- extending a truncated sequence: whatever comes out covers at least the bytes already seen -/
theorem head_trunc_append (b : UInt8) (rest x : List UInt8) (h : head b rest = .truncated) :
    (∀ n, head b (rest ++ x) = .scalar n → rest.length + 1 < n) ∧
    (∀ n, head b (rest ++ x) = .invalid n → rest.length + 1 ≤ n) := by
  unfold head at h ⊢
  cases hr : rowOf b with
  | none => simp [hr] at h
  | some row =>
    simp only [hr] at h ⊢
    have hmono := matchLen_append_mono row (b :: rest) x
    rw [List.cons_append] at hmono
    by_cases h1 : matchLen row (b :: rest) = row.length
    · simp [h1] at h
    · simp only [h1, ↓reduceIte] at h
      by_cases h2 : matchLen row (b :: rest) = (b :: rest).length
      · have hm := matchLen_le row (b :: rest)
        simp only [List.length_cons] at h2 hm
        refine ⟨?_, ?_⟩
        · intro n; split
          · intro hh; cases hh; omega
          · split <;> simp
        · intro n; split
          · simp
          · split
            · simp
            · intro hh; cases hh; omega
      · rw [if_neg h2] at h; cases h


theorem matchLen_take (row : List Range) (bs : List UInt8) :
    matchLen row (bs.take (matchLen row bs)) = matchLen row bs := by
  induction row generalizing bs with
  | nil => simp [matchLen]
  | cons r rs ih =>
    cases bs with
    | nil => simp [matchLen]
    | cons b bs =>
      simp only [matchLen]
      split
      · rename_i hb; simp [matchLen, hb, ih]
      · simp [matchLen]

/-- a well-formed sequence is recognised from its own bytes alone -/
theorem head_take {b : UInt8} {rest : List UInt8} {n : Nat} (h : head b rest = .scalar n) :
    head b (rest.take (n - 1)) = .scalar n := by
  have hb := (head_bounds b rest).1 n h
  unfold head at h ⊢
  cases hr : rowOf b with
  | none => simp [hr] at h
  | some row =>
    simp only [hr] at h ⊢
    by_cases h1 : matchLen row (b :: rest) = row.length
    · simp only [h1, ↓reduceIte, Head.scalar.injEq] at h
      have := matchLen_take row (b :: rest)
      rw [h1, h] at this
      obtain ⟨m, rfl⟩ : ∃ m, n = m + 1 := ⟨n - 1, by omega⟩
      simp only [List.take_succ_cons] at this
      simp [this, h]
    · simp only [h1, ↓reduceIte] at h
      split at h <;> cases h

/-! ### the decoded stream, one head unit at a time -/

theorem units_cons (b : UInt8) (rest : List UInt8) :
    units (b :: rest) = match head b rest with
      | .scalar n => .scalar (b :: rest.take (n - 1)) :: units (rest.drop (n - 1))
      | .invalid n => .repl :: units (rest.drop (n - 1))
      | .truncated => [.repl] := by
  rw [units]; rfl

def replMarked : List (Option UInt8) := none :: replBytes.map some

theorem marked_nil : marked [] = [] := by simp [marked, units]

theorem marked_scalar {b : UInt8} {rest : List UInt8} {n : Nat} (h : head b rest = .scalar n)
    (fut : List UInt8) :
    marked (b :: rest ++ fut) = ((b :: rest).take n).map some ++ marked ((b :: rest).drop n ++ fut) := by
  have hb := (head_bounds b rest).1 n h
  have he : head b (rest ++ fut) = .scalar n := by rw [head_append _ _ _ (by simp [h]), h]
  obtain ⟨m, rfl⟩ : ∃ m, n = m + 1 := ⟨n - 1, by omega⟩
  have hm : m ≤ rest.length := by omega
  simp only [marked, List.cons_append, units_cons, he, Nat.add_sub_cancel, List.flatMap_cons, Unit.marked,
    List.take_succ_cons, List.drop_succ_cons, List.take_append_of_le_length hm,
    List.drop_append_of_le_length hm]

theorem marked_invalid {b : UInt8} {rest : List UInt8} {n : Nat} (h : head b rest = .invalid n)
    (fut : List UInt8) :
    marked (b :: rest ++ fut) = replMarked ++ marked ((b :: rest).drop n ++ fut) := by
  have hb := (head_bounds b rest).2.1 n h
  have he : head b (rest ++ fut) = .invalid n := by rw [head_append _ _ _ (by simp [h]), h]
  obtain ⟨m, rfl⟩ : ∃ m, n = m + 1 := ⟨n - 1, by omega⟩
  have hm : m ≤ rest.length := by omega
  simp only [marked, List.cons_append, units_cons, he, Nat.add_sub_cancel, List.flatMap_cons, Unit.marked,
    List.drop_succ_cons, List.drop_append_of_le_length hm, replMarked]

theorem marked_truncated {b : UInt8} {rest : List UInt8} (h : head b rest = .truncated) :
    marked (b :: rest) = replMarked := by
  simp [marked, units_cons, h, Unit.marked, replMarked]

/-- `p` is well-formed UTF-8 in the streaming sense: it decodes to itself whatever follows -/
def ValidPrefix (p : List UInt8) : Prop := ∀ fut, marked (p ++ fut) = p.map some ++ marked fut

theorem validPrefix_nil : ValidPrefix [] := by intro fut; simp

theorem validPrefix_append {p q : List UInt8} (hp : ValidPrefix p) (hq : ValidPrefix q) :
    ValidPrefix (p ++ q) := by
  intro fut; rw [List.append_assoc, hp, hq]; simp

/-- a pending incomplete sequence: non-empty proper prefix of a well-formed sequence -/
def Trunc (t : List UInt8) : Prop := ∃ b r, t = b :: r ∧ head b r = .truncated

/-! ### the modelled `from_utf8` in terms of the spec -/

theorem fromUtf8Go_spec (idx : Nat) (bs : List UInt8) :
    match fromUtf8Go idx bs with
    | .ok => ValidPrefix bs
    | .err v e => ∃ p b r, bs = p ++ b :: r ∧ v = idx + p.length ∧ ValidPrefix p ∧ stdStep b r = .bad e := by
  induction h : bs.length using Nat.strongRecOn generalizing idx bs with
  | _ len ih =>
    cases bs with
    | nil => rw [fromUtf8Go]; exact validPrefix_nil
    | cons b rest =>
      rw [fromUtf8Go]
      have hs := stdStep_eq_head b rest
      cases hh : head b rest with
      | scalar n =>
        have hb := (head_bounds b rest).1 n hh
        rw [hh] at hs; simp only [toStep_scalar] at hs
        simp only [hs]
        obtain ⟨m, rfl⟩ : ∃ m, n = m + 1 := ⟨n - 1, by omega⟩
        have hm : m ≤ rest.length := by omega
        simp only [Nat.add_sub_cancel] at *
        have hv : ValidPrefix (b :: rest.take m) := by
          intro fut
          have := marked_scalar (head_take hh) fut
          simp only [Nat.add_sub_cancel] at this
          rw [this]
          have hl : (rest.take m).length = m := by simp [hm]
          simp [List.take_of_length_le, List.drop_of_length_le, hl]
        have hsplit : b :: rest = (b :: rest.take m) ++ rest.drop m := by simp
        have hlt : (rest.drop m).length < len := by subst h; simp; omega
        have := ih _ hlt (idx + (m + 1)) (rest.drop m) rfl
        generalize fromUtf8Go (idx + (m + 1)) (rest.drop m) = res at this ⊢
        cases res with
        | ok =>
          simp only at this ⊢
          rw [hsplit]; exact validPrefix_append hv this
        | err v e =>
          simp only at this ⊢
          obtain ⟨p, b', r', hp, hvv, hvp, hst⟩ := this
          refine ⟨(b :: rest.take m) ++ p, b', r', ?_, ?_, validPrefix_append hv hvp, hst⟩
          · rw [List.append_assoc, ← hp]; exact hsplit
          · simp [hvv, hm]; omega
      | invalid n =>
        rw [hh] at hs; simp only [toStep_invalid] at hs
        simp only [hs]
        exact ⟨[], b, rest, by simp, by simp, validPrefix_nil, hs⟩
      | truncated =>
        rw [hh] at hs; simp only [toStep_truncated] at hs
        simp only [hs]
        exact ⟨[], b, rest, by simp, by simp, validPrefix_nil, hs⟩


theorem fromUtf8Go_ge {idx : Nat} {bs : List UInt8} {v : Nat} {e : Option Nat}
    (h : fromUtf8Go idx bs = .err v e) : idx ≤ v := by
  have := fromUtf8Go_spec idx bs
  rw [h] at this
  obtain ⟨p, _, _, _, hv, _⟩ := this
  omega

/-- the first iteration decides: either the error is right here, or a scalar was accepted first -/
theorem fromUtf8Go_first {idx : Nat} {b : UInt8} {rest : List UInt8} {v : Nat} {e : Option Nat}
    (h : fromUtf8Go idx (b :: rest) = .err v e) :
    (v = idx ∧ stdStep b rest = .bad e) ∨ (∃ n, head b rest = .scalar n ∧ idx + n ≤ v) := by
  rw [fromUtf8Go] at h
  have hs := stdStep_eq_head b rest
  cases hh : head b rest with
  | scalar n =>
    rw [hh] at hs; simp only [toStep_scalar] at hs
    simp only [hs] at h
    exact Or.inr ⟨n, rfl, fromUtf8Go_ge h⟩
  | invalid n =>
    rw [hh] at hs; simp only [toStep_invalid] at hs
    simp only [hs, Utf8Res.err.injEq] at h
    exact Or.inl ⟨h.1.symm, by rw [hs, h.2]⟩
  | truncated =>
    rw [hh] at hs; simp only [toStep_truncated] at hs
    simp only [hs, Utf8Res.err.injEq] at h
    exact Or.inl ⟨h.1.symm, by rw [hs, h.2]⟩

theorem bad_head {b : UInt8} {r : List UInt8} {e : Option Nat} (h : stdStep b r = .bad e) :
    (∃ n, e = some n ∧ head b r = .invalid n) ∨ (e = none ∧ head b r = .truncated) := by
  rw [stdStep_eq_head] at h
  cases hh : head b r with
  | scalar n => simp [hh] at h
  | invalid n => simp only [hh, toStep_invalid, Step.bad.injEq] at h; exact Or.inl ⟨n, h.symm, rfl⟩
  | truncated => simp only [hh, toStep_truncated, Step.bad.injEq] at h; exact Or.inr ⟨h.symm, rfl⟩

/-! ### decode_utf8 -/

theorem decodeUtf8_spec (input : List UInt8) :
    ∃ d, decodeUtf8 input = .ok d ∧
      match d with
      | .ok => ValidPrefix input
      | .invalid v n => ∃ p b r, input = p ++ b :: r ∧ v = p.length ∧ ValidPrefix p ∧ head b r = .invalid n
      | .incomplete v inc => ∃ p b r, input = p ++ b :: r ∧ v = p.length ∧ ValidPrefix p ∧
          head b r = .truncated ∧ inc.buf = b :: r := by
  unfold decodeUtf8 fromUtf8
  have hspec := fromUtf8Go_spec 0 input
  generalize fromUtf8Go 0 input = res at hspec
  cases res with
  | ok => exact ⟨.ok, rfl, hspec⟩
  | err v e =>
    obtain ⟨p, b, r, hin, hv, hvp, hst⟩ := hspec
    simp only [Nat.zero_add] at hv
    have hlen : ¬ v > input.length := by subst hin hv; simp
    have hdrop : input.drop v = b :: r := by subst hin hv; simp
    simp only [hlen, ↓reduceIte, hdrop]
    rcases bad_head hst with ⟨n, rfl, hh⟩ | ⟨rfl, hh⟩
    · have hb := (head_bounds b r).2.1 n hh
      have : ¬ n > (b :: r).length := by simp; omega
      simp only [this, ↓reduceIte]
      exact ⟨_, rfl, p, b, r, hin, hv, hvp, hh⟩
    · have hb := (head_bounds b r).2.2 hh
      have : ¬ (b :: r).length > 4 := by simp; omega
      simp only [Incomplete.new, this, ↓reduceIte, bind, Except.bind]
      exact ⟨_, rfl, p, b, r, hin, hv, hvp, hh, rfl⟩


/-! ### the sink's view -/

def pendOf : Option Incomplete → List UInt8
  | none => []
  | some i => i.buf

/-- every text piece handed to the sink is non-empty well-formed UTF-8 -/
def GoodPieces (evs : List Event) : Prop := ∀ p, Event.text p ∈ evs → ValidPrefix p ∧ p ≠ []

@[simp] theorem markedOf_nil : markedOf [] = [] := rfl
@[simp] theorem markedOf_append (a b : List Event) : markedOf (a ++ b) = markedOf a ++ markedOf b := by
  simp [markedOf]
@[simp] theorem markedOf_text (p : List UInt8) : markedOf [.text p] = p.map some := by
  simp [markedOf, Event.marked]
theorem markedOf_repl : markedOf [.error, .text replacement] = replMarked := by
  simp [markedOf, Event.marked, replMarked, replacement, replBytes]

theorem validPrefix_replacement : ValidPrefix replacement := by
  intro fut
  have h : head 0xEF [0xBF, 0xBD] = .scalar 3 := by decide
  have := marked_scalar h fut
  simpa [replacement] using this

theorem goodPieces_nil : GoodPieces [] := by intro p hp; cases hp
theorem goodPieces_append {a b : List Event} (ha : GoodPieces a) (hb : GoodPieces b) : GoodPieces (a ++ b) := by
  intro p hp; rcases List.mem_append.1 hp with h | h
  · exact ha p h
  · exact hb p h
theorem goodPieces_text {p : List UInt8} (hv : ValidPrefix p) (hne : p ≠ []) : GoodPieces [.text p] := by
  intro q hq; simp at hq; subst hq; exact ⟨hv, hne⟩
theorem goodPieces_repl : GoodPieces [.error, .text replacement] := by
  intro q hq; simp at hq; subst hq; exact ⟨validPrefix_replacement, by simp [replacement]⟩

/-! ### the `while` loop of `process` -/

theorem processLoop_spec (fuel : Nat) (bytes : List UInt8) (evs : List Event) (hf : bytes.length ≤ fuel) :
    ∃ evs' inc', processLoop fuel bytes evs = .ok (evs ++ evs', inc') ∧
      (∀ fut, marked (bytes ++ fut) = markedOf evs' ++ marked (pendOf inc' ++ fut)) ∧
      (∀ i, inc' = some i → Trunc i.buf) ∧ GoodPieces evs' := by
  induction fuel generalizing bytes evs with
  | zero =>
    cases bytes with
    | nil => exact ⟨[], none, by simp [processLoop], by simp [pendOf], by simp, goodPieces_nil⟩
    | cons b bs => simp at hf
  | succ fuel ih =>
    cases bytes with
    | nil => exact ⟨[], none, by simp [processLoop], by simp [pendOf], by simp, goodPieces_nil⟩
    | cons b0 bs =>
      obtain ⟨d, hd, hspec⟩ := decodeUtf8_spec (b0 :: bs)
      simp only [processLoop, hd, bind, Except.bind]
      cases d with
      | ok =>
        simp only at hspec ⊢
        exact ⟨[.text (b0 :: bs)], none, rfl, by intro fut; rw [hspec fut]; simp [pendOf], by simp,
          goodPieces_text hspec (by simp)⟩
      | invalid v n =>
        obtain ⟨p, b, r, hin, hv, hvp, hh⟩ := hspec
        have hb := (head_bounds b r).2.1 n hh
        have hlen : (b0 :: bs).length = p.length + (r.length + 1) := by rw [hin]; simp
        have h1 : ¬ v > (b0 :: bs).length := by omega
        have h2 : ¬ v + n > (b0 :: bs).length := by omega
        simp only [h1, h2, ↓reduceIte]
        have hdrop : (b0 :: bs).drop (v + n) = (b :: r).drop n := by
          rw [hin, hv, List.drop_append]; simp
        have htake : (b0 :: bs).take v = p := by rw [hin, hv]; simp
        have hfuel : ((b :: r).drop n).length ≤ fuel := by
          simp only [List.length_cons, List.length_drop] at hf hlen ⊢; omega
        rw [hdrop, htake]
        obtain ⟨evs2, inc', hrec, hm, ht, hg⟩ := ih ((b :: r).drop n)
          ((if v > 0 then evs ++ [.text p] else evs) ++ [.error, .text replacement]) hfuel
        refine ⟨(if v > 0 then [.text p] else []) ++ [.error, .text replacement] ++ evs2, inc', ?_, ?_, ht, ?_⟩
        · rw [hrec]; congr 2; split <;> simp
        · intro fut
          rw [hin, List.append_assoc, hvp, marked_invalid hh, hm]
          have : markedOf (if v > 0 then [Event.text p] else []) = p.map some := by
            split
            · simp
            · have : p = [] := by apply List.eq_nil_of_length_eq_zero; omega
              simp [this]
          simp only [markedOf_append, this, markedOf_repl, List.append_assoc]
        · apply goodPieces_append (goodPieces_append ?_ goodPieces_repl) hg
          split
          · apply goodPieces_text hvp; intro h0; simp [h0] at hv; omega
          · exact goodPieces_nil
      | incomplete v inc =>
        obtain ⟨p, b, r, hin, hv, hvp, hh, hbuf⟩ := hspec
        have hlen : (b0 :: bs).length = p.length + (r.length + 1) := by rw [hin]; simp
        have h1 : ¬ v > (b0 :: bs).length := by omega
        have htake : (b0 :: bs).take v = p := by rw [hin, hv]; simp
        simp only [h1, ↓reduceIte, htake]
        refine ⟨(if v > 0 then [.text p] else []), some inc, ?_, ?_, ?_, ?_⟩
        · congr 2; split <;> simp
        · intro fut
          rw [hin, List.append_assoc, hvp]
          have : markedOf (if v > 0 then [Event.text p] else []) = p.map some := by
            split
            · simp
            · have : p = [] := by apply List.eq_nil_of_length_eq_zero; omega
              simp [this]
          simp [this, pendOf, hbuf]
        · intro i hi; cases hi; exact ⟨b, r, hbuf, hh⟩
        · split
          · apply goodPieces_text hvp; intro h0; simp [h0] at hv; omega
          · exact goodPieces_nil


/-! ### IncompleteUtf8::try_complete_offsets / try_to_complete_codepoint -/

theorem drop_splice (t input : List UInt8) (n : Nat) (h : t.length ≤ n) :
    (t ++ input).drop n = input.drop (n - t.length) := by
  rw [List.drop_append]; simp [List.drop_of_length_le h]

theorem tryCompleteOffsets_spec (inc : Incomplete) (input : List UInt8) (ht : Trunc inc.buf) :
    ∃ inc' k verdict, tryCompleteOffsets inc input = .ok (inc', k, verdict) ∧
      match verdict with
      | .notEnoughInput => inc'.buf = inc.buf ++ input ∧ Trunc inc'.buf
      | .valid => k ≤ input.length ∧ inc'.buf.length ≤ 4 ∧ ValidPrefix inc'.buf ∧ inc'.buf ≠ [] ∧
          ∀ fut, marked (inc.buf ++ input ++ fut) = inc'.buf.map some ++ marked (input.drop k ++ fut)
      | .malformed => k ≤ input.length ∧ inc'.buf.length ≤ 4 ∧
          ∀ fut, marked (inc.buf ++ input ++ fut) = replMarked ++ marked (input.drop k ++ fut) := by
  obtain ⟨b, r, hbuf, hh⟩ := ht
  have hl3 := (head_bounds b r).2.2 hh
  have htl : inc.buf.length = r.length + 1 := by rw [hbuf]; simp
  unfold tryCompleteOffsets
  have h4 : ¬ inc.buf.length > 4 := by omega
  simp only [h4, ↓reduceIte]
  generalize hc : min (4 - inc.buf.length) input.length = c
  have hc1 : c ≤ input.length := by omega
  have hc2 : inc.buf.length + c ≤ 4 := by omega
  have hsplice : ∀ fut, inc.buf ++ input ++ fut = (inc.buf ++ input.take c) ++ (input.drop c ++ fut) := by
    intro fut
    rw [List.append_assoc, List.append_assoc, ← List.append_assoc (input.take c), List.take_append_drop]
  have hwhole : inc.buf ++ input = (inc.buf ++ input.take c) ++ input.drop c := by
    rw [List.append_assoc, List.take_append_drop]
  have hspl : inc.buf ++ input.take c = b :: (r ++ input.take c) := by rw [hbuf]; simp
  have hsl : (inc.buf ++ input.take c).length = inc.buf.length + c := by
    simp only [List.length_append, List.length_take]; omega
  unfold fromUtf8
  have hspec := fromUtf8Go_spec 0 (inc.buf ++ input.take c)
  cases hres : fromUtf8Go 0 (inc.buf ++ input.take c) with
  | ok =>
    rw [hres] at hspec
    simp only at hspec ⊢
    refine ⟨_, _, _, rfl, hc1, by dsimp only; omega, hspec, by dsimp only; rw [hspl]; simp, ?_⟩
    intro fut; rw [hsplice, hspec]
  | err v e =>
    rw [hres] at hspec
    obtain ⟨p, b', r', hp, hv, hvp, hst⟩ := hspec
    simp only [Nat.zero_add] at hv
    rw [hspl] at hres
    have hfirst := fromUtf8Go_first hres
    have hta := head_trunc_append b r (input.take c) hh
    have hpl : p.length + (r'.length + 1) = inc.buf.length + c := by
      have := congrArg List.length hp
      rw [hsl] at this; simp only [List.length_append, List.length_cons] at this; omega
    simp only
    by_cases hv0 : v > 0
    · -- a code point was completed
      rcases hfirst with ⟨h0, _⟩ | ⟨n, hn, hnv⟩
      · omega
      · have := hta.1 n hn
        have hge : ¬ v < inc.buf.length := by omega
        simp only [hv0, ↓reduceIte, hge]
        have htk : (inc.buf ++ input.take c).take v = p := by rw [hp, hv]; simp
        refine ⟨_, _, _, rfl, by omega, by dsimp only; rw [htk]; omega, by dsimp only; rw [htk]; exact hvp,
          by dsimp only; rw [htk]; intro h0; rw [h0] at hv; simp at hv; omega, ?_⟩
        intro fut
        dsimp only
        rw [htk]
        have hd : input.drop (v - inc.buf.length) = b' :: r' ++ input.drop c := by
          rw [← drop_splice inc.buf input v (by omega), hwhole, hp, hv]; simp
        rw [hd, hsplice, hp, List.append_assoc, hvp]; simp
    · have hv0' : v = 0 := by omega
      simp only [hv0, ↓reduceIte]
      rcases hfirst with ⟨_, hbad⟩ | ⟨n, hn, hnv⟩
      · rcases bad_head hbad with ⟨n, rfl, hinv⟩ | ⟨rfl, htr⟩
        · -- the buffered bytes (plus possibly more) are a maximal ill-formed subpart
          have hn := hta.2 n hinv
          have hb := (head_bounds b (r ++ input.take c)).2.1 n hinv
          have hge : ¬ n < inc.buf.length := by omega
          simp only [hge, ↓reduceIte]
          have hrl : (r ++ input.take c).length + 1 = inc.buf.length + c := by rw [← hsl, hspl]; simp
          refine ⟨_, _, _, rfl, by omega, by dsimp only; rw [List.length_take]; omega, ?_⟩
          intro fut
          have hd : input.drop (n - inc.buf.length) = (b :: (r ++ input.take c)).drop n ++ input.drop c := by
            rw [← drop_splice inc.buf input n (by omega), hwhole, hspl,
              List.drop_append_of_le_length (by simp only [List.length_cons]; omega)]
          rw [hd, hsplice, hspl, marked_invalid hinv, List.append_assoc]
        · -- still incomplete: everything was copied
          have hb := (head_bounds b (r ++ input.take c)).2.2 htr
          have hrl : (r ++ input.take c).length + 1 = inc.buf.length + c := by rw [← hsl, hspl]; simp
          have hcc : c = input.length := by omega
          have htake : input.take c = input := by rw [hcc]; simp
          refine ⟨_, _, _, rfl, by simp only; rw [htake], ?_⟩
          simp only; rw [htake] at hspl ⊢
          exact ⟨b, _, hspl, by rw [← htake]; exact htr⟩
      · have := (head_bounds b (r ++ input.take c)).1 n hn
        omega

theorem tryToCompleteCodepoint_spec (inc : Incomplete) (input : List UInt8) (ht : Trunc inc.buf) :
    ∃ c, tryToCompleteCodepoint inc input = .ok c ∧
      match c with
      | .needMore inc' => inc'.buf = inc.buf ++ input ∧ Trunc inc'.buf
      | .done okText taken remaining => ∃ k, k ≤ input.length ∧ remaining = input.drop k ∧
          (okText = true → ValidPrefix taken ∧ taken ≠ []) ∧
          ∀ fut, marked (inc.buf ++ input ++ fut) =
            (if okText then taken.map some else replMarked) ++ marked (remaining ++ fut) := by
  obtain ⟨inc', k, verdict, hok, hspec⟩ := tryCompleteOffsets_spec inc input ht
  unfold tryToCompleteCodepoint
  simp only [hok, bind, Except.bind]
  cases verdict with
  | notEnoughInput => exact ⟨_, rfl, hspec⟩
  | malformed =>
    obtain ⟨hk, hl, hm⟩ := hspec
    have h1 : ¬ inc'.buf.length > 4 := by omega
    have h2 : ¬ k > input.length := by omega
    simp only [h1, h2, ↓reduceIte]
    exact ⟨_, rfl, k, hk, rfl, by simp, by simpa using hm⟩
  | valid =>
    obtain ⟨hk, hl, hv, hne, hm⟩ := hspec
    have h1 : ¬ inc'.buf.length > 4 := by omega
    have h2 : ¬ k > input.length := by omega
    simp only [h1, h2, ↓reduceIte]
    exact ⟨_, rfl, k, hk, rfl, fun _ => ⟨hv, hne⟩, by simpa using hm⟩


/-! ### Utf8LossyDecoder::process / finish -/

/-- the decoder's state invariant: a pending buffer is a proper prefix of a well-formed sequence -/
def Inv (d : Decoder) : Prop := ∀ i, d.incomplete = some i → Trunc i.buf

theorem process_spec (d : Decoder) (bytes : List UInt8) (hinv : Inv d) :
    ∃ evs' inc', process d bytes = .ok ⟨inc', d.events ++ evs'⟩ ∧
      (∀ fut, marked (pendOf d.incomplete ++ bytes ++ fut) = markedOf evs' ++ marked (pendOf inc' ++ fut)) ∧
      (∀ i, inc' = some i → Trunc i.buf) ∧ GoodPieces evs' := by
  unfold process
  cases hi : d.incomplete with
  | none =>
    obtain ⟨evs', inc', hl, hm, ht, hg⟩ := processLoop_spec bytes.length bytes d.events (Nat.le_refl _)
    simp only [hl, bind, Except.bind]
    exact ⟨evs', inc', rfl, by simpa [pendOf] using hm, ht, hg⟩
  | some inc =>
    obtain ⟨c, hc, hspec⟩ := tryToCompleteCodepoint_spec inc bytes (hinv inc hi)
    simp only [hc, bind, Except.bind]
    cases c with
    | needMore inc' =>
      obtain ⟨hb, ht⟩ := hspec
      refine ⟨[], some inc', by simp, ?_, ?_, goodPieces_nil⟩
      · intro fut; simp [pendOf, hb]
      · intro i h; cases h; exact ht
    | done okText taken remaining =>
      obtain ⟨k, hk, hrem, hgood, hm⟩ := hspec
      have h1 : ¬ remaining.length > bytes.length := by rw [hrem]; simp
      have h2 : bytes.drop (bytes.length - remaining.length) = remaining := by
        rw [hrem, List.length_drop]; congr 1; omega
      simp only [h1, ↓reduceIte, h2]
      obtain ⟨evs', inc', hl, hm', ht, hg⟩ := processLoop_spec remaining.length remaining
        (if okText then d.events ++ [.text taken] else d.events ++ [.error, .text replacement]) (Nat.le_refl _)
      rw [hl]
      refine ⟨(if okText then [.text taken] else [.error, .text replacement]) ++ evs', inc', ?_, ?_, ht, ?_⟩
      · simp only; congr 2; split <;> simp
      · intro fut
        have e : pendOf (some inc) = inc.buf := rfl
        rw [e, hm, hm']
        cases okText
        · simp only [Bool.false_eq_true, ↓reduceIte, markedOf_append, markedOf_repl, List.append_assoc]
        · simp only [↓reduceIte, markedOf_append, markedOf_text, List.append_assoc]
      · apply goodPieces_append _ hg
        cases okText
        · exact goodPieces_repl
        · exact goodPieces_text (hgood rfl).1 (hgood rfl).2

theorem feedAll_spec (d : Decoder) (chunks : List (List UInt8)) (hinv : Inv d) :
    ∃ evs' inc', feedAll d chunks = .ok ⟨inc', d.events ++ evs'⟩ ∧
      (∀ fut, marked (pendOf d.incomplete ++ chunks.flatten ++ fut) = markedOf evs' ++ marked (pendOf inc' ++ fut)) ∧
      (∀ i, inc' = some i → Trunc i.buf) ∧ GoodPieces evs' := by
  induction chunks generalizing d with
  | nil =>
    refine ⟨[], d.incomplete, by simp [feedAll], by simp, hinv, goodPieces_nil⟩
  | cons c cs ih =>
    obtain ⟨e1, i1, hp, hm1, ht1, hg1⟩ := process_spec d c hinv
    obtain ⟨e2, i2, hf, hm2, ht2, hg2⟩ := ih ⟨i1, d.events ++ e1⟩ ht1
    refine ⟨e1 ++ e2, i2, ?_, ?_, ht2, goodPieces_append hg1 hg2⟩
    · simp only [feedAll, hp, bind, Except.bind, hf, List.append_assoc]
    · intro fut
      simp only [List.flatten_cons, markedOf_append]
      have := hm1 (cs.flatten ++ fut)
      simp only [← List.append_assoc] at this ⊢
      rw [this]
      have := hm2 fut
      simp only at this
      rw [this]; simp only [List.append_assoc]

/-! ## C10 — the theorems -/

/-- **C10, UTF-8 front end.**  For every list of chunks the model of `Utf8LossyDecoder` never takes
a panic branch, and the stream its inner sink observes (text bytes, with every `error` call marked in
place) is exactly the spec's lossy decode of the concatenated input: one error followed by U+FFFD per
maximal ill-formed subpart, including a sequence left dangling at the end of the stream. -/
theorem C10_utf8_chunking (chunks : List (List UInt8)) :
    ∃ evs, run chunks = .ok evs ∧ markedOf evs = marked chunks.flatten ∧ GoodPieces evs := by
  obtain ⟨evs', inc', hf, hm, ht, hg⟩ := feedAll_spec Decoder.new chunks (by intro i h; cases h)
  have hm0 := hm []
  simp only [Decoder.new, pendOf, List.nil_append, List.append_nil] at hm0 hf
  unfold run
  simp only [Decoder.new, hf, bind, Except.bind, finish]
  cases inc' with
  | none =>
    refine ⟨evs', rfl, ?_, hg⟩
    rw [hm0]; simp [marked_nil]
  | some i =>
    obtain ⟨b, r, hb, hh⟩ := ht i rfl
    refine ⟨evs' ++ [.error, .text replacement], rfl, ?_, goodPieces_append hg goodPieces_repl⟩
    rw [hm0, markedOf_append, markedOf_repl]
    simp [hb, marked_truncated hh]

/-- the model never reaches a panic site (`unwrap`, slice index, `split_at`, `pop_front`,
`subtendril`, fuel exhaustion), whatever the chunking -/
theorem C10_no_panic (chunks : List (List UInt8)) : ∃ evs, run chunks = .ok evs := by
  obtain ⟨evs, h, _⟩ := C10_utf8_chunking chunks; exact ⟨evs, h⟩

theorem filterMap_marked (bs : List UInt8) : (marked bs).filterMap id = lossyBytes bs := by
  simp only [marked, lossyBytes]
  induction units bs with
  | nil => rfl
  | cons u us ih =>
    simp only [List.flatMap_cons, List.filterMap_append, ih]
    congr 1
    cases u <;> simp [Unit.marked, Unit.bytes, List.filterMap_map]

theorem count_marked (bs : List UInt8) : (marked bs).count none = replacements bs := by
  simp only [marked, replacements]
  induction units bs with
  | nil => rfl
  | cons u us ih =>
    simp only [List.flatMap_cons, List.count_append, ih, List.count_cons]
    cases u <;> simp [Unit.marked, List.count_eq_zero, replBytes] <;> omega

theorem filterMap_markedOf (evs : List Event) : (markedOf evs).filterMap id = textOf evs := by
  simp only [markedOf, textOf]
  induction evs with
  | nil => rfl
  | cons e es ih =>
    simp only [List.flatMap_cons, List.filterMap_append, ih]
    congr 1
    cases e <;> simp [Event.marked, List.filterMap_map]

theorem count_markedOf (evs : List Event) : (markedOf evs).count none = errorsOf evs := by
  simp only [markedOf, errorsOf]
  induction evs with
  | nil => rfl
  | cons e es ih =>
    simp only [List.flatMap_cons, List.count_append, ih, List.count_cons]
    cases e <;> simp [Event.marked, List.count_eq_zero] <;> omega

/-- concatenated text = `from_utf8_lossy` of the concatenation (as UTF-8 bytes), and the number of
`error` calls = the number of replacements -/
theorem C10_utf8_text_errors (chunks : List (List UInt8)) :
    ∃ evs, run chunks = .ok evs ∧ textOf evs = lossyBytes chunks.flatten ∧
      errorsOf evs = replacements chunks.flatten := by
  obtain ⟨evs, h, hm, _⟩ := C10_utf8_chunking chunks
  exact ⟨evs, h, by rw [← filterMap_markedOf, hm, filterMap_marked],
    by rw [← count_markedOf, hm, count_marked]⟩

/-- what the sink observes does not depend on how the input was cut into chunks -/
theorem C10_chunking_independent (c1 c2 : List (List UInt8)) (h : c1.flatten = c2.flatten) :
    ∃ e1 e2, run c1 = .ok e1 ∧ run c2 = .ok e2 ∧ markedOf e1 = markedOf e2 := by
  obtain ⟨e1, h1, hm1, _⟩ := C10_utf8_chunking c1
  obtain ⟨e2, h2, hm2, _⟩ := C10_utf8_chunking c2
  exact ⟨e1, e2, h1, h2, by rw [hm1, hm2, h]⟩


/-- every text piece delivered to the inner sink is non-empty, well-formed UTF-8 (so
`reinterpret_without_validating` / `from_utf8_unchecked` are used soundly) -/
theorem C10_pieces_wellformed (chunks : List (List UInt8)) :
    ∃ evs, run chunks = .ok evs ∧ ∀ p, Event.text p ∈ evs → p ≠ [] ∧ WellFormed p := by
  obtain ⟨evs, h, _, hg⟩ := C10_utf8_chunking chunks
  refine ⟨evs, h, fun p hp => ⟨(hg p hp).2, ?_⟩⟩
  have hv := (hg p hp).1 []
  simp only [List.append_nil, marked_nil] at hv
  intro u hu hrepl
  subst hrepl
  have : none ∈ marked p := by
    simp only [marked, List.mem_flatMap]
    exact ⟨.repl, hu, by simp [Unit.marked]⟩
  rw [hv] at this
  simp at this

/-! ### encoding_rs `LossyDecoder` (abstract decoder) — partial -/

/-- what one decoder call contributes to the sink's view -/
def callMarked (c : DecoderResult × List UInt8) : List (Option UInt8) :=
  c.2.map some ++ (if c.1 = .malformed then replMarked else [])

/-- **C10 for `LossyDecoder` over encoding_rs — partial.**  Against an *arbitrary* abstract decoder,
`decode_to_sink` forwards every output of every decoder call, in order, adds exactly one
`error` + U+FFFD per `Malformed` result and nothing else; it returns only after an `InputEmpty`
result, or — in the middle of the stream (`last = false`) — when no unread input is left.  In
particular at end of stream (`finish`: `last = true`) the decoder is always driven to `InputEmpty`, so
nothing it still holds is lost.
Missing for the full statement (equality with a one-shot decode): that the real encoding_rs decoders
are streaming-consistent (their documented contract: feeding `a` then `b` equals feeding `a ++ b`, and
progress on every call) — exercised, not proved, by the `utf8 enc` family. -/
theorem C10_encoding_rs_partial {σ} (D : AbstractDecoder σ) (fuel : Nat) (st : σ) (input : List UInt8)
    (last : Bool) (evs : List Event) {st' : σ} {evs' : List Event} {r : DecoderResult} {rem : List UInt8}
    (h : decodeToSink D fuel st input last evs = .ok (st', evs', r, rem)) :
    ∃ new, evs' = evs ++ new ∧
      markedOf new = (callTrace D fuel st input last).flatMap callMarked ∧
      (r = .inputEmpty ∨ (last = false ∧ rem = [])) := by
  induction fuel generalizing st input evs with
  | zero => simp [decodeToSink] at h
  | succ fuel ih =>
    rcases hres : D.decode st input (capOf D st input) last with ⟨s1, r1, rd, out⟩
    simp only [decodeToSink, hres] at h
    simp only [callTrace, hres]
    split at h
    · cases h
    · have hout : markedOf (if out.length > 0 then [Event.text out] else []) = out.map some := by
        split
        · simp
        · have : out = [] := by apply List.eq_nil_of_length_eq_zero; omega
          simp [this]
      have hev : (if out.length > 0 then evs ++ [Event.text out] else evs) =
          evs ++ (if out.length > 0 then [Event.text out] else []) := by split <;> simp
      cases r1 with
      | inputEmpty =>
        simp only [Except.ok.injEq, Prod.mk.injEq] at h
        obtain ⟨rfl, rfl, rfl, rfl⟩ := h
        exact ⟨_, hev, by simp [hout, callMarked], Or.inl rfl⟩
      | outputFull =>
        simp only at h
        split at h
        · cases h
        · split at h
          · rename_i hemp
            simp only [Except.ok.injEq, Prod.mk.injEq] at h
            obtain ⟨rfl, rfl, rfl, rfl⟩ := h
            refine ⟨(if out.length > 0 then [Event.text out] else []), ?_, ?_, Or.inr (by simpa [and_comm] using hemp)⟩
            · simp only [beq_iff_eq, reduceCtorEq, ↓reduceIte]; exact hev
            · simp [hout, callMarked, hemp]
          · rename_i hemp
            obtain ⟨new, hnew, hm, hstop⟩ := ih _ _ _ h
            refine ⟨(if out.length > 0 then [Event.text out] else []) ++ new, ?_, ?_, hstop⟩
            · rw [hnew]; simp only [beq_iff_eq, reduceCtorEq, ↓reduceIte, hev, List.append_assoc]
            · simp [hout, callMarked, hemp, hm]
      | malformed =>
        simp only at h
        split at h
        · cases h
        · split at h
          · rename_i hemp
            simp only [Except.ok.injEq, Prod.mk.injEq] at h
            obtain ⟨rfl, rfl, rfl, rfl⟩ := h
            refine ⟨(if out.length > 0 then [Event.text out] else []) ++ [.error, .text replacement], ?_, ?_,
              Or.inr (by simpa [and_comm] using hemp)⟩
            · simp only [beq_self_eq_true, ↓reduceIte, hev, List.append_assoc]
            · simp [hout, callMarked, hemp, markedOf_repl]
          · rename_i hemp
            obtain ⟨new, hnew, hm, hstop⟩ := ih _ _ _ h
            refine ⟨(if out.length > 0 then [Event.text out] else []) ++ [.error, .text replacement] ++ new,
              ?_, ?_, hstop⟩
            · rw [hnew]; simp only [beq_self_eq_true, ↓reduceIte, hev, List.append_assoc]
            · have e : markedOf (Event.error :: Event.text replacement :: new) = replMarked ++ markedOf new := by
                rw [← markedOf_repl, ← markedOf_append]; rfl
              simp [hout, callMarked, hemp, e, hm]

/-- at end of stream (`LossyDecoder::finish`) the decoder is driven until it reports `InputEmpty` -/
theorem C10_encoding_rs_finish_drains {σ} (D : AbstractDecoder σ) (fuel : Nat) (st : σ) (evs : List Event)
    {st' : σ} {evs' : List Event} {r : DecoderResult} {rem : List UInt8}
    (h : decodeToSink D fuel st [] true evs = .ok (st', evs', r, rem)) : r = .inputEmpty := by
  obtain ⟨_, _, _, hstop⟩ := C10_encoding_rs_partial D fuel st [] true evs h
  rcases hstop with h | ⟨h, _⟩
  · exact h
  · cases h

/-- a toy decoder with output pending behind a malformed sequence at end of stream (the shape of
encoding_rs's ISO-2022-JP decoder after `ESC $`): state 1 = "ESC $ seen", state 2 = "`$` still to be
written" -/
def toyDecoder : AbstractDecoder Nat where
  maxLen := fun _ _ => some 16
  decode := fun st input _ _ =>
    match st with
    | 1 => (2, .malformed, 0, [])
    | 2 => (0, .inputEmpty, input.length, [0x24])
    | _ => (0, .inputEmpty, input.length, input)

/-- **Regression witness of the former end-of-stream gap** (fixed in /repo by
"fix: LossyDecoder::finish drains the encoding_rs decoder after a malformed sequence"; before the fix
the loop returned after the `Malformed` result because the input was empty, and the pending `$` was
lost).  Now `finish` on the toy decoder delivers the error, U+FFFD *and* the pending `$`, as the real
ISO-2022-JP decoder does on input `1b 24` (corpus case `utf8 enc iso-2022-jp 1b 24`). -/
theorem C10_encoding_rs_eof_witness :
    decodeToSink toyDecoder 10 1 [] true [] =
      .ok (0, [.error, .text replacement, .text [0x24]], .inputEmpty, []) := by
  rfl

/-! ### the delivered bytes decode back to the same scalar values -/

theorem units_scalar_append {b : UInt8} {rest : List UInt8} {n : Nat} (h : head b rest = .scalar n)
    (fut : List UInt8) :
    units (b :: rest ++ fut) = .scalar ((b :: rest).take n) :: units ((b :: rest).drop n ++ fut) := by
  have hb := (head_bounds b rest).1 n h
  have he : head b (rest ++ fut) = .scalar n := by rw [head_append _ _ _ (by simp [h]), h]
  obtain ⟨m, rfl⟩ : ∃ m, n = m + 1 := ⟨n - 1, by omega⟩
  have hm : m ≤ rest.length := by omega
  simp only [List.cons_append, units_cons, he, Nat.add_sub_cancel,
    List.take_succ_cons, List.drop_succ_cons, List.take_append_of_le_length hm,
    List.drop_append_of_le_length hm]

/-- a well-formed sequence, re-read, is one scalar unit -/
theorem units_own_bytes {b : UInt8} {rest : List UInt8} {n : Nat} (h : head b rest = .scalar n)
    (fut : List UInt8) :
    units (b :: rest.take (n - 1) ++ fut) = .scalar (b :: rest.take (n - 1)) :: units fut := by
  have hb := (head_bounds b rest).1 n h
  have := units_scalar_append (head_take h) fut
  have hl : (b :: rest.take (n - 1)).length = n := by simp; omega
  rw [this, List.take_of_length_le (by omega), List.drop_of_length_le (by omega)]; simp

theorem units_replBytes (fut : List UInt8) : units (replBytes ++ fut) = .scalar replBytes :: units fut := by
  have h : head 0xEF [0xBF, 0xBD] = .scalar 3 := by decide
  exact units_scalar_append h fut

theorem units_lossyBytes (bs : List UInt8) :
    units (lossyBytes bs) = (units bs).map (fun u => .scalar u.bytes) := by
  induction h : bs.length using Nat.strongRecOn generalizing bs with
  | _ len ih =>
    cases bs with
    | nil => simp [lossyBytes, units]
    | cons b rest =>
      have hlt : ∀ k, (rest.drop k).length < len := by intro k; subst h; simp; omega
      simp only [lossyBytes] at ih ⊢
      rw [units_cons]
      cases hh : head b rest with
      | scalar n =>
        simp only [List.flatMap_cons, Unit.bytes, List.map_cons]
        rw [units_own_bytes hh, ih _ (hlt _) _ rfl]; rfl
      | invalid n =>
        simp only [List.flatMap_cons, Unit.bytes, List.map_cons]
        rw [units_replBytes, ih _ (hlt _) _ rfl]; rfl
      | truncated =>
        simp only [List.flatMap_cons, Unit.bytes, List.map_cons, List.flatMap_nil, List.map_nil]
        have := units_replBytes []
        simpa [units] using this

/-- **The bytes handed to the sink are well-formed UTF-8 and denote exactly the scalar values of the
lossy decode** (`lossy` = `String::from_utf8_lossy` as a sequence of scalar values): decoding the
delivered text again replaces nothing and yields the same sequence. -/
theorem C10_lossyBytes_roundtrip (bs : List UInt8) :
    lossy (lossyBytes bs) = lossy bs ∧ WellFormed (lossyBytes bs) := by
  constructor
  · simp only [lossy, units_lossyBytes, List.map_map]
    apply List.map_congr_left
    intro u _
    cases u with
    | scalar q => rfl
    | repl => decide
  · intro u hu
    rw [units_lossyBytes] at hu
    simp only [List.mem_map] at hu
    obtain ⟨_, _, rfl⟩ := hu
    simp


/-! ### well-formed sequences denote Unicode scalar values, shortest form -/

/-- the value of a sequence lies in the range of its length (no overlong forms), is not a surrogate
and is at most U+10FFFF -/
def ScalarOK (q : List UInt8) : Prop :=
  (q.length = 1 ∧ scalarValue q < 0x80) ∨
  (q.length = 2 ∧ 0x80 ≤ scalarValue q ∧ scalarValue q < 0x800) ∨
  (q.length = 3 ∧ 0x800 ≤ scalarValue q ∧ scalarValue q < 0x10000 ∧
    (scalarValue q < 0xD800 ∨ 0xDFFF < scalarValue q)) ∨
  (q.length = 4 ∧ 0x10000 ≤ scalarValue q ∧ scalarValue q < 0x110000)

theorem ok2 {b : UInt8} {r0 r1 : Range} (hr : rowOf b = some [r0, r1]) (h0 : inR r0 b = true)
    {rest : List UInt8} {n : Nat} (h : head b rest = .scalar n) :
    ∃ b1 r, rest = b1 :: r ∧ n = 2 ∧ inR r1 b1 = true := by
  unfold head at h; simp only [hr] at h
  rcases rest with _ | ⟨b1, r⟩
  · simp [matchLen, h0] at h
  · cases c1 : inR r1 b1 <;> simp [matchLen, h0, c1] at h
    exact ⟨b1, r, rfl, h.symm, c1⟩

theorem ok3 {b : UInt8} {r0 r1 r2 : Range} (hr : rowOf b = some [r0, r1, r2]) (h0 : inR r0 b = true)
    {rest : List UInt8} {n : Nat} (h : head b rest = .scalar n) :
    ∃ b1 b2 r, rest = b1 :: b2 :: r ∧ n = 3 ∧ inR r1 b1 = true ∧ inR r2 b2 = true := by
  unfold head at h; simp only [hr] at h
  rcases rest with _ | ⟨b1, _ | ⟨b2, r⟩⟩
  · simp [matchLen, h0] at h
  · cases c1 : inR r1 b1 <;> simp [matchLen, h0, c1] at h
  · cases c1 : inR r1 b1 <;> cases c2 : inR r2 b2 <;> simp [matchLen, h0, c1, c2] at h
    exact ⟨b1, b2, r, rfl, h.symm, c1, c2⟩

theorem ok4 {b : UInt8} {r0 r1 r2 r3 : Range} (hr : rowOf b = some [r0, r1, r2, r3]) (h0 : inR r0 b = true)
    {rest : List UInt8} {n : Nat} (h : head b rest = .scalar n) :
    ∃ b1 b2 b3 r, rest = b1 :: b2 :: b3 :: r ∧ n = 4 ∧ inR r1 b1 = true ∧ inR r2 b2 = true ∧
      inR r3 b3 = true := by
  unfold head at h; simp only [hr] at h
  rcases rest with _ | ⟨b1, _ | ⟨b2, _ | ⟨b3, r⟩⟩⟩
  · simp [matchLen, h0] at h
  · cases c1 : inR r1 b1 <;> simp [matchLen, h0, c1] at h
  · cases c1 : inR r1 b1 <;> cases c2 : inR r2 b2 <;> simp [matchLen, h0, c1, c2] at h
  · cases c1 : inR r1 b1 <;> cases c2 : inR r2 b2 <;> cases c3 : inR r3 b3 <;>
      simp [matchLen, h0, c1, c2, c3] at h
    exact ⟨b1, b2, b3, r, rfl, h.symm, c1, c2, c3⟩

macro "scalar_fin" : tactic => `(tactic| (
  simp only [inR, Bool.and_eq_true, decide_eq_true_eq] at *
  simp [ScalarOK, scalarValue]
  omega))

theorem head_scalar_ok {b : UInt8} {rest : List UInt8} {n : Nat} (h : head b rest = .scalar n) :
    ScalarOK (b :: rest.take (n - 1)) := by
  have H := rowOf_cases b
  rcases H with ⟨h0, hr⟩ | ⟨h1, h2, hr⟩ | ⟨h0, hr⟩ | ⟨h1, h2, hr⟩ | ⟨h0, hr⟩ | ⟨h1, h2, hr⟩ | ⟨h0, hr⟩ |
    ⟨h1, h2, hr⟩ | ⟨h0, hr⟩ | ⟨h0, hr⟩
  · unfold head at h; simp only [hr] at h
    simp [matchLen, inR, h0] at h; subst h
    simp [ScalarOK, scalarValue]; omega
  · obtain ⟨b1, r, rfl, rfl, c1⟩ := ok2 hr (by simp [inR, h1, h2]) h
    scalar_fin
  · obtain ⟨b1, b2, r, rfl, rfl, c1, c2⟩ := ok3 hr (by simp [inR, h0]) h
    scalar_fin
  · obtain ⟨b1, b2, r, rfl, rfl, c1, c2⟩ := ok3 hr (by simp [inR, h1, h2]) h
    scalar_fin
  · obtain ⟨b1, b2, r, rfl, rfl, c1, c2⟩ := ok3 hr (by simp [inR, h0]) h
    scalar_fin
  · obtain ⟨b1, b2, r, rfl, rfl, c1, c2⟩ := ok3 hr (by simp [inR, h1, h2]) h
    scalar_fin
  · obtain ⟨b1, b2, b3, r, rfl, rfl, c1, c2, c3⟩ := ok4 hr (by simp [inR, h0]) h
    scalar_fin
  · obtain ⟨b1, b2, b3, r, rfl, rfl, c1, c2, c3⟩ := ok4 hr (by simp [inR, h1, h2]) h
    scalar_fin
  · obtain ⟨b1, b2, b3, r, rfl, rfl, c1, c2, c3⟩ := ok4 hr (by simp [inR, h0]) h
    scalar_fin
  · unfold head at h; simp [hr] at h

theorem mem_units_scalar (bs : List UInt8) (q : List UInt8) (hq : Unit.scalar q ∈ units bs) :
    ∃ b rest n, head b rest = .scalar n ∧ q = b :: rest.take (n - 1) := by
  induction h : bs.length using Nat.strongRecOn generalizing bs with
  | _ len ih =>
    cases bs with
    | nil => simp [units] at hq
    | cons b rest =>
      have hlt : ∀ k, (rest.drop k).length < len := by intro k; subst h; simp; omega
      rw [units_cons] at hq
      cases hh : head b rest with
      | scalar n =>
        simp only [hh, List.mem_cons, Unit.scalar.injEq] at hq
        rcases hq with rfl | hq
        · exact ⟨b, rest, n, hh, rfl⟩
        · exact ih _ (hlt _) _ hq rfl
      | invalid n =>
        simp only [hh, List.mem_cons, reduceCtorEq, false_or] at hq
        exact ih _ (hlt _) _ hq rfl
      | truncated => simp [hh] at hq

/-- **Every decoded unit is a Unicode scalar value in shortest form**: no overlong encodings, no
surrogates, nothing above U+10FFFF (sanity of the spec's table and bit arithmetic). -/
theorem C10_scalar_valid (bs : List UInt8) (q : List UInt8) (hq : Unit.scalar q ∈ units bs) : ScalarOK q := by
  obtain ⟨b, rest, n, hh, rfl⟩ := mem_units_scalar bs q hq
  exact head_scalar_ok hh

/-! ### non-vacuity -/

macro "utf8_eval" : tactic => `(tactic| (
  simp [run, feedAll, process, processLoop, finish, decodeUtf8, fromUtf8, fromUtf8Go, stdStep, charWidth, isCont,
    second3, second4, tryToCompleteCodepoint, tryCompleteOffsets, Incomplete.new, Decoder.new, replacement,
    bind, Except.bind]))

-- "xy\xEA" | "\xFF" | "\x99\xAEz" (tendril's own test): four errors, pieces as in the Rust test
example : run [[0x78, 0x79, 0xEA], [0xFF], [0x99, 0xAE, 0x7A]] =
    .ok [.text [0x78, 0x79], .error, .text replacement, .error, .text replacement, .error, .text replacement,
         .error, .text replacement, .text [0x7A]] := by utf8_eval
-- a code point split over three chunks with empty chunks in between comes out whole
example : run [[0xEA], [], [0x99], [], [0xAE]] = .ok [.text [0xEA, 0x99, 0xAE]] := by utf8_eval
-- dangling sequence at end of stream
example : run [[0x61, 0xF0, 0x9F], [0x98]] = .ok [.text [0x61], .error, .text replacement] := by utf8_eval
example : fromUtf8 [0x61, 0xF0, 0x90, 0x80, 0x41] = .err 1 (some 3) := by utf8_eval
example : fromUtf8 [0xE0, 0xA0] = .err 0 none := by utf8_eval
example : head 0xED [0xA0, 0x80] = .invalid 1 ∧ head 0xF0 [0x9F] = .truncated ∧ head 0xE2 [0x82, 0xAC] = .scalar 3 := by
  decide
example : lossy [0xE2, 0x82, 0xAC, 0xED, 0xA0, 0x80, 0xF0, 0x9F] = [0x20AC, 0xFFFD, 0xFFFD, 0xFFFD, 0xFFFD] := by
  simp [lossy, units, head, rowOf, table, matchLen, inR, Unit.value, scalarValue]
example : scalarValue [0xE2, 0x82, 0xAC] = 0x20AC ∧ scalarValue [0xF0, 0x9F, 0x98, 0x80] = 0x1F600 := by decide

end H5V.Props.C10
