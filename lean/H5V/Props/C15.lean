import H5V.Model.XmlTok
import H5V.Gen.XmlTokSets
import H5V.Lemmas.XmlTokRuns
import H5V.Lemmas.XmlTokBom
/-!
C15 — XML5 parse result is independent of chunking and diagnostic options (tokenizer level).

Proved here, for the model `H5V.Model.XmlTok` of xml5ever's tokenizer (all strings, all chunkings):
* `xmlTokSets_match`, `C15_sets_cover` — the `small_char_set!`s of the source (regenerated every run)
  are the model's, and each contains `\r`, `\0` and every character its state treats specially
  (the side condition DESIGN 1.3 item 12 violated).
* `C15_fast_eq_slow` — for a character outside the set, the fast path (raw `NotFromSet` run) and the
  slow path (`get_char`, used with `exact_errors`) do the same: NUL→U+FFFD and CR→LF cannot be skipped.
* `C15_step_mono`, `C15_step_resume`, `C15_step_good`, `C15_step_sim` — one step of the tokenizer loop
  is monotone in the unread input, resumable after "need more input", preserves the look-ahead
  invariant, and does not depend on a dead `current_char`.
* `C15_chunking` — **chunk independence of `feed`**: feeding any list of chunks (empty and
  one-character chunks included; U+FEFF dropped by the prologue only as the first character of the
  stream) leaves the tokenizer in the machine a one-piece feed of the concatenation reaches, up to a
  dead `current_char`; in particular the same tokens have been delivered (`C15_chunking_tokens`).
* `C15_finish_sim` — `end()` on machines equal up to a dead `current_char` delivers the same tokens.
* `C15_bom_once` — `discard_bom` is consumed by the first character ever fed and never set again.

**Partial** (`C15_…` statements above are complete for what they say; what is *not* proved):
the "no raw CR / NUL reaches the sink" clause as a global invariant and everything about the tree
builder (independence of `exact_errors` at run level is `C15_exact_errors_tokens` in
`Props/C15Run.lean`; the fuel bound of `run` and totality of `end()` are in `Props/C04XmlTerm.lean`) (`xmltok tree` family: code vs code). The oracles of
tools/props/C15.py check those on the real code.
-/
namespace H5V.Props.C15
open H5V.Model.XmlTok

/-! ### the fast-path sets -/

def popStates : List (String × State) :=
  [("Data", .data), ("TagAttrValue(DoubleQuoted)", .tagAttrValue .doubleQuoted),
   ("TagAttrValue(SingleQuoted)", .tagAttrValue .singleQuoted), ("TagAttrValue(Unquoted)", .tagAttrValue .unquoted)]

/-- the model's per-state sets are the `small_char_set!`s of the source (regenerated each run) -/
theorem xmlTokSets_match :
    H5V.Gen.XmlTokSets.sets = popStates.map (fun p => (p.1, (setOf p.2).map Char.toNat)) := by decide

/-- **Side condition of the fast path**: in every state read with `pop_except_from`, the set
contains `\r` and `\0` (the characters `get_preprocessed_char` rewrites) and every character the
state's table treats specially. -/
theorem C15_sets_cover (s : State) (h : readKind s = .popExcept) :
    '\r' ∈ setOf s ∧ '\x00' ∈ setOf s ∧ ∀ c ∈ special s, c ∈ setOf s := setOf_cover s h

/-- **fast path = slow path** for every character outside the state's set: `get_preprocessed_char`
is the identity on it (with `exact_errors` off) and the table treats `FromSet c` like the run `[c]` -/
theorem C15_fast_eq_slow (o : Opts) (m : Mach) (c : Char) (hk : readKind m.state = .popExcept)
    (hc : c ∉ setOf m.state) (hex : o.exactErrors = false) :
    foldChar o m c = (c, m.setCurrentChar c) ∧ transSet m (.fromSet c) = transSet m (.notFromSet [c]) := by
  have hcov := setOf_cover m.state hk
  exact ⟨foldChar_plain o m c hex (fun h => hc (h ▸ hcov.1)) (fun h => hc (h ▸ hcov.2.1)),
    transSet_dead m c hk hc⟩

/-! ### one step -/

theorem C15_step_mono (o : Opts) (m : Mach) (inp e : Str) (hg : Good m) (hat : m.atEof = false)
    (h : (step o m inp).isSuspend = false) : step o m (inp ++ e) = (step o m inp).ext e :=
  step_mono o m inp e (fun _ => hg.eatOk) hat h

theorem C15_step_resume (o : Opts) (m m' : Mach) (inp inp' e : Str) (hg : Good m) (hat : m.atEof = false)
    (h : step o m inp = .suspend m' inp') :
    inp' = [] ∧ RSim (step o m (inp ++ e)) (step o m' e) ∧ Good m' ∧ m'.atEof = false :=
  step_resume o m m' inp inp' e hg hat h

theorem C15_step_good (o : Opts) (m : Mach) (inp : Str) (m' : Mach) (hg : Good m) (hat : m.atEof = false)
    (h : (step o m inp).mach? = some m') : Good m' ∧ m'.atEof = false := step_good o m inp m' hg hat h

theorem C15_step_sim (o : Opts) (m1 m2 : Mach) (inp : Str) (h : Sim m1 m2) :
    RSim (step o m1 inp) (step o m2 inp) := step_sim o m1 m2 inp h

/-! ### `run` (with fuel) and the relational big-step runs -/

theorem run_done_runsTo (o : Opts) (fuel : Nat) (m : Mach) (inp : Str) (m' : Mach)
    (h : run o fuel m inp = .done m' []) : RunsTo o m inp m' := by
  induction fuel generalizing m inp with
  | zero => simp [run] at h
  | succ f ih =>
    simp only [run] at h
    cases hs : step o m inp with
    | cont m1 i1 => rw [hs] at h; exact RunsTo.cont hs (ih m1 i1 h)
    | suspend m1 i1 =>
      rw [hs] at h
      simp only [RunRes.done.injEq] at h
      obtain ⟨h1, h2⟩ := h; subst h1 h2
      exact RunsTo.susp hs
    | panic e => rw [hs] at h; simp at h

theorem runsTo_run_done (o : Opts) {m : Mach} {inp : Str} {m' : Mach} (h : RunsTo o m inp m') :
    ∃ fuel, ∀ k, run o (fuel + k) m inp = .done m' [] := by
  induction h with
  | @susp m0 i0 m0' hs => exact ⟨1, fun k => by rw [Nat.add_comm]; simp [run, hs]⟩
  | @cont m0 i0 m1 i1 m0' hs _ ih =>
    obtain ⟨f, hf⟩ := ih
    refine ⟨f + 1, fun k => ?_⟩
    have : f + 1 + k = (f + k) + 1 := by omega
    rw [this]; simp only [run, hs]; exact hf k

/-! ### `feed`: the BOM prologue, then `run` -/

/-- what `XmlTokenizer::feed` does with one chunk (the queue is empty between feeds, theorem
`C15_step_resume`): nothing on an empty chunk, else the BOM prologue and a run to suspension -/
inductive FeedSession (o : Opts) : Mach → List Str → Mach → Prop
  | nil {m} : FeedSession o m [] m
  | skip {m cs mf} : FeedSession o m cs mf → FeedSession o m ([] :: cs) mf
  | cons {m c m1 cs mf} : c ≠ [] → RunsTo o (feedBom m c).1 (feedBom m c).2 m1 →
      FeedSession o m1 cs mf → FeedSession o m (c :: cs) mf

theorem feedBom_append (m : Mach) (c e : Str) (hc : c ≠ []) :
    feedBom m (c ++ e) = ((feedBom m c).1, (feedBom m c).2 ++ e) := by
  cases c with
  | nil => exact absurd rfl hc
  | cons x xs =>
    simp only [feedBom, List.cons_append]
    split
    · split <;> simp
    · simp

theorem feedBom_flag (m : Mach) (c : Str) (hc : c ≠ []) : (feedBom m c).1.discardBom = false := by
  cases c with
  | nil => exact absurd rfl hc
  | cons x xs =>
    simp only [feedBom]
    split
    · simp
    · rename_i h; simpa using h

theorem feedBom_off (m : Mach) (c : Str) (h : m.discardBom = false) : feedBom m c = (m, c) := by
  cases c with
  | nil => rfl
  | cons x xs => simp [feedBom, h]

theorem feedBom_good (m : Mach) (c : Str) (hg : Good m) (hat : m.atEof = false) :
    Good (feedBom m c).1 ∧ (feedBom m c).1.atEof = false := by
  cases c with
  | nil => exact ⟨hg, hat⟩
  | cons x xs =>
    simp only [feedBom]
    split
    · refine ⟨?_, by simpa using hat⟩
      rcases hg with h | ⟨h1, h2, h3⟩
      · exact Or.inl (by simpa using h)
      · exact Or.inr ⟨by simpa using h1, by simpa using h2, by simpa using h3⟩
    · exact ⟨hg, hat⟩

/-- **C15, chunk independence of `feed`.**  Feed the chunks `cs` one after the other (any partition:
empty chunks, single characters, …).  Unless nothing at all was fed, the machine reached is — up to a
dead `current_char` — the one reached by feeding the concatenation in one piece; the U+FEFF prologue
acts on the first character of the *stream*, not of each chunk. -/
theorem C15_chunking (o : Opts) {m : Mach} {cs : List Str} {mf : Mach}
    (hs : FeedSession o m cs mf) : Good m → m.atEof = false →
    (cs.flatten = [] ∧ mf = m) ∨
    ∃ mf', RunsTo o (feedBom m cs.flatten).1 (feedBom m cs.flatten).2 mf' ∧ Sim mf' mf := by
  induction hs with
  | nil => intro _ _; exact Or.inl ⟨rfl, rfl⟩
  | skip _ ih => intro hg hat; simpa using ih hg hat
  | @cons m0 c m1 cs0 mf0 hc hr _ ih =>
    intro hg hat
    right
    obtain ⟨hgb, hatb⟩ := feedBom_good m0 c hg hat
    obtain ⟨hg1, hat1⟩ := runsTo_good o hr hgb hatb
    have hdb : m1.discardBom = false := by
      rw [runsTo_discardBom o hr]; exact feedBom_flag m0 c hc
    simp only [List.flatten_cons]
    rw [feedBom_append m0 c _ hc]
    rcases ih hg1 hat1 with ⟨hnil, hmf⟩ | ⟨mf', hr', hsim⟩
    · rw [hnil, hmf]
      exact ⟨m1, by simpa using hr, Sim.refl _⟩
    · rw [feedBom_off m1 _ hdb] at hr'
      obtain ⟨m2', hr2, hsim2⟩ := runsTo_chunk o hr hgb hatb cs0.flatten mf' hr'
      exact ⟨m2', hr2, Sim.trans hsim2 hsim⟩

/-- the same tokens (and parse errors) have been delivered to the sink -/
theorem C15_chunking_tokens (o : Opts) {m : Mach} {cs : List Str} {mf : Mach}
    (hs : FeedSession o m cs mf) (hg : Good m) (hat : m.atEof = false) (hne : cs.flatten ≠ []) :
    ∃ mf', RunsTo o (feedBom m cs.flatten).1 (feedBom m cs.flatten).2 mf' ∧ mf'.out = mf.out := by
  rcases C15_chunking o hs hg hat with ⟨h, _⟩ | ⟨mf', hr, hsim⟩
  · exact absurd h hne
  · exact ⟨mf', hr, hsim.out⟩

/-- the functional `feed` of the driver is a `FeedSession` step -/
theorem feed_done (o : Opts) (m : Mach) (c : Str) (m' : Mach) (h : feed o m [] c = .done m' []) :
    (c = [] ∧ m' = m) ∨ (c ≠ [] ∧ RunsTo o (feedBom m c).1 (feedBom m c).2 m') := by
  unfold feed at h
  simp only [List.nil_append] at h
  cases c with
  | nil => simp at h; exact Or.inl ⟨rfl, h.symm⟩
  | cons x xs =>
    right
    simp only [List.isEmpty_cons, Bool.false_eq_true, ↓reduceIte] at h
    exact ⟨by simp, run_done_runsTo o _ _ _ _ h⟩

/-- feed all chunks with the driver's `feed`; `none` if a feed panics, runs out of fuel or leaves
input in the queue -/
def feedAll (o : Opts) (m : Mach) : List Str → Option Mach
  | [] => some m
  | c :: cs =>
    match feed o m [] c with
    | .done m' [] => feedAll o m' cs
    | _ => none

theorem feedAll_session (o : Opts) (m : Mach) (cs : List Str) (mf : Mach)
    (h : feedAll o m cs = some mf) : FeedSession o m cs mf := by
  induction cs generalizing m with
  | nil => simp only [feedAll, Option.some.injEq] at h; subst h; exact FeedSession.nil
  | cons c cs ih =>
    simp only [feedAll] at h
    split at h
    · rename_i m' hf
      rcases feed_done o m c m' hf with ⟨hc, hm⟩ | ⟨hc, hr⟩
      · subst hc hm; exact FeedSession.skip (ih _ h)
      · exact FeedSession.cons hc hr (ih _ h)
    · cases h

/-- **C15 for the functions the correspondence check runs**: if the driver's `feed` succeeds on every
chunk, then `run` on the concatenation (after the BOM prologue, with enough fuel) suspends in a machine
that has delivered exactly the same tokens -/
theorem C15_feedAll (o : Opts) (m : Mach) (cs : List Str) (mf : Mach) (hg : Good m) (hat : m.atEof = false)
    (h : feedAll o m cs = some mf) (hne : cs.flatten ≠ []) :
    ∃ fuel mf', run o fuel (feedBom m cs.flatten).1 (feedBom m cs.flatten).2 = .done mf' [] ∧
      Sim mf' mf ∧ mf'.out = mf.out := by
  rcases C15_chunking o (feedAll_session o m cs mf h) hg hat with ⟨h0, _⟩ | ⟨mf', hr, hsim⟩
  · exact absurd h0 hne
  · obtain ⟨f, hf⟩ := runsTo_run_done o hr
    exact ⟨f, mf', by simpa using hf 0, hsim, hsim.out⟩

/-- every machine the driver starts from satisfies the invariant -/
theorem good_initial (st : State) (b : Bool) : Good { state := st, discardBom := b } := Or.inl rfl

/-- **U+FEFF is dropped only at the start of the stream**: the first non-empty feed consumes the
`discard_bom` flag and no step of the tokenizer loop sets it again -/
theorem C15_bom_once (o : Opts) (m : Mach) (c : Str) (m1 : Mach) (hc : c ≠ [])
    (hr : RunsTo o (feedBom m c).1 (feedBom m c).2 m1) :
    m1.discardBom = false ∧ ∀ e, feedBom m1 e = (m1, e) := by
  have : m1.discardBom = false := by rw [runsTo_discardBom o hr]; exact feedBom_flag m c hc
  exact ⟨this, fun e => feedBom_off m1 e this⟩

/-! ### `end()` does not look at a dead `current_char` -/

theorem emit_setCC (m : Mach) (a : Char) (t : Token) : emit (m.setCurrentChar a) t = (emit m t).setCurrentChar a := by
  cases m; rfl
theorem reconsumeTo_setCC (s : State) (m : Mach) (a : Char) :
    reconsumeTo s (m.setCurrentChar a) = (reconsumeTo s m).setCurrentChar a := by cases m; rfl
theorem emitComment_setCC (m : Mach) (a : Char) :
    emitComment (m.setCurrentChar a) = (emitComment m).setCurrentChar a := by cases m; rfl
theorem emitDoctype_setCC (m : Mach) (a : Char) :
    emitDoctype (m.setCurrentChar a) = (emitDoctype m).setCurrentChar a := by cases m; rfl
theorem emitPi_setCC (m : Mach) (a : Char) : emitPi (m.setCurrentChar a) = (emitPi m).setCurrentChar a := by
  cases m; rfl
theorem badEof_setCC (o : Opts) (m : Mach) (a : Char) :
    badEof o (m.setCurrentChar a) = (badEof o m).setCurrentChar a := by
  unfold badEof; split <;> (cases m; rfl)
theorem setTagKind_setCC (m : Mach) (a : Char) (k : TagKind) :
    { m.setCurrentChar a with tagKind := k } = ({ m with tagKind := k } : Mach).setCurrentChar a := by
  cases m; rfl
theorem emitStartTag_setCC (s : State) (m : Mach) (a : Char) :
    emitStartTag s (m.setCurrentChar a) = (emitStartTag s m).setCurrentChar a := by
  unfold emitStartTag
  simp only [to_setCC, setTagKind_setCC, emitCurrentTag_setCC]

theorem transEof_setCC (o : Opts) (m : Mach) (a : Char) :
    transEof o (m.setCurrentChar a) = ((transEof o m).1.setCurrentChar a, (transEof o m).2) := by
  unfold transEof
  have e : (m.setCurrentChar a).state = m.state := rfl
  simp only [e]
  split <;>
    simp only [emit_setCC, reconsumeTo_setCC, emitComment_setCC, emitDoctype_setCC, emitPi_setCC, badEof_setCC,
      emitStartTag_setCC, emitTag_setCC, to_setCC, emitChar_setCC]

theorem eofLoop_setCC (o : Opts) (f : Nat) (m : Mach) (a : Char) :
    eofLoop o f (m.setCurrentChar a) = (eofLoop o f m).map (fun x => x.setCurrentChar a) := by
  induction f generalizing m with
  | zero => rfl
  | succ f ih =>
    simp only [eofLoop, transEof_setCC]
    cases h : transEof o m with
    | mk m1 sg =>
      cases sg with
      | cont => simp only; exact ih m1
      | done => rfl
      | panic e => rfl

/-- `run` with the same fuel from machines equal up to a dead `current_char` -/
def RunSim : RunRes → RunRes → Prop
  | .done a i, .done b j => Sim a b ∧ i = j
  | .panic x, .panic y => x = y
  | .outOfFuel, .outOfFuel => True
  | _, _ => False

theorem run_sim (o : Opts) (f : Nat) (x y : Mach) (i : Str) (h : Sim x y) :
    RunSim (run o f x i) (run o f y i) := by
  induction f generalizing x y i with
  | zero => simp [run, RunSim]
  | succ f ih =>
    have hs := step_sim o x y i h
    simp only [run]
    cases hx : step o x i <;> cases hy : step o y i <;> rw [hx, hy] at hs <;> simp only [RSim] at hs
    · obtain ⟨h1, h2⟩ := hs; subst h2; exact ih _ _ _ h1
    · obtain ⟨h1, h2⟩ := hs; subst h2; exact ⟨h1, rfl⟩
    · exact hs

theorem setAtEof_setCC (m : Mach) (a : Char) (b : Bool) :
    (m.setCurrentChar a).setAtEof b = (m.setAtEof b).setCurrentChar a := by cases m; rfl

/-- **`end()` after the last chunk**: on machines equal up to a dead `current_char` (what
`C15_chunking` delivers) `XmlTokenizer::end` emits the same tokens — so the whole token stream of a
chunked parse equals that of the one-piece parse. -/
theorem C15_finish_sim (o : Opts) (m1 m2 : Mach) (h : Sim m1 m2) :
    (finish o m1).map (·.out) = (finish o m2).map (·.out) := by
  rcases h with h | ⟨hd, a, ha⟩
  · rw [h]
  · subst ha
    obtain ⟨hr, hcr, hk⟩ := hd
    have hcr2 : (m1.setCurrentChar a).charRef = none := by simp [hcr]
    unfold finish
    simp only [hcr, hcr2, setAtEof_setCC]
    have hdead : deadCC (m1.setAtEof true) := ⟨by simp [hr], by simp [hcr], by simpa using hk⟩
    have hf : fuelFor ((m1.setAtEof true).setCurrentChar a) [] = fuelFor (m1.setAtEof true) [] := by
      simp [fuelFor]
    rw [hf]
    have hrs := run_sim o (fuelFor (m1.setAtEof true) []) (m1.setAtEof true)
      ((m1.setAtEof true).setCurrentChar a) [] (Or.inr ⟨hdead, a, rfl⟩)
    cases hx : run o (fuelFor (m1.setAtEof true) []) (m1.setAtEof true) [] <;>
      cases hy : run o (fuelFor (m1.setAtEof true) []) ((m1.setAtEof true).setCurrentChar a) [] <;>
      rw [hx, hy] at hrs <;> simp only [RunSim] at hrs
    · obtain ⟨hsim, _⟩ := hrs
      rcases hsim with hsim | ⟨_, c, hc⟩
      · rw [hsim]
      · rw [hc]
        simp only [eofLoop_setCC]
        cases eofLoop o 8 _ <;> rfl
    · rw [hrs]

/-! ### non-vacuity -/

-- "<a b='x\r" | "\ny'>" : the CRLF split over two chunks becomes one LF
example : (match feedAll ⟨false⟩ {} ["<a b='x\r".toList, "\ny'>".toList] with
    | some m => m.out
    | none => []) =
    [.tag { kind := .startTag, name := ⟨none, ['a']⟩, attrs := [⟨⟨none, ['b']⟩, "x\ny".toList⟩] }] := by
  decide

end H5V.Props.C15
