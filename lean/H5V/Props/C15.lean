import H5V.Model.XmlTok
import H5V.Gen.XmlTokSets
/-!
C15 — XML5 parse result is independent of chunking and diagnostic options.
(work in progress: side conditions on the fast-path sets first)
-/
namespace H5V.Props.C15
open H5V.Model.XmlTok

/-- the model's per-state sets are the `small_char_set!`s of the source (regenerated each run) -/
def popStates : List (String × State) :=
  [("Data", .data), ("TagAttrValue(DoubleQuoted)", .tagAttrValue .doubleQuoted),
   ("TagAttrValue(SingleQuoted)", .tagAttrValue .singleQuoted), ("TagAttrValue(Unquoted)", .tagAttrValue .unquoted)]

theorem xmlTokSets_match :
    H5V.Gen.XmlTokSets.sets = popStates.map (fun p => (p.1, (setOf p.2).map Char.toNat)) := by decide

/-- the characters a `pop_except_from` state's table distinguishes (every literal of its `FromSet` arms) -/
def special : State → List Char
  | .data => ['&', '<']
  | .tagAttrValue .doubleQuoted => ['"', '&']
  | .tagAttrValue .singleQuoted => ['\'', '&']
  | .tagAttrValue .unquoted => ['\t', '\n', ' ', '&', '>']
  | _ => []

/-- **Side condition of the fast path** (what DESIGN 1.3 item 12 violated): in every state read with
`pop_except_from`, the set contains `\r` and `\0` (the characters `get_preprocessed_char` rewrites) and
every character the state's table treats specially — so a raw `NotFromSet` run never contains a
character that the slow path would have handled differently. -/
theorem C15_sets_cover (s : State) (h : readKind s = .popExcept) :
    '\r' ∈ setOf s ∧ '\x00' ∈ setOf s ∧ ∀ c ∈ special s, c ∈ setOf s := by
  cases s <;> simp [readKind] at h
  · decide
  · rename_i k; cases k <;> decide

end H5V.Props.C15
