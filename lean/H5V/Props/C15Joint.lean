import H5V.Props.C15
import H5V.Props.C15Run
import H5V.Props.C15Tree
import H5V.Props.C04XmlTerm
import H5V.Model.XmlTokDriver
import H5V.Model.XmlJoint

/-!
C15, **end to end**: the joint XML parse (tokenizer model → tree-builder model) is independent of how
the input is chunked and of `exact_errors` — ONE statement about the final tree, composed from the
tokenizer-level theorems (`Props/C15.lean`: `C15_chunking`/`C15_feedAll`, `C15_finish_sim`;
`Props/C15Run.lean` / `Lemmas/XmlTokOptE.lean`: `feed_RunE`, `finish_E`), the termination theorems
(`Props/C04XmlTerm.lean`: `feed`/`end` are total, the model's fuel `fuelFor` is never exhausted and not
observable), and the tree-level theorems (`Props/C15Tree.lean`: `C15_tree_merge_obs`; `C16_no_panic`).

## the joint definition

* `xjTok` / `xjToks` — `XmlTreeBuilder::process_token` (tree_builder/mod.rs:410-428): a tokenizer
  `ParseError` is forwarded to `sink.parse_error` and changes nothing in the builder
  (`XmlTB.Token` = "`tokenizer::Token` minus `ParseError`"), every other token is converted
  constructor by constructor (`Tag` with the names the tokenizer already split and the attribute list it
  already de-duplicated and ordered, `Doctype`, `Pi`, `Comment`, `Characters`, `EndOfFile`).
  `NullCharacter` is never produced by the tokenizer (`emit_char` replaces U+0000).
* `xjFeedChunks` — `XmlParser::process` for every chunk: the feed loop of `XmlTokDriver.runTok`
  (`feed o m [] chunk`, which must drain the queue); `xj_driverFeed_ok` ties it to the literal
  `foldlM` of the driver, `xj_feedChunks_ok` to `feedAll` of `Props/C15.lean`.
* `xmlTokensChunks o m0 chunks` — the chunks, then `XmlTokenizer::end` (`finish`): the delivered token
  log, newest first, parse-error tokens included (= what `runTok` prints through `showOut`).
* `xmlParseChunks o cfg m0 chunks` — that log, oldest first, through `xjToks` into
  `XmlTB.run cfg State.init`.  `XmlTreeBuilder::end` only pops the open elements (`sink.pop`, no tree
  effect); the document is read off the final state by `State.document`, which `Obs` does.
  (`XmlTokDriver.runCase` answers `no-model` for `tree` cases — the `xmltok tree` family compares code
  with code — so the hand-over is defined here from the Rust source; it is the only possible one: the
  two models share no other interface.)

## what is proved (all inputs, all chunkings, no bounds)

* `C15_joint_tokens_chunk_independence`, `C15_joint_chunk_independence_state`,
  `C15_joint_chunk_independence`, `C15_joint_total` — for every `Opts`, `TbCfg`, every start machine
  satisfying `XjStart` (in particular `xjFresh st bom`: every `XmlTokenizer::new`, any initial state,
  `discard_bom` on or off), every chunk list: the chunked parse and the one-piece parse of the
  concatenation both succeed, deliver the same token log *including parse-error tokens*, and end in
  the *same tree-builder state*, hence the same `Obs`.  There is no fuel parameter: `feed` and `end`
  compute their own (`fuelFor`), proved sufficient in C04XmlTerm.
* `C15_joint_tokens_exact_errors`, `C15_joint_exact_errors_state`, `C15_joint_exact_errors`(`_on_off`)
  — for *every* machine (no hypothesis), every chunk list and any two option values: same failure or
  same tree-builder state.  Tokenizer parse-error tokens never reach the builder's state machine
  (`xjToks_noErr`); their texts and their *number* do depend on `exact_errors` (example below: 11
  against 13 log entries) — these messages go to `sink.parse_error` and are NOT part of `Obs`;
  the tree builder's own error log is, and it is equal here even without `dedupAdj`.
* `C15_joint_end_to_end`(`_state`), `C15_joint_any_two` — any chunking × either option value = the
  one-piece default parse.
* `C15_joint_run_boundaries`, `C15_joint_canon_obs` — the model reads character runs one character
  at a time, the real tokenizer cuts them along chunk/buffer boundaries; every token stream that
  equals the model's after merging adjacent character tokens (`mergeChars` on builder tokens, resp.
  the driver's `canon` on tokenizer tokens — the criterion of the `xmltok` correspondence) gives the
  same `Obs` (here the collapsed error log `dedupAdj` of `Obs` is essential:
  `C15_tree_error_count_depends_on_cut`).

## script suspension

The XML tokenizer model has **no sink feedback**: `XmlTok.run` iterates `step` until it needs more
input, there is no `Script` answer in `XmlTok.R`/`RunRes` and none in `FeedSession`/`feedAll`, the
session functions of the existing C15 theorems.  In the Rust, `XmlProcessResult::Script` makes
`run` return `TokenizerResult::Script`; `XmlParser::process` (driver.rs:68) answers by calling
`feed` again at once (`while let Script(_) = feed(..) {}`), `end()` ignores it (mod.rs:1159): the
pause is not observable in tokens or tree, which is what the model (and `XmlTB.step`'s inlined
`</script>`/`<script/>` handling) assumes.  So nothing is excluded *within the model*; that the pause is
inert in the code is covered by the correspondence runs, not by a theorem.
-/
namespace H5V.Props.C15
open H5V.Model

/-- what the theorems need of the start machine -/
structure XjStart (m : XmlTok.Mach) : Prop where
  good : XmlTok.Good m
  tinv : XmlTok.TInv m
  atEof : m.atEof = false

theorem xjStart_fresh (st : XmlTok.State) (bom : Bool) : XjStart (xjFresh st bom) :=
  ⟨good_initial st bom, H5V.Props.C04X.C04_xml_initial_inv st bom, rfl⟩

/-! ## the feed loop -/

theorem xj_feedStep_ok (o : XmlTok.Opts) (m : XmlTok.Mach) (c : XmlTok.Str) (m' : XmlTok.Mach) :
    xjFeedStep o m c = .ok m' ↔ XmlTok.feed o m [] c = .done m' [] := by
  unfold xjFeedStep
  cases hf : XmlTok.feed o m [] c with
  | done m1 inp =>
    cases inp with
    | nil => simp
    | cons x xs => simp
  | panic e => simp
  | outOfFuel => simp

theorem xj_feedChunks_ok (o : XmlTok.Opts) (cs : List XmlTok.Str) : ∀ (m mf : XmlTok.Mach),
    xjFeedChunks o m cs = .ok mf ↔ feedAll o m cs = some mf := by
  induction cs with
  | nil => intro m mf; simp [xjFeedChunks, feedAll]
  | cons c cs ih =>
    intro m mf
    simp only [xjFeedChunks, feedAll]
    cases hs : xjFeedStep o m c with
    | ok m1 =>
      have hf := (xj_feedStep_ok o m c m1).mp hs
      rw [hf]
      exact ih m1 mf
    | error e =>
      constructor
      · intro h; cases h
      · intro h
        split at h
        · rename_i m1 hf
          rw [(xj_feedStep_ok o m c m1).mpr hf] at hs
          cases hs
        · cases h

theorem xj_feedChunks_total (o : XmlTok.Opts) (cs : List XmlTok.Str) : ∀ (m : XmlTok.Mach), XmlTok.TInv m →
    ∃ mf, xjFeedChunks o m cs = .ok mf ∧ XmlTok.TInv mf := by
  induction cs with
  | nil => intro m hi; exact ⟨m, rfl, hi⟩
  | cons c cs ih =>
    intro m hi
    obtain ⟨m1, hf, hi1⟩ := H5V.Props.C04X.C04_xml_feed_total o m [] c hi
    obtain ⟨mf, h1, h2⟩ := ih m1 hi1
    refine ⟨mf, ?_, h2⟩
    simp only [xjFeedChunks, (xj_feedStep_ok o m c m1).mpr hf]
    exact h1

theorem xj_feedAll_empty (o : XmlTok.Opts) (cs : List XmlTok.Str) (m : XmlTok.Mach) (h : cs.flatten = []) :
    feedAll o m cs = some m := by
  induction cs with
  | nil => rfl
  | cons c cs ih =>
    simp only [List.flatten_cons, List.append_eq_nil_iff] at h
    obtain ⟨hc, hcs⟩ := h
    subst hc
    have : XmlTok.feed o m [] [] = .done m [] := by simp [XmlTok.feed]
    simp only [feedAll, this]
    exact ih hcs

/-- the one-piece feed of the concatenation ends in the machine of the chunked feed, up to a dead
`current_char` -/
theorem xj_feed_flatten (o : XmlTok.Opts) (m : XmlTok.Mach) (cs : List XmlTok.Str) (mf : XmlTok.Mach)
    (hs : XjStart m) (h : feedAll o m cs = some mf) :
    ∃ mf1, feedAll o m [cs.flatten] = some mf1 ∧ XmlTok.Sim mf1 mf := by
  by_cases hne : cs.flatten = []
  · rw [xj_feedAll_empty o cs m hne] at h
    cases h
    exact ⟨m, by rw [hne]; exact xj_feedAll_empty o [[]] m rfl, XmlTok.Sim.refl _⟩
  · obtain ⟨fuel, mf', hr, hsim, _⟩ := C15_feedAll o m cs mf hs.good hs.atEof h hne
    refine ⟨mf', ?_, hsim⟩
    have hi := XmlTok.feedBom_tinv m cs.flatten hs.tinv
    have hF := H5V.Props.C04X.C04_xml_run_terminates_fuelFor o _ (XmlTok.feedBom m cs.flatten).2 hi
    have hfu : XmlTok.run o fuel (XmlTok.feedBom m cs.flatten).1 (XmlTok.feedBom m cs.flatten).2 ≠ .outOfFuel := by
      rw [hr]; intro hh; cases hh
    have e1 := XmlTok.run_fuel_mono o _ (max fuel (XmlTok.fuelFor (XmlTok.feedBom m cs.flatten).1
      (XmlTok.feedBom m cs.flatten).2)) _ _ hfu (Nat.le_max_left _ _)
    have e2 := XmlTok.run_fuel_mono o _ (max fuel (XmlTok.fuelFor (XmlTok.feedBom m cs.flatten).1
      (XmlTok.feedBom m cs.flatten).2)) _ _ hF (Nat.le_max_right _ _)
    have hfeed : XmlTok.feed o m [] cs.flatten = .done mf' [] := by
      unfold XmlTok.feed
      simp only [List.nil_append]
      have : cs.flatten.isEmpty = false := by
        cases hc : cs.flatten with
        | nil => exact absurd hc hne
        | cons _ _ => rfl
      simp only [this, Bool.false_eq_true, if_false]
      rw [← e2, e1, hr]
    simp only [feedAll, hfeed]

/-! ## chunk independence -/

/-- **tokens**: the whole token log (parse-error tokens included) of the chunked parse is the log of the
one-piece parse; both parses succeed -/
theorem C15_joint_tokens_chunk_independence (o : XmlTok.Opts) (m0 : XmlTok.Mach) (chunks : List XmlTok.Str)
    (hs : XjStart m0) :
    ∃ out, xmlTokensChunks o m0 chunks = .ok out ∧ xmlTokensChunks o m0 [chunks.flatten] = .ok out := by
  obtain ⟨mf, hf, hi⟩ := xj_feedChunks_total o chunks m0 hs.tinv
  obtain ⟨mf1, hf1, hsim⟩ := xj_feed_flatten o m0 chunks mf hs ((xj_feedChunks_ok o chunks m0 mf).mp hf)
  have hf1' := (xj_feedChunks_ok o [chunks.flatten] m0 mf1).mpr hf1
  obtain ⟨me, hfin, _⟩ := H5V.Props.C04X.C04_xml_finish_total o mf hi
  have hfs := C15_finish_sim o mf1 mf hsim
  rw [hfin] at hfs
  cases hfin1 : XmlTok.finish o mf1 with
  | error e => rw [hfin1] at hfs; cases hfs
  | ok me1 =>
    rw [hfin1] at hfs
    simp only [Except.map, Except.ok.injEq] at hfs
    refine ⟨me.out, ?_, ?_⟩
    · simp only [xmlTokensChunks, hf, hfin]
    · simp only [xmlTokensChunks, hf1', hfin1, hfs]

/-! ## `exact_errors` -/

/-- relation between the results of two feed loops run with different options -/
def XjOptE : Except String XmlTok.Mach → Except String XmlTok.Mach → Prop
  | .ok a, .ok b => XmlTok.E a b
  | .error x, .error y => x = y
  | _, _ => False

theorem xj_feedStep_optE (o1 o2 : XmlTok.Opts) {m1 m2 : XmlTok.Mach} (h : XmlTok.E m1 m2) (c : XmlTok.Str) :
    XjOptE (xjFeedStep o1 m1 c) (xjFeedStep o2 m2 c) := by
  have hf := XmlTok.feed_RunE o1 o2 h [] c
  unfold xjFeedStep
  generalize XmlTok.feed o1 m1 [] c = r1 at hf
  generalize XmlTok.feed o2 m2 [] c = r2 at hf
  cases r1 <;> cases r2 <;> first | exact hf.elim | skip
  · obtain ⟨g1, g2⟩ := hf
    subst g2
    rename_i x i y
    cases i with
    | nil => exact g1
    | cons d ds => exact rfl
  · simp only [XmlTok.RunE] at hf
    subst hf
    exact rfl
  · exact rfl

theorem xj_feedChunks_optE (o1 o2 : XmlTok.Opts) (cs : List XmlTok.Str) :
    ∀ {m1 m2 : XmlTok.Mach}, XmlTok.E m1 m2 → XjOptE (xjFeedChunks o1 m1 cs) (xjFeedChunks o2 m2 cs) := by
  induction cs with
  | nil => intro m1 m2 h; exact h
  | cons c cs ih =>
    intro m1 m2 h
    have hs := xj_feedStep_optE o1 o2 h c
    simp only [xjFeedChunks]
    generalize xjFeedStep o1 m1 c = r1 at hs
    generalize xjFeedStep o2 m2 c = r2 at hs
    cases r1 <;> cases r2 <;> first | exact hs.elim | skip
    · exact hs
    · exact ih hs

theorem xj_filterMap_noErr (out : XmlTok.Out) :
    (XmlTok.noErr out).filterMap xjTok = out.filterMap xjTok := by
  induction out with
  | nil => rfl
  | cons t rest ih =>
    rw [XmlTok.noErr_cons]
    cases t with
    | error msg =>
      simp only [XmlTok.isErr, if_true]
      rw [List.filterMap_cons_none (by rfl)]; exact ih
    | _ =>
      simp only [XmlTok.isErr, Bool.false_eq_true, if_false]
      rw [List.filterMap_cons_some (by rfl), List.filterMap_cons_some (by rfl), ih]

theorem xjToks_eq (out : XmlTok.Out) : xjToks out = (out.filterMap xjTok).reverse := by
  unfold xjToks; rw [List.filterMap_reverse]

/-- parse-error tokens do not reach the tree builder's state machine -/
theorem xjToks_noErr (out : XmlTok.Out) : xjToks (XmlTok.noErr out) = xjToks out := by
  rw [xjToks_eq, xjToks_eq, xj_filterMap_noErr]

/-- **tokens**: any two option values deliver the same token log up to parse-error tokens, or fail
alike — from every machine, for every chunk list -/
theorem C15_joint_tokens_exact_errors (o1 o2 : XmlTok.Opts) (m : XmlTok.Mach) (chunks : List XmlTok.Str) :
    (xmlTokensChunks o1 m chunks).map XmlTok.noErr = (xmlTokensChunks o2 m chunks).map XmlTok.noErr := by
  have hs := xj_feedChunks_optE o1 o2 chunks (XmlTok.E.refl m)
  unfold xmlTokensChunks
  generalize xjFeedChunks o1 m chunks = r1 at hs
  generalize xjFeedChunks o2 m chunks = r2 at hs
  cases r1 <;> cases r2 <;> first | exact hs.elim | skip
  · simp only [XjOptE] at hs; subst hs; rfl
  · rename_i a b
    have hfin := XmlTok.finish_E o1 o2 hs
    dsimp only
    generalize XmlTok.finish o1 a = f1 at hfin
    generalize XmlTok.finish o2 b = f2 at hfin
    cases f1 <;> cases f2 <;> simp only [Except.map, Except.error.injEq, Except.ok.injEq, reduceCtorEq] at hfin
    · subst hfin; rfl
    · simp only [Except.map, hfin]

/-- **C15, joint model: `exact_errors`.**  For every pair of option values, every tokenizer machine
(no hypothesis), every tree-builder configuration and every chunk list, the joint parses give the
same result: the same failure, or the *same tree-builder state* (document, open elements, namespace
stack, created elements, phase, and the tree builder's own parse-error log, unabridged). -/
theorem C15_joint_exact_errors_state (o1 o2 : XmlTok.Opts) (cfg : XmlTB.TbCfg) (m : XmlTok.Mach)
    (chunks : List XmlTok.Str) :
    xmlParseChunks o1 cfg m chunks = xmlParseChunks o2 cfg m chunks := by
  have h := C15_joint_tokens_exact_errors o1 o2 m chunks
  unfold xmlParseChunks
  generalize xmlTokensChunks o1 m chunks = r1 at h
  generalize xmlTokensChunks o2 m chunks = r2 at h
  cases r1 <;> cases r2 <;> simp only [Except.map, Except.error.injEq, Except.ok.injEq, reduceCtorEq] at h
  · subst h; rfl
  · rename_i a b
    show XmlTB.run cfg XmlTB.State.init (xjToks a) = XmlTB.run cfg XmlTB.State.init (xjToks b)
    rw [← xjToks_noErr a, ← xjToks_noErr b, h]

/-! ## the tree -/

/-- the joint parse of a start machine satisfying the invariants never fails, and the chunked parse
ends in the **same tree-builder state** as the one-piece parse of the concatenation -/
theorem C15_joint_chunk_independence_state (o : XmlTok.Opts) (cfg : XmlTB.TbCfg) (m0 : XmlTok.Mach)
    (chunks : List XmlTok.Str) (hs : XjStart m0) :
    ∃ s, xmlParseChunks o cfg m0 chunks = .ok s ∧ xmlParseChunks o cfg m0 [chunks.flatten] = .ok s := by
  obtain ⟨out, h1, h2⟩ := C15_joint_tokens_chunk_independence o m0 chunks hs
  obtain ⟨s, hr⟩ := H5V.Props.C16.C16_no_panic cfg (xjToks out)
  exact ⟨s, by simp only [xmlParseChunks, h1, hr], by simp only [xmlParseChunks, h2, hr]⟩

/-- **C15, joint model: chunk independence.**  For every option value, every tree-builder
configuration, every tokenizer as created by `XmlTokenizer::new` (any initial state, `discard_bom` on
or off) and every list of chunks (empty chunks, single characters, … included): if the chunked joint
parse succeeds with tree-builder state `s`, the joint parse of the concatenation fed in one piece
succeeds with the same state `s`; in particular the observable results `Obs` (document, created
elements, phase, collapsed error log) are equal.  (The model's `feed` computes its own fuel,
`fuelFor`; there is no fuel parameter.) -/
theorem C15_joint_chunk_independence (o : XmlTok.Opts) (cfg : XmlTB.TbCfg) (st : XmlTok.State) (bom : Bool)
    (chunks : List XmlTok.Str) (s : XmlTB.State)
    (h : xmlParseChunks o cfg (xjFresh st bom) chunks = .ok s) :
    xmlParseChunks o cfg (xjFresh st bom) [chunks.flatten] = .ok s ∧
    Obs (xmlParseChunks o cfg (xjFresh st bom) [chunks.flatten]) =
      Obs (xmlParseChunks o cfg (xjFresh st bom) chunks) := by
  obtain ⟨s', h1, h2⟩ := C15_joint_chunk_independence_state o cfg _ chunks (xjStart_fresh st bom)
  rw [h1] at h
  cases h
  exact ⟨h2, by rw [h1, h2]⟩

/-- the hypothesis of `C15_joint_chunk_independence` always holds: the joint parse is total -/
theorem C15_joint_total (o : XmlTok.Opts) (cfg : XmlTB.TbCfg) (st : XmlTok.State) (bom : Bool)
    (chunks : List XmlTok.Str) : ∃ s, xmlParseChunks o cfg (xjFresh st bom) chunks = .ok s :=
  let ⟨s, h, _⟩ := C15_joint_chunk_independence_state o cfg _ chunks (xjStart_fresh st bom)
  ⟨s, h⟩

/-- **C15, joint model: `exact_errors`** does not change the observable result, for every chunk list
(every machine, every tree-builder configuration) -/
theorem C15_joint_exact_errors (o1 o2 : XmlTok.Opts) (cfg : XmlTB.TbCfg) (m : XmlTok.Mach)
    (chunks : List XmlTok.Str) :
    Obs (xmlParseChunks o1 cfg m chunks) = Obs (xmlParseChunks o2 cfg m chunks) := by
  rw [C15_joint_exact_errors_state o1 o2 cfg m chunks]

/-- the instance the property is named after -/
theorem C15_joint_exact_errors_on_off (cfg : XmlTB.TbCfg) (m : XmlTok.Mach) (chunks : List XmlTok.Str) :
    Obs (xmlParseChunks ⟨true⟩ cfg m chunks) = Obs (xmlParseChunks ⟨false⟩ cfg m chunks) :=
  C15_joint_exact_errors _ _ cfg m chunks

/-- **C15, joint model, end to end** (state form): any chunking × any `exact_errors` value succeeds
with the tree-builder state of the one-piece parse with `exact_errors` off -/
theorem C15_joint_end_to_end_state (o : XmlTok.Opts) (cfg : XmlTB.TbCfg) (st : XmlTok.State) (bom : Bool)
    (chunks : List XmlTok.Str) :
    ∃ s, xmlParseChunks ⟨false⟩ cfg (xjFresh st bom) [chunks.flatten] = .ok s ∧
      xmlParseChunks o cfg (xjFresh st bom) chunks = .ok s := by
  obtain ⟨s, h1, h2⟩ := C15_joint_chunk_independence_state o cfg _ chunks (xjStart_fresh st bom)
  exact ⟨s, by rw [← C15_joint_exact_errors_state o ⟨false⟩]; exact h2, h1⟩

/-- **C15, joint model, end to end.**  Any chunking × either `exact_errors` value gives the observable
result of the one-piece default parse — and that result is a success. -/
theorem C15_joint_end_to_end (o : XmlTok.Opts) (cfg : XmlTB.TbCfg) (st : XmlTok.State) (bom : Bool)
    (chunks : List XmlTok.Str) :
    Obs (xmlParseChunks o cfg (xjFresh st bom) chunks) =
      Obs (xmlParseChunks ⟨false⟩ cfg (xjFresh st bom) [chunks.flatten]) ∧
    ∃ r, Obs (xmlParseChunks o cfg (xjFresh st bom) chunks) = .ok r := by
  obtain ⟨s, h1, h2⟩ := C15_joint_end_to_end_state o cfg st bom chunks
  rw [h1, h2]
  exact ⟨rfl, _, rfl⟩

/-- two chunkings of the same text, under any two option values -/
theorem C15_joint_any_two (o1 o2 : XmlTok.Opts) (cfg : XmlTB.TbCfg) (st : XmlTok.State) (bom : Bool)
    (cs1 cs2 : List XmlTok.Str) (h : cs1.flatten = cs2.flatten) :
    xmlParseChunks o1 cfg (xjFresh st bom) cs1 = xmlParseChunks o2 cfg (xjFresh st bom) cs2 := by
  obtain ⟨s1, a1, b1⟩ := C15_joint_end_to_end_state o1 cfg st bom cs1
  obtain ⟨s2, a2, b2⟩ := C15_joint_end_to_end_state o2 cfg st bom cs2
  rw [h, a2] at a1
  cases a1
  rw [b1, b2]

/-! ## run boundaries of the real tokenizer

The model reads character runs one character at a time; the real tokenizer delivers each run in
pieces whose boundaries follow the chunk and buffer boundaries.  The token streams agree after
merging adjacent character tokens (the criterion `canon` of the `xmltok` correspondence), and that
is all the tree can see. -/

/-- every token stream that equals the joint model's after merging adjacent character tokens drives
the tree-builder model to the observable result of the joint parse — of every chunking, under either
option value -/
theorem C15_joint_run_boundaries (o o' : XmlTok.Opts) (cfg : XmlTB.TbCfg) (st : XmlTok.State) (bom : Bool)
    (chunks chunks' : List XmlTok.Str) (hfl : chunks'.flatten = chunks.flatten)
    (out : XmlTok.Out) (ho : xmlTokensChunks o' (xjFresh st bom) chunks' = .ok out)
    (ts : List XmlTB.Token) (hm : mergeChars ts = mergeChars (xjToks out)) :
    Obs (XmlTB.run cfg XmlTB.State.init ts) = Obs (xmlParseChunks o cfg (xjFresh st bom) chunks) := by
  rw [C15_tree_merge_obs cfg hm, C15_joint_any_two o o' cfg st bom chunks chunks' hfl.symm]
  simp only [xmlParseChunks, ho]

theorem xj_resplit_cons (t : XmlTB.Token) {x y : List XmlTB.Token} (h : Resplit x y) :
    Resplit (t :: x) (t :: y) :=
  Resplit.append (x := [t]) (y := [t]) (Resplit.refl _) h

/-- the driver's `canon` (on tokenizer tokens, parse errors included) only re-cuts character runs of
the stream the tree builder sees -/
theorem xj_resplit_canon (l : List XmlTok.Token) :
    Resplit (l.filterMap xjTok) ((XmlTokDriver.canon l).filterMap xjTok) := by
  fun_induction XmlTokDriver.canon l with
  | case1 a b rest ih =>
    refine Resplit.trans ?_ ih
    rw [List.filterMap_cons_some (by rfl), List.filterMap_cons_some (by rfl), List.filterMap_cons_some (by rfl)]
    exact Resplit.append (x := [.chars a, .chars b]) (y := [.chars (a ++ b)]) (Resplit.split a b).symm
      (Resplit.refl _)
  | case2 x rest _ ih =>
    cases hx : xjTok x with
    | none => rw [List.filterMap_cons_none hx, List.filterMap_cons_none hx]; exact ih
    | some y => rw [List.filterMap_cons_some hx, List.filterMap_cons_some hx]; exact xj_resplit_cons y ih
  | case3 => exact Resplit.refl _

/-- **the tokenizer-level comparison suffices for the tree**: two token logs (newest first, parse-error
tokens included) that the `xmltok` correspondence identifies — equal after merging adjacent
character tokens — give the same observable tree-builder result -/
theorem C15_joint_canon_obs (cfg : XmlTB.TbCfg) (out1 out2 : XmlTok.Out)
    (h : XmlTokDriver.canon out1.reverse = XmlTokDriver.canon out2.reverse) :
    Obs (XmlTB.run cfg XmlTB.State.init (xjToks out1)) = Obs (XmlTB.run cfg XmlTB.State.init (xjToks out2)) := by
  apply C15_tree_obs
  unfold xjToks
  exact (xj_resplit_canon out1.reverse).trans (h ▸ (xj_resplit_canon out2.reverse).symm)

/-! ## the driver's loop -/

/-- the literal feed loop of `XmlTokDriver.runTok` -/
def xjDriverFeed (o : XmlTok.Opts) (m0 : XmlTok.Mach) (chunks : List XmlTok.Str) : Except String XmlTok.Mach :=
  chunks.foldlM (fun (m : XmlTok.Mach) ch =>
    match XmlTok.feed o m [] ch with
    | .done m inp => if inp.isEmpty then .ok m else .error ("QUEUE-NOT-DRAINED " ++ XmlTokDriver.showOut m.out)
    | .panic e => .error ("PANIC " ++ e)
    | .outOfFuel => .error "OUT-OF-FUEL") m0

/-- `xjFeedChunks` succeeds exactly when the driver's loop does, with the same machine (the two differ
only in the text of the `QUEUE-NOT-DRAINED` failure, which carries a token dump in the driver) -/
theorem xj_driverFeed_ok (o : XmlTok.Opts) (cs : List XmlTok.Str) : ∀ (m mf : XmlTok.Mach),
    xjDriverFeed o m cs = .ok mf ↔ xjFeedChunks o m cs = .ok mf := by
  induction cs with
  | nil => intro m mf; exact Iff.rfl
  | cons c cs ih =>
    intro m mf
    unfold xjDriverFeed at ih ⊢
    simp only [List.foldlM_cons, xjFeedChunks, xjFeedStep]
    cases hf : XmlTok.feed o m [] c with
    | done m1 inp =>
      cases inp with
      | nil => exact ih m1 mf
      | cons x xs => constructor <;> (intro h; cases h)
    | panic e => constructor <;> (intro h; cases h)
    | outOfFuel => constructor <;> (intro h; cases h)

/-! ## non-vacuity -/

/-- a decidable view of a node: preorder listing with the number of children (determines the tree;
`XmlTB.Node` is a nested inductive without `DecidableEq`) -/
inductive XjView where
  | elem (name : XmlTB.QName) (attrs : List XmlTB.Attr) (nkids : Nat)
  | text (s : XmlTB.Str)
  | comment (s : XmlTB.Str)
  | pi (target data : XmlTB.Str)
  | doctype (name pub sys : XmlTB.Str)
deriving DecidableEq, Repr

mutual
def xjPre : XmlTB.Node → List XjView
  | .elem n as ks => .elem n as ks.length :: xjPreL ks
  | .text s => [.text s]
  | .comment s => [.comment s]
  | .pi t d => [.pi t d]
  | .doctype n p s => [.doctype n p s]
def xjPreL : List XmlTB.Node → List XjView
  | [] => []
  | k :: ks => xjPre k ++ xjPreL ks
end

/-- document (as a view), created elements, phase, the tree builder's full error log (oldest first) -/
def xjShow (r : Except String XmlTB.State) :
    Option (List XjView × List XmlTB.Created × XmlTB.Phase × List XmlTB.Err) :=
  match r with
  | .ok s => some (xjPreL s.document, s.createdList, s.phase, s.errors.reverse)
  | .error _ => none

/-- `U+FEFF <r a='1 CR | LF 2'>ab CR | (empty) | LF cd&am | p; U+0001 e</r | >`: a BOM, a CR LF split
across chunks inside an attribute value and again inside the text, an empty chunk, the text run
`ab⏎cd&␁e` split over three chunks, a character reference and the end tag split across chunks -/
def xjExChunks : List XmlTok.Str :=
  ["\uFEFF<r a='1\r".toList, "\n2'>ab\r".toList, [], "\ncd&am".toList, "p;\x01e</r".toList, ">".toList]

/-- one element `r` with `a="1⏎2"` and ONE text child `ab⏎cd&␁e`; no tree-builder error; End phase -/
def xjExExpected : Option (List XjView × List XmlTB.Created × XmlTB.Phase × List XmlTB.Err) :=
  some ([.elem ⟨none, [], ['r']⟩ [⟨⟨none, [], ['a']⟩, "1\n2".toList⟩] 1, .text "ab\ncd&\x01e".toList],
        [⟨⟨none, [], ['r']⟩, [⟨⟨none, [], ['a']⟩, "1\n2".toList⟩]⟩], .end_, [])

/-- the chunked parse, by evaluation in the kernel -/
example : xjShow (xmlParseChunks ⟨false⟩ XmlTB.TbCfg.current {} xjExChunks) = xjExExpected := by
  decide +kernel

/-- … the same with `exact_errors`, and for the one-piece parse -/
example : xjShow (xmlParseChunks ⟨true⟩ XmlTB.TbCfg.current {} xjExChunks) = xjExExpected ∧
    xjShow (xmlParseChunks ⟨false⟩ XmlTB.TbCfg.current {} [xjExChunks.flatten]) = xjExExpected := by
  decide +kernel

/-- `exact_errors` really changes what the tokenizer logs on this input (two extra "Bad character
U+0001" parse errors: the character is read twice, once by the character-reference tokenizer), so
`C15_joint_exact_errors` is not an identity of token logs -/
example : (xmlTokensChunks ⟨false⟩ {} xjExChunks).toOption.map List.length = some 11 ∧
    (xmlTokensChunks ⟨true⟩ {} xjExChunks).toOption.map List.length = some 13 := by
  decide +kernel

/-- the theorems instantiated: the hypothesis of `C15_joint_chunk_independence` is satisfied … -/
example : ∃ s, xmlParseChunks ⟨true⟩ XmlTB.TbCfg.current (xjFresh .data true) xjExChunks = .ok s :=
  C15_joint_total _ _ _ _ _

/-- … and the chunked `exact_errors` parse has the observable result of the one-piece default parse -/
example : Obs (xmlParseChunks ⟨true⟩ XmlTB.TbCfg.current (xjFresh .data true) xjExChunks) =
    Obs (xmlParseChunks ⟨false⟩ XmlTB.TbCfg.current (xjFresh .data true) [xjExChunks.flatten]) :=
  (C15_joint_end_to_end _ _ _ _ _).1

/-- `{}` (the default machine of the drivers) is `xjFresh .data true` -/
example : ({} : XmlTok.Mach) = xjFresh .data true := rfl

theorem xj_except_ok {α : Type} (r : Except String α) (x : α) (h : r.toOption = some x) : r = .ok x := by
  cases r with
  | error e => cases h
  | ok y => simp only [Except.toOption, Option.some.injEq] at h; rw [h]

/-- run boundaries: the real tokenizer would deliver `ab`, `⏎`, `cd`, … as longer runs; any such
stream gives the same observable result -/
example : Obs (XmlTB.run XmlTB.TbCfg.current XmlTB.State.init
      [.tag ⟨.start, ⟨none, ['r']⟩, [⟨⟨none, ['a']⟩, "1\n2".toList⟩]⟩, .chars "ab".toList, .chars "\n".toList,
       .chars "cd".toList, .chars "&".toList, .chars "\x01e".toList, .tag ⟨.end_, ⟨none, ['r']⟩, []⟩, .eof]) =
    Obs (xmlParseChunks ⟨true⟩ XmlTB.TbCfg.current (xjFresh .data true) xjExChunks) :=
  C15_joint_run_boundaries ⟨true⟩ ⟨false⟩ _ _ _ xjExChunks [xjExChunks.flatten] (by simp)
    (match xmlTokensChunks ⟨false⟩ (xjFresh .data true) [xjExChunks.flatten] with
      | .ok out => out
      | .error _ => [])
    (xj_except_ok _ _ (by decide +kernel)) _ (by decide +kernel)

end H5V.Props.C15
